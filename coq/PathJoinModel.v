(* C12 — executable model of zix_path_join, zix_path_preferred, zix_path_begin/next and
   zix_path_lexically_relative (POSIX branch of /repo/src/path.c), branch for branch and
   index for index.  Definitions only.

   Memory: an argument string is a list of non-zero bytes; `rd s i` is the byte the C code sees
   at s[i]: the list, then the NUL, then nothing (OOB).  Every model function runs in the
   `res` monad, so "reads only inside the NUL-terminated argument" is "never returns OOB".
   A result buffer is a list of cells of the allocated length; a write outside it is OOBW.
   strlen is taken from libc: it returns the index of the NUL. *)
From Coq Require Import ZArith List Bool.
From Zix Require Import PathJoinSpec.
Import ListNotations.
Local Open Scope Z_scope.

Inductive res (A : Type) : Type :=
| Ok (a : A)
| OOB          (* read outside the NUL-terminated argument (or through NULL) *)
| OOBW         (* write outside the allocated result *)
| NoFuel.
Arguments Ok {A} a.
Arguments OOB {A}.
Arguments OOBW {A}.
Arguments NoFuel {A}.

Definition bind {A B} (r : res A) (f : A -> res B) : res B :=
  match r with
  | Ok a => f a
  | OOB => OOB
  | OOBW => OOBW
  | NoFuel => NoFuel
  end.
Notation "'do' x <- r ; k" := (bind r (fun x => k)) (at level 200, x pattern, r at level 100, k at level 200).

Definition slen (s : str) : Z := Z.of_nat (length s).

(* s[i] as the C code sees it *)
Definition rd (s : str) (i : Z) : res Z :=
  if i <? 0 then OOB
  else if i <? slen s then Ok (nth (Z.to_nat i) s 0)
  else if i =? slen s then Ok 0
  else OOB.

(* through a possibly-NULL pointer *)
Definition rdo (p : option str) (i : Z) : res Z :=
  match p with Some s => rd s i | None => OOB end.

(* memcpy source: n bytes starting at s+off (the NUL may be included) *)
Definition rd_range (s : str) (off n : Z) : res (list Z) :=
  if (off <? 0) || (n <? 0) || (slen s + 1 <? off + n) then OOB
  else Ok (firstn (Z.to_nat n) (skipn (Z.to_nat off) (s ++ [0]))).

(* ---- result buffers *)
Definition uninit : Z := 256.   (* a cell malloc returned and nobody wrote yet *)

Record buf := { b_kind : bool (* true = calloc *); b_size : Z; b_cells : list Z }.

Definition malloc_buf (n : Z) : buf := {| b_kind := false; b_size := n; b_cells := repeat uninit (Z.to_nat n) |}.
Definition calloc_buf (n : Z) : buf := {| b_kind := true; b_size := n; b_cells := repeat 0 (Z.to_nat n) |}.

Definition wr_cells (cells : list Z) (off : Z) (bytes : list Z) : list Z :=
  firstn (Z.to_nat off) cells ++ bytes ++ skipn (Z.to_nat off + length bytes) cells.

Definition wr (b : buf) (off : Z) (bytes : list Z) : res buf :=
  if (off <? 0) || (b_size b <? off + Z.of_nat (length bytes)) then OOBW
  else Ok {| b_kind := b_kind b; b_size := b_size b; b_cells := wr_cells (b_cells b) off bytes |}.

(* the C string a caller reads out of the buffer: cells up to the first NUL *)
Fixpoint c_text (cells : list Z) : str :=
  match cells with
  | [] => []
  | c :: t => if c =? 0 then [] else c :: c_text t
  end.

(* ---- ranges, root slices *)
Definition range := (Z * Z)%type.     (* begin, end *)
Definition is_empty_range (r : range) : bool := fst r =? snd r.

(* zix_path_root_name_range: {0,0} on POSIX *)
Definition root_name_range : range := (0, 0).

(* while (is_dir_sep(path[dir.end])) { dir.begin = dir.end++; } *)
Fixpoint root_dir_loop (fuel : nat) (s : str) (b e : Z) : res range :=
  match fuel with
  | O => NoFuel
  | S f =>
      do c <- rd s e;
      if is_sep c then root_dir_loop f s e (e + 1) else Ok (b, e)
  end.

(* zix_path_root_slices: returns (name, dir) *)
Definition root_slices (p : option str) : res (range * range) :=
  let name := root_name_range in
  match p with
  | None => Ok (name, (snd name, snd name))                       (* path && ... short-circuits *)
  | Some s =>
      do c <- rd s (snd name);
      if negb (is_sep c) then Ok (name, (snd name, snd name))
      else
        do dir <- root_dir_loop (S (length s)) s (snd name) (snd name + 1);
        Ok (name, dir)
  end.

(* zix_path_is_absolute (POSIX): path && is_dir_sep(path[0]) *)
Definition is_absolute (p : option str) : res bool :=
  match p with
  | None => Ok false
  | Some s => do c <- rd s 0; Ok (is_sep c)
  end.

(* zix_path_root_path_range: root name is empty on POSIX, so the result is root.dir *)
Definition root_path_range (p : option str) : res range :=
  do r <- root_slices p;
  let '(name, dir) := r in
  if is_empty_range name then Ok dir
  else Ok (fst name, snd name + (if is_empty_range dir then 0 else 1)).

(* while (f > begin && !is_dir_sep(path.data[f - 1])) --f; *)
Fixpoint filename_loop (fuel : nat) (s : str) (begin f : Z) : res Z :=
  match fuel with
  | O => NoFuel
  | S k =>
      if f >? begin then
        do c <- rd s (f - 1);
        if negb (is_sep c) then filename_loop k s begin (f - 1) else Ok f
      else Ok f
  end.

(* zix_path_filename_range(zix_string(path)), path non-NULL *)
Definition filename_range (s : str) : res range :=
  let len := slen s in
  if len =? 0 then Ok (0, 0)
  else
    do root <- root_path_range (Some s);
    let begin := snd root in
    if begin =? len then Ok (0, 0)
    else
      do c <- rd s (len - 1);
      if is_sep c then Ok (0, 0)
      else
        do f <- filename_loop (S (length s)) s begin (len - 1);
        Ok (f, len).

Definition has_filename_m (s : str) : res bool :=
  do r <- filename_range s; Ok (negb (is_empty_range r)).

(* zix_string_view_copy: malloc(len + 1); memcpy; NUL *)
Definition string_view_copy (s : str) : res buf :=
  let len := slen s in
  let b := malloc_buf (len + 1) in
  do bytes <- rd_range s 0 len;
  do b <- wr b 0 bytes;
  wr b len [0].

(* ---- zix_path_join(allocator, a, b); NULL arguments are None *)
Definition zix_path_join (a b : option str) : res buf :=
  let b_len := match b with Some s => slen s | None => 0 end in     (* zix_string(b) *)
  let a_empty :=
    match a with
    | None => Ok true
    | Some s => do c <- rd s 0; Ok (c =? 0)
    end in
  do ae <- a_empty;
  if ae then string_view_copy (opt_str b)          (* b NULL: view of the literal "" *)
  else
    match a with
    | None => OOB                                   (* unreachable: ae is true for NULL *)
    | Some sa =>
        let a_len := slen sa in
        do a_root <- root_slices a;
        do b_root <- root_slices b;
        let a_has_root_dir := negb (is_empty_range (snd a_root)) in
        do a_has_filename <- has_filename_m sa;
        do decision <-
          (if negb (is_empty_range (snd b_root)) then Ok (snd (fst a_root), false)
           else if a_has_filename then Ok (a_len, true)
           else if negb a_has_root_dir then
                  (do ab <- is_absolute a; Ok (a_len, ab))
           else Ok (a_len, false));
        let '(prefix_len, add_sep) := decision in
        let path_len := prefix_len + (if add_sep then 1 else 0) + b_len in
        let path := calloc_buf (path_len + 1) in
        do pre <- rd_range sa 0 prefix_len;
        do path <- wr path 0 pre;
        do path <- (if add_sep then wr path prefix_len [sepc] else Ok path);
        let p := prefix_len + (if add_sep then 1 else 0) in
        let b_name_end := snd (fst b_root) in
        if b_len >? b_name_end then
          match b with
          | None => OOB                             (* unreachable: b_len = 0 for NULL *)
          | Some sb =>
              do tail <- rd_range sb b_name_end (b_len - b_name_end);
              do path <- wr path p tail;
              wr path (p + b_len) [0]
          end
        else Ok path
    end.

(* ---- zix_path_preferred(allocator, path), path non-NULL *)
Fixpoint preferred_loop (fuel : nat) (s : str) (len i : Z) (b : buf) : res buf :=
  match fuel with
  | O => NoFuel
  | S k =>
      if i <? len then
        do c <- rd s i;
        do b <- wr b i [if is_sep c then sepc else c];
        preferred_loop k s len (i + 1) b
      else Ok b
  end.

Definition zix_path_preferred (s : str) : res buf :=
  let len := slen s in
  preferred_loop (S (length s)) s len 0 (calloc_buf (len + 1)).

(* ---- the element iterator *)
Inductive istate := ROOT_NAME | ROOT_DIRECTORY | FILE_NAME | PEND.
Definition istate_eqb (a b : istate) : bool :=
  match a, b with
  | ROOT_NAME, ROOT_NAME | ROOT_DIRECTORY, ROOT_DIRECTORY | FILE_NAME, FILE_NAME | PEND, PEND => true
  | _, _ => false
  end.
Definition istate_num (a : istate) : Z :=
  match a with ROOT_NAME => 0 | ROOT_DIRECTORY => 1 | FILE_NAME => 2 | PEND => 3 end.

Record iter := { it_range : range; it_state : istate }.

(* while (is_dir_sep(path[begin])) begin = ++end;   (begin = end throughout) *)
Fixpoint skip_seps_loop (fuel : nat) (s : str) (e : Z) : res Z :=
  match fuel with
  | O => NoFuel
  | S k => do c <- rd s e; if is_sep c then skip_seps_loop k s (e + 1) else Ok e
  end.

(* while (path[end] && !is_dir_sep(path[end])) ++end; *)
Fixpoint name_end_loop (fuel : nat) (s : str) (e : Z) : res Z :=
  match fuel with
  | O => NoFuel
  | S k =>
      do c <- rd s e;
      if negb (c =? 0) && negb (is_sep c) then name_end_loop k s (e + 1) else Ok e
  end.

Definition path_next (s : str) (it : iter) : res iter :=
  let '(b0, e0) := it_range it in
  do early <-
    (match it_state it with
     | ROOT_NAME => do c <- rd s e0; Ok (is_sep c)
     | _ => Ok false
     end);
  if early then Ok {| it_range := (e0, e0 + 1); it_state := ROOT_DIRECTORY |}
  else
    let '(b1, st1) :=
      if istate_num (it_state it) <=? 1 then (e0, FILE_NAME) else (b0, it_state it) in
    match st1 with
    | FILE_NAME =>
        let b2 := e0 in
        do c <- rd s b2;
        if c =? 0 then Ok {| it_range := (b2, e0); it_state := PEND |}
        else
          do e3 <- skip_seps_loop (S (length s)) s e0;
          do e4 <- name_end_loop (S (length s)) s e3;
          Ok {| it_range := (e3, e4); it_state := FILE_NAME |}
    | _ => Ok {| it_range := (b1, e0); it_state := st1 |}
    end.

Definition path_begin (s : str) : res iter :=
  let it := {| it_range := root_name_range; it_state := ROOT_NAME |} in
  if snd (it_range it) >? fst (it_range it) then Ok it else path_next s it.

(* strncmp(lhs + lb, rhs + rb, n) == 0: stops at the first difference or at a NUL *)
Fixpoint strncmp_eq (n : nat) (l : str) (lb : Z) (r : str) (rb : Z) : res bool :=
  match n with
  | O => Ok true
  | S k =>
      do x <- rd l lb;
      do y <- rd r rb;
      if negb (x =? y) then Ok false
      else if x =? 0 then Ok true
      else strncmp_eq k l (lb + 1) r (rb + 1)
  end.

Definition string_ranges_equal (l : str) (lr : range) (r : str) (rr : range) : res bool :=
  let llen := snd lr - fst lr in
  let rlen := snd rr - fst rr in
  if negb (llen =? rlen) then Ok false
  else if llen =? 0 then Ok true
  else strncmp_eq (Z.to_nat llen) l (fst lr) r (fst rr).

(* the mismatch scan *)
Fixpoint mismatch_loop (fuel : nat) (p base : str) (a b : iter) : res (iter * iter) :=
  match fuel with
  | O => NoFuel
  | S k =>
      if negb (istate_eqb (it_state a) PEND) && negb (istate_eqb (it_state b) PEND)
         && istate_eqb (it_state a) (it_state b) then
        do eq <- string_ranges_equal p (it_range a) base (it_range b);
        if eq then
          do a' <- path_next p a;
          do b' <- path_next base b;
          mismatch_loop k p base a' b'
        else Ok (a, b)
      else Ok (a, b)
  end.

(* for (; b.state < END; b = next(base, b)) count ".." and other non-empty, non-"." entries *)
Fixpoint count_loop (fuel : nat) (base : str) (b : iter) (n_up n_ne : Z) : res (Z * Z) :=
  match fuel with
  | O => NoFuel
  | S k =>
      if istate_num (it_state b) <? 3 then
        do cnt <-
          (if negb (is_empty_range (it_range b)) then
             do isdd <- string_ranges_equal base (it_range b) dotdot_elem (0, 2);
             if isdd then Ok (n_up + 1, n_ne)
             else
               do isd <- string_ranges_equal base (it_range b) dot_elem (0, 1);
               if negb isd then Ok (n_up, n_ne + 1) else Ok (n_up, n_ne)
           else Ok (n_up, n_ne));
        do b' <- path_next base b;
        count_loop k base b' (fst cnt) (snd cnt)
      else Ok (n_up, n_ne)
  end.

(* zix_path_append(buf, offset, string, length) *)
Definition path_append (b : buf) (offset : Z) (bytes : list Z) : res (buf * Z) :=
  do b1 <- (if negb (offset =? 0) then wr b offset [sepc] else Ok b);
  let o := if negb (offset =? 0) then offset + 1 else offset in
  do b2 <- wr b1 o bytes;
  Ok (b2, o + Z.of_nat (length bytes)).

Fixpoint ups_loop (n : nat) (b : buf) (offset : Z) : res (buf * Z) :=
  match n with
  | O => Ok (b, offset)
  | S k => do r <- path_append b offset dotdot_elem; ups_loop k (fst r) (snd r)
  end.

(* the assembly stage of zix_path_lexically_relative: allocate, write the up-references, then the
   rest of path (or its trailing separator).  dir_end = path_root.dir.end, a_begin = a.range.begin *)
Definition rel_assemble (p : str) (dir_end a_begin n_up : Z) : res (option buf) :=
  let path_len := slen p in
  let rel_len := n_up * 3 + path_len - a_begin in
  let rel := calloc_buf (rel_len + 1) in
  do r1 <- ups_loop (Z.to_nat n_up) rel 0;
  let '(rel, offset) := r1 in
  do r2 <-
    (if a_begin <? path_len then
       do suffix <- rd_range p a_begin (path_len - a_begin);
       path_append rel offset suffix
     else if negb (n_up =? 0) && (path_len >? dir_end) then
       do last <- rd p (path_len - 1);
       if is_sep last then
         do last' <- rd p (path_len - 1);
         do rel' <- wr rel offset [last'];
         Ok (rel', offset + 1)
       else Ok (rel, offset)
     else Ok (rel, offset));
  let '(rel, offset) := r2 in
  do rel <- wr rel offset [0];
  Ok (Some rel).

(* ---- zix_path_lexically_relative(allocator, path, base); None = NULL result *)
Definition zix_path_lexically_relative (p base : str) : res (option buf) :=
  do path_root <- root_slices (Some p);
  do base_root <- root_slices (Some base);
  let path_has_root_dir := negb (is_empty_range (snd path_root)) in
  let base_has_root_dir := negb (is_empty_range (snd base_root)) in
  do names_eq <- string_ranges_equal p (fst path_root) base (fst base_root);
  do differ <-
    (if negb names_eq then Ok true
     else
       do pa <- is_absolute (Some p);
       do ba <- is_absolute (Some base);
       if negb (Bool.eqb pa ba) then Ok true
       else Ok (negb path_has_root_dir && base_has_root_dir));
  if differ then Ok None
  else
    do a0 <- path_begin p;
    do b0 <- path_begin base;
    do ab <- mismatch_loop (S (S (length p))) p base a0 b0;
    let '(a, b) := ab in
    let a_end := istate_eqb (it_state a) PEND in
    let b_end := istate_eqb (it_state b) PEND in
    if (a_end && b_end) || (is_empty_range (it_range a) && b_end) then
      do r <- string_view_copy dot_elem; Ok (Some r)
    else
      do cnt <- count_loop (S (S (length base))) base b 0 0;
      let '(n_base_up, n_non_empty) := cnt in
      if n_base_up >? n_non_empty then Ok None
      else
        let n_up := if istate_eqb (it_state a) ROOT_DIRECTORY then 0 else n_non_empty - n_base_up in
        if (n_up =? 0) && (a_end || is_empty_range (it_range a)) then
          do r <- string_view_copy dot_elem; Ok (Some r)
        else rel_assemble p (snd (snd path_root)) (fst (it_range a)) n_up.

(* observable outputs *)
Definition buf_text (b : buf) : str := c_text (b_cells b).

Definition join_text (a b : option str) : res str := do r <- zix_path_join a b; Ok (buf_text r).
Definition preferred_text (s : str) : res str := do r <- zix_path_preferred s; Ok (buf_text r).
Definition relative_text (p base : str) : res (option str) :=
  do r <- zix_path_lexically_relative p base;
  Ok (match r with Some b => Some (buf_text b) | None => None end).
