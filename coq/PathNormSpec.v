(* C11 — abstract spec of C++17 lexically_normal on POSIX generic-format paths
   ([fs.path.generic], DESIGN.md Appendix A).  Definitions only; nothing here mentions zix.

   A path string is a list of byte values (1..255).  It is decomposed into a root flag and
   a list of elements; normalisation is a stack machine over the elements. *)
From Coq Require Import ZArith List Bool.
Import ListNotations.
Local Open Scope Z_scope.

Definition SEP : Z := 47.   (* '/' *)
Definition DOT : Z := 46.   (* '.' *)

Definition elem := list Z.

Fixpoint bytes_eqb (a b : list Z) : bool :=
  match a, b with
  | [], [] => true
  | x :: a', y :: b' => Z.eqb x y && bytes_eqb a' b'
  | _, _ => false
  end.

Fixpoint elems_eqb (a b : list elem) : bool :=
  match a, b with
  | [], [] => true
  | x :: a', y :: b' => bytes_eqb x y && elems_eqb a' b'
  | _, _ => false
  end.

Definition is_empty (e : elem) : bool := match e with [] => true | _ => false end.
Definition is_dot (e : elem) : bool := bytes_eqb e [DOT].
Definition is_dotdot (e : elem) : bool := bytes_eqb e [DOT; DOT].

(* ---- decomposition ------------------------------------------------------------------ *)

(* all fields between separators: "//a/" -> ["", "", "a", ""]; never the empty list *)
Fixpoint fields (s : list Z) : list elem :=
  match s with
  | [] => [[]]
  | c :: s' =>
      if Z.eqb c SEP then [] :: fields s'
      else match fields s' with
           | f :: fs => (c :: f) :: fs
           | [] => [[c]]
           end
  end.

Definition has_root (s : list Z) : bool :=
  match s with c :: _ => Z.eqb c SEP | [] => false end.

(* elements of the relative part: the non-empty fields, plus a final empty element when a
   non-empty relative part ends with a separator *)
Definition elems (s : list Z) : list elem :=
  let f := fields s in
  let names := filter (fun e => negb (is_empty e)) (removelast f) in
  let l := last f [] in
  match names with
  | [] => if is_empty l then [] else [l]
  | _ => names ++ [l]
  end.

(* path equality (std operator==, the test suite's `match`) *)
Definition peqb (s t : list Z) : bool :=
  Bool.eqb (has_root s) (has_root t) && elems_eqb (elems s) (elems t).
Definition peq (s t : list Z) : Prop := has_root s = has_root t /\ elems s = elems t.

(* text of a (root, elements) pair *)
Fixpoint join_elems (es : list elem) : list Z :=
  match es with
  | [] => []
  | [e] => e
  | e :: es' => e ++ SEP :: join_elems es'
  end.

Definition render (root : bool) (es : list elem) : list Z :=
  (if root then [SEP] else []) ++ join_elems es.

(* ---- normalisation ------------------------------------------------------------------ *)

(* state: reversed output stack and the "a separator is due at the end" flag *)
Definition norm_step (root : bool) (st : list elem * bool) (n : elem) : list elem * bool :=
  let '(out, trail) := st in
  if is_empty n || is_dot n then (out, true)
  else if is_dotdot n then
    match out with
    | [] => if root then ([], true) else ([n], false)
    | x :: out' => if is_dotdot x then (n :: out, false) else (out', true)
    end
  else (n :: out, false).

Definition norm_finish (root : bool) (st : list elem * bool) : list elem :=
  let '(out, trail) := st in
  match out with
  | [] => if root then [] else [[DOT]]
  | x :: _ => if is_dotdot x then rev out
              else if trail then rev out ++ [[]] else rev out
  end.

Definition normal_elems (root : bool) (es : list elem) : list elem :=
  norm_finish root (fold_left (norm_step root) es ([], false)).

(* the C++17 lexically_normal, as text *)
Definition std_normal (s : list Z) : list Z :=
  match s with
  | [] => []
  | _ => render (has_root s) (normal_elems (has_root s) (elems s))
  end.

(* ---- the normal-form predicate of the property text --------------------------------- *)

Fixpoint no_double_sep (s : list Z) : bool :=
  match s with
  | c :: ((d :: _) as s') => negb (Z.eqb c SEP && Z.eqb d SEP) && no_double_sep s'
  | _ => true
  end.

(* no element that is not ".." directly followed by ".." *)
Fixpoint no_name_dotdot (es : list elem) : bool :=
  match es with
  | x :: ((y :: _) as es') => negb (negb (is_dotdot x) && is_dotdot y) && no_name_dotdot es'
  | _ => true
  end.

(* no separator after a trailing ".." : the elements do not end with "..", "" *)
Fixpoint no_dotdot_sep_end (es : list elem) : bool :=
  match es with
  | [x; y] => negb (is_dotdot x && is_empty y)
  | _ :: es' => no_dotdot_sep_end es'
  | [] => true
  end.

Definition is_normal_form (s : list Z) : bool :=
  let r := has_root s in
  let es := elems s in
  (* no '.' element unless the whole result is '.' *)
  (forallb (fun e => negb (is_dot e)) es || (negb r && elems_eqb es [[DOT]]))
  (* no repeated separators *)
  && no_double_sep s
  (* no 'name/..' pair *)
  && no_name_dotdot es
  (* no '..' directly under the root directory *)
  && negb (r && match es with x :: _ => is_dotdot x | [] => false end)
  (* no separator after a trailing '..' *)
  && no_dotdot_sep_end es.

(* a C string has no NUL byte *)
Definition c_string (s : list Z) : Prop := Forall (fun c => c <> 0) s.
