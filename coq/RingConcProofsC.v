(* C04: the invariant holds on every schedule; its consequences (no race, prefix, nothing lost) *)
From Coq Require Import ZArith List Bool Arith Lia.
From Zix Require Import RingConcModel RingConcProofsA RingConcProofsB RingConcProofsW RingConcProofsR.
Import ListNotations.
Local Open Scope Z_scope.

Definition good_cfg (c : cfg) : Prop := 0 <= ck c <= 31 /\ w_release c = true /\ r_release c = true.

Lemma faithful_good : forall k, 0 <= k <= 31 -> good_cfg (faithful k).
Proof. intros k H. unfold good_cfg, faithful. cbn. auto. Qed.

Lemma run_from_inv : forall c wp rp sched s, good_cfg c -> Inv c s -> Inv c (run_from c wp rp s sched).
Proof.
  intros c wp rp sched. induction sched as [|ch sched IH]; intros s G H; [exact H|].
  unfold run_from in *. cbn [fold_left]. apply IH; [exact G|].
  destruct G as (Hk & Hw & Hr). unfold step. destruct (fst ch).
  - apply wstep_inv; assumption.
  - apply rstep_inv; assumption.
Qed.

Theorem run_inv : forall c wp rp sched, good_cfg c -> Inv c (run c wp rp sched).
Proof.
  intros c wp rp sched G. unfold run. apply run_from_inv; [exact G|].
  apply init_inv. apply G.
Qed.

(* ------------------------------------------------------------------ no data race *)
Theorem no_race : forall c wp rp sched, good_cfg c -> race (sm (run c wp rp sched)) = false.
Proof. intros. apply (i_race c). apply run_inv. assumption. Qed.

(* ------------------------------------------------------------------ reads are a prefix of commits *)
Lemma consumed_app : forall l1 l2, consumed (l1 ++ l2) = consumed l1 + consumed l2.
Proof.
  induction l1 as [|x l1 IH]; intros l2; [reflexivity|].
  destruct x; cbn [app consumed]; rewrite IH; lia.
Qed.

Lemma consumed_rev : forall l, consumed (rev l) = consumed l.
Proof.
  induction l as [|x l IH]; [reflexivity|].
  cbn [rev]. rewrite consumed_app, IH. destruct x; cbn [consumed]; lia.
Qed.

Lemma res_ok_consumed : forall com l p, res_ok com l p -> consumed l = p.
Proof.
  induction l as [|x l IH]; intros p H; cbn in H; [cbn; lia|].
  destruct x; cbn [consumed].
  - destruct H as (_ & _ & _ & H). apply IH in H. lia.
  - destruct H as (_ & _ & _ & H). apply IH in H. lia.
  - destruct H as (_ & _ & H). apply IH in H. lia.
  - apply IH. exact H.
Qed.

Lemma stream_ok_app : forall com l1 l2 q,
  stream_ok com q (l1 ++ l2) = stream_ok com q l1 && stream_ok com (q + consumed l1) l2.
Proof.
  induction l1 as [|x l1 IH]; intros l2 q.
  - cbn. rewrite Z.add_0_r. reflexivity.
  - destruct x; cbn [app stream_ok consumed]; rewrite IH.
    + replace (q + (ret + consumed l1)) with (q + ret + consumed l1) by lia.
      rewrite !andb_assoc. reflexivity.
    + rewrite !andb_assoc. reflexivity.
    + replace (q + (ret + consumed l1)) with (q + ret + consumed l1) by lia.
      rewrite !andb_assoc. reflexivity.
    + reflexivity.
Qed.

Lemma res_ok_stream : forall com l p, res_ok com l p -> stream_ok com 0 (rev l) = true.
Proof.
  induction l as [|x l IH]; intros p H; [reflexivity|].
  cbn [rev]. rewrite stream_ok_app. rewrite consumed_rev. cbn [res_ok] in H.
  destruct x.
  - destruct H as (Hb & Hn & Hp & H). pose proof (res_ok_nonneg _ _ _ H) as Hq.
    rewrite (IH _ H). rewrite (res_ok_consumed _ _ _ H). cbn [stream_ok andb].
    rewrite Z.add_0_l. subst bs. rewrite list_eqb_refl.
    rewrite slice_length by lia. rewrite Z.eqb_refl.
    replace (p - ret + ret) with p by lia. apply Z.leb_le in Hp. rewrite Hp. reflexivity.
  - destruct H as (Hb & Hn & Hp & H). pose proof (res_ok_nonneg _ _ _ H) as Hq.
    rewrite (IH _ H). rewrite (res_ok_consumed _ _ _ H). cbn [stream_ok andb].
    rewrite Z.add_0_l. subst bs. rewrite list_eqb_refl.
    rewrite slice_length by lia. rewrite Z.eqb_refl.
    apply Z.leb_le in Hp. rewrite Hp. reflexivity.
  - destruct H as (Hn & Hp & H).
    rewrite (IH _ H). rewrite (res_ok_consumed _ _ _ H). cbn [stream_ok andb].
    rewrite Z.add_0_l. replace (p - ret + ret) with p by lia.
    apply Z.leb_le in Hp, Hn. rewrite Hp, Hn. reflexivity.
  - rewrite (IH _ H). reflexivity.
Qed.

Theorem reads_stream_ok : forall c wp rp sched, good_cfg c ->
  let s := run c wp rp sched in stream_ok (committed s) 0 (rev (rresl (sr s))) = true.
Proof.
  intros c wp rp sched G s. apply (res_ok_stream _ _ (Rc s)). apply (i_res c). apply run_inv. exact G.
Qed.

Lemma firstn_slice : forall (l : list Z) a n, 0 <= a -> 0 <= n ->
  firstn (Z.to_nat a) l ++ slice l a n = firstn (Z.to_nat (a + n)) l.
Proof.
  intros l a n Ha Hn. unfold slice. replace (Z.to_nat (a + n)) with (Z.to_nat a + Z.to_nat n)%nat by lia.
  generalize (Z.to_nat a) as x. generalize (Z.to_nat n) as y. clear.
  intros y x. revert l. induction x as [|x IH]; intros l; [reflexivity|].
  destruct l as [|z l]; [rewrite skipn_nil, !firstn_nil; reflexivity|].
  cbn [firstn skipn app Nat.add]. rewrite IH. reflexivity.
Qed.

Lemma read_bytes_app : forall l1 l2, read_bytes (l1 ++ l2) = read_bytes l1 ++ read_bytes l2.
Proof.
  induction l1 as [|x l1 IH]; intros l2; [reflexivity|].
  destruct x; cbn [app read_bytes]; rewrite IH; try reflexivity. rewrite app_assoc. reflexivity.
Qed.

Lemma no_skip_cons : forall x l, no_skip (x :: l) = true ->
  no_skip l = true /\ match x with RrSkip n => n = 0 | _ => True end.
Proof.
  intros x l H. unfold no_skip in *. cbn [forallb] in H. apply andb_true_iff in H as (A & B).
  split; [exact B|]. destruct x; try exact I. apply Z.eqb_eq. exact A.
Qed.

Lemma res_ok_prefix : forall com l p, res_ok com l p -> no_skip l = true ->
  read_bytes (rev l) = firstn (Z.to_nat p) com.
Proof.
  induction l as [|x l IH]; intros p H Hs.
  - cbn in *. subst p. reflexivity.
  - apply no_skip_cons in Hs as (Hs & Hx). cbn [rev]. rewrite read_bytes_app. cbn [res_ok] in H.
    destruct x; cbn [read_bytes]; rewrite ?app_nil_r.
    + destruct H as (Hb & Hn & Hp & H). pose proof (res_ok_nonneg _ _ _ H) as Hq.
      rewrite (IH _ H Hs). subst bs. rewrite firstn_slice by lia. f_equal. lia.
    + destruct H as (_ & _ & _ & H). apply IH; assumption.
    + destruct H as (_ & _ & H). subst ret. rewrite Z.sub_0_r in H. apply IH; assumption.
    + apply IH; assumption.
Qed.

Theorem reads_prefix : forall c wp rp sched, good_cfg c ->
  let s := run c wp rp sched in
  no_skip (rresl (sr s)) = true ->
  exists rest, committed s = read_bytes (rev (rresl (sr s))) ++ rest.
Proof.
  intros c wp rp sched G s Hs. pose proof (run_inv c wp rp sched G) as H. fold s in H.
  rewrite (res_ok_prefix _ _ (Rc s) (i_res c s H) Hs).
  exists (skipn (Z.to_nat (Rc s)) (committed s)). symmetry. apply firstn_skipn.
Qed.

(* ------------------------------------------------------------------ nothing is lost *)
Lemma contents_eq : forall c s, 0 <= ck c <= 31 -> Inv c s ->
  contents c s = skipn (Z.to_nat (consumed (rresl (sr s)))) (committed s).
Proof.
  intros c s Hk H. pose proof (inv_counts c s H) as Cn. pose proof (inv_heads c s H) as (ER & EW).
  rewrite (res_ok_consumed _ _ _ (i_res c s H)).
  pose proof (i_buf c s H) as Hbuf. pose proof (i_wlog c s H) as Hlen.
  unfold contents, committed. rewrite ER, EW.
  rewrite read_space_window by (try exact Hk; lia).
  rewrite skipn_firstn_map by lia.
  replace (Z.to_nat (Wc s) - Z.to_nat (Rc s))%nat with (Z.to_nat (Wc s - Rc s)) by lia.
  apply map_ext_in. intros i Hi. apply in_seq in Hi.
  rewrite head_add_eq by exact Hk. rewrite Hbuf by lia. f_equal. lia.
Qed.

Theorem nothing_lost : forall c wp rp sched, good_cfg c ->
  let s := run c wp rp sched in
  contents c s = skipn (Z.to_nat (consumed (rresl (sr s)))) (committed s).
Proof.
  intros c wp rp sched G s. apply contents_eq; [apply G|]. apply run_inv. exact G.
Qed.
