(* C15 — property theorems only.
   zix_create_directories (FsModel.v: the zix_path_begin/next iterator with its index arithmetic and the
   NUL-chopping walk, as coded) runs on the abstract tree file system of FsSpec.v (directories and regular
   files, '.'/'..' resolution, mkdir with EEXIST/ENOENT/ENOTDIR).  zix_file_equals runs on two byte lists with
   scripted reads.  Symbolic links (and fifos etc.), zix_file_type / zix_symlink_type over stat / lstat,
   zix_dir_for_each and the descriptor accounting: second part, Properties_C15_links.v (file system FsLinkSpec.v).
   NOT in the proved part: permissions, zix_canonical_path (compared with realpath by the driver only). *)
From Coq Require Import ZArith List Bool Lia.
From Zix Require Import CopySpec CopyModel FsSpec FsModel FsProofs FsProofs2 FsProofs3 FsProofs4.
Import ListNotations.
Local Open Scope Z_scope.

(* stat_file_type: for every mode value the table walk returns the POSIX type of (mode & S_IFMT);
   total: one of the seven types, or UNKNOWN for every other bit pattern *)
Theorem file_type_table_total :
  forall mode, 0 <= mode < 2 ^ 32 -> stat_file_type mode = type_of_mode_spec mode.
Proof.
  intros mode H. unfold stat_file_type, type_of_mode_spec.
  rewrite Z.mod_small by exact H.
  generalize (Z.land mode S_IFMT). intro m.
  unfold type_map. cbn [type_lookup].
  unfold S_IFREG, S_IFDIR, S_IFLNK, S_IFBLK, S_IFCHR, S_IFIFO, S_IFSOCK.
  assert (E : forall k, k <> m -> (k =? m) = false /\ (m =? k) = false)
    by (intros; split; apply Z.eqb_neq; lia).
  destruct (Z.eq_dec m 32768) as [->|N1]; [reflexivity|]. destruct (E 32768 ltac:(lia)) as [-> ->].
  destruct (Z.eq_dec m 16384) as [->|N2]; [reflexivity|]. destruct (E 16384 ltac:(lia)) as [-> ->].
  destruct (Z.eq_dec m 40960) as [->|N3]; [reflexivity|]. destruct (E 40960 ltac:(lia)) as [-> ->].
  destruct (Z.eq_dec m 24576) as [->|N4]; [reflexivity|]. destruct (E 24576 ltac:(lia)) as [-> ->].
  destruct (Z.eq_dec m 8192) as [->|N5]; [reflexivity|]. destruct (E 8192 ltac:(lia)) as [-> ->].
  destruct (Z.eq_dec m 4096) as [->|N6]; [reflexivity|]. destruct (E 4096 ltac:(lia)) as [-> ->].
  destruct (Z.eq_dec m 49152) as [->|N7]; [reflexivity|]. destruct (E 49152 ltac:(lia)) as [-> ->].
  reflexivity.
Qed.
Print Assumptions file_type_table_total.

(* zix_file_type / zix_file_size when stat fails: NONE and -1 *)
Theorem file_size_missing : file_size_of None = -1 /\ file_type_of None = FT_NONE.
Proof. split; reflexivity. Qed.
Print Assumptions file_size_missing.

(* ---- zix_create_directories: for every file system state, every cwd, every path string (relative or
   absolute, repeated or trailing separators, dot segments, partly existing, a file in the way) ---- *)
Definition mkdirs (fs : fsT) (cwd : loc) (s : list Z) := create_directories true fs cwd s.

(* SUCCESS exactly when the path then names a directory *)
Theorem mkdirs_success_iff_directory : forall fs cwd s, nul_free s ->
  fst (fst (mkdirs fs cwd s)) = SUCCESS <-> names_directory (snd (fst (mkdirs fs cwd s))) cwd s.
Proof. exact mkdirs_iff. Qed.
Print Assumptions mkdirs_success_iff_directory.

(* idempotent: a second call succeeds and changes nothing *)
Theorem mkdirs_idempotent : forall fs cwd s, nul_free s ->
  fst (fst (mkdirs fs cwd s)) = SUCCESS ->
  exists tr, mkdirs (snd (fst (mkdirs fs cwd s))) cwd s = (SUCCESS, snd (fst (mkdirs fs cwd s)), tr).
Proof. exact mkdirs_idem. Qed.
Print Assumptions mkdirs_idempotent.

(* a component (the first k components resolve to it) exists and is a regular file: EXISTS, nothing created *)
Theorem mkdirs_blocked_by_file : forall fs cwd s k x, nul_free s -> s <> [] ->
  walk fs (start s cwd) (firstn k (components s)) = WFile x ->
  fst (fst (mkdirs fs cwd s)) = EXISTS /\ snd (fst (mkdirs fs cwd s)) = fs.
Proof. exact mkdirs_blocked. Qed.
Print Assumptions mkdirs_blocked_by_file.

(* the code is the component-wise "mkdir -p": same status, same resulting file system *)
Theorem mkdirs_refines_spec : forall fs cwd s, nul_free s -> s <> [] ->
  exists tr, mkdirs fs cwd s = (status_of (fst (mkdirs_spec fs cwd s)), snd (mkdirs_spec fs cwd s), tr).
Proof. exact create_directories_refines. Qed.
Print Assumptions mkdirs_refines_spec.

(* allocation failure of the working copy: NO_MEM, nothing touched *)
Theorem mkdirs_no_mem : forall fs cwd s, s <> [] -> create_directories false fs cwd s = (NO_MEM, fs, []).
Proof. exact mkdirs_nomem. Qed.
Print Assumptions mkdirs_no_mem.

(* ---- zix_file_equals ---- *)
(* two existing files with different inodes, an environment without short reads and I/O errors (script = []),
   ANY page size, ANY answers of the allocator (both page buffers, or the 512-byte stack fall-back; a failed
   allocation may leave any errno): true exactly when the bytes are identical; no descriptor stays open *)
Theorem file_equals_iff_bytes : forall ia a ib b page al1 al2 errno0,
  (0 < page)%nat -> ia <> ib ->
  let r := file_equals false (Some (ia, a)) (Some (ib, b)) page al1 al2 errno0 [] in
  (fst r = true <-> a = b) /\ e_open (snd r) = O.
Proof.
  intros ia a ib b page al1 al2 errno0 Hp Hi.
  assert (H : negb (ia =? 0) && negb (ib =? 0) && (ia =? ib) = false)
    by (destruct (Z.eqb_spec ia ib); [contradiction|apply andb_false_r]).
  destruct (file_equals_bytes ia a ib b page al1 al2 errno0 Hp H) as [E O]. cbn zeta in *.
  rewrite E. split; [apply list_eqb_eq|exact O].
Qed.
Print Assumptions file_equals_iff_bytes.

(* symmetric *)
Theorem file_equals_symmetric : forall ia a ib b page al1 al2 al1' al2' e e',
  (0 < page)%nat -> ia <> ib ->
  fst (file_equals false (Some (ia, a)) (Some (ib, b)) page al1 al2 e []) =
  fst (file_equals false (Some (ib, b)) (Some (ia, a)) page al1' al2' e' []).
Proof.
  intros ia a ib b page al1 al2 al1' al2' e e' Hp Hi.
  assert (H : forall x y, x <> y -> negb (x =? 0) && negb (y =? 0) && (x =? y) = false)
    by (intros x y N; destruct (Z.eqb_spec x y); [contradiction|apply andb_false_r]).
  destruct (file_equals_bytes ia a ib b page al1 al2 e Hp (H _ _ Hi)) as [E1 _].
  destruct (file_equals_bytes ib b ia a page al1' al2' e' Hp (H _ _ (not_eq_sym Hi))) as [E2 _].
  cbn zeta in *. rewrite E1, E2.
  destruct (list_eqb a b) eqn:X; destruct (list_eqb b a) eqn:Y; try reflexivity.
  - apply list_eqb_eq in X. subst. rewrite (proj2 (list_eqb_eq b b) eq_refl) in Y. discriminate.
  - apply list_eqb_eq in Y. subst. rewrite (proj2 (list_eqb_eq a a) eq_refl) in X. discriminate.
Qed.
Print Assumptions file_equals_symmetric.

(* the same file through two paths (hard link, symlink): true without reading *)
Theorem file_equals_same_file : forall ia a b page al1 al2 errno0, ia <> 0 ->
  let r := file_equals false (Some (ia, a)) (Some (ia, b)) page al1 al2 errno0 [] in
  fst r = true /\ e_open (snd r) = O.
Proof. exact file_equals_same_inode. Qed.
Print Assumptions file_equals_same_file.

(* one of two different paths does not exist: false, for every script and every allocator *)
Theorem file_equals_missing_false : forall (fa fb : fileT) page al1 al2 errno0 script,
  fa = None \/ fb = None -> fst (file_equals false fa fb page al1 al2 errno0 script) = false.
Proof. exact file_equals_missing. Qed.
Print Assumptions file_equals_missing_false.

(* open, fstat, read and close may fail at ANY call with ANY errno (every script without short reads), any page size,
   any allocator answers: two files whose bytes differ are never reported equal.  (A failed read of the first file
   leaves the loop with match still true; the pending errno, which zix_system_close_fds turns into a status, is what
   makes the answer false.) *)
Theorem file_equals_errors_never_true : forall ia a ib b page al1 al2 errno0 script,
  (0 < page)%nat -> ia <> ib -> Forall no_short script -> a <> b ->
  fst (file_equals false (Some (ia, a)) (Some (ib, b)) page al1 al2 errno0 script) = false.
Proof. exact file_equals_errors_false. Qed.
Print Assumptions file_equals_errors_never_true.

(* the no-short-read hypothesis is necessary: a short read on one file makes equal files compare unequal *)
Theorem file_equals_short_read_refuted :
  exists a script, fst (file_equals false (Some (1, a)) (Some (2, a)) 4 AOk AOk 0 script) = false.
Proof. exists [1; 2; 3; 4; 5], [Full; Full; Full; Full; Short 2]. vm_compute. reflexivity. Qed.
Print Assumptions file_equals_short_read_refuted.

(* ---- hypotheses are satisfiable / the theorems are not vacuous ---- *)
Example mkdirs_ex :
  let fs := [([[97]], KDir); ([[97]; [120]], KFile)] in          (* a/  a/x *)
  fst (fst (mkdirs fs [[97]] [46; 46; 47; 97; 47; 47; 98; 47; 46; 47; 99; 47])) = SUCCESS   (* from a: "../a//b/./c/" *)
  /\ fst (fst (mkdirs fs [] [97; 47; 120; 47; 121])) = EXISTS.                             (* "a/x/y" *)
Proof. vm_compute. split; reflexivity. Qed.
Example file_equals_ex :
  fst (file_equals false (Some (1, [1;2;3;4;5;6;7;8;9])) (Some (2, [1;2;3;4;5;6;7;8;0])) 4 (AFail 12) AOk 5 []) = false /\
  fst (file_equals false (Some (1, [1;2;3;4;5;6;7;8;9])) (Some (2, [1;2;3;4;5;6;7;8;9])) 4 (AFail 12) AOk 5 []) = true.
Proof. vm_compute. split; reflexivity. Qed.
