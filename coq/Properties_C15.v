(* C15 — property theorems (work in progress: mkdirs and file_equals theorems follow). *)
From Coq Require Import ZArith List Bool Lia.
From Zix Require Import CopySpec CopyModel FsSpec FsModel.
Import ListNotations.
Local Open Scope Z_scope.

(* stat_file_type: for every mode value the table walk returns the POSIX type of (mode & S_IFMT);
   total: one of the seven types, or UNKNOWN for every other bit pattern *)
Theorem file_type_table_total :
  forall mode, 0 <= mode < 2 ^ 32 -> stat_file_type mode = type_of_mode_spec mode.
Proof.
  intros mode H. unfold stat_file_type, type_of_mode_spec.
  rewrite Z.mod_small by exact H.
  generalize (Z.land mode S_IFMT). intro m.
  unfold type_map. cbn [type_lookup].
  unfold S_IFREG, S_IFDIR, S_IFLNK, S_IFBLK, S_IFCHR, S_IFIFO, S_IFSOCK.
  assert (E : forall k, k <> m -> (k =? m) = false /\ (m =? k) = false)
    by (intros; split; apply Z.eqb_neq; lia).
  destruct (Z.eq_dec m 32768) as [->|N1]; [reflexivity|]. destruct (E 32768 ltac:(lia)) as [-> ->].
  destruct (Z.eq_dec m 16384) as [->|N2]; [reflexivity|]. destruct (E 16384 ltac:(lia)) as [-> ->].
  destruct (Z.eq_dec m 40960) as [->|N3]; [reflexivity|]. destruct (E 40960 ltac:(lia)) as [-> ->].
  destruct (Z.eq_dec m 24576) as [->|N4]; [reflexivity|]. destruct (E 24576 ltac:(lia)) as [-> ->].
  destruct (Z.eq_dec m 8192) as [->|N5]; [reflexivity|]. destruct (E 8192 ltac:(lia)) as [-> ->].
  destruct (Z.eq_dec m 4096) as [->|N6]; [reflexivity|]. destruct (E 4096 ltac:(lia)) as [-> ->].
  destruct (Z.eq_dec m 49152) as [->|N7]; [reflexivity|]. destruct (E 49152 ltac:(lia)) as [-> ->].
  reflexivity.
Qed.
Print Assumptions file_type_table_total.

(* zix_file_type / zix_file_size when stat fails: NONE and -1 *)
Theorem file_size_missing : file_size_of None = -1 /\ file_type_of None = FT_NONE.
Proof. split; reflexivity. Qed.
Print Assumptions file_size_missing.
