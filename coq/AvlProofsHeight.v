(* C06 — the AVL height bound: an AVL tree of height h has at least fib (h+2) - 1 nodes *)
From Coq Require Import ZArith List Bool Lia Arith.
From Zix Require Import AvlSpec AvlModel AvlProofs.
Import ListNotations.

Lemma fib_SS : forall n, fib (S (S n)) = (fib n + fib (S n))%nat.
Proof. reflexivity. Qed.

Lemma fib_le_S : forall n, (fib n <= fib (S n))%nat.
Proof.
  intros n. destruct n as [|n]; [cbn; lia|]. rewrite fib_SS. lia.
Qed.

Lemma fib_mono : forall n m, (n <= m)%nat -> (fib n <= fib m)%nat.
Proof.
  intros n m H. induction H as [|m H IH]; [lia|]. pose proof (fib_le_S m). lia.
Qed.

Lemma fib_pos : forall n, (1 <= fib (S n))%nat.
Proof. intros n. pose proof (fib_mono 1 (S n)). cbn [fib] in *. lia. Qed.

Local Open Scope Z_scope.

Lemma avl_fib : forall t, avl t -> Z.of_nat (fib (heightn t + 2)) <= count t + 1.
Proof.
  induction t as [|i d b l IHl r IHr]; intros A.
  - cbn. lia.
  - cbn [avl] in A. destruct A as (Al & Ar & Hb & Rb).
    specialize (IHl Al). specialize (IHr Ar).
    rewrite !heightn_height in Hb. cbn [heightn count].
    replace (S (Nat.max (heightn l) (heightn r)) + 2)%nat with (S (S (S (Nat.max (heightn l) (heightn r))))) by lia.
    rewrite fib_SS.
    destruct (Nat.le_ge_cases (heightn r) (heightn l)) as [C|C].
    + rewrite Nat.max_l by assumption.
      replace (S (S (heightn l))) with (heightn l + 2)%nat by lia.
      assert (M : (fib (S (heightn l)) <= fib (heightn r + 2))%nat) by (apply fib_mono; lia).
      lia.
    + rewrite Nat.max_r by assumption.
      replace (S (S (heightn r))) with (heightn r + 2)%nat by lia.
      assert (M : (fib (S (heightn r)) <= fib (heightn l + 2))%nat) by (apply fib_mono; lia).
      lia.
Qed.

(* the bound is tight: the minimal trees have exactly fib (h+2) - 1 nodes *)
Fixpoint fibtree (h : nat) : tree :=
  match h with
  | O => E
  | S h1 => match h1 with
            | O => N 0 (0, 0) 0 E E
            | S h2 => N 0 (0, 0) (-1) (fibtree h1) (fibtree h2)
            end
  end.
