(* BTreeAllocProofs — ERASURE: forgetting the page identities turns the instrumented B-tree model
   (BTreeAllocModel.v) into the plain model (BTreeModel.v), function by function and unconditionally.
   Every lemma of Section Erase takes [elt rank dflt L I] first. *)
From Coq Require Import ZArith List Bool Arith Lia ZifyBool ZifyNat Permutation.
From Zix Require Import BTreeSpec BTreeModel FaultSpec AllocModel AllocProofs BTreeProofsBase BTreeAllocModel.
Import ListNotations.
Ltac Zify.zify_post_hook ::= Z.div_mod_to_equations.
Set Default Proof Using "All".

(* the element type is implicit for the instrumented model as well *)
Global Arguments ALeaf {elt}.
Global Arguments AInode {elt}.
Global Arguments mkATree {elt}.
Global Arguments a_self {elt}.
Global Arguments a_root {elt}.
Global Arguments a_size {elt}.
Global Arguments adnode {elt}.
Global Arguments aid {elt}.
Global Arguments avals {elt}.
Global Arguments achildren {elt}.
Global Arguments an_vals {elt}.
Global Arguments ais_leaf {elt}.
Global Arguments achild {elt}.
Global Arguments amax_vals {elt}.
Global Arguments amin_vals {elt}.
Global Arguments acan_remove_from {elt}.
Global Arguments ais_full {elt}.
Global Arguments aheight {elt}.
Global Arguments erase {elt}.
Global Arguments erase_tree {elt}.
Global Arguments pages {elt}.
Global Arguments aset_child {elt}.
Global Arguments asplit_node {elt}.
Global Arguments asplit_child {elt}.
Global Arguments ainsert_down {elt}.
Global Arguments agrow_up {elt}.
Global Arguments ainsert_op {elt}.
Global Arguments arotate_left {elt}.
Global Arguments arotate_right {elt}.
Global Arguments amerge {elt}.
Global Arguments aplug {elt}.
Global Arguments aremove_min {elt}.
Global Arguments aremove_max {elt}.
Global Arguments afatten_child {elt}.
Global Arguments areplace_value {elt}.
Global Arguments mkARm {elt}.
Global Arguments ar_st {elt}.
Global Arguments ar_out {elt}.
Global Arguments ar_node {elt}.
Global Arguments ar_frames {elt}.
Global Arguments ar_act {elt}.
Global Arguments ar_log {elt}.
Global Arguments ar_ast {elt}.
Global Arguments aremove_down {elt}.
Global Arguments aremove_op {elt}.
Global Arguments afree_children {elt}.
Global Arguments aclear_op {elt}.
Global Arguments afree_op {elt}.
Global Arguments anew_op {elt}.

(* ------------------------------------------------------------------ map commutes with the array helpers *)
Section MapFacts.
  Context {A B : Type} (f : A -> B).

  Lemma map_aset : forall (l : list A) i e, map f (aset l i e) = aset (map f l) i (f e).
  Proof. intros. unfold aset. rewrite map_app, firstn_map. cbn [map]. rewrite skipn_map. reflexivity. Qed.

  Lemma map_ainsert : forall (l : list A) i e, map f (ainsert l i e) = ainsert (map f l) i (f e).
  Proof. intros. unfold ainsert. rewrite map_app, firstn_map. cbn [map]. rewrite skipn_map. reflexivity. Qed.

  Lemma map_aerase : forall (l : list A) i, map f (aerase l i) = aerase (map f l) i.
  Proof. intros. unfold aerase. rewrite map_app, firstn_map, skipn_map. reflexivity. Qed.
End MapFacts.

Section Erase.
  Variable elt : Type.
  Variable rank : elt -> Z.
  Variable dflt : elt.
  Variables L I : nat.

  Notation anode := (anode elt).
  Notation atree := (atree elt).

  (* ---------------------------------------------------------------- accessors *)
  Lemma erase_adnode : erase (@adnode elt) = dnode.
  Proof. reflexivity. Qed.

  Lemma nth_erase : forall (cs : list anode) i, nth i (map erase cs) dnode = erase (nth i cs adnode).
  Proof. intros. rewrite <- erase_adnode. apply map_nth. Qed.

  Lemma avals_erase : forall n : anode, vals (erase n) = avals n.
  Proof. destruct n; reflexivity. Qed.

  Lemma an_vals_erase : forall n : anode, n_vals (erase n) = an_vals n.
  Proof. destruct n; reflexivity. Qed.

  Lemma ais_leaf_erase : forall n : anode, is_leaf (erase n) = ais_leaf n.
  Proof. destruct n; reflexivity. Qed.

  Lemma amax_vals_erase : forall n : anode, max_vals L I (erase n) = amax_vals L I n.
  Proof. destruct n; reflexivity. Qed.

  Lemma amin_vals_erase : forall n : anode, min_vals L I (erase n) = amin_vals L I n.
  Proof. intros. unfold min_vals, amin_vals. rewrite amax_vals_erase. reflexivity. Qed.

  Lemma acan_remove_from_erase : forall n : anode, can_remove_from L I (erase n) = acan_remove_from L I n.
  Proof. intros. unfold can_remove_from, acan_remove_from. rewrite amin_vals_erase, an_vals_erase. reflexivity. Qed.

  Lemma ais_full_erase : forall n : anode, is_full L I (erase n) = ais_full L I n.
  Proof. intros. unfold is_full, ais_full. rewrite amax_vals_erase, an_vals_erase. reflexivity. Qed.

  Lemma aheight_erase : forall n : anode, height (erase n) = aheight n.
  Proof.
    fix IH 1. destruct n as [id vs|id vs cs]; [reflexivity|].
    cbn [erase height aheight]. destruct cs as [|c cs]; [reflexivity|].
    cbn [map]. f_equal. apply IH.
  Qed.

  Lemma achildren_erase : forall n : anode, children (erase n) = map erase (achildren n).
  Proof. destruct n; reflexivity. Qed.

  Lemma achild_erase : forall (n : anode) i, child (erase n) i = erase (achild n i).
  Proof. intros. unfold child, achild. rewrite achildren_erase. apply nth_erase. Qed.

  (* ---------------------------------------------------------------- the allocator against the oracle *)
  Lemma alloc_sim : forall k s,
    match AllocModel.alloc k s with
    | (Some id, s') => BTreeModel.alloc (oracle s) = (true, oracle s') /\ id = next s
    | (None, s') => BTreeModel.alloc (oracle s) = (false, oracle s')
    end.
  Proof.
    intros k s. unfold AllocModel.alloc, BTreeModel.alloc.
    destruct (oracle s) as [|b o]; cbn [tl oracle]; [split; reflexivity|].
    destruct b; cbn [oracle]; [split; reflexivity|reflexivity].
  Qed.

  Lemma oracle_release : forall k id s, oracle (release k id s) = oracle s.
  Proof. reflexivity. Qed.

  (* ---------------------------------------------------------------- split *)
  Lemma erase_split_node : forall rid (n : anode),
    split_node dflt L I (erase n) =
    (let '(l, m, r) := asplit_node dflt L I rid n in (erase l, m, erase r)).
  Proof.
    intros rid n. destruct n as [id vs|id vs cs]; unfold split_node, asplit_node;
      cbn [erase max_vals is_leaf n_vals vals amax_vals ais_leaf an_vals avals].
    - reflexivity.
    - rewrite !firstn_map, !skipn_map, !firstn_map. reflexivity.
  Qed.

  Lemma erase_split_child : forall rid (n : anode) i,
    erase (asplit_child dflt L I rid n i) = split_child dflt L I (erase n) i.
  Proof.
    intros rid n i. destruct n as [id vs|id vs cs]; [reflexivity|].
    unfold asplit_child, split_child. cbn [erase]. rewrite nth_erase, (erase_split_node rid).
    destruct (asplit_node dflt L I rid (nth i cs adnode)) as [[l m] r].
    cbn [erase]. rewrite map_ainsert, map_aset. reflexivity.
  Qed.

  Lemma erase_set_child : forall (n : anode) i c,
    erase (aset_child n i c) = set_child (erase n) i (erase c).
  Proof. intros. destruct n as [id vs|id vs cs]; [reflexivity|]. cbn [aset_child set_child erase]. rewrite map_aset. reflexivity. Qed.

  Lemma erase_plug : forall (n1 : anode) i c,
    erase (aplug n1 i c) = plug (erase n1) i (erase c).
  Proof.
    intros. destruct n1 as [id vs|id vs cs]; [reflexivity|].
    cbn [aplug plug erase]. destruct vs; [reflexivity|]. cbn [erase]. rewrite map_aset. reflexivity.
  Qed.

  (* ---------------------------------------------------------------- rotations and merge *)
  Lemma erase_rotate_left : forall (n : anode) i,
    erase (arotate_left dflt n i) = rotate_left dflt (erase n) i.
  Proof.
    intros n i. destruct n as [id vs|id vs cs]; [reflexivity|].
    unfold arotate_left, rotate_left. cbn [erase]. rewrite !nth_erase.
    destruct (nth i cs adnode) as [lid lv|lid lv lc], (nth (S i) cs adnode) as [rid rv|rid rv rc];
      cbn [erase]; try reflexivity.
    - rewrite !map_aset. reflexivity.
    - rewrite !map_aset. cbn [erase]. rewrite map_app, map_aerase. cbn [map]. rewrite nth_erase. reflexivity.
  Qed.

  Lemma erase_rotate_right : forall (n : anode) i,
    erase (arotate_right dflt n i) = rotate_right dflt (erase n) i.
  Proof.
    intros n i. destruct n as [id vs|id vs cs]; [reflexivity|].
    unfold arotate_right, rotate_right. cbn [erase]. rewrite !nth_erase.
    destruct (nth (i - 1) cs adnode) as [lid lv|lid lv lc], (nth i cs adnode) as [rid rv|rid rv rc];
      cbn [erase]; try reflexivity.
    - rewrite !map_aset. reflexivity.
    - rewrite !map_aset. cbn [erase map]. rewrite firstn_map, nth_erase. reflexivity.
  Qed.

  Lemma erase_merge : forall s (n : anode) i,
    erase (fst (amerge dflt s n i)) = merge dflt (erase n) i /\
    oracle (snd (amerge dflt s n i)) = oracle s.
  Proof.
    intros s n i. destruct n as [id vs|id vs cs]; [split; reflexivity|].
    unfold amerge, merge. cbn [fst snd erase]. split.
    - rewrite map_aerase, map_aset, !nth_erase.
      destruct (nth i cs adnode) as [lid lv|lid lv lc], (nth (S i) cs adnode) as [rid rv|rid rv rc];
        cbn [erase]; try reflexivity.
      rewrite map_app. reflexivity.
    - rewrite oracle_release. destruct (aerase vs i); reflexivity.
  Qed.

  Lemma erase_merge_pair : forall s (n : anode) i n1 s1,
    amerge dflt s n i = (n1, s1) -> erase n1 = merge dflt (erase n) i /\ oracle s1 = oracle s.
  Proof. intros s n i n1 s1 E. pose proof (erase_merge s n i) as H. rewrite E in H. exact H. Qed.

  (* ---------------------------------------------------------------- insert *)
  Lemma erase_insert_down : forall f s (n : anode) e,
    let '(st, n', s', lg) := ainsert_down rank dflt L I f s n e in
    insert_down rank dflt L I f (oracle s) (erase n) e = (st, erase n', oracle s', lg).
  Proof.
    induction f as [|f IH]; intros s n e; [reflexivity|].
    cbn [ainsert_down insert_down]. destruct n as [id vs|id vs cs]; cbn [erase].
    - destruct (find_value dflt (cmpk rank e) vs) as [[i eq] lg]. destruct eq; reflexivity.
    - destruct (find_value dflt (cmpk rank e) vs) as [[i eq] lg]. destruct eq; [reflexivity|].
      rewrite nth_erase, ais_full_erase. destruct (ais_full L I (nth i cs adnode)).
      + pose proof (alloc_sim Aligned s) as A. destruct (AllocModel.alloc Aligned s) as [[rid|] s1].
        * destruct A as [A _]. rewrite A. cbn [negb].
          change (Inode vs (map erase cs)) with (erase (AInode id vs cs)).
          rewrite <- (erase_split_child rid), avals_erase.
          set (n1 := asplit_child dflt L I rid (AInode id vs cs) i).
          destruct (cmpk rank e (nth i (avals n1) dflt)).
          -- reflexivity.
          -- rewrite achild_erase. specialize (IH s1 (achild n1 (i + 1)) e).
             destruct (ainsert_down rank dflt L I f s1 (achild n1 (i + 1)) e) as [[[st c'] s2] lg2].
             rewrite IH, erase_set_child. reflexivity.
          -- rewrite achild_erase. specialize (IH s1 (achild n1 i) e).
             destruct (ainsert_down rank dflt L I f s1 (achild n1 i) e) as [[[st c'] s2] lg2].
             rewrite IH, erase_set_child. reflexivity.
        * rewrite A. reflexivity.
      + specialize (IH s (nth i cs adnode) e).
        destruct (ainsert_down rank dflt L I f s (nth i cs adnode) e) as [[[st c'] s2] lg2].
        rewrite IH. cbn [erase]. rewrite map_aset. reflexivity.
  Qed.

  (* ---------------------------------------------------------------- remove_min / remove_max *)
  Lemma erase_remove_min : forall f s (n : anode),
    let '(m, n', s') := aremove_min dflt L I f s n in
    remove_min dflt L I f (erase n) = (m, erase n') /\ oracle s' = oracle s.
  Proof.
    induction f as [|f IH]; intros s n; [split; reflexivity|].
    cbn [aremove_min remove_min]. destruct n as [id vs|id vs cs]; cbn [erase]; [split; reflexivity|].
    rewrite !nth_erase, !acan_remove_from_erase.
    destruct (acan_remove_from L I (nth 0 cs adnode)).
    - specialize (IH s (nth 0 cs adnode)).
      destruct (aremove_min dflt L I f s (nth 0 cs adnode)) as [[m c'] s1]. destruct IH as [IH1 IH2].
      rewrite IH1. cbn [erase]. rewrite map_aset. split; [reflexivity|exact IH2].
    - change (Inode vs (map erase cs)) with (erase (AInode id vs cs)).
      destruct (acan_remove_from L I (nth 1 cs adnode)).
      + rewrite <- erase_rotate_left, achild_erase.
        specialize (IH s (achild (arotate_left dflt (AInode id vs cs) 0) 0)).
        destruct (aremove_min dflt L I f s (achild (arotate_left dflt (AInode id vs cs) 0) 0)) as [[m c'] s1].
        destruct IH as [IH1 IH2]. rewrite IH1, erase_set_child. split; [reflexivity|exact IH2].
      + destruct (amerge dflt s (AInode id vs cs) 0) as [n1 s0] eqn:M.
        apply erase_merge_pair in M. destruct M as [M1 M2].
        rewrite <- M1, achild_erase. specialize (IH s0 (achild n1 0)).
        destruct (aremove_min dflt L I f s0 (achild n1 0)) as [[m c'] s1].
        destruct IH as [IH1 IH2]. rewrite IH1, erase_plug. split; [reflexivity|congruence].
  Qed.

  Lemma erase_remove_max : forall f s (n : anode),
    let '(m, n', s') := aremove_max dflt L I f s n in
    remove_max dflt L I f (erase n) = (m, erase n') /\ oracle s' = oracle s.
  Proof.
    induction f as [|f IH]; intros s n; [split; reflexivity|].
    cbn [aremove_max remove_max]. destruct n as [id vs|id vs cs]; cbn [erase]; [split; reflexivity|].
    rewrite !nth_erase, !acan_remove_from_erase.
    destruct (acan_remove_from L I (nth (length vs) cs adnode)).
    - specialize (IH s (nth (length vs) cs adnode)).
      destruct (aremove_max dflt L I f s (nth (length vs) cs adnode)) as [[m c'] s1]. destruct IH as [IH1 IH2].
      rewrite IH1. cbn [erase]. rewrite map_aset. split; [reflexivity|exact IH2].
    - change (Inode vs (map erase cs)) with (erase (AInode id vs cs)).
      destruct (acan_remove_from L I (nth (length vs - 1) cs adnode)).
      + rewrite <- erase_rotate_right, achild_erase.
        specialize (IH s (achild (arotate_right dflt (AInode id vs cs) (length vs)) (length vs))).
        destruct (aremove_max dflt L I f s (achild (arotate_right dflt (AInode id vs cs) (length vs)) (length vs)))
          as [[m c'] s1].
        destruct IH as [IH1 IH2]. rewrite IH1, erase_set_child. split; [reflexivity|exact IH2].
      + destruct (amerge dflt s (AInode id vs cs) (length vs - 1)) as [n1 s0] eqn:M.
        apply erase_merge_pair in M. destruct M as [M1 M2].
        rewrite <- M1, achild_erase. specialize (IH s0 (achild n1 (length vs - 1))).
        destruct (aremove_max dflt L I f s0 (achild n1 (length vs - 1))) as [[m c'] s1].
        destruct IH as [IH1 IH2]. rewrite IH1, erase_plug. split; [reflexivity|congruence].
  Qed.

  (* ---------------------------------------------------------------- fatten_child / replace_value *)
  Lemma erase_fatten_child : forall s (n : anode) i,
    let '(n1, i', s') := afatten_child dflt L I s n i in
    fatten_child dflt L I (erase n) i = (erase n1, i') /\ oracle s' = oracle s.
  Proof.
    intros s n i. unfold afatten_child, fatten_child.
    rewrite !achild_erase, !acan_remove_from_erase, an_vals_erase.
    destruct ((0 <? i) && acan_remove_from L I (achild n (i - 1))).
    { rewrite erase_rotate_right. split; reflexivity. }
    destruct ((i <? an_vals n) && acan_remove_from L I (achild n (i + 1))).
    { rewrite erase_rotate_left. split; reflexivity. }
    destruct (i =? an_vals n).
    - destruct (amerge dflt s n (i - 1)) as [n1 s1] eqn:M. apply erase_merge_pair in M. destruct M as [M1 M2].
      rewrite M1. split; [reflexivity|exact M2].
    - destruct (amerge dflt s n i) as [n1 s1] eqn:M. apply erase_merge_pair in M. destruct M as [M1 M2].
      rewrite M1. split; [reflexivity|exact M2].
  Qed.

  Definition erase_out (r : option (elt * anode)) : option (elt * node elt) :=
    match r with Some (out, n') => Some (out, erase n') | None => None end.

  Lemma erase_replace_value : forall f s (n : anode) i,
    let '(r, s') := areplace_value dflt L I f s n i in
    replace_value dflt L I f (erase n) i = erase_out r /\ oracle s' = oracle s.
  Proof.
    intros f s n i. unfold areplace_value, replace_value.
    rewrite !achild_erase, !acan_remove_from_erase, !an_vals_erase, avals_erase.
    destruct (negb (acan_remove_from L I (achild n i)) && negb (acan_remove_from L I (achild n (i + 1))));
      [split; reflexivity|].
    set (um := if an_vals (achild n (i + 1)) <? an_vals (achild n i) then true
               else if an_vals (achild n i) <? an_vals (achild n (i + 1)) then false else Nat.odd i).
    clearbody um.
    pose proof (erase_remove_max f s (achild n i)) as HX.
    pose proof (erase_remove_min f s (achild n (i + 1))) as HN.
    destruct n as [id vs|id vs cs]; [split; reflexivity|]. cbn [erase].
    destruct um.
    - destruct (aremove_max dflt L I f s (achild (AInode id vs cs) i)) as [[m c'] s1].
      destruct HX as [H1 H2]. rewrite H1. cbn [erase_out erase]. rewrite map_aset. split; [reflexivity|exact H2].
    - destruct (aremove_min dflt L I f s (achild (AInode id vs cs) (i + 1))) as [[m c'] s1].
      destruct HN as [H1 H2]. rewrite H1. cbn [erase_out erase]. rewrite map_aset. split; [reflexivity|exact H2].
  Qed.

  (* ---------------------------------------------------------------- remove_down *)
  Definition erase_res (r : arm_res elt) : rm_res elt :=
    mkRm (ar_st r) (ar_out r) (erase (ar_node r)) (ar_frames r) (ar_act r) (ar_log r).

  Lemma erase_remove_down_eq : forall f s (n : anode) e,
    remove_down rank dflt L I f (erase n) e = erase_res (aremove_down rank dflt L I f s n e) /\
    oracle (ar_ast (aremove_down rank dflt L I f s n e)) = oracle s.
  Proof.
    induction f as [|f IH]; intros s n e; [split; reflexivity|].
    cbn [aremove_down remove_down]. destruct n as [id vs|id vs cs]; cbn [erase].
    - destruct (find_value dflt (cmpk rank e) vs) as [[i eq] lg]. destruct eq; cbn [negb]; [|split; reflexivity].
      destruct (length (aerase vs i) =? 0); [split; reflexivity|].
      destruct (i =? length (aerase vs i)); split; reflexivity.
    - destruct (find_value dflt (cmpk rank e) vs) as [[i eq] lg].
      change (Inode vs (map erase cs)) with (erase (AInode id vs cs)).
      destruct eq.
      + pose proof (erase_replace_value f s (AInode id vs cs) i) as R.
        destruct (areplace_value dflt L I f s (AInode id vs cs) i) as [[[out n']|] s1];
          destruct R as [R1 R2]; rewrite R1; cbn [erase_out].
        * rewrite avals_erase. split; [reflexivity|exact R2].
        * destruct (amerge dflt s1 (AInode id vs cs) i) as [n1 s2] eqn:M.
          apply erase_merge_pair in M. destruct M as [M1 M2].
          rewrite <- M1, achild_erase.
          destruct (IH s2 (achild n1 i) e) as [IH1 IH2]. rewrite IH1.
          unfold erase_res. cbn [rr_st rr_out rr_node rr_frames rr_act rr_log
                                 ar_st ar_out ar_node ar_frames ar_act ar_log ar_ast].
          rewrite erase_plug. split; [reflexivity|congruence].
      + cbn [erase]. rewrite nth_erase, acan_remove_from_erase.
        destruct (acan_remove_from L I (nth i cs adnode)).
        * destruct (IH s (nth i cs adnode) e) as [IH1 IH2]. rewrite IH1.
          unfold erase_res. cbn [rr_st rr_out rr_node rr_frames rr_act rr_log
                                 ar_st ar_out ar_node ar_frames ar_act ar_log ar_ast erase].
          rewrite map_aset. split; [reflexivity|exact IH2].
        * change (Inode vs (map erase cs)) with (erase (AInode id vs cs)).
          pose proof (erase_fatten_child s (AInode id vs cs) i) as F.
          destruct (afatten_child dflt L I s (AInode id vs cs) i) as [[n1 i'] s1].
          destruct F as [F1 F2]. rewrite F1, achild_erase.
          destruct (IH s1 (achild n1 i') e) as [IH1 IH2]. rewrite IH1.
          unfold erase_res. cbn [rr_st rr_out rr_node rr_frames rr_act rr_log
                                 ar_st ar_out ar_node ar_frames ar_act ar_log ar_ast].
          rewrite erase_plug. split; [reflexivity|congruence].
  Qed.

  Lemma erase_remove_down : forall f s (n : anode) e,
    let r := aremove_down rank dflt L I f s n e in
    let r' := remove_down rank dflt L I f (erase n) e in
    rr_st r' = ar_st r /\ rr_out r' = ar_out r /\ rr_node r' = erase (ar_node r) /\
    rr_frames r' = ar_frames r /\ rr_act r' = ar_act r /\ rr_log r' = ar_log r /\
    oracle (ar_ast r) = oracle s.
  Proof.
    intros f s n e. destruct (erase_remove_down_eq f s n e) as [H1 H2].
    cbv zeta. rewrite H1. unfold erase_res. cbn [rr_st rr_out rr_node rr_frames rr_act rr_log].
    repeat split. exact H2.
  Qed.

  (* ---------------------------------------------------------------- remove / clear / new *)
  Lemma erase_remove : forall s (t : atree) e,
    let '(st, out, t', s', lg) := aremove_op rank dflt L I s t e in
    exists it, remove rank dflt L I (erase_tree t) e = (st, out, erase_tree t', it, lg) /\ oracle s' = oracle s.
  Proof.
    intros s t e. unfold aremove_op, remove. cbn [erase_tree root size].
    rewrite ais_leaf_erase, an_vals_erase, !achild_erase, !acan_remove_from_erase.
    destruct (negb (ais_leaf (a_root t)) && (an_vals (a_root t) =? 1)
              && negb (acan_remove_from L I (achild (a_root t) 0))
              && negb (acan_remove_from L I (achild (a_root t) 1))).
    - destruct (amerge dflt s (a_root t) 0) as [n1 s1] eqn:M.
      apply erase_merge_pair in M. destruct M as [M1 M2].
      rewrite <- M1, achild_erase, aheight_erase.
      destruct (erase_remove_down_eq (aheight (achild n1 0)) s1 (achild n1 0) e) as [D1 D2].
      rewrite D1. unfold erase_res. cbn [rr_st rr_out rr_node rr_frames rr_act rr_log].
      eexists. split; [reflexivity|congruence].
    - rewrite aheight_erase.
      destruct (erase_remove_down_eq (aheight (a_root t)) s (a_root t) e) as [D1 D2].
      rewrite D1. unfold erase_res. cbn [rr_st rr_out rr_node rr_frames rr_act rr_log].
      eexists. split; [reflexivity|exact D2].
  Qed.

  Lemma erase_clear : forall s (t : atree) d,
    fst (clear (erase_tree t) d) = erase_tree (fst (aclear_op s t)).
  Proof. reflexivity. Qed.

  Lemma erase_new : forall s,
    match @anew_op elt s with
    | (Some t, _) => erase_tree t = empty_tree
    | (None, _) => True
    end.
  Proof.
    intros s. unfold anew_op.
    destruct (AllocModel.alloc Aligned s) as [[tid|] s1]; [|exact Logic.I].
    destruct (AllocModel.alloc Aligned s1) as [[rid|] s2]; [reflexivity|exact Logic.I].
  Qed.
End Erase.

(* ---------------------------------------------------------------- grow_up / insert (H = ZIX_BTREE_MAX_HEIGHT enters here) *)
Section EraseTop.
  Variable elt : Type.
  Variable rank : elt -> Z.
  Variable dflt : elt.
  Variables L I : nat.
  Variable H : nat.
  Notation anode := (anode elt).
  Notation atree := (atree elt).
  Local Notation E5 l := (l elt rank dflt L I) (only parsing).

  Lemma erase_grow_up : forall s (r : anode),
    let '(st, r', s') := agrow_up dflt L I H s r in
    grow_up dflt L I H (oracle s) (erase r) = (st, erase r', oracle s').
  Proof.
    intros s r. unfold agrow_up, grow_up. rewrite (E5 aheight_erase).
    destruct (H <=? aheight r); [reflexivity|].
    pose proof (E5 alloc_sim Aligned s) as A. destruct (AllocModel.alloc Aligned s) as [[nid|] s1].
    - destruct A as [A _]. rewrite A. cbn [negb].
      pose proof (E5 alloc_sim Aligned s1) as A1. destruct (AllocModel.alloc Aligned s1) as [[rid|] s2].
      + destruct A1 as [A1 _]. rewrite A1. cbn [negb]. rewrite (E5 erase_split_child rid). reflexivity.
      + rewrite A1. reflexivity.
    - rewrite A. reflexivity.
  Qed.

  Lemma erase_insert : forall s (t : atree) e,
    let '(st, t', s', lg) := ainsert_op rank dflt L I H s t e in
    insert rank dflt L I H (oracle s) (erase_tree t) e = (st, erase_tree t', oracle s', lg).
  Proof.
    intros s t e. unfold ainsert_op, insert. cbn [erase_tree root size].
    rewrite (E5 ais_full_erase).
    destruct (ais_full L I (a_root t)).
    - pose proof (erase_grow_up s (a_root t)) as G.
      destruct (agrow_up dflt L I H s (a_root t)) as [[st0 r0] s0]. rewrite G.
      destruct st0; try reflexivity.
      pose proof (E5 erase_insert_down (aheight r0) s0 r0 e) as D. rewrite (E5 aheight_erase).
      destruct (ainsert_down rank dflt L I (aheight r0) s0 r0 e) as [[[st r1] s1] lg].
      rewrite D. reflexivity.
    - pose proof (E5 erase_insert_down (aheight (a_root t)) s (a_root t) e) as D. rewrite (E5 aheight_erase).
      destruct (ainsert_down rank dflt L I (aheight (a_root t)) s (a_root t) e) as [[[st r1] s1] lg].
      rewrite D. reflexivity.
  Qed.
End EraseTop.
