(* C12 — property theorems only: zix_path_join, zix_path_lexically_relative and zix_path_preferred
   (faithful models in PathJoinModel.v) against the C++17 path operations (PathJoinSpec.v).
   Argument strings are lists of non-zero bytes (`nonul`); NULL arguments are `None`. *)
From Coq Require Import ZArith List Bool.
From Zix Require Import PathJoinSpec PathJoinModel PathJoinProofs PathJoinProofsIter PathJoinProofsRel.
Import ListNotations.
Local Open Scope Z_scope.

(* ---- join: text equality with C++17 `a / b`, for all pairs including NULL arguments *)
Theorem join_eq :
  forall a b : option str, nonul (opt_str a) -> nonul (opt_str b) ->
    join_text a b = Ok (std_join_opt a b).
Proof. exact join_text_ok. Qed.
Print Assumptions join_eq.

(* the model never reads outside a NUL-terminated argument (or through NULL), never runs out of fuel *)
Theorem join_reads_in_bounds :
  forall a b : option str, nonul (opt_str a) ->
    zix_path_join a b <> OOB /\ zix_path_join a b <> NoFuel.
Proof.
  intros a b Na. destruct (join_ok a b Na) as [r [H _]]. rewrite H. split; discriminate.
Qed.
Print Assumptions join_reads_in_bounds.

(* every write lands inside the allocation; the bytes written are exactly the result text and its
   NUL, and they fill the allocated block exactly *)
Theorem join_result_fits :
  forall a b : option str, nonul (opt_str a) ->
    exists r, zix_path_join a b = Ok r
              /\ b_cells r = std_join_opt a b ++ [0]
              /\ b_size r = slen (std_join_opt a b) + 1.
Proof. exact join_ok. Qed.
Print Assumptions join_result_fits.

(* ---- preferred: the identity on POSIX, exact-size result *)
Theorem preferred_id :
  forall s : str, nonul s -> preferred_text s = Ok (std_preferred s) /\ std_preferred s = s.
Proof. intros s N. split; [exact (preferred_text_ok s N)|reflexivity]. Qed.
Print Assumptions preferred_id.

Theorem preferred_result_fits :
  forall s : str, exists r, zix_path_preferred s = Ok r /\ b_cells r = s ++ [0] /\ b_size r = slen s + 1.
Proof. exact preferred_ok. Qed.
Print Assumptions preferred_result_fits.

(* hypotheses are satisfiable, and the statements are about non-trivial inputs *)
Example join_example :
  join_text (Some [47;97]) (Some [98;47]) = Ok [47;97;47;98;47] /\
  join_text (Some [47]) (Some [97]) = Ok [47;97] /\
  join_text (Some [97]) (Some [47;98]) = Ok [47;98] /\
  join_text None (Some [98]) = Ok [98] /\ join_text (Some [97;47]) None = Ok [97;47].
Proof. vm_compute. repeat split. Qed.

(* ---- the element iterator (zix_path_begin / zix_path_next): after the root-directory element it
   yields, one per step and in bounds, exactly the C++17 elements of the path — except that a path of
   two or more separators only yields one extra empty element (`den s it es`: iterator `it` stands
   on the first of the remaining elements `es`, its range being that element's text) *)
Theorem iterator_yields_elements :
  forall s : str, nonul s ->
    (if has_root s
     then path_begin s = Ok {| it_range := (0, 1); it_state := ROOT_DIRECTORY |}
          /\ exists it, path_next s {| it_range := (0, 1); it_state := ROOT_DIRECTORY |} = Ok it
                        /\ den s it (ielems s)
     else exists it, path_begin s = Ok it /\ den s it (ielems s))
    /\ ielems s = (if root_only_multi s then [[]] else elements s)
    /\ (forall it x es, den s it (x :: es) -> exists it', path_next s it = Ok it' /\ den s it' es).
Proof.
  intros s N. split; [|split].
  - destruct (has_root s) eqn:R.
    + split; [exact (path_begin_rooted s R)|exact (next_after_root s N R)].
    + exact (path_begin_unrooted s N R).
  - exact (ielems_elements s).
  - intros it x es D. exact (den_next s it x es N D).
Qed.
Print Assumptions iterator_yields_elements.

(* ---- lexically_relative, full statements (no class excluded: the three defects found on the way
   were repaired in /repo by fix: commits fa9d91b, 2a6eff1, 769f60e and the model follows that code) *)

(* NULL exactly when C++17 lexically_relative yields the empty path *)
Theorem relative_null_iff :
  forall p base : str, nonul p -> nonul base ->
    exists r, relative_text p base = Ok r /\ (r = None <-> std_relative p base = None).
Proof. exact relative_null_iff_ok. Qed.
Print Assumptions relative_null_iff.

(* otherwise the result names the same relative path (same root flag, same elements) *)
Theorem relative_equiv :
  forall p base : str, nonul p -> nonul base ->
    exists r, relative_text p base = Ok r /\ relative_agrees r p base.
Proof. exact relative_text_ok. Qed.
Print Assumptions relative_equiv.

(* never reads outside the NUL-terminated arguments; every loop ends within its fuel *)
Theorem relative_reads_in_bounds :
  forall p base : str, nonul p -> nonul base ->
    zix_path_lexically_relative p base <> OOB /\ zix_path_lexically_relative p base <> NoFuel.
Proof.
  intros p base Np Nb. destruct (relative_fits_ok p base Np Nb) as [r [H _]]. rewrite H. split; discriminate.
Qed.
Print Assumptions relative_reads_in_bounds.

(* never writes outside its result: the block holds the text, its NUL, and j untouched zero bytes
   (j = 1 when only up-references are written, else 0) *)
Theorem relative_result_fits :
  forall p base : str, nonul p -> nonul base ->
    exists r, zix_path_lexically_relative p base = Ok r
      /\ match r with
         | None => True
         | Some buf => exists t j, nonul t /\ b_cells buf = (t ++ [0]) ++ repeat 0 j
                                   /\ b_size buf = Z.of_nat (length t + 1 + j)
         end.
Proof. exact relative_fits_ok. Qed.
Print Assumptions relative_result_fits.

(* the repaired witnesses on the faithful model: 'a/' vs 'a/.' = ".", "" vs "a" = "..",
   '//' vs '/a' = ".."; and non-trivial instances of every branch *)
Theorem relative_fixed_witnesses :
  relative_text [97;47] [97;47;46] = Ok (Some [46]) /\
  relative_text [] [97] = Ok (Some [46;46]) /\
  relative_text [47;47] [47;97] = Ok (Some [46;46]).
Proof. vm_compute. repeat split. Qed.
Print Assumptions relative_fixed_witnesses.

Example relative_example :
  relative_text [47;97;47;98] [47;97;47;99;47;100] = Ok (Some [46;46;47;46;46;47;98]) /\
  relative_text [97;47] [97;47;98] = Ok (Some [46;46;47]) /\
  relative_text [47;97] [98] = Ok None /\
  relative_text [97] [97;47;46;46;47;46;46] = Ok None /\
  std_relative [97;47] [97;47;98] = Some [[46;46]; []].
Proof. vm_compute. repeat split. Qed.
