(* C12 — property theorems only (join, lexically_relative, preferred vs C++17). *)
From Coq Require Import ZArith List Bool.
From Zix Require Import PathJoinSpec PathJoinModel.
Import ListNotations.
Local Open Scope Z_scope.

(* the three repaired witnesses, on the faithful model: 'a/' vs 'a/.' = ".", "" vs "a" = "..",
   '//' vs '/a' = ".." *)
Theorem relative_fixed_witnesses :
  relative_text [97;47] [97;47;46] = Ok (Some [46]) /\
  relative_text [] [97] = Ok (Some [46;46]) /\
  relative_text [47;47] [47;97] = Ok (Some [46;46]).
Proof. vm_compute. repeat split. Qed.
Print Assumptions relative_fixed_witnesses.
