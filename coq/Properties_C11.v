(* C11 — property theorems only.
   zix_normal = faithful model of zix_path_lexically_normal (PathNormModel.v),
   std_normal = C++17 lexically_normal (PathNormSpec.v), peqb/peq = path equality (operator==).

   FULL STATEMENT OF THE PROPERTY (REFUTED on the current tree, see zix_normal_refuted_A..D):
     forall s, peq (zix_normal s) (std_normal s) /\ is_normal_form (zix_normal s) = true.       *)
From Coq Require Import ZArith List Bool.
From Zix Require Import PathNormSpec PathNormModel PathNormProofsSpec PathNormProofs.
Import ListNotations.
Local Open Scope Z_scope.

(* ---- the spec itself: std_normal produces normal forms, is idempotent, and leaves every
        normal form unchanged (as a path) -------------------------------------------------- *)

Theorem std_normal_is_normal_form : forall s, is_normal_form (std_normal s) = true.
Proof. exact std_normal_nf. Qed.
Print Assumptions std_normal_is_normal_form.

Theorem std_normal_idempotent : forall s, std_normal (std_normal s) = std_normal s.
Proof. exact std_normal_idem. Qed.
Print Assumptions std_normal_idempotent.

Theorem normal_form_fixed_point : forall s, is_normal_form s = true -> peq (std_normal s) s.
Proof. exact std_normal_fixed. Qed.
Print Assumptions normal_form_fixed_point.

(* hypotheses are satisfiable on a non-trivial string: "../a/b/" is a normal form *)
Example normal_form_example : is_normal_form [DOT; DOT; SEP; 97; SEP; 98; SEP] = true.
Proof. reflexivity. Qed.

(* ---- refutations: one witness in each class (and in no other class) ------------------ *)

Theorem zix_normal_refuted_A :
  exists s, class_A s = true /\ class_B s = false /\ class_C s = false /\ class_D s = false /\
            peqb (zix_normal s) (std_normal s) = false.
Proof.
  exists witness_A. destruct refute_A as (H & _ & P & _). revert H P. vm_compute. intuition congruence.
Qed.
Print Assumptions zix_normal_refuted_A.

Theorem zix_normal_refuted_B :
  exists s, class_B s = true /\ class_A s = false /\ class_C s = false /\ class_D s = false /\
            peqb (zix_normal s) (std_normal s) = false.
Proof.
  exists witness_B. destruct refute_B as (H & _ & _ & P). revert H P. vm_compute. intuition congruence.
Qed.
Print Assumptions zix_normal_refuted_B.

Theorem zix_normal_refuted_C :
  exists s, class_C s = true /\ class_A s = false /\ class_B s = false /\ class_D s = false /\
            peqb (zix_normal s) (std_normal s) = false.
Proof.
  exists witness_C. destruct refute_C as (H & _ & P). revert H P. vm_compute. intuition congruence.
Qed.
Print Assumptions zix_normal_refuted_C.

Theorem zix_normal_refuted_D :
  exists s, class_D s = true /\ class_A s = false /\ class_B s = false /\ class_C s = false /\
            peqb (zix_normal s) (std_normal s) = false /\ is_normal_form (zix_normal s) = false.
Proof.
  exists witness_D. destruct refute_D as (H & _ & P & Q). revert H P Q. vm_compute. intuition congruence.
Qed.
Print Assumptions zix_normal_refuted_D.
