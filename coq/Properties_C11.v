(* C11 — property theorems only.
   zix_normal = faithful model of zix_path_lexically_normal (PathNormModel.v),
   std_normal = C++17 lexically_normal (PathNormSpec.v), peqb/peq = path equality (operator==).

   FULL STATEMENT OF THE PROPERTY (REFUTED on the current tree, see zix_normal_refuted_A..D):
     forall s, peq (zix_normal s) (std_normal s) /\ is_normal_form (zix_normal s) = true.       *)
From Coq Require Import ZArith List Bool.
From Zix Require Import PathNormSpec PathNormModel PathNormProofsSpec PathNormProofsModel PathNormProofsDD PathNormProofsTail PathNormProofsPlain PathNormProofsTotal PathNormProofs.
Import ListNotations.
Local Open Scope Z_scope.

(* ---- the spec itself: std_normal produces normal forms, is idempotent, and leaves every
        normal form unchanged (as a path) -------------------------------------------------- *)

Theorem std_normal_is_normal_form : forall s, is_normal_form (std_normal s) = true.
Proof. exact std_normal_nf. Qed.
Print Assumptions std_normal_is_normal_form.

Theorem std_normal_idempotent : forall s, std_normal (std_normal s) = std_normal s.
Proof. exact std_normal_idem. Qed.
Print Assumptions std_normal_idempotent.

Theorem normal_form_fixed_point : forall s, is_normal_form s = true -> peq (std_normal s) s.
Proof. exact std_normal_fixed. Qed.
Print Assumptions normal_form_fixed_point.

(* hypotheses are satisfiable on a non-trivial string: "../a/b/" is a normal form *)
Example normal_form_example : is_normal_form [DOT; DOT; SEP; 97; SEP; 98; SEP] = true.
Proof. reflexivity. Qed.

(* ---- the model is total: the fuel (len+2)^2 of the dot-dot pass and len+1 of the other loops
        is never exhausted, for EVERY input string, the four defective classes included -------- *)
Theorem zix_normal_terminates : forall s, zlen s + 2 < 2 ^ 64 -> zix_normal_opt s <> None.
Proof. exact zix_normal_total. Qed.
Print Assumptions zix_normal_terminates.

(* ---- refutations: one witness in each class (and in no other class) ------------------ *)

Theorem zix_normal_refuted_A :
  exists s, class_A s = true /\ class_B s = false /\ class_C s = false /\ class_D s = false /\
            peqb (zix_normal s) (std_normal s) = false.
Proof.
  exists witness_A. destruct refute_A as (H & _ & P & _). revert H P. vm_compute. intuition congruence.
Qed.
Print Assumptions zix_normal_refuted_A.

Theorem zix_normal_refuted_B :
  exists s, class_B s = true /\ class_A s = false /\ class_C s = false /\ class_D s = false /\
            peqb (zix_normal s) (std_normal s) = false.
Proof.
  exists witness_B. destruct refute_B as (H & _ & _ & P). revert H P. vm_compute. intuition congruence.
Qed.
Print Assumptions zix_normal_refuted_B.

Theorem zix_normal_refuted_C :
  exists s, class_C s = true /\ class_A s = false /\ class_B s = false /\ class_D s = false /\
            peqb (zix_normal s) (std_normal s) = false.
Proof.
  exists witness_C. destruct refute_C as (H & _ & P). revert H P. vm_compute. intuition congruence.
Qed.
Print Assumptions zix_normal_refuted_C.

Theorem zix_normal_refuted_D :
  exists s, class_D s = true /\ class_A s = false /\ class_B s = false /\ class_C s = false /\
            peqb (zix_normal s) (std_normal s) = false /\ is_normal_form (zix_normal s) = false.
Proof.
  exists witness_D. destruct refute_D as (H & _ & P & Q). revert H P Q. vm_compute. intuition congruence.
Qed.
Print Assumptions zix_normal_refuted_D.

(* ---- the positive part ---------------------------------------------------------------------
   zix_normal_partial: for EVERY C string of  plain s = ~A /\ ~B /\ ~C /\ ~D  (the complement of the
   four finding classes) whose length fits a size_t allocation (len + 2 < 2^64), the index-faithful
   model of the four passes does not run out of fuel and returns EXACTLY the text of std_normal,
   hence the same path, in normal form.  Together with zix_normal_refuted_A..D this is the
   property's statement with the extra hypothesis `plain s`, which is precisely the decidable
   predicate that excludes the known findings. *)

Theorem zix_normal_partial : forall s, c_string s -> zlen s + 2 < 2 ^ 64 -> plain s = true ->
  zix_normal_opt s = Some (std_normal s) /\
  peq (zix_normal s) (std_normal s) /\ is_normal_form (zix_normal s) = true.
Proof.
  intros s Hc HW H. pose proof (zix_normal_plain s Hc HW H) as E. split; [exact E|].
  unfold zix_normal. rewrite E. split; [split; reflexivity|apply std_normal_nf].
Qed.
Print Assumptions zix_normal_partial.

(* the sub-class without any field ending in ".." needs no bound on the length *)
Theorem zix_normal_partial_no_dotdot : forall s, c_string s -> no_dotdot_tail s = true ->
  zix_normal_opt s = Some (std_normal s).
Proof. exact zix_normal_on_class. Qed.
Print Assumptions zix_normal_partial_no_dotdot.

(* the hypotheses are satisfiable on non-trivial strings: "/./a//.b/./c./" and "x/." *)
Example partial_example_1 :
  no_dotdot_tail [SEP; DOT; SEP; 97; SEP; SEP; DOT; 98; SEP; DOT; SEP; 99; DOT; SEP] = true /\
  zix_normal [SEP; DOT; SEP; 97; SEP; SEP; DOT; 98; SEP; DOT; SEP; 99; DOT; SEP]
  = [SEP; 97; SEP; DOT; 98; SEP; 99; DOT; SEP].
Proof. vm_compute. split; reflexivity. Qed.
Example partial_example_2 : no_dotdot_tail [120; SEP; DOT] = true /\ zix_normal [120; SEP; DOT] = [120; SEP].
Proof. vm_compute. split; reflexivity. Qed.
(* "/../a/b/../../c/.." is plain, contains ".." under the root, after names, and at the end *)
Example partial_example_3 :
  plain [SEP; DOT; DOT; SEP; 97; SEP; 98; SEP; DOT; DOT; SEP; DOT; DOT; SEP; 99; SEP; DOT; DOT] = true /\
  zix_normal [SEP; DOT; DOT; SEP; 97; SEP; 98; SEP; DOT; DOT; SEP; DOT; DOT; SEP; 99; SEP; DOT; DOT] = [SEP].
Proof. vm_compute. split; reflexivity. Qed.

(* the proved class lies inside `plain` (none of the four finding classes) *)
Theorem no_dotdot_tail_is_plain : forall s, no_dotdot_tail s = true -> plain s = true.
Proof. exact no_dotdot_tail_plain. Qed.
Print Assumptions no_dotdot_tail_is_plain.

(* idempotence on the proved class: plain is closed under normalisation (plain_closed), so the
   model returns its own result unchanged.  The second bound is on the length of the result (the
   allocation of the second call); |std_normal s| <= |s| is not proved, hence the hypothesis. *)
Theorem plain_closed : forall s, plain s = true -> plain (std_normal s) = true.
Proof. exact std_normal_plain. Qed.
Print Assumptions plain_closed.

Corollary zix_normal_idempotent_partial : forall s, c_string s -> zlen s + 2 < 2 ^ 64 ->
  zlen (std_normal s) + 2 < 2 ^ 64 -> plain s = true ->
  zix_normal (zix_normal s) = zix_normal s.
Proof. exact zix_normal_idem_plain. Qed.
Print Assumptions zix_normal_idempotent_partial.

(* on the sub-class without any field ending in ".." no length bound is needed *)
Corollary zix_normal_idempotent_no_dotdot : forall s, c_string s -> no_dotdot_tail s = true ->
  zix_normal (zix_normal s) = zix_normal s.
Proof. exact zix_normal_idem_on_class. Qed.
Print Assumptions zix_normal_idempotent_no_dotdot.

(* FULL idempotence statements, REFUTED outside the proved class (inside the finding classes):
     forall s, zix_normal (zix_normal s) = zix_normal s                 -- "//./" -> "/./" -> "/"
     forall s, is_normal_form s = true -> peq (zix_normal s) s          -- "a../" -> "a.."        *)
Theorem zix_normal_idempotent_refuted :
  exists s, class_A s = true /\ zix_normal (zix_normal s) <> zix_normal s.
Proof.
  exists witness_idem. destruct refute_idem as (E1 & E2 & A). split; [exact A|].
  rewrite E2, E1. discriminate.
Qed.
Print Assumptions zix_normal_idempotent_refuted.

Theorem zix_normal_fixed_point_refuted :
  exists s, class_C s = true /\ is_normal_form s = true /\ peqb (zix_normal s) s = false.
Proof.
  exists witness_C. destruct refute_fixed as (N & P). destruct refute_C as (O & _).
  split; [|split; assumption]. revert O. vm_compute. intuition congruence.
Qed.
Print Assumptions zix_normal_fixed_point_refuted.
