(* C11 — property theorems only.
   zix_normal = faithful model of zix_path_lexically_normal as repaired by the four fix: commits
   (PathNormModel.v), std_normal = C++17 lexically_normal (PathNormSpec.v), peq = path equality
   (operator==), is_normal_form = the five syntactic conditions of the property text.

   The property's full statement is the theorem zix_normal_correct below, for every C string
   whose allocation request len + 2 does not wrap. *)
From Coq Require Import ZArith List Bool.
From Zix Require Import PathNormSpec PathNormModel PathNormProofsSpec PathNormProofsModel PathNormProofsDD PathNormProofsTail PathNormProofsLen PathNormProofsPlain PathNormProofs.
Import ListNotations.
Local Open Scope Z_scope.

(* ---- the spec itself: std_normal produces normal forms, is idempotent, and leaves every
        normal form unchanged (as a path) -------------------------------------------------- *)

Theorem std_normal_is_normal_form : forall s, is_normal_form (std_normal s) = true.
Proof. exact std_normal_nf. Qed.
Print Assumptions std_normal_is_normal_form.

Theorem std_normal_idempotent : forall s, std_normal (std_normal s) = std_normal s.
Proof. exact std_normal_idem. Qed.
Print Assumptions std_normal_idempotent.

Theorem normal_form_fixed_point : forall s, is_normal_form s = true -> peq (std_normal s) s.
Proof. exact std_normal_fixed. Qed.
Print Assumptions normal_form_fixed_point.

(* hypotheses are satisfiable on a non-trivial string: "../a/b/" is a normal form *)
Example normal_form_example : is_normal_form [DOT; DOT; SEP; 97; SEP; 98; SEP] = true.
Proof. reflexivity. Qed.

(* ---- the code: FULL statement -----------------------------------------------------------------
   For EVERY C string s (no NUL byte) with len + 2 < 2^64: the index-faithful model of the four
   passes (root copy, dot/separator pass, dot-dot pass with memmove and restart-from-0, root
   dot-dot pass, tail rules) does not run out of fuel and returns EXACTLY the text of
   std_normal s; hence the same path as the C++17 lexically_normal, in normal form. *)
Theorem zix_normal_correct : forall s, c_string s -> zlen s + 2 < 2 ^ 64 ->
  zix_normal_opt s = Some (std_normal s) /\
  peq (zix_normal s) (std_normal s) /\ is_normal_form (zix_normal s) = true.
Proof.
  intros s Hc HW. pose proof (zix_normal_all s Hc HW) as E. split; [exact E|].
  unfold zix_normal. rewrite E. split; [split; reflexivity|apply std_normal_nf].
Qed.
Print Assumptions zix_normal_correct.

Theorem zix_normal_terminates : forall s, c_string s -> zlen s + 2 < 2 ^ 64 -> zix_normal_opt s <> None.
Proof. intros s Hc HW. rewrite (zix_normal_all s Hc HW). discriminate. Qed.
Print Assumptions zix_normal_terminates.

(* normalising an already normal path returns it unchanged (as a path) *)
Theorem zix_normal_fixed_point : forall s, c_string s -> zlen s + 2 < 2 ^ 64 ->
  is_normal_form s = true -> peq (zix_normal s) s.
Proof.
  intros s Hc HW Hn. unfold zix_normal. rewrite (zix_normal_all s Hc HW). apply std_normal_fixed. exact Hn.
Qed.
Print Assumptions zix_normal_fixed_point.

(* idempotence (the result is never longer than the input, std_normal_length, so the allocation
   of the second call fits as well) *)
Theorem std_normal_not_longer : forall s, (length (std_normal s) <= length s)%nat.
Proof. exact std_normal_length. Qed.
Print Assumptions std_normal_not_longer.

Theorem zix_normal_idempotent : forall s, c_string s -> zlen s + 2 < 2 ^ 64 ->
  zix_normal (zix_normal s) = zix_normal s.
Proof. exact zix_normal_idem_full. Qed.
Print Assumptions zix_normal_idempotent.

(* the witnesses of the four former finding classes (and of the former idempotence failure),
   computed by the model of the repaired code *)
Example former_witnesses_now_correct :
  zix_normal witness_A = [SEP; 97] /\ zix_normal witness_B = [120; SEP] /\
  zix_normal witness_C = witness_C /\ zix_normal witness_D = [DOT; DOT] /\
  zix_normal witness_D2 = [SEP] /\ zix_normal witness_idem = [SEP].
Proof. destruct former_witnesses as (A & B0 & C & D & D2 & I & _). repeat split; assumption. Qed.
