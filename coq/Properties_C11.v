(* C11 — property theorems only.
   zix_normal = faithful model of zix_path_lexically_normal (PathNormModel.v),
   std_normal = C++17 lexically_normal (PathNormSpec.v), peqb/peq = path equality (operator==).

   FULL STATEMENT OF THE PROPERTY (REFUTED on the current tree, see zix_normal_refuted_A..D):
     forall s, peq (zix_normal s) (std_normal s) /\ is_normal_form (zix_normal s) = true.       *)
From Coq Require Import ZArith List Bool.
From Zix Require Import PathNormSpec PathNormModel PathNormProofs.
Import ListNotations.
Local Open Scope Z_scope.

(* ---- refutations: one witness in each class (and in no other class) ------------------ *)

Theorem zix_normal_refuted_A :
  exists s, class_A s = true /\ class_B s = false /\ class_C s = false /\ class_D s = false /\
            peqb (zix_normal s) (std_normal s) = false.
Proof.
  exists witness_A. destruct refute_A as (H & _ & P & _). revert H P. vm_compute. intuition congruence.
Qed.
Print Assumptions zix_normal_refuted_A.

Theorem zix_normal_refuted_B :
  exists s, class_B s = true /\ class_A s = false /\ class_C s = false /\ class_D s = false /\
            peqb (zix_normal s) (std_normal s) = false.
Proof.
  exists witness_B. destruct refute_B as (H & _ & _ & P). revert H P. vm_compute. intuition congruence.
Qed.
Print Assumptions zix_normal_refuted_B.

Theorem zix_normal_refuted_C :
  exists s, class_C s = true /\ class_A s = false /\ class_B s = false /\ class_D s = false /\
            peqb (zix_normal s) (std_normal s) = false.
Proof.
  exists witness_C. destruct refute_C as (H & _ & P). revert H P. vm_compute. intuition congruence.
Qed.
Print Assumptions zix_normal_refuted_C.

Theorem zix_normal_refuted_D :
  exists s, class_D s = true /\ class_A s = false /\ class_B s = false /\ class_C s = false /\
            peqb (zix_normal s) (std_normal s) = false /\ is_normal_form (zix_normal s) = false.
Proof.
  exists witness_D. destruct refute_D as (H & _ & P & Q). revert H P Q. vm_compute. intuition congruence.
Qed.
Print Assumptions zix_normal_refuted_D.
