(* C11 — the normal form is never longer than the path: |std_normal s| <= |s|.
   (Used to drop the extra allocation bound from the idempotence theorem.) *)
From Coq Require Import ZArith List Bool Lia.
From Zix Require Import PathNormSpec PathNormProofsSpec PathNormProofsModel.
Import ListNotations.
Local Open Scope Z_scope.

Definition jl (es : list elem) : nat := length (join_elems es).

Lemma jl_snoc : forall l x, jl (l ++ [x]) = (match l with [] => 0 | _ => jl l + 1 end + length x)%nat.
Proof.
  intros l x. unfold jl. rewrite join_snoc, app_length. f_equal.
  destruct l as [|a l'] using rev_ind; [reflexivity|]. clear IHl'.
  rewrite body_snoc, join_snoc, !app_length. cbn [length].
  destruct (l' ++ [a]) eqn:E; [destruct l'; discriminate|]. lia.
Qed.

Lemma join_fields : forall s, join_elems (fields s) = s.
Proof.
  induction s as [|c s IH]; [reflexivity|]. cbn [fields].
  pose proof (fields_nonnil s) as N. destruct (fields s) as [|f fs] eqn:E; [congruence|].
  destruct (c =? SEP) eqn:Ec.
  - apply Z.eqb_eq in Ec. subst c. change (join_elems ([] :: f :: fs)) with ([] ++ SEP :: join_elems (f :: fs)).
    rewrite IH. reflexivity.
  - destruct fs as [|g fs'].
    + cbn [join_elems] in *. rewrite IH. reflexivity.
    + change (join_elems ((c :: f) :: g :: fs')) with ((c :: f) ++ SEP :: join_elems (g :: fs')).
      change (join_elems (f :: g :: fs')) with (f ++ SEP :: join_elems (g :: fs')) in IH.
      cbn [app]. rewrite IH. reflexivity.
Qed.

Lemma body_filter_le : forall (p : elem -> bool) X, (length (body (filter p X)) <= length (body X))%nat.
Proof.
  induction X as [|x X IH]; [cbn; lia|]. cbn [filter]. destruct (p x).
  - unfold body in *. cbn [map concat]. rewrite !app_length. lia.
  - unfold body in *. cbn [map concat]. rewrite app_length. lia.
Qed.

Lemma jl_elems_of : forall F, F <> [] -> (jl (elems_of F) <= jl F)%nat.
Proof.
  intros F N. destruct (exists_last N) as (X & l & ->). unfold elems_of.
  rewrite removelast_app1, last_app1. unfold jl at 2. rewrite join_snoc, app_length.
  pose proof (body_filter_le (fun e => negb (is_empty e)) X) as L.
  destruct (filter (fun e => negb (is_empty e)) X) as [|n names] eqn:EX.
  - destruct (is_empty l); unfold jl; cbn [join_elems length]; lia.
  - unfold jl. rewrite join_snoc, app_length. lia.
Qed.

(* size of a machine state: the text it stands for, incl. the separator that is due *)
Definition ssz (st : list elem * bool) : nat :=
  let '(out, trail) := st in
  (jl (rev out) + (if trail then match out with [] => 0 | _ => 1 end else 0))%nat.

Lemma jl_rev_cons : forall x out, jl (rev (x :: out)) = (match out with [] => 0 | _ => jl (rev out) + 1 end + length x)%nat.
Proof.
  intros x out. cbn [rev]. rewrite jl_snoc. destruct out as [|y out']; [reflexivity|].
  destruct (rev (y :: out')) eqn:E; [|reflexivity].
  apply (f_equal (@length elem)) in E. rewrite rev_length in E. discriminate.
Qed.

Lemma step_size : forall R p out trail n,
  (p = [] -> out = []) -> (ssz (out, trail) <= jl p)%nat ->
  (ssz (norm_step R (out, trail) n) <= jl (p ++ [n]))%nat /\
  (fst (norm_step R (out, trail) n) = [] \/ True).
Proof.
  intros R p out trail n Hp H. split; [|right; exact I]. rewrite jl_snoc.
  assert (Hj : (jl (rev out) <= jl p)%nat) by (cbn [ssz] in H; lia).
  unfold norm_step. destruct (is_empty n || is_dot n) eqn:E1.
  - cbn [ssz] in *. destruct p as [|a p']; [rewrite (Hp eq_refl); cbn; lia|]. destruct out; lia.
  - destruct (is_dotdot n) eqn:E2.
    + apply is_dotdot_eq in E2. subst n. cbn [length].
      destruct out as [|x out'].
      * destruct R; cbn [ssz rev jl join_elems length app]; destruct p; lia.
      * destruct (is_dotdot x).
        -- cbn [ssz]. rewrite jl_rev_cons. cbn [length]. destruct p as [|a p']; [specialize (Hp eq_refl); discriminate|]. lia.
        -- cbn [ssz]. rewrite jl_rev_cons in Hj. destruct out' as [|y out'']; [cbn; lia|].
           destruct p as [|a p']; [specialize (Hp eq_refl); discriminate|]. lia.
    + cbn [ssz]. rewrite jl_rev_cons. destruct p as [|a p']; [rewrite (Hp eq_refl); lia|]. destruct out; lia.
Qed.

Lemma fold_size : forall R es p out trail,
  (p = [] -> out = []) -> (ssz (out, trail) <= jl p)%nat ->
  (ssz (fold_left (norm_step R) es (out, trail)) <= jl (p ++ es))%nat.
Proof.
  induction es as [|n es IH]; intros p out trail Hp H; [rewrite app_nil_r; exact H|].
  cbn [fold_left]. destruct (step_size R p out trail n Hp H) as [S1 _].
  destruct (norm_step R (out, trail) n) as [o1 t1].
  replace (p ++ n :: es) with ((p ++ [n]) ++ es) by (rewrite <- app_assoc; reflexivity).
  apply IH; [|exact S1]. intro A. destruct p; discriminate.
Qed.

Lemma std_normal_length : forall s, (length (std_normal s) <= length s)%nat.
Proof.
  intro s. destruct s as [|c s'] eqn:Es; [cbn; lia|]. rewrite <- Es.
  assert (Hs1 : (1 <= length s)%nat) by (rewrite Es; cbn; lia).
  assert (Estd : std_normal s = render (has_root s) (normal_elems (has_root s) (elems s))) by (rewrite Es; reflexivity).
  rewrite Estd.
  (* the elements fit into the string *)
  assert (HA : ((if has_root s then 1 else 0) + jl (elems s) <= length s)%nat).
  { assert (Ls : length s = jl (fields s)) by (unfold jl; rewrite join_fields; reflexivity).
    rewrite Ls. rewrite elems_unfold.
    destruct (has_root s) eqn:R.
    - rewrite Es in R |- *. cbn in R. apply Z.eqb_eq in R. subst c. cbn [fields]. rewrite Z.eqb_refl.
      pose proof (fields_nonnil s') as N. rewrite elems_of_cons_empty by exact N.
      pose proof (jl_elems_of (fields s') N) as L.
      destruct (fields s') as [|f fs]; [congruence|].
      assert (E1 : jl ([] :: f :: fs) = S (jl (f :: fs))) by reflexivity.
      rewrite E1. lia.
    - pose proof (jl_elems_of (fields s) (fields_nonnil s)) as L. lia. }
  pose proof (fold_size (has_root s) (elems s) [] [] false (fun _ => eq_refl) (Nat.le_0_l _)) as F. cbn [app] in F.
  unfold normal_elems. destruct (fold_left (norm_step (has_root s)) (elems s) ([], false)) as [out trail].
  unfold norm_finish, render. destruct out as [|x out'].
  - destruct (has_root s); cbn; lia.
  - cbn [ssz] in F. rewrite app_length.
    assert (Hr : (length (if has_root s then [SEP] else []) = if has_root s then 1 else 0)%nat) by (destruct (has_root s); reflexivity).
    rewrite Hr. destruct (is_dotdot x); [fold (jl (rev (x :: out'))); lia|].
    destruct trail; [|fold (jl (rev (x :: out'))); lia].
    fold (jl (rev (x :: out') ++ [[]])). rewrite jl_snoc. cbn [length].
    destruct (rev (x :: out')) eqn:E; [apply (f_equal (@length elem)) in E; rewrite rev_length in E; discriminate|].
    rewrite <- E in *. lia.
Qed.
