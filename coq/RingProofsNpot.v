(* C05: next_power_of_two (bit smearing) returns the least power of two >= size, for every
   1 <= size <= 2^31; and 0 for size = 0 or size > 2^31.  Bit-level proof. *)
From Coq Require Import ZArith List Bool Lia.
From Zix Require Import RingSpec RingModel.
Import ListNotations.
Local Open Scope Z_scope.

Definition is_least_pow2_ge (p s : Z) : Prop :=
  (exists k, 0 <= k /\ p = 2 ^ k) /\ s <= p /\ forall j, 0 <= j -> s <= 2 ^ j -> p <= 2 ^ j.

Lemma least_pow2_unique p1 p2 s : is_least_pow2_ge p1 s -> is_least_pow2_ge p2 s -> p1 = p2.
Proof.
  intros [[k1 [Hk1 E1]] [L1 M1]] [[k2 [Hk2 E2]] [L2 M2]].
  pose proof (M1 k2 Hk2). pose proof (M2 k1 Hk1). subst. lia.
Qed.

(* y "covers reach R of x": bit i of y is set iff one of bits i .. i+R of x is set *)
Definition covers (x y R : Z) : Prop :=
  forall i, 0 <= i ->
    (Z.testbit y i = true <-> exists j, 0 <= j <= R /\ Z.testbit x (i + j) = true).

Lemma covers_0 x : covers x x 0.
Proof.
  intros i Hi. split.
  - intros H. exists 0. split; [lia|]. now rewrite Z.add_0_r.
  - intros [j [Hj H]]. assert (j = 0) by lia. subst. now rewrite Z.add_0_r in H.
Qed.

Lemma covers_step x y R :
  0 <= R -> covers x y R -> covers x (Z.lor y (Z.shiftr y (R + 1))) (2 * R + 1).
Proof.
  intros HR H i Hi.
  rewrite Z.lor_spec, Z.shiftr_spec by lia.
  rewrite orb_true_iff, (H i Hi), (H (i + (R + 1))) by lia.
  split.
  - intros [[j [Hj Hb]] | [j [Hj Hb]]].
    + exists j. split; [lia|exact Hb].
    + exists (R + 1 + j). split; [lia|].
      replace (i + (R + 1 + j)) with (i + (R + 1) + j) by lia. exact Hb.
  - intros [j [Hj Hb]].
    destruct (Z_le_gt_dec j R) as [Hle|Hgt].
    + left. exists j. split; [lia|exact Hb].
    + right. exists (j - (R + 1)). split; [lia|].
      replace (i + (R + 1) + (j - (R + 1))) with (i + j) by lia. exact Hb.
Qed.

Definition smear (x : Z) : Z :=
  let s := x in
  let s := Z.lor s (Z.shiftr s 1) in
  let s := Z.lor s (Z.shiftr s 2) in
  let s := Z.lor s (Z.shiftr s 4) in
  let s := Z.lor s (Z.shiftr s 8) in
  let s := Z.lor s (Z.shiftr s 16) in
  s.

Lemma npot_unfold s : next_power_of_two s = u32 (smear (u32 (s - 1)) + 1).
Proof. reflexivity. Qed.

Lemma smear_covers x : covers x (smear x) 31.
Proof.
  unfold smear.
  pose proof (covers_0 x) as H0.
  apply (covers_step x _ 0) in H0; [|lia].
  apply (covers_step x _ 1) in H0; [|lia].
  apply (covers_step x _ 3) in H0; [|lia].
  apply (covers_step x _ 7) in H0; [|lia].
  apply (covers_step x _ 15) in H0; [|lia].
  exact H0.
Qed.

(* after smearing, bit i is set iff i <= msb *)
Lemma smear_ones x : 0 < x < 2 ^ 32 -> smear x = Z.ones (Z.log2 x + 1).
Proof.
  intros [Hpos Hlt].
  assert (Hm : 0 <= Z.log2 x < 32).
  { split; [apply Z.log2_nonneg|]. apply Z.log2_lt_pow2; lia. }
  apply Z.bits_inj'. intros i Hi.
  pose proof (smear_covers x i Hi) as Hc.
  destruct (Z_le_gt_dec i (Z.log2 x)) as [Hle|Hgt].
  - rewrite Z.ones_spec_low by lia.
    apply Hc. exists (Z.log2 x - i). split; [lia|].
    replace (i + (Z.log2 x - i)) with (Z.log2 x) by lia.
    apply Z.bit_log2. exact Hpos.
  - rewrite Z.ones_spec_high by lia.
    apply not_true_is_false. intros Ht. apply Hc in Ht. destruct Ht as [j [Hj Hb]].
    rewrite Z.bits_above_log2 in Hb by lia. discriminate.
Qed.

Lemma smear_0 : smear 0 = 0.
Proof. reflexivity. Qed.

Lemma u32_small x : 0 <= x < 2 ^ 32 -> u32 x = x.
Proof. intros H. unfold u32. apply Z.mod_small. exact H. Qed.

(* the value computed for every uint32_t argument except 0 *)
Lemma npot_value s :
  2 <= s < 2 ^ 32 -> next_power_of_two s = u32 (2 ^ (Z.log2 (s - 1) + 1)).
Proof.
  intros Hs. rewrite npot_unfold.
  rewrite (u32_small (s - 1)) by lia.
  rewrite smear_ones by lia.
  rewrite Z.ones_equiv. f_equal. lia.
Qed.

Lemma npot_1 : next_power_of_two 1 = 1.
Proof. reflexivity. Qed.

Lemma npot_correct_lemma s : 1 <= s <= 2 ^ 31 -> is_least_pow2_ge (next_power_of_two s) s.
Proof.
  intros Hs.
  destruct (Z.eq_dec s 1) as [->|Hne].
  { rewrite npot_1. split; [exists 0; split; [lia|reflexivity]|]. split; [lia|].
    intros j Hj _. change 1 with (2 ^ 0). apply Z.pow_le_mono_r; lia. }
  rewrite npot_value by lia.
  set (m := Z.log2 (s - 1)).
  assert (Hspec : 2 ^ m <= s - 1 < 2 ^ (Z.succ m)) by (apply Z.log2_spec; lia).
  assert (Hm0 : 0 <= m) by apply Z.log2_nonneg.
  assert (Hm : m < 31).
  { apply Z.log2_lt_pow2; lia. }
  replace (Z.succ m) with (m + 1) in Hspec by lia.
  assert (Hp : 2 ^ (m + 1) <= 2 ^ 31) by (apply Z.pow_le_mono_r; lia).
  rewrite u32_small by (split; [apply Z.pow_nonneg; lia | lia]).
  split; [exists (m + 1); split; [lia|reflexivity]|].
  split; [lia|].
  intros j Hj Hle.
  apply Z.pow_le_mono_r; [lia|].
  assert (m < j); [|lia].
  apply (Z.pow_lt_mono_r_iff 2); lia.
Qed.

(* sizes outside the property: the function returns 0 (no ring can work) *)
Lemma npot_outside_lemma :
  next_power_of_two 0 = 0 /\ forall s, 2 ^ 31 < s < 2 ^ 32 -> next_power_of_two s = 0.
Proof.
  split; [reflexivity|].
  intros s Hs. rewrite npot_value by lia.
  assert (Z.log2 (s - 1) = 31).
  { apply Z.log2_unique; lia. }
  rewrite H. reflexivity.
Qed.

(* the result is a power of two 2^k with k <= 31: what the ring invariant needs *)
Lemma npot_pow2 s : 1 <= s <= 2 ^ 31 -> exists k, 0 <= k <= 31 /\ next_power_of_two s = 2 ^ k.
Proof.
  intros Hs.
  destruct (Z.eq_dec s 1) as [->|Hne]; [exists 0; split; [lia|reflexivity]|].
  rewrite npot_value by lia.
  assert (0 <= Z.log2 (s - 1)) by apply Z.log2_nonneg.
  assert (Z.log2 (s - 1) < 31) by (apply Z.log2_lt_pow2; lia).
  exists (Z.log2 (s - 1) + 1). split; [lia|].
  apply u32_small. split; [apply Z.pow_nonneg; lia|].
  apply Z.pow_lt_mono_r; lia.
Qed.

(* the spec's capacity (search from 1 by doubling) names the same number *)
Lemma pow2_ge_least s fuel : forall i,
  0 <= i -> (i = 0 \/ 2 ^ (i - 1) < s) -> s <= 2 ^ (i + Z.of_nat fuel) ->
  is_least_pow2_ge (pow2_ge fuel (2 ^ i) s) s.
Proof.
  induction fuel as [|f IH]; intros i Hi Hlow Hup.
  - cbn [pow2_ge]. replace (i + Z.of_nat 0) with i in Hup by lia.
    split; [exists i; split; [lia|reflexivity]|]. split; [lia|].
    intros j Hj Hle. apply Z.pow_le_mono_r; [lia|].
    destruct Hlow as [->|Hlow]; [lia|].
    assert (i - 1 < j); [|lia]. apply (Z.pow_lt_mono_r_iff 2); lia.
  - cbn [pow2_ge]. destruct (s <=? 2 ^ i) eqn:E.
    + apply Z.leb_le in E.
      split; [exists i; split; [lia|reflexivity]|]. split; [lia|].
      intros j Hj Hle. apply Z.pow_le_mono_r; [lia|].
      destruct Hlow as [->|Hlow]; [lia|].
      assert (i - 1 < j); [|lia]. apply (Z.pow_lt_mono_r_iff 2); lia.
    + apply Z.leb_gt in E.
      replace (2 * 2 ^ i) with (2 ^ (i + 1)) by (rewrite Z.pow_add_r by lia; lia).
      apply IH; [lia| |].
      * right. replace (i + 1 - 1) with i by lia. exact E.
      * replace (i + 1 + Z.of_nat f) with (i + Z.of_nat (S f)) by lia. exact Hup.
Qed.

Lemma spec_capacity_least s : 1 <= s <= 2 ^ 31 -> is_least_pow2_ge (spec_capacity s + 1) s.
Proof.
  intros Hs. unfold spec_capacity.
  replace (pow2_ge 32 1 s - 1 + 1) with (pow2_ge 32 (2 ^ 0) s) by (change (2 ^ 0) with 1; lia).
  apply pow2_ge_least; [lia|now left|].
  change (0 + Z.of_nat 32) with 32. lia.
Qed.

Lemma npot_spec_capacity s : 1 <= s <= 2 ^ 31 -> next_power_of_two s - 1 = spec_capacity s.
Proof.
  intros Hs.
  pose proof (least_pow2_unique _ _ _ (npot_correct_lemma s Hs) (spec_capacity_least s Hs)). lia.
Qed.
