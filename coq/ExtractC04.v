Require Extraction.
Require Import ExtrOcamlBasic.
From Zix Require Import RingConcModel.
Separate Extraction RingConcModel.step RingConcModel.run RingConcModel.init RingConcModel.faithful
  RingConcModel.wprog_of_list RingConcModel.rprog_of_list RingConcModel.committed RingConcModel.contents
  RingConcModel.stream_ok RingConcModel.read_bytes.
