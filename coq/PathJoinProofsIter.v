(* C12 — lemmas, part 2: the element iterator (zix_path_begin / zix_path_next), the mismatch scan
   and the up-reference count, related to the spec's `elements`. *)
From Coq Require Import ZArith List Bool Lia ZifyBool Arith.
From Zix Require Import PathJoinSpec PathJoinModel PathJoinProofs.
Import ListNotations.
Local Open Scope Z_scope.

(* ---------------------------------------------------------------- list level *)
(* the elements the iterator still yields when it stands at a suffix t *)
Definition tail_elems (t : str) : list str :=
  match t with [] => [] | _ => split_aux t [] true end.

Lemma split_aux_false t cur :
  split_aux t cur false = (cur ++ name_of t) :: tail_elems (skipn (length (name_of t)) t).
Proof.
  revert cur; induction t as [|c t IH]; intros cur.
  - cbn. now rewrite app_nil_r.
  - cbn [split_aux name_of]. destruct (is_sep c) eqn:Ec.
    + cbn [length skipn tail_elems app]. rewrite app_nil_r. cbn [split_aux]. rewrite Ec. reflexivity.
    + rewrite IH. cbn [length skipn]. rewrite <- app_assoc. reflexivity.
Qed.

Lemma split_aux_true t :
  split_aux t [] true = match drop_seps t with [] => [[]] | t' => split_aux t' [] false end.
Proof.
  induction t as [|c t IH]; [reflexivity|].
  cbn [split_aux drop_seps]. destruct (is_sep c) eqn:Ec; [exact IH|].
  cbn [split_aux]. rewrite Ec. reflexivity.
Qed.

Lemma tail_elems_step t :
  t <> [] ->
  tail_elems t = name_of (drop_seps t)
                 :: tail_elems (skipn (length (name_of (drop_seps t))) (drop_seps t)).
Proof.
  intros H. destruct t as [|c t]; [congruence|]. unfold tail_elems at 1.
  rewrite split_aux_true. destruct (drop_seps (c :: t)) eqn:E; [reflexivity|].
  rewrite <- E. rewrite split_aux_false. reflexivity.
Qed.

Lemma split_aux_length t cur insep : (length (split_aux t cur insep) <= S (length t))%nat.
Proof.
  revert cur insep; induction t as [|c t IH]; intros cur insep; cbn [split_aux length]; [lia|].
  destruct (is_sep c); [destruct insep|].
  - specialize (IH [] true). lia.
  - specialize (IH [] true). cbn [length]. lia.
  - specialize (IH (cur ++ [c]) false). lia.
Qed.

Lemma tail_elems_length t : (length (tail_elems t) <= length t)%nat.
Proof.
  destruct t as [|c t]; [simpl; lia|]. unfold tail_elems. cbn [split_aux length].
  destruct (is_sep c); apply split_aux_length.
Qed.

(* iterator-level element list of a whole path (the root-directory element left out) *)
Definition ielems (s : str) : list str :=
  if has_root s then tail_elems (tl s) else tail_elems s.

(* a rooted path made only of two or more separators: the iterator yields one empty element
   where C++17 has none *)
Definition root_only_multi (s : str) : bool :=
  has_root s && negb (is_nil (tl s)) && is_nil (drop_seps s).

Lemma ielems_elements s :
  ielems s = if root_only_multi s then [[]] else elements s.
Proof.
  unfold ielems, root_only_multi, elements.
  destruct s as [|c t]; [reflexivity|]. cbn [has_root tl].
  destruct (is_sep c) eqn:Ec; cbn [andb].
  - cbn [drop_seps]. rewrite Ec.
    destruct t as [|d t']; [reflexivity|]. cbn [is_nil negb andb].
    unfold tail_elems. rewrite split_aux_true.
    destruct (drop_seps (d :: t')); reflexivity.
  - cbn [drop_seps]. rewrite Ec. unfold tail_elems. cbn [split_aux]. rewrite Ec. reflexivity.
Qed.

(* ---------------------------------------------------------------- denotation of an iterator *)
Definition file_den (s : str) (b e : nat) (es : list str) : Prop :=
  (b <= length s)%nat
  /\ e = (b + length (name_of (skipn b s)))%nat
  /\ match skipn b s with c :: _ => is_sep c = false | [] => True end
  /\ es = name_of (skipn b s) :: tail_elems (skipn e s).

Definition den (s : str) (it : iter) (es : list str) : Prop :=
  match it_state it with
  | PEND => es = [] /\ it_range it = (slen s, slen s)
  | FILE_NAME => exists b e, it_range it = (Z.of_nat b, Z.of_nat e) /\ file_den s b e es
  | _ => False
  end.

Lemma skipn_skipn {A} x y (l : list A) : skipn x (skipn y l) = skipn (y + x) l.
Proof. revert l; induction y; intros l; [reflexivity|]. destruct l; [now rewrite !skipn_nil|]. apply IHy. Qed.

Lemma file_den_props s b e es :
  file_den s b e es ->
  (b <= e <= length s)%nat
  /\ firstn (e - b) (skipn b s) = name_of (skipn b s)
  /\ (e = b -> b = length s)
  /\ skipn b s = name_of (skipn b s) ++ skipn e s.
Proof.
  intros [Hb [He [Hh Hes]]].
  pose proof (name_of_le (skipn b s)) as Hn. rewrite skipn_length in Hn.
  pose proof (name_of_split (skipn b s)) as Hsp. rewrite skipn_skipn in Hsp. rewrite <- He in Hsp.
  repeat split; try lia.
  - replace (e - b)%nat with (length (name_of (skipn b s))) by lia.
    set (nm := name_of (skipn b s)) in *. rewrite Hsp.
    rewrite firstn_app, firstn_all, Nat.sub_diag. cbn. now rewrite app_nil_r.
  - intros E. destruct (skipn b s) as [|c t] eqn:Es.
    + apply (f_equal (@length Z)) in Es. rewrite skipn_length in Es. simpl in Es. lia.
    + cbn [name_of] in He. rewrite Hh in He. cbn [length] in He. lia.
  - exact Hsp.
Qed.

(* the FILE_NAME branch of zix_path_next, entered with range.end = e0 *)
Definition file_branch (s : str) (e0 : Z) : res iter :=
  do c <- rd s e0;
  if c =? 0 then Ok {| it_range := (e0, e0); it_state := PEND |}
  else
    do e3 <- skip_seps_loop (S (length s)) s e0;
    do e4 <- name_end_loop (S (length s)) s e3;
    Ok {| it_range := (e3, e4); it_state := FILE_NAME |}.

Lemma path_next_file s b0 e0 :
  path_next s {| it_range := (b0, e0); it_state := FILE_NAME |} = file_branch s e0.
Proof. reflexivity. Qed.

Lemma path_next_rootdir s b0 e0 :
  path_next s {| it_range := (b0, e0); it_state := ROOT_DIRECTORY |} = file_branch s e0.
Proof. reflexivity. Qed.

Lemma path_next_end s r :
  path_next s {| it_range := r; it_state := PEND |} = Ok {| it_range := r; it_state := PEND |}.
Proof. destruct r. reflexivity. Qed.

Lemma file_branch_ok s e :
  nonul s -> (e <= length s)%nat ->
  exists it', file_branch s (Z.of_nat e) = Ok it' /\ den s it' (tail_elems (skipn e s)).
Proof.
  intros N He. unfold file_branch. rewrite rd_nat by assumption. cbn [bind].
  destruct (skipn e s) as [|c t] eqn:Es.
  - cbn [hd]. change (0 =? 0) with true. cbv iota. eexists. split; [reflexivity|].
    unfold den; cbn [it_state it_range tail_elems]. split; [reflexivity|].
    apply (f_equal (@length Z)) in Es. rewrite skipn_length in Es. simpl in Es.
    unfold slen. do 2 f_equal; lia.
  - pose proof (skipn_nonempty_lt _ _ _ _ Es) as Hlt.
    assert (Hc : c <> 0).
    { pose proof (nonul_skipn e s N) as Nk. rewrite Es in Nk. inversion Nk; auto. }
    cbn [hd]. destruct (c =? 0) eqn:Ec; [lia|]. cbv iota.
    pose proof (lead_seps_le (skipn e s)) as Hl. rewrite skipn_length in Hl.
    rewrite skip_seps_loop_nat by lia. cbn [bind].
    set (e3 := (e + lead_seps (skipn e s))%nat).
    pose proof (name_of_le (skipn e3 s)) as Hn. rewrite skipn_length in Hn.
    rewrite name_end_loop_nat by (auto; lia). cbn [bind].
    eexists. split; [reflexivity|].
    unfold den; cbn [it_state it_range]. exists e3, (e3 + length (name_of (skipn e3 s)))%nat.
    split; [reflexivity|].
    assert (Hd : skipn e3 s = drop_seps (skipn e s)).
    { rewrite drop_seps_skipn, skipn_skipn. reflexivity. }
    unfold file_den. repeat split; try lia.
    + rewrite Hd. apply drop_seps_head.
    + rewrite <- Es. rewrite tail_elems_step by (rewrite Es; congruence).
      rewrite <- Hd. rewrite skipn_skipn. reflexivity.
Qed.

Lemma den_next s it x es :
  nonul s -> den s it (x :: es) ->
  exists it', path_next s it = Ok it' /\ den s it' es.
Proof.
  intros N D. unfold den in D. destruct it as [[b0 e0] st]; cbn [it_state it_range] in D.
  destruct st; try contradiction; [|destruct D; discriminate].
  destruct D as [b [e [Hr Hf]]]. injection Hr as -> ->.
  rewrite path_next_file.
  pose proof (file_den_props _ _ _ _ Hf) as [Hbe _].
  destruct Hf as [_ [_ [_ Hes]]]. injection Hes as _ ->.
  apply file_branch_ok; [assumption|lia].
Qed.

(* zix_path_begin *)
Lemma path_begin_unrooted s :
  nonul s -> has_root s = false ->
  exists it, path_begin s = Ok it /\ den s it (ielems s).
Proof.
  intros N R. unfold path_begin, root_name_range. cbn [it_range fst snd].
  change (0 >? 0) with false. cbv iota.
  assert (E : path_next s {| it_range := (0, 0); it_state := ROOT_NAME |} = file_branch s 0).
  { unfold path_next. cbn [it_range it_state]. change 0 with (Z.of_nat 0). rewrite rd_nat by lia.
    cbn [bind skipn]. destruct s as [|c t]; [reflexivity|]. cbn [has_root] in R. cbn [hd]. rewrite R.
    reflexivity. }
  rewrite E. unfold ielems. rewrite R.
  destruct (file_branch_ok s 0 N) as [it' [H1 H2]]; [lia|]. exists it'. auto.
Qed.

Lemma path_begin_rooted s :
  has_root s = true ->
  path_begin s = Ok {| it_range := (0, 1); it_state := ROOT_DIRECTORY |}.
Proof.
  intros R. unfold path_begin, root_name_range. cbn [it_range fst snd].
  change (0 >? 0) with false. cbv iota.
  unfold path_next. cbn [it_range it_state]. change 0 with (Z.of_nat 0) at 1. rewrite rd_nat by lia.
  cbn [bind skipn]. destruct s as [|c t]; [discriminate|]. cbn [has_root] in R. cbn [hd]. rewrite R.
  reflexivity.
Qed.

Lemma next_after_root s :
  nonul s -> has_root s = true ->
  exists it, path_next s {| it_range := (0, 1); it_state := ROOT_DIRECTORY |} = Ok it
             /\ den s it (ielems s).
Proof.
  intros N R. rewrite path_next_rootdir. unfold ielems. rewrite R.
  destruct s as [|c t]; [discriminate|].
  destruct (file_branch_ok (c :: t) 1 N) as [it' [H1 H2]]; [simpl; lia|].
  exists it'. split; [exact H1|exact H2].
Qed.

(* ---------------------------------------------------------------- range comparison *)
Lemma str_eqb_length a b : str_eqb a b = true -> length a = length b.
Proof.
  revert b; induction a; destruct b; simpl; try discriminate; auto.
  intros H. apply andb_true_iff in H as [_ H]. f_equal. auto.
Qed.

Lemma str_eqb_eq a b : str_eqb a b = true <-> a = b.
Proof.
  revert b; induction a; destruct b; simpl; split; try discriminate; auto.
  - intros H. apply andb_true_iff in H as [H1 H2]. f_equal; [lia|]. now apply IHa.
  - intros [= -> ->]. rewrite Z.eqb_refl. now apply IHa.
Qed.

Lemma strncmp_eq_nat n l lb r rb :
  nonul l -> nonul r -> (lb + n <= length l)%nat -> (rb + n <= length r)%nat ->
  strncmp_eq n l (Z.of_nat lb) r (Z.of_nat rb)
  = Ok (str_eqb (firstn n (skipn lb l)) (firstn n (skipn rb r))).
Proof.
  intros Nl Nr. revert lb rb; induction n; intros lb rb Hl Hr; [reflexivity|].
  cbn [strncmp_eq]. rewrite !rd_nat by lia. cbn [bind].
  pose proof (hd_skipn_nz l lb Nl ltac:(lia)) as Hx.
  destruct (skipn lb l) as [|x tl] eqn:El.
  { apply (f_equal (@length Z)) in El. rewrite skipn_length in El. simpl in El. lia. }
  destruct (skipn rb r) as [|y tr] eqn:Er.
  { apply (f_equal (@length Z)) in Er. rewrite skipn_length in Er. simpl in Er. lia. }
  cbn [hd firstn str_eqb] in *.
  destruct (x =? y) eqn:Exy; cbn [negb andb]; [|reflexivity].
  destruct (x =? 0) eqn:Ex0; [lia|].
  replace (Z.of_nat lb + 1) with (Z.of_nat (S lb)) by lia.
  replace (Z.of_nat rb + 1) with (Z.of_nat (S rb)) by lia.
  rewrite IHn by lia. rewrite !skipn_S_tl, El, Er. reflexivity.
Qed.

Lemma string_ranges_equal_nat l lb le r rb re :
  nonul l -> nonul r -> (lb <= le <= length l)%nat -> (rb <= re <= length r)%nat ->
  string_ranges_equal l (Z.of_nat lb, Z.of_nat le) r (Z.of_nat rb, Z.of_nat re)
  = Ok (str_eqb (firstn (le - lb) (skipn lb l)) (firstn (re - rb) (skipn rb r))).
Proof.
  intros Nl Nr Hl Hr. unfold string_ranges_equal. cbn [fst snd].
  assert (L1 : length (firstn (le - lb) (skipn lb l)) = (le - lb)%nat)
    by (rewrite firstn_length, skipn_length; lia).
  assert (L2 : length (firstn (re - rb) (skipn rb r)) = (re - rb)%nat)
    by (rewrite firstn_length, skipn_length; lia).
  destruct (Z.of_nat le - Z.of_nat lb =? Z.of_nat re - Z.of_nat rb) eqn:E; cbn [negb].
  - assert (Hn : (re - rb = le - lb)%nat) by lia. rewrite Hn.
    destruct (Z.of_nat le - Z.of_nat lb =? 0) eqn:E0.
    + replace (le - lb)%nat with 0%nat by lia. reflexivity.
    + replace (Z.to_nat (Z.of_nat le - Z.of_nat lb)) with (le - lb)%nat by lia.
      apply strncmp_eq_nat; auto; lia.
  - destruct (str_eqb _ _) eqn:Es; [|reflexivity].
    apply str_eqb_length in Es. lia.
Qed.

(* ---------------------------------------------------------------- the mismatch scan *)
Lemma den_cases s it es :
  den s it es ->
  (it_state it = PEND /\ es = []) \/
  (it_state it = FILE_NAME /\ exists b e x es', it_range it = (Z.of_nat b, Z.of_nat e)
        /\ file_den s b e es /\ es = x :: es' /\ x = firstn (e - b) (skipn b s)
        /\ (b <= e <= length s)%nat).
Proof.
  unfold den. destruct (it_state it); try contradiction.
  - intros [b [e [Hr Hf]]]. right. split; [reflexivity|].
    pose proof (file_den_props _ _ _ _ Hf) as [Hbe [Ht _]].
    destruct Hf as [H1 [H2 [H3 H4]]].
    exists b, e, (name_of (skipn b s)), (tail_elems (skipn e s)).
    repeat split; auto; try lia.
  - intros [H _]. left. auto.
Qed.

Lemma mismatch_loop_ok fuel p base a b A B :
  nonul p -> nonul base -> den p a A -> den base b B -> (length A < fuel)%nat ->
  exists a' b', mismatch_loop fuel p base a b = Ok (a', b')
                /\ den p a' (fst (strip_common A B)) /\ den base b' (snd (strip_common A B)).
Proof.
  intros Np Nb. revert a b A B; induction fuel; intros a b A B Da Db Hf; [lia|].
  cbn [mismatch_loop].
  destruct (den_cases _ _ _ Da) as [[Sa EA]|[Sa [ba [ea [x [A' [Ra [Fa [EA [Hx Hba]]]]]]]]]].
  { rewrite Sa. cbn [istate_eqb negb andb]. subst A. cbn [strip_common fst snd]. eauto. }
  destruct (den_cases _ _ _ Db) as [[Sb EB]|[Sb [bb [eb [y [B' [Rb [Fb [EB [Hy Hbb]]]]]]]]]].
  { rewrite Sa, Sb. cbn [istate_eqb negb andb]. subst B. rewrite EA. cbn [strip_common fst snd].
    rewrite <- EA. eauto. }
  rewrite Sa, Sb. cbn [istate_eqb negb andb]. rewrite Ra, Rb.
  rewrite string_ranges_equal_nat by auto. cbn [bind]. rewrite <- Hx, <- Hy.
  subst A B. cbn [strip_common].
  destruct (str_eqb x y) eqn:Exy.
  - destruct (den_next p a x A' Np Da) as [a1 [Ha1 Da1]].
    destruct (den_next base b y B' Nb Db) as [b1 [Hb1 Db1]].
    rewrite Ha1, Hb1. cbn [bind]. apply IHfuel; auto. cbn [length] in Hf. lia.
  - cbn [fst snd]. eauto.
Qed.

(* ---------------------------------------------------------------- counting the rest of base *)
Definition is_dotdot_b (e : str) : bool := str_eqb e dotdot_elem.
Definition is_name_b (e : str) : bool :=
  negb (is_nil e) && negb (str_eqb e dotdot_elem) && negb (str_eqb e dot_elem).

Fixpoint count_dd (B : list str) : Z :=
  match B with [] => 0 | e :: B' => (if is_dotdot_b e then 1 else 0) + count_dd B' end.
Fixpoint count_names (B : list str) : Z :=
  match B with [] => 0 | e :: B' => (if is_name_b e then 1 else 0) + count_names B' end.

Lemma count_n_split B : count_n B = count_names B - count_dd B.
Proof.
  induction B as [|e B IH]; [reflexivity|]. cbn [count_n count_names count_dd]. rewrite IH.
  unfold is_name_b, is_dotdot_b.
  destruct (str_eqb e dotdot_elem) eqn:E1; cbn [negb andb].
  - destruct (is_nil e); cbn [negb andb orb]; lia.
  - destruct (is_nil e); cbn [negb andb orb]; [lia|].
    destruct (str_eqb e dot_elem); cbn [negb]; lia.
Qed.

Lemma count_dd_nonneg B : 0 <= count_dd B.
Proof. induction B; cbn [count_dd]; [lia|]. destruct (is_dotdot_b a); lia. Qed.
Lemma count_names_nonneg B : 0 <= count_names B.
Proof. induction B; cbn [count_names]; [lia|]. destruct (is_name_b a); lia. Qed.

Lemma nonul_dotdot : nonul dotdot_elem.
Proof. repeat constructor; unfold dotc; lia. Qed.
Lemma nonul_dot : nonul dot_elem.
Proof. repeat constructor; unfold dotc; lia. Qed.

Lemma count_loop_ok fuel base b B u n :
  nonul base -> den base b B -> (length B < fuel)%nat ->
  count_loop fuel base b u n = Ok (u + count_dd B, n + count_names B).
Proof.
  intros Nb. revert b B u n; induction fuel; intros b B u n Db Hf; [lia|].
  cbn [count_loop].
  destruct (den_cases _ _ _ Db) as [[Sb EB]|[Sb [bb [eb [y [B' [Rb [Fb [EB [Hy Hbb]]]]]]]]]].
  { rewrite Sb. cbn [istate_num]. change (3 <? 3) with false. cbv iota. subst B.
    cbn [count_dd count_names]. do 2 f_equal; lia. }
  rewrite Sb. cbn [istate_num]. change (2 <? 3) with true. cbv iota.
  rewrite Rb. unfold is_empty_range; cbn [fst snd].
  assert (Ly : length y = (eb - bb)%nat) by (rewrite Hy, firstn_length, skipn_length; lia).
  assert (Hcnt :
    (if negb (Z.of_nat bb =? Z.of_nat eb)
     then do isdd <- string_ranges_equal base (Z.of_nat bb, Z.of_nat eb) dotdot_elem (0, 2);
          if isdd then Ok (u + 1, n)
          else do isd <- string_ranges_equal base (Z.of_nat bb, Z.of_nat eb) dot_elem (0, 1);
               if negb isd then Ok (u, n + 1) else Ok (u, n)
     else Ok (u, n))
    = Ok (u + (if is_dotdot_b y then 1 else 0), n + (if is_name_b y then 1 else 0))).
  { unfold is_dotdot_b, is_name_b.
    destruct (Z.of_nat bb =? Z.of_nat eb) eqn:Ee; cbn [negb].
    - assert (Ey : y = []) by (destruct y; [reflexivity|simpl in Ly; lia]). rewrite Ey.
      cbn. do 2 f_equal; lia.
    - assert (Hne : is_nil y = false) by (destruct y; [simpl in Ly; lia|reflexivity]).
      rewrite Hne. cbn [negb andb].
      rewrite (string_ranges_equal_nat base bb eb dotdot_elem 0 2 Nb nonul_dotdot Hbb ltac:(simpl; lia)
                 : string_ranges_equal base (Z.of_nat bb, Z.of_nat eb) dotdot_elem (0, 2) = _).
      cbn [bind]. rewrite <- Hy.
      change (firstn (2 - 0) (skipn 0 dotdot_elem)) with dotdot_elem.
      destruct (str_eqb y dotdot_elem) eqn:E1; cbn [negb andb]; [do 2 f_equal; lia|].
      rewrite (string_ranges_equal_nat base bb eb dot_elem 0 1 Nb nonul_dot Hbb ltac:(simpl; lia)
                 : string_ranges_equal base (Z.of_nat bb, Z.of_nat eb) dot_elem (0, 1) = _).
      cbn [bind]. rewrite <- Hy.
      change (firstn (1 - 0) (skipn 0 dot_elem)) with dot_elem.
      destruct (str_eqb y dot_elem) eqn:E2; cbn [negb]; do 2 f_equal; lia. }
  rewrite Hcnt. cbn [bind fst snd].
  subst B. destruct (den_next base b y B' Nb Db) as [b1 [Hb1 Db1]].
  rewrite Hb1. cbn [bind]. rewrite (IHfuel b1 B') by (auto; cbn [length] in Hf; lia).
  cbn [count_dd count_names]. do 2 f_equal; lia.
Qed.
