(* C10 — the C++17 std::filesystem::path model of decomposition and queries, POSIX generic format
   ([fs.path.generic], [fs.path.decompose], [fs.path.query]); see DESIGN.md Appendix A.
   Written from the standard; it never mentions how zix computes anything.
   Strings are lists of byte values (1..255); '/' = 47 is the only separator, '.' = 46.
   Definitions only. *)
From Coq Require Import ZArith List Bool.
Import ListNotations.
Local Open Scope Z_scope.

Definition str := list Z.

Definition is_sep (c : Z) : bool := c =? 47.
Definition is_dot (c : Z) : bool := c =? 46.

Definition is_nil {A} (l : list A) : bool := match l with [] => true | _ => false end.

(* --- generic-format parse ------------------------------------------------------------ *)

(* root-directory present  <=>  the string starts with a separator (root-name is always empty) *)
Definition has_root_dir (s : str) : bool :=
  match s with c :: _ => is_sep c | [] => false end.

(* the text after the leading separators *)
Fixpoint drop_seps (s : str) : str :=
  match s with
  | c :: t => if is_sep c then drop_seps t else s
  | [] => []
  end.

(* cut at every separator: "a//b/" -> ["a"; ""; "b"; ""] (never the empty list) *)
Fixpoint split_sep (s : str) : list str :=
  match s with
  | [] => [[]]
  | c :: t =>
      if is_sep c then [] :: split_sep t
      else match split_sep t with
           | h :: r => (c :: h) :: r
           | [] => [[c]]
           end
  end.

(* the filename elements of the relative part: split on MAXIMAL separator runs (the empty pieces
   inside a run are dropped); a trailing separator yields a final empty element *)
Definition elements (s : str) : list str :=
  match drop_seps s with
  | [] => []
  | rel => let ps := split_sep rel in
           filter (fun x => negb (is_nil x)) (removelast ps) ++ [last ps []]
  end.

(* a path in the abstract: root-directory flag and element list; std operator== compares these *)
Definition path : Type := bool * list str.
Definition as_path (s : str) : path := (has_root_dir s, elements s).
Definition path_equiv (a b : str) : Prop := as_path a = as_path b.      (* a ≈ b *)
Definition path_is_empty (p : path) : bool := negb (fst p) && is_nil (snd p).

(* --- decomposition ------------------------------------------------------------------- *)

Definition std_root_name (s : str) : str := [].
Definition std_root_directory (s : str) : str := if has_root_dir s then [47] else [].
Definition std_root_path (s : str) : str := std_root_name s ++ std_root_directory s.
Definition std_relative_path (s : str) : str := drop_seps s.

(* the path without its last element (the path itself when there is no element) *)
Definition std_parent_path (s : str) : path := (has_root_dir s, removelast (elements s)).

Definition std_filename (s : str) : str := last (elements s) [].

(* index of the last '.' *)
Fixpoint last_dot (f : str) : option nat :=
  match f with
  | [] => None
  | c :: t => match last_dot t with
              | Some i => Some (S i)
              | None => if is_dot c then Some O else None
              end
  end.

Fixpoint str_eqb (a b : str) : bool :=
  match a, b with
  | [], [] => true
  | x :: a', y :: b' => (x =? y) && str_eqb a' b'
  | _, _ => false
  end.

(* where the filename is cut into stem and extension: its length (empty extension) for ".", "..",
   a name without '.' and a name whose only '.' is its first character; else the last '.' *)
Definition ext_cut (f : str) : nat :=
  if str_eqb f [46] || str_eqb f [46; 46] then length f
  else match last_dot f with
       | None => length f
       | Some O => length f
       | Some i => i
       end.

Definition std_stem (s : str) : str := let f := std_filename s in firstn (ext_cut f) f.
Definition std_extension (s : str) : str := let f := std_filename s in skipn (ext_cut f) f.

(* --- queries ------------------------------------------------------------------------- *)

Definition std_has_root_name (s : str) : bool := negb (is_nil (std_root_name s)).
Definition std_has_root_directory (s : str) : bool := negb (is_nil (std_root_directory s)).
Definition std_has_root_path (s : str) : bool := negb (is_nil (std_root_path s)).
Definition std_has_relative_path (s : str) : bool := negb (is_nil (std_relative_path s)).
Definition std_has_parent_path (s : str) : bool := negb (path_is_empty (std_parent_path s)).
Definition std_has_filename (s : str) : bool := negb (is_nil (std_filename s)).
Definition std_has_stem (s : str) : bool := negb (is_nil (std_stem s)).
Definition std_has_extension (s : str) : bool := negb (is_nil (std_extension s)).
(* POSIX: absolute <=> has a root directory *)
Definition std_is_absolute (s : str) : bool := std_has_root_directory s.
Definition std_is_relative (s : str) : bool := negb (std_is_absolute s).

(* all ten, in the order of include/zix/path.h *)
Definition std_queries (s : str) : list bool :=
  [std_has_root_path s; std_has_root_name s; std_has_root_directory s; std_has_relative_path s;
   std_has_parent_path s; std_has_filename s; std_has_stem s; std_has_extension s;
   std_is_absolute s; std_is_relative s].
