(* C04 — "Ring is a correct single-producer/single-consumer channel on every schedule".
   Property theorems only.  Model: RingConcModel.v (micro-step release/acquire semantics of
   src/ring.c, DESIGN.md Appendix B).  Every theorem quantifies over
     - all ring sizes 2^k, 0 <= k <= 31 (zix_ring_new rounds every size in [1, 2^31] to one of them),
     - all writer and reader programs, given as strategies (the next call may depend on all earlier results),
     - all schedules: which thread performs its next shared access, and which entry of the peer head's
       modification order (any one at or after the thread's view: stale values) an acquire load returns.
   Since every prefix of a schedule is a schedule, each statement holds at every moment of every execution.
   PARTIAL with respect to the property text: adequacy of this model for C11 and the compiler is trusted. *)
From Coq Require Import ZArith List Bool Arith.
From Zix Require Import RingConcModel RingConcProofs0 RingConcProofsB RingConcProofsC RingConcProofsF RingConcProofsS.
Import ListNotations.
Local Open Scope Z_scope.

(* the execution contains no data race: no plain buffer access conflicts with an access of the other
   thread that is not ordered before it by an acquired release store *)
Theorem ring_no_race : forall k wp rp sched, 0 <= k <= 31 ->
  race (sm (run (faithful k) wp rp sched)) = false.
Proof. intros. apply no_race. apply faithful_good. assumption. Qed.
Print Assumptions ring_no_race.

(* [writes_committed s] is read off the writer's own call and result logs: the bytes of its successful writes
   and of the successful amends of its committed transactions, in call order.  Walking the reader's results
   in call order over that stream: every successful read and peek returned exactly the committed bytes at
   the current stream position (nothing duplicated, reordered, torn, or seen before its commit), reads and
   skips advance the position and never pass the committed end.  If the reader never skips, the bytes
   returned by its reads, concatenated, are a prefix of the bytes of committed writes, concatenated. *)
Theorem ring_reads_prefix_of_commits : forall k wp rp sched, 0 <= k <= 31 ->
  let s := run (faithful k) wp rp sched in
  stream_ok (writes_committed s) 0 (rev (rresl (sr s))) = true /\
  (no_skip (rresl (sr s)) = true ->
   exists rest, writes_committed s = read_bytes (rev (rresl (sr s))) ++ rest).
Proof.
  intros k wp rp sched Hk s. unfold s.
  rewrite <- (committed_is_writes (faithful k) wp rp sched (faithful_good k Hk)). split.
  - exact (reads_stream_ok (faithful k) wp rp sched (faithful_good k Hk)).
  - exact (reads_prefix (faithful k) wp rp sched (faithful_good k Hk)).
Qed.
Print Assumptions ring_reads_prefix_of_commits.

(* nothing is lost: once both sides are idle the ring holds exactly the committed bytes not yet consumed
   (the statement in fact holds at every moment for the bytes between the two published heads) *)
Theorem ring_nothing_lost : forall k wp rp sched, 0 <= k <= 31 ->
  let s := run (faithful k) wp rp sched in
  both_idle wp rp s ->
  contents (faithful k) s = skipn (Z.to_nat (consumed (rresl (sr s)))) (writes_committed s).
Proof.
  intros k wp rp sched Hk s _. unfold s.
  rewrite <- (committed_is_writes (faithful k) wp rp sched (faithful_good k Hk)).
  exact (nothing_lost (faithful k) wp rp sched (faithful_good k Hk)).
Qed.
Print Assumptions ring_nothing_lost.

(* wait-freedom: at every moment the micro-steps the current call of either thread has taken, plus those
   it still needs (a function of its control state alone), are bounded by a function of the call's size
   argument only (size + 3 at most) -- whatever the other thread does, for every memory-order configuration *)
Theorem ring_wait_free : forall c wp rp sched,
  let s := run c wp rp sched in
  (forall call rest, wcalls (sw s) = call :: rest ->
     (wsteps (sw s) + wremaining (wpcs (sw s)) <= wbound call)%nat) /\
  (forall call rest, rcalls (sr s) = call :: rest ->
     (rsteps (sr s) + rremaining (rpcs (sr s)) <= rbound call)%nat).
Proof.
  intros c wp rp sched s. destruct (run_wait_free c wp rp sched) as ((Hw & _) & (Hr & _)). fold s in Hw, Hr.
  split; intros call rest E.
  - rewrite E in Hw. exact Hw.
  - rewrite E in Hr. exact Hr.
Qed.
Print Assumptions ring_wait_free.

(* ... and there is no waiting step: whenever a thread that is inside a call is scheduled, the number of
   micro-steps that call still needs strictly decreases (no loop on shared state) *)
Theorem ring_wait_free_progress : forall c wp rp sched k,
  let s := run c wp rp sched in
  (wpcs (sw s) <> WIdle ->
     (wremaining (wpcs (sw (step c wp rp s (true, k)))) < wremaining (wpcs (sw s)))%nat) /\
  (rpcs (sr s) <> RIdle ->
     (rremaining (rpcs (sr (step c wp rp s (false, k)))) < rremaining (rpcs (sr s)))%nat).
Proof.
  intros c wp rp sched k s. destruct (run_wait_free c wp rp sched) as (Hw & Hr). fold s in Hw, Hr.
  split; intros Hn; unfold step; cbn [fst snd].
  - apply wstep_progress; assumption.
  - apply rstep_progress; assumption.
Qed.
Print Assumptions ring_wait_free_progress.

(* the model's ghost stream [committed] (bytes stored below the published write head) is that same stream *)
Theorem ring_committed_is_writes : forall k wp rp sched, 0 <= k <= 31 ->
  let s := run (faithful k) wp rp sched in committed s = writes_committed s.
Proof. intros k wp rp sched Hk. exact (committed_is_writes (faithful k) wp rp sched (faithful_good k Hk)). Qed.
Print Assumptions ring_committed_is_writes.

(* the invariant of DESIGN.md Appendix B holds in every reachable state (the lemma the above rest on) *)
Theorem ring_invariant : forall k wp rp sched, 0 <= k <= 31 -> Inv (faithful k) (run (faithful k) wp rp sched).
Proof. intros. apply run_inv. apply faithful_good. assumption. Qed.
Print Assumptions ring_invariant.

(* why the orders matter: with the commit store (or the reader's store) downgraded to relaxed the
   very same model admits a data race *)
Theorem ring_relaxed_refuted :
  (exists wp rp sched, race (sm (run (relaxed_commit 2) wp rp sched)) = true) /\
  (exists wp rp sched, race (sm (run (relaxed_read_store 1) wp rp sched)) = true).
Proof.
  split; do 3 eexists; [exact relaxed_commit_races | exact relaxed_read_store_races].
Qed.
Print Assumptions ring_relaxed_refuted.

(* ---- the statements are not vacuous: a run with a transaction, a wrapping write, a stale load and a
   peek/skip, in which data really flows *)
Example ring_example :
  let wp := wprog_of_list [WWrite [1; 2; 3]; WBegin; WAmend [4]; WAmend [5]; WCommit; WWrite [6; 7]] in
  let rp := rprog_of_list [RRead 2; RPeek 1; RSkip 1; RRead 2; RRead 2] in
  let sched := repeat (true, O) 6 ++ repeat (false, O) 11 ++ repeat (true, 1%nat) 7 ++ repeat (false, O) 5
               ++ repeat (true, O) 5 ++ repeat (false, O) 5 in
  let s := run (faithful 2) wp rp sched in
  rev (rresl (sr s)) = [RrRead 2 [1; 2]; RrPeek 1 [3]; RrSkip 1; RrRead 2 [4; 5]; RrRead 2 [6; 7]] /\
  writes_committed s = [1; 2; 3; 4; 5; 6; 7] /\ contents (faithful 2) s = [] /\ both_idle wp rp s /\
  race (sm s) = false.
Proof. vm_compute. repeat split; reflexivity. Qed.
