(* C04 — property theorems only (see RingConcModel.v for the model, DESIGN.md Appendix B). *)
From Coq Require Import ZArith List Bool.
From Zix Require Import RingConcModel RingConcProofs0.
Import ListNotations.
Local Open Scope Z_scope.

(* why the orders matter: with the commit store (or the reader's store) downgraded to relaxed the
   very same model admits a data race *)
Theorem ring_relaxed_refuted :
  (exists wp rp sched, race (sm (run (relaxed_commit 2) wp rp sched)) = true) /\
  (exists wp rp sched, race (sm (run (relaxed_read_store 1) wp rp sched)) = true).
Proof.
  split; do 3 eexists; [exact relaxed_commit_races | exact relaxed_read_store_races].
Qed.
Print Assumptions ring_relaxed_refuted.
