(* C02 — B-tree is a sorted set under every operation history: property theorems only. *)
From Coq Require Import ZArith List Bool.
From Zix Require Import BTreeSpec BTreeModel.
Import ListNotations.

(* placeholder while the proofs are being built: the empty tree lists nothing *)
Theorem btree_empty_elements2 : forall (elt : Type), elements elt (root elt (empty_tree elt)) = [].
Proof. reflexivity. Qed.
Print Assumptions btree_empty_elements2.
