(* C02 — B-tree positional queries: lower_bound, find, remove-next, increment.  Property theorems only.

   Setting (see BTreeModel.v / BTreeProofsBase.v): (L, I) = (ZIX_BTREE_LEAF_VALS, ZIX_BTREE_INODE_VALS) with
   I = L / 2 and 3 <= I (every page size >= 64 bytes with 8-byte pointers); elements are opaque, ordered by an
   integer rank; [Inv] = the structural invariant of the tree reached by any history (Properties_C01.
   btree_inv_reachable); [elements r] = in-order listing; an iterator is [IEnd] or [IAt path]; [valid r p] says
   the path is a well-formed iterator into r; [pos r p] is the index in the listing of the element it designates. *)
From Coq Require Import ZArith List Bool Arith.
From Zix Require Import BTreeSpec BTreeModel BTreeProofsBase BTreeProofsIter BTreeProofsFind BTreeProofsRemove
  BTreeProofsMisc BTreeProofsHist.
Import ListNotations.

(* lower_bound with a search comparator ck (ck x = compare_key(x, key)) whose answers are monotone along the
   tree order (the header's "compatible" condition): the iterator stands at the first element that is not
   less than the key -- its position is the number of elements that are less -- or is the end iterator if there
   is none.  For a wildcard comparator this is the FIRST of the matching elements. *)
Theorem lower_bound_least :
  forall (elt : Type) (rank : elt -> Z) (dflt : elt) (L I : nat), I = L / 2 -> 3 <= I ->
  forall (t : tree elt) (ck : elt -> comparison),
    Inv rank L I t -> monotone elt ck (elements (root t)) ->
    (let '(it, lg) := lower_bound dflt t ck in
     iter_valid (root t) it /\
     iter_pos (root t) it =
       (let k := length (filter (fun x => match ck x with Lt => true | _ => false end) (elements (root t))) in
        if k <? length (elements (root t)) then Some k else None)) /\
    match set_lower_bound elt ck (elements (root t)) with
    | Some x => exists p, fst (lower_bound dflt t ck) = IAt p /\ iter_get dflt (root t) (IAt p) = x
    | None => fst (lower_bound dflt t ck) = IEnd
    end.
Proof.
  intros elt rank dflt L I HI HI3 t ck Hinv Hm. split.
  - pose proof (lower_bound_pos elt rank dflt L I HI HI3 t ck Hinv Hm) as H.
    destruct (lower_bound dflt t ck) as [it lg]. destruct H as (H1 & H2 & _). auto.
  - exact (lower_bound_least elt rank dflt L I HI HI3 t ck Hinv Hm).
Qed.
Print Assumptions lower_bound_least.

(* argument roles: in the model the search comparator is [ck stored] with the key fixed as second argument;
   every value it is called with is an element stored in the tree *)
Theorem lower_bound_roles :
  forall (elt : Type) (rank : elt -> Z) (dflt : elt) (L I : nat), I = L / 2 -> 3 <= I ->
  forall (t : tree elt) (ck : elt -> comparison),
    Inv rank L I t -> monotone elt ck (elements (root t)) ->
    forall x, In x (snd (lower_bound dflt t ck)) -> In x (elements (root t)).
Proof.
  intros elt rank dflt L I HI HI3 t ck Hinv Hm.
  pose proof (lower_bound_pos elt rank dflt L I HI HI3 t ck Hinv Hm) as H.
  destruct (lower_bound dflt t ck) as [it lg]. destruct H as (_ & _ & H). exact H.
Qed.
Print Assumptions lower_bound_roles.

(* find: SUCCESS with a valid iterator that dereferences to the stored element of that rank, or NOT_FOUND/end *)
Theorem find_iter_deref :
  forall (elt : Type) (rank : elt -> Z) (dflt : elt) (L I : nat), I = L / 2 -> 3 <= I ->
  forall (t : tree elt) (e : elt), Inv rank L I t ->
    let '(st, it, lg) := find rank dflt t e in
    match set_find elt rank (elements (root t)) (rank e) with
    | Some x => st = SUCCESS /\ exists p, it = IAt p /\ valid (root t) p /\
                  nth_error (elements (root t)) (pos (root t) p) = Some x /\ iter_get dflt (root t) it = x
    | None => st = NOT_FOUND /\ it = IEnd
    end.
Proof. exact find_refines. Qed.
Print Assumptions find_iter_deref.

(* remove: after a successful removal `next` is a valid iterator of the NEW tree standing at the in-order
   successor of the removed element (position = number of smaller elements), the end iterator iff the removed
   element was the largest *)
Theorem remove_next_is_successor :
  forall (elt : Type) (rank : elt -> Z) (dflt : elt) (L I : nat), I = L / 2 -> 3 <= I ->
  forall (t : tree elt) (e : elt), Inv rank L I t ->
    let '(st, out, t', it, lg) := remove rank dflt L I t e in
    st = SUCCESS ->
    iter_valid (root t') it /\
    iter_pos (root t') it =
      (let k := length (filter (fun x => (rank x <? rank e)%Z) (elements (root t'))) in
       if k <? length (elements (root t')) then Some k else None).
Proof. exact remove_next. Qed.
Print Assumptions remove_next_is_successor.

(* increment: from any valid position, one step to the next position of the listing (REACHED_END and the end
   iterator exactly at the last one); the element read at a position is the listing's element *)
Theorem iter_increment_successor :
  forall (elt : Type) (rank : elt -> Z) (dflt : elt) (L I : nat), I = L / 2 -> 3 <= I ->
  forall (r : node elt) (p : list nat), shape_ok L I r -> valid r p ->
    (pos r p < length (elements r) /\ iter_get dflt r (IAt p) = nth (pos r p) (elements r) dflt) /\
    match iter_increment r (IAt p) with
    | (st, IAt q) => st = SUCCESS /\ valid r q /\ pos r q = S (pos r p)
    | (st, IEnd) => st = REACHED_END /\ S (pos r p) = length (elements r)
    end.
Proof.
  intros elt rank dflt L I HI HI3 r p Hs Hv. split.
  - exact (get_pos elt rank dflt L I HI HI3 r p Hs Hv).
  - exact (increment_pos elt rank dflt L I HI HI3 r p Hs Hv).
Qed.
Print Assumptions iter_increment_successor.

(* walking from any valid iterator visits exactly the remaining elements, in order, then stops at end *)
Theorem iter_walk_suffix :
  forall (elt : Type) (rank : elt -> Z) (dflt : elt) (L I : nat), I = L / 2 -> 3 <= I ->
  forall (r : node elt) (p : list nat) (fuel : nat), shape_ok L I r -> valid r p ->
    length (elements r) - pos r p <= fuel ->
    walk dflt fuel r (IAt p) = skipn (pos r p) (elements r).
Proof. exact walk_suffix. Qed.
Print Assumptions iter_walk_suffix.

(* two valid iterators compare equal exactly when they stand at the same position (all end iterators equal) *)
Theorem iter_equals_iff_same_position :
  forall (elt : Type) (rank : elt -> Z) (dflt : elt) (L I : nat), I = L / 2 -> 3 <= I ->
  forall (r : node elt) (a b : iter), shape_ok L I r -> iter_valid r a -> iter_valid r b ->
    (iter_equals a b = true <-> iter_pos r a = iter_pos r b).
Proof. exact iter_equals_iff_same_position. Qed.
Print Assumptions iter_equals_iff_same_position.

(* ZixBTreeIter.indexes[] are uint16_t.  Every configuration the sources accept has LEAF_VALS <= 65535
   (static_assert(ZIX_BTREE_LEAF_VALS <= UINT16_MAX), fix 627c158; the check verifies that a larger page size no longer
   compiles), and every frame of a valid iterator is at most LEAF_VALS (a value index < n_vals, a child index <= n_vals
   <= max(L, I) = L; the transient frames of lower_bound/remove are <= n_vals as well), so storing a frame index in
   16 bits never changes it: the model's untruncated index paths are exact. *)
Theorem iter_indexes_fit_uint16 :
  forall (elt : Type) (rank : elt -> Z) (dflt : elt) (L I : nat), I = L / 2 -> 3 <= I -> (Z.of_nat L <= 65535)%Z ->
  forall (r : node elt) (p : list nat), shape_ok L I r -> valid r p ->
    Forall (fun i => i <= L /\ (Z.of_nat i mod 65536 = Z.of_nat i)%Z) p.
Proof.
  intros elt rank dflt L I HI HI3 HL r p Hs Hv.
  pose proof (valid_index_bound elt rank dflt L I HI HI3 r p Hs Hv) as H.
  eapply Forall_impl; [|exact H]. intros i Hi. split; [exact Hi|].
  apply Z.mod_small. split; [apply Nat2Z.is_nonneg|].
  apply Z.le_lt_trans with (m := Z.of_nat L); [apply Nat2Z.inj_le; exact Hi|].
  apply Z.le_lt_trans with (m := 65535%Z); [exact HL|reflexivity].
Qed.
Print Assumptions iter_indexes_fit_uint16.

(* non-vacuity: the configurations of the four page sizes meet the hypotheses, and a tree of height 2 at page
   size 64 on which lower_bound of an absent key past the end of the first leaf climbs to the separator *)
Example configs_ok : (3 = 6 / 2 /\ 3 <= 3) /\ (7 = 14 / 2 /\ 3 <= 7) /\ (15 = 30 / 2 /\ 3 <= 15) /\ (255 = 510 / 2 /\ 3 <= 255).
Proof. repeat split; try reflexivity; repeat constructor. Qed.

(* page size 64, keys 10,20,..,400 inserted in ascending order (height 4): absent keys that fall past the end of a
   non-last leaf climb to the separator (35 -> 40 two levels up, 155 -> 160 in the root); a wildcard key matching
   160..319 finds its first match 160; removing 80 (resident in an internal page, replaced by its predecessor)
   leaves next at 90 *)
Example positional_example :
  let t := run (fun x : Z => x) 0%Z 6 3 6 (map (fun k => OInsert [] (Z.of_nat (10 * k))) (seq 1 40)) in
  Inv (fun x : Z => x) 6 3 t /\ height (root t) = 4 /\
  fst (lower_bound 0%Z t (fun x => Z.compare x 35%Z)) = IAt [0; 0; 0] /\
  iter_get 0%Z (root t) (IAt [0; 0; 0]) = 40%Z /\
  fst (lower_bound 0%Z t (fun x => Z.compare x 155%Z)) = IAt [0] /\
  fst (lower_bound 0%Z t (fun x => Z.compare (x / 160) 1)%Z) = IAt [0] /\
  iter_get 0%Z (root t) (IAt [0]) = 160%Z /\
  (let '(st, out, t', it, lg) := remove (fun x : Z => x) 0%Z 6 3 t 80%Z in
   st = SUCCESS /\ out = Some 80%Z /\ it = IAt [0; 0; 2; 0] /\ iter_get 0%Z (root t') it = 90%Z).
Proof.
  split; [apply (inv_reachable Z (fun x : Z => x) 0%Z 6 3 eq_refl (le_n 3) 6); repeat constructor|].
  vm_compute. repeat split.
Qed.
