(* C15 — abstract file system WITH symbolic links (and fifos, sockets, devices), POSIX path resolution on it
   ('.', '..', absolute and relative link targets, trailing separators, a bound on the number of links followed
   in one resolution: ELOOP beyond it), stat (follows the last component), lstat (does not), mkdir, the
   directory listing, and the specs the property is stated against.  Nothing here mentions how zix does it.

   Conventions taken from Linux (namei.c), which the driver compares with on the real kernel:
   - the bound counts ALL links followed during one resolution (nested or in sequence), MAXSYMLINKS = 40;
   - a trailing separator is resolved as if a single "." were appended (POSIX 4.13): the last name must lead to a
     directory and a link there is followed, also by lstat;
   - mkdir ignores trailing separators, does not follow a link in the last component (EEXIST, also when the link
     dangles), EEXIST for a last component "." or "..". *)
From Coq Require Import ZArith List Bool Lia.
From Zix Require Import FsSpec.
Import ListNotations.
Local Open Scope Z_scope.

Inductive node :=
  | NDir | NFile (bytes : list Z) | NLink (target : list Z) | NFifo | NSock | NChr | NBlk.
Definition lfs := list (loc * node).     (* the root always exists and is a directory *)

Fixpoint lassoc (fs : lfs) (l : loc) : option node :=
  match fs with
  | [] => None
  | (l', n) :: r => if loc_eqb l' l then Some n else lassoc r l
  end.
Definition llookup (fs : lfs) (l : loc) : option node :=
  match l with [] => Some NDir | _ => lassoc fs l end.

Definition ELOOP := 40.

(* the names of a path string; a trailing separator counts as a final "." *)
Definition pcomps (s : list Z) : list name :=
  components s ++ (if trailing_slash s then [[DOT]] else []).

(* where a resolution ends: an errno, or the location and node reached and the number of links that may still
   be followed.  For a directory the location is the directory's own (links resolved, physical) location. *)
Inductive rres := RErr (e : Z) | RAt (l : loc) (n : node) (b : nat).

(* what to do with a link found in directory [l] with target [t] when [rest] is still to be walked *)
Definition follow_fn := loc -> list Z -> list name -> rres.

(* walk the names from directory [l]; every name but the last must lead to a directory *)
Fixpoint walk_go (k : follow_fn) (fs : lfs) (b : nat) (l : loc) (cs : list name) : rres :=
  match cs with
  | [] => RAt l NDir b
  | c :: rest =>
    if is_dot c then walk_go k fs b l rest
    else if is_dotdot c then walk_go k fs b (removelast l) rest
    else match llookup fs (l ++ [c]) with
         | None => RErr ENOENT
         | Some NDir => walk_go k fs b (l ++ [c]) rest
         | Some (NLink t) => k l t rest
         | Some n => match rest with [] => RAt (l ++ [c]) n b | _ => RErr ENOTDIR end
         end
  end.

(* resolution following every link met, at most [b] of them: a link is replaced by the names of its target
   (from the root when the target is absolute, else from the directory holding the link) *)
Fixpoint lwalk (b : nat) (fs : lfs) (l : loc) (cs : list name) {struct b} : rres :=
  walk_go (match b with
           | O => fun _ _ _ => RErr ELOOP
           | S b' => fun l t rest =>
               match t with
               | [] => RErr ENOENT
               | _ => lwalk b' fs (if absolute t then [] else l) (pcomps t ++ rest)
               end
           end) fs b l cs.

Definition lstart (s : list Z) (cwd : loc) : loc := if absolute s then [] else cwd.

(* stat(2): the last component is followed too *)
Definition stat_l (B : nat) (fs : lfs) (cwd : loc) (s : list Z) : rres :=
  match s with
  | [] => RErr ENOENT
  | _ => lwalk B fs (lstart s cwd) (pcomps s)
  end.

(* lstat(2): the parents are resolved, the last name is looked up without following it *)
Definition lstat_l (B : nat) (fs : lfs) (cwd : loc) (s : list Z) : rres :=
  match s with
  | [] => RErr ENOENT
  | _ =>
    match rev (pcomps s) with
    | [] => RErr ENOENT                                     (* not reachable: s is not empty *)
    | lastc :: rparents =>
      match lwalk B fs (lstart s cwd) (rev rparents) with
      | RErr e => RErr e
      | RAt l NDir b =>
        if is_dot lastc then RAt l NDir b
        else if is_dotdot lastc then RAt (removelast l) NDir b
        else match llookup fs (l ++ [lastc]) with
             | None => RErr ENOENT
             | Some n => RAt (l ++ [lastc]) n b
             end
      | RAt _ _ _ => RErr ENOTDIR
      end
    end
  end.

Definition names_directory_l (B : nat) (fs : lfs) (cwd : loc) (s : list Z) : Prop :=
  exists l b, stat_l B fs cwd s = RAt l NDir b.
Definition names_directory_lb (B : nat) (fs : lfs) (cwd : loc) (s : list Z) : bool :=
  match stat_l B fs cwd s with RAt _ NDir _ => true | _ => false end.

(* mkdir(2): 0 or an errno, and the new file system *)
Definition mkdir_l (B : nat) (fs : lfs) (cwd : loc) (s : list Z) : Z * lfs :=
  match s with
  | [] => (ENOENT, fs)
  | _ =>
    match rev (components s) with
    | [] => (EEXIST, fs)                                    (* "/" *)
    | lastc :: rparents =>
      match lwalk B fs (lstart s cwd) (rev rparents) with
      | RErr e => (e, fs)
      | RAt l NDir _ =>
        if is_dot lastc || is_dotdot lastc then (EEXIST, fs)
        else match llookup fs (l ++ [lastc]) with
             | Some _ => (EEXIST, fs)                       (* any node, also a dangling link *)
             | None => (0, fs ++ [(l ++ [lastc], NDir)])
             end
      | RAt _ _ _ => (ENOTDIR, fs)
      end
    end
  end.

(* the file type a node has *)
Definition kind_of_node (n : node) : ftype :=
  match n with
  | NDir => FT_DIRECTORY | NFile _ => FT_REGULAR | NLink _ => FT_SYMLINK | NFifo => FT_FIFO
  | NSock => FT_SOCKET | NChr => FT_CHARACTER | NBlk => FT_BLOCK
  end.
Definition kind_of_res (r : rres) : ftype :=
  match r with RErr _ => FT_NONE | RAt _ n _ => kind_of_node n end.

(* st_mode of a node: the S_IFMT bits, plus any permission bits (07777) *)
Definition fmt_of_node (n : node) : Z :=
  match n with
  | NDir => S_IFDIR | NFile _ => S_IFREG | NLink _ => S_IFLNK | NFifo => S_IFIFO
  | NSock => S_IFSOCK | NChr => S_IFCHR | NBlk => S_IFBLK
  end.
Definition mode_of_node (n : node) (perm : Z) : Z := fmt_of_node n + perm mod 4096.

(* ---- spec of "create every missing directory along the path" with links: each name is entered when it
   leads (following links) to a directory, created when it does not exist, and blocks otherwise ---- *)
Inductive lmkres := LOk (l : loc) (b : nat) | LBlocked.
Fixpoint lmkdirs_walk (fs : lfs) (l : loc) (b : nat) (cs : list name) : lmkres * lfs :=
  match cs with
  | [] => (LOk l b, fs)
  | c :: rest =>
    if is_dot c then lmkdirs_walk fs l b rest
    else if is_dotdot c then lmkdirs_walk fs (removelast l) b rest
    else match llookup fs (l ++ [c]) with
         | None => lmkdirs_walk (fs ++ [(l ++ [c], NDir)]) (l ++ [c]) b rest
         | Some _ =>
           match lwalk b fs l [c] with
           | RAt l' NDir b' => lmkdirs_walk fs l' b' rest
           | _ => (LBlocked, fs)
           end
         end
  end.
Definition lmkdirs_spec (B : nat) (fs : lfs) (cwd : loc) (s : list Z) : lmkres * lfs :=
  lmkdirs_walk fs (lstart s cwd) B (components s).

(* ---- directory contents ---- *)
(* the names in directory [l] *)
Fixpoint children (fs : lfs) (l : loc) : list name :=
  match fs with
  | [] => []
  | (l', _) :: r =>
    match rev l' with
    | c :: rp => if loc_eqb (rev rp) l then c :: children r l else children r l
    | [] => children r l
    end
  end.

(* a file system in which every name is a real name and no location is listed twice *)
Definition lgood_name (n : name) : Prop := is_dot n = false /\ is_dotdot n = false.
Definition lwf (fs : lfs) : Prop :=
  NoDup (map fst fs) /\ forall l n, In (l, n) fs -> l <> [] /\ Forall lgood_name l.
