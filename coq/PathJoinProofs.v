(* C12 — lemmas, part 1: memory accessors, result buffers, list-level view of the scanning loops,
   zix_path_join and zix_path_preferred. *)
From Coq Require Import ZArith List Bool Lia ZifyBool Arith.
From Zix Require Import PathJoinSpec PathJoinModel.
Import ListNotations.
Local Open Scope Z_scope.

(* an argument string: no NUL inside *)
Definition nonul (s : str) : Prop := Forall (fun c => c <> 0) s.

Lemma nonul_app a b : nonul a -> nonul b -> nonul (a ++ b).
Proof. intros; apply Forall_app; auto. Qed.

Lemma nonul_skipn k s : nonul s -> nonul (skipn k s).
Proof.
  revert s; induction k; intros s H; simpl; auto.
  destruct s; auto. inversion H; subst. apply IHk; assumption.
Qed.

Lemma nonul_firstn k s : nonul s -> nonul (firstn k s).
Proof.
  revert s; induction k; intros s H; simpl; [constructor|].
  destruct s; [constructor|]. inversion H; subst; constructor; [assumption|]. apply IHk; assumption.
Qed.

Lemma is_sep_nz c : is_sep c = true -> c <> 0.
Proof. unfold is_sep, sepc. lia. Qed.

Lemma is_sep_true c : is_sep c = true -> c = sepc.
Proof. unfold is_sep. lia. Qed.

(* ---------------------------------------------------------------- rd *)
Lemma nth_hd_skipn {A} (d : A) k s : nth k s d = hd d (skipn k s).
Proof. revert s; induction k; destruct s; simpl; auto. Qed.

Lemma rd_nat s k : (k <= length s)%nat -> rd s (Z.of_nat k) = Ok (hd 0 (skipn k s)).
Proof.
  intros H. unfold rd, slen.
  destruct (Z.of_nat k <? 0) eqn:E0; [lia|].
  destruct (Z.of_nat k <? Z.of_nat (length s)) eqn:E1.
  - rewrite Nat2Z.id. now rewrite nth_hd_skipn.
  - assert (k = length s) by lia. subst k.
    rewrite Z.eqb_refl. now rewrite skipn_all.
Qed.

Lemma rd_ok_iff s i : (exists c, rd s i = Ok c) <-> 0 <= i <= slen s.
Proof.
  unfold rd. split.
  - intros [c H]. destruct (i <? 0) eqn:E0; [discriminate|].
    destruct (i <? slen s) eqn:E1; [lia|].
    destruct (i =? slen s) eqn:E2; [lia|discriminate].
  - intros H. destruct (i <? 0) eqn:E0; [lia|].
    destruct (i <? slen s) eqn:E1; [eauto|].
    destruct (i =? slen s) eqn:E2; [eauto|lia].
Qed.

Lemma hd_skipn_nz s k : nonul s -> (k < length s)%nat -> hd 0 (skipn k s) <> 0.
Proof.
  intros N H. pose proof (nonul_skipn k s N) as N'.
  destruct (skipn k s) eqn:E.
  - apply (f_equal (@length Z)) in E. rewrite skipn_length in E. simpl in E. lia.
  - inversion N'; subst; auto.
Qed.

Lemma skipn_S_tl {A} k (s : list A) : skipn (S k) s = tl (skipn k s).
Proof. revert s; induction k; intros [|a s]; try reflexivity. apply (IHk s). Qed.

(* memcpy source *)
Lemma rd_range_nat s off n :
  (off + n <= length s)%nat ->
  rd_range s (Z.of_nat off) (Z.of_nat n) = Ok (firstn n (skipn off s)).
Proof.
  intros H. unfold rd_range, slen.
  destruct ((Z.of_nat off <? 0) || (Z.of_nat n <? 0) || (Z.of_nat (length s) + 1 <? Z.of_nat off + Z.of_nat n)) eqn:E; [lia|].
  rewrite !Nat2Z.id. f_equal.
  rewrite skipn_app. rewrite firstn_app.
  rewrite skipn_length.
  replace (n - (length s - off))%nat with 0%nat by lia.
  simpl. now rewrite app_nil_r.
Qed.

(* ---------------------------------------------------------------- result buffers *)
Lemma skipn_repeat {A} (z : A) k m : skipn k (repeat z m) = repeat z (m - k).
Proof. revert m; induction k; destruct m; simpl; auto. Qed.

Lemma wr_append (b : buf) (X bytes : list Z) (z : Z) (m : nat) off :
  b_cells b = X ++ repeat z m ->
  off = Z.of_nat (length X) ->
  (length bytes <= m)%nat ->
  b_size b = Z.of_nat (length X + m) ->
  wr b off bytes = Ok {| b_kind := b_kind b; b_size := b_size b;
                         b_cells := (X ++ bytes) ++ repeat z (m - length bytes) |}.
Proof.
  intros HC -> HL HS. unfold wr.
  destruct ((Z.of_nat (length X) <? 0) || (b_size b <? Z.of_nat (length X) + Z.of_nat (length bytes))) eqn:E; [lia|].
  f_equal. f_equal. unfold wr_cells. rewrite HC, Nat2Z.id.
  rewrite firstn_app, firstn_all, Nat.sub_diag. simpl. rewrite app_nil_r.
  rewrite <- app_assoc. f_equal. f_equal.
  rewrite skipn_app.
  rewrite skipn_all2 by lia. simpl.
  replace (length X + length bytes - length X)%nat with (length bytes) by lia.
  rewrite skipn_repeat. reflexivity.
Qed.

Lemma c_text_app t rest : nonul t -> c_text (t ++ 0 :: rest) = t.
Proof.
  induction 1; simpl; [reflexivity|].
  destruct (x =? 0) eqn:E; [lia|]. now rewrite IHForall.
Qed.

(* ---------------------------------------------------------------- list-level view of the scans *)
Fixpoint lead_seps (t : str) : nat :=
  match t with c :: t' => if is_sep c then S (lead_seps t') else O | [] => O end.

Fixpoint name_of (t : str) : str :=
  match t with c :: t' => if is_sep c then [] else c :: name_of t' | [] => [] end.

Lemma drop_seps_skipn t : drop_seps t = skipn (lead_seps t) t.
Proof. induction t; simpl; auto. destruct (is_sep a); simpl; auto. Qed.

Lemma lead_seps_le t : (lead_seps t <= length t)%nat.
Proof. induction t; simpl; auto. destruct (is_sep a); simpl; lia. Qed.

Lemma name_of_le t : (length (name_of t) <= length t)%nat.
Proof. induction t; simpl; auto. destruct (is_sep a); simpl; lia. Qed.

Lemma name_of_split t : t = name_of t ++ skipn (length (name_of t)) t.
Proof. induction t; simpl; auto. destruct (is_sep a); simpl; auto. now f_equal. Qed.

(* what follows a name is the end or a separator *)
Definition at_boundary (t : str) : Prop := match t with [] => True | c :: _ => is_sep c = true end.

Lemma after_name_boundary t : at_boundary (skipn (length (name_of t)) t).
Proof. induction t; simpl; auto. destruct (is_sep a) eqn:E; simpl; auto. Qed.

Lemma drop_seps_head t : match drop_seps t with [] => True | c :: _ => is_sep c = false end.
Proof. induction t; simpl; auto. destruct (is_sep a) eqn:E; simpl; auto. Qed.

Lemma skipn_nonempty_lt {A} k (s : list A) c t : skipn k s = c :: t -> (k < length s)%nat.
Proof.
  intros E. apply (f_equal (@length A)) in E. rewrite skipn_length in E. simpl in E. lia.
Qed.

Lemma skip_seps_loop_nat fuel s k :
  (k <= length s)%nat -> (lead_seps (skipn k s) < fuel)%nat ->
  skip_seps_loop fuel s (Z.of_nat k) = Ok (Z.of_nat (k + lead_seps (skipn k s))).
Proof.
  revert k; induction fuel; intros k Hk Hf; [lia|].
  cbn [skip_seps_loop]. rewrite rd_nat by assumption. cbn [bind].
  destruct (skipn k s) as [|c t] eqn:E; cbn [hd lead_seps].
  - change (is_sep 0) with false. cbv iota. f_equal. lia.
  - destruct (is_sep c) eqn:Ec.
    + pose proof (skipn_nonempty_lt _ _ _ _ E) as Hlt.
      replace (Z.of_nat k + 1) with (Z.of_nat (S k)) by lia.
      assert (Et : skipn (S k) s = t) by (rewrite skipn_S_tl, E; reflexivity).
      cbn [lead_seps] in Hf. rewrite Ec in Hf.
      rewrite IHfuel; rewrite ?Et; try lia. f_equal. lia.
    + f_equal. lia.
Qed.

Lemma name_end_loop_nat fuel s k :
  nonul s -> (k <= length s)%nat -> (length (name_of (skipn k s)) < fuel)%nat ->
  name_end_loop fuel s (Z.of_nat k) = Ok (Z.of_nat (k + length (name_of (skipn k s)))).
Proof.
  intros N. revert k; induction fuel; intros k Hk Hf; [lia|].
  cbn [name_end_loop]. rewrite rd_nat by assumption. cbn [bind].
  pose proof (nonul_skipn k s N) as Nk.
  destruct (skipn k s) as [|c t] eqn:E; cbn [hd name_of].
  - cbn. f_equal. lia.
  - inversion Nk; subst.
    destruct (c =? 0) eqn:Ez; [lia|]. cbn [negb andb].
    destruct (is_sep c) eqn:Ec; cbn [negb length].
    + f_equal. lia.
    + pose proof (skipn_nonempty_lt _ _ _ _ E) as Hlt.
      replace (Z.of_nat k + 1) with (Z.of_nat (S k)) by lia.
      assert (Et : skipn (S k) s = t) by (rewrite skipn_S_tl, E; reflexivity).
      cbn [name_of] in Hf. rewrite Ec in Hf. cbn [length] in Hf.
      rewrite IHfuel; rewrite ?Et; try lia. f_equal. lia.
Qed.

(* ---------------------------------------------------------------- root slices *)
Lemma root_dir_loop_nat fuel s b k :
  (k <= length s)%nat -> (b < k)%nat -> (lead_seps (skipn k s) < fuel)%nat ->
  exists b', root_dir_loop fuel s (Z.of_nat b) (Z.of_nat k)
             = Ok (Z.of_nat b', Z.of_nat (k + lead_seps (skipn k s)))
             /\ (b' < k + lead_seps (skipn k s))%nat.
Proof.
  revert b k; induction fuel; intros b k Hk Hb Hf; [lia|].
  cbn [root_dir_loop]. rewrite rd_nat by assumption. cbn [bind].
  destruct (skipn k s) as [|c t] eqn:E; cbn [hd lead_seps].
  - change (is_sep 0) with false. cbv iota. exists b. split; [do 2 f_equal; lia|lia].
  - destruct (is_sep c) eqn:Ec.
    + pose proof (skipn_nonempty_lt _ _ _ _ E) as Hlt.
      replace (Z.of_nat k + 1) with (Z.of_nat (S k)) by lia.
      assert (Et : skipn (S k) s = t) by (rewrite skipn_S_tl, E; reflexivity).
      cbn [lead_seps] in Hf. rewrite Ec in Hf.
      destruct (IHfuel k (S k)) as [b' [H1 H2]]; rewrite ?Et; try lia.
      rewrite Et in H1, H2.
      exists b'. split; [rewrite H1; do 2 f_equal; lia|lia].
    + exists b. split; [do 2 f_equal; lia|lia].
Qed.

Lemma has_root_lead s : has_root s = negb (Nat.eqb (lead_seps s) 0).
Proof. destruct s; simpl; auto. destruct (is_sep z); auto. Qed.

Lemma root_slices_some s :
  exists d, root_slices (Some s) = Ok ((0, 0), d)
            /\ snd d = Z.of_nat (lead_seps s)
            /\ is_empty_range d = negb (has_root s).
Proof.
  unfold root_slices, root_name_range. cbn [snd fst].
  change 0 with (Z.of_nat 0) at 1. rewrite rd_nat by lia. cbn [bind skipn].
  destruct s as [|c t]; cbn [hd].
  - change (is_sep 0) with false. cbn. exists (0, 0). auto.
  - destruct (is_sep c) eqn:Ec; cbn [negb].
    + destruct (root_dir_loop_nat (S (length (c :: t))) (c :: t) 0 1) as [b' [H1 H2]];
        cbn [length skipn]; try lia.
      { pose proof (lead_seps_le t). lia. }
      cbn [skipn] in H1, H2.
      rewrite (H1 : root_dir_loop (S (S (length t))) (c :: t) 0 (0 + 1) = _). cbn [bind].
      eexists. split; [reflexivity|]. cbn [snd fst has_root lead_seps]. rewrite Ec.
      split; [f_equal; lia|]. unfold is_empty_range; cbn [fst snd]. cbn [negb]. lia.
    + exists (0, 0). cbn [has_root lead_seps snd]. rewrite Ec. auto.
Qed.

Lemma root_slices_none : root_slices None = Ok ((0, 0), (0, 0)).
Proof. reflexivity. Qed.

(* ---------------------------------------------------------------- has_filename *)
Lemma filename_loop_nat fuel s bg j :
  (j <= length s)%nat -> (j - bg < fuel)%nat ->
  exists j', filename_loop fuel s (Z.of_nat bg) (Z.of_nat j) = Ok (Z.of_nat j') /\ (j' <= j)%nat.
Proof.
  revert j; induction fuel; intros j Hj Hf; [lia|].
  cbn [filename_loop].
  destruct (Z.of_nat j >? Z.of_nat bg) eqn:E.
  - replace (Z.of_nat j - 1) with (Z.of_nat (j - 1)) by lia.
    rewrite rd_nat by lia. cbn [bind].
    destruct (negb (is_sep (hd 0 (skipn (j - 1) s)))).
    + destruct (IHfuel (j - 1)%nat) as [j' [H1 H2]]; try lia.
      exists j'. split; [exact H1|lia].
    + exists j. split; [reflexivity|lia].
  - exists j. split; [reflexivity|lia].
Qed.

Lemma last_hd_skipn (s : str) : s <> [] -> last s 0 = hd 0 (skipn (length s - 1) s).
Proof.
  induction s as [|a s IH]; [congruence|]. intros _.
  destruct s as [|b s']; [reflexivity|].
  change (last (a :: b :: s') 0) with (last (b :: s') 0).
  rewrite IH by congruence.
  cbn [length]. replace (S (S (length s')) - 1)%nat with (S (S (length s') - 1)) by lia.
  reflexivity.
Qed.

(* all-separator strings *)
Lemma lead_seps_all_last s : s <> [] -> lead_seps s = length s -> is_sep (last s 0) = true.
Proof.
  induction s as [|a s IH]; [congruence|]. intros _ H.
  cbn [lead_seps length] in H. destruct (is_sep a) eqn:Ea; [|lia].
  destruct s as [|b s']; [exact Ea|].
  change (last (a :: b :: s') 0) with (last (b :: s') 0).
  apply IH; [congruence|lia].
Qed.

Definition has_filename_simple (s : str) : bool := negb (is_nil s) && negb (is_sep (last s 0)).

Lemma has_filename_m_simple s : has_filename_m s = Ok (has_filename_simple s).
Proof.
  unfold has_filename_m, filename_range, has_filename_simple, slen.
  destruct s as [|c0 t0] eqn:Es; [reflexivity|]. rewrite <- Es.
  assert (Hne : s <> []) by (subst; congruence).
  assert (Hlen : (1 <= length s)%nat) by (subst; simpl; lia).
  destruct (Z.of_nat (length s) =? 0) eqn:E0; [lia|].
  unfold root_path_range.
  destruct (root_slices_some s) as [d [H1 [H2 H3]]]. rewrite H1. cbn [bind is_empty_range fst snd].
  change (is_empty_range (0, 0)) with true. cbv iota. cbn [bind]. rewrite H2.
  replace (is_nil s) with false by (subst; reflexivity). cbn [negb andb].
  destruct (Z.of_nat (lead_seps s) =? Z.of_nat (length s)) eqn:E1.
  - rewrite lead_seps_all_last by (auto; lia). reflexivity.
  - replace (Z.of_nat (length s) - 1) with (Z.of_nat (length s - 1)) by lia.
    rewrite rd_nat by lia. cbn [bind].
    rewrite <- last_hd_skipn by assumption.
    destruct (is_sep (last s 0)) eqn:El; [reflexivity|].
    destruct (filename_loop_nat (S (length s)) s (lead_seps s) (length s - 1)) as [j' [H4 H5]]; try lia.
    rewrite H4. cbn [bind]. unfold is_empty_range; cbn [fst snd]. f_equal.
    destruct (Z.of_nat j' =? Z.of_nat (length s)) eqn:E2; [lia|reflexivity].
Qed.

(* the spec's has_filename (last element non-empty) is "non-empty and not ending in a separator" *)
Fixpoint trailing (t cur : str) : str :=
  match t with
  | [] => cur
  | c :: t' => if is_sep c then trailing t' [] else trailing t' (cur ++ [c])
  end.

Lemma split_aux_nonnil t cur insep : split_aux t cur insep <> [].
Proof.
  revert cur insep; induction t as [|c t IH]; intros cur insep; cbn [split_aux]; [congruence|].
  destruct (is_sep c); [destruct insep|]; try apply IH. congruence.
Qed.

Lemma last_split_aux t cur insep : last (split_aux t cur insep) [] = trailing t cur.
Proof.
  revert cur insep; induction t as [|c t IH]; intros cur insep; [reflexivity|].
  cbn [split_aux trailing]. destruct (is_sep c).
  - destruct insep; [apply IH|].
    change (last (cur :: split_aux t [] true) []) with
      (match split_aux t [] true with [] => cur | _ => last (split_aux t [] true) [] end).
    destruct (split_aux t [] true) eqn:E.
    + exfalso. exact (split_aux_nonnil _ _ _ E).
    + rewrite <- E. apply IH.
  - apply IH.
Qed.

Lemma trailing_nil_iff t cur :
  trailing t cur = [] <-> (t = [] /\ cur = []) \/ (t <> [] /\ is_sep (last t 0) = true).
Proof.
  revert cur; induction t as [|c t IH]; intros cur; cbn [trailing].
  - split; [intros ->; left; auto|]. intros [[_ H]|[H _]]; congruence.
  - destruct (is_sep c) eqn:Ec.
    + rewrite IH. split.
      * intros [[-> _]|[Hne Hl]]; right; (split; [congruence|]); [exact Ec|].
        destruct t; [congruence|exact Hl].
      * intros [[H _]|[_ Hl]]; [congruence|].
        destruct t as [|b t']; [left; auto|right]. split; [congruence|exact Hl].
    + rewrite IH. split.
      * intros [[-> H]|[Hne Hl]]; [destruct cur; discriminate|].
        right. split; [congruence|]. destruct t; [congruence|exact Hl].
      * intros [[H _]|[_ Hl]]; [congruence|].
        destruct t as [|b t']; [simpl in Hl; congruence|right]. split; [congruence|exact Hl].
Qed.

Lemma last_skipn (s : str) k : (k < length s)%nat -> last (skipn k s) 0 = last s 0.
Proof.
  revert s; induction k; intros s H; [reflexivity|].
  destruct s as [|a s]; [simpl in H; lia|]. cbn [skipn]. simpl in H.
  rewrite IHk by lia. destruct s; [simpl in H; lia|reflexivity].
Qed.

Lemma has_filename_is_simple s : has_filename s = has_filename_simple s.
Proof.
  unfold has_filename, has_filename_simple, elements.
  destruct s as [|c0 t0] eqn:Es; [reflexivity|]. rewrite <- Es.
  assert (Hne : s <> []) by (subst; congruence).
  replace (is_nil s) with false by (subst; reflexivity). cbn [negb andb].
  rewrite drop_seps_skipn.
  destruct (skipn (lead_seps s) s) as [|c t] eqn:E.
  - cbn. symmetry. rewrite lead_seps_all_last; auto.
    apply (f_equal (@length Z)) in E. rewrite skipn_length in E. simpl in E.
    pose proof (lead_seps_le s). lia.
  - rewrite <- E. rewrite last_split_aux.
    pose proof (skipn_nonempty_lt _ _ _ _ E) as Hlt.
    destruct (is_sep (last s 0)) eqn:El.
    + assert (H : trailing (skipn (lead_seps s) s) [] = []).
      { apply trailing_nil_iff. right. split; [rewrite E; congruence|].
        rewrite last_skipn by assumption. exact El. }
      rewrite H. reflexivity.
    + destruct (trailing (skipn (lead_seps s) s) []) eqn:Et; [|reflexivity].
      apply trailing_nil_iff in Et. destruct Et as [[H _]|[_ H]].
      * rewrite E in H; discriminate.
      * rewrite last_skipn in H by assumption. congruence.
Qed.

Lemma has_filename_m_spec s : has_filename_m s = Ok (has_filename s).
Proof. rewrite has_filename_is_simple. apply has_filename_m_simple. Qed.

(* ---------------------------------------------------------------- sequentially filled buffers *)
Definition fillc (b : buf) : Z := if b_kind b then 0 else uninit.

Definition filled (b : buf) (X : list Z) : Prop :=
  exists m, b_cells b = X ++ repeat (fillc b) m /\ b_size b = Z.of_nat (length X + m).

Lemma filled_calloc n : filled (calloc_buf (Z.of_nat n)) [].
Proof. exists n. unfold calloc_buf, fillc; cbn. rewrite Nat2Z.id. auto. Qed.

Lemma filled_malloc n : filled (malloc_buf (Z.of_nat n)) [].
Proof. exists n. unfold malloc_buf, fillc; cbn. rewrite Nat2Z.id. auto. Qed.

Lemma wr_filled b X bytes off :
  filled b X -> off = Z.of_nat (length X) -> Z.of_nat (length X + length bytes) <= b_size b ->
  exists b', wr b off bytes = Ok b' /\ filled b' (X ++ bytes)
             /\ b_size b' = b_size b /\ b_kind b' = b_kind b.
Proof.
  intros [m [HC HS]] -> HL.
  rewrite (wr_append b X bytes (fillc b) m _ HC eq_refl) by lia.
  eexists. split; [reflexivity|]. cbn [b_size b_kind]. repeat split.
  exists (m - length bytes)%nat. cbn [b_cells b_size]. unfold fillc at 1. cbn [b_kind].
  split; [reflexivity|]. rewrite app_length. lia.
Qed.

Lemma filled_full b X : filled b X -> b_size b = Z.of_nat (length X) -> b_cells b = X.
Proof.
  intros [m [HC HS]] H. assert (m = 0)%nat by lia. subst m. rewrite HC. apply app_nil_r.
Qed.

Lemma filled_calloc_rest b X j :
  filled b X -> b_kind b = true -> b_size b = Z.of_nat (length X + j) -> b_cells b = X ++ repeat 0 j.
Proof.
  intros [m [HC HS]] K H. assert (m = j) by lia. subst m. rewrite HC. unfold fillc. now rewrite K.
Qed.

(* zix_string_view_copy *)
Lemma string_view_copy_ok s :
  string_view_copy s = Ok {| b_kind := false; b_size := slen s + 1; b_cells := s ++ [0] |}.
Proof.
  unfold string_view_copy, slen.
  change 0 with (Z.of_nat 0) at 1.
  rewrite rd_range_nat by (simpl; lia). cbn [skipn bind]. rewrite firstn_all.
  replace (Z.of_nat (length s) + 1) with (Z.of_nat (length s + 1)) by lia.
  destruct (wr_filled (malloc_buf (Z.of_nat (length s + 1))) [] s 0 (filled_malloc _) eq_refl)
    as [b1 [H1 [F1 [S1 K1]]]]; [cbn; lia|].
  rewrite H1. cbn [bind app] in *.
  destruct (wr_filled b1 s [0] (Z.of_nat (length s)) F1 eq_refl) as [b2 [H2 [F2 [S2 K2]]]].
  { rewrite S1. cbn. lia. }
  rewrite H2. f_equal.
  pose proof (filled_full b2 (s ++ [0]) F2) as HC.
  rewrite S2, S1 in HC. cbn [malloc_buf b_size] in HC. rewrite app_length in HC. cbn [length] in HC.
  specialize (HC eq_refl).
  destruct b2 as [k sz cells]. cbn in *. subst. rewrite K1, S1. reflexivity.
Qed.

(* ---------------------------------------------------------------- zix_path_join *)
Lemma root_slices_opt b :
  exists d, root_slices b = Ok ((0, 0), d) /\ is_empty_range d = negb (has_root (opt_str b)).
Proof.
  destruct b as [sb|]; cbn [opt_str].
  - destruct (root_slices_some sb) as [d [H1 [_ H3]]]. eauto.
  - exists (0, 0). split; reflexivity.
Qed.

Lemma is_absolute_some s : is_absolute (Some s) = Ok (has_root s).
Proof.
  unfold is_absolute. change 0 with (Z.of_nat 0). rewrite rd_nat by lia. cbn [bind skipn].
  destruct s; reflexivity.
Qed.

Lemma has_filename_not_root_only s : has_filename s = true -> s <> [].
Proof. rewrite has_filename_is_simple. destruct s; [discriminate|congruence]. Qed.

(* one sequential write: finds `wr b off bytes` in the goal; F : filled b X *)
Ltac step_wr b F b' H F' S' K' :=
  match goal with
  | |- context [wr b ?off ?bytes] =>
      destruct (wr_filled b _ bytes off F) as [b' [H [F' [S' K']]]];
      [ | | rewrite H; cbn [bind] ]
  end.

Lemma join_ok a b :
  nonul (opt_str a) ->
  exists r, zix_path_join a b = Ok r
            /\ b_cells r = std_join_opt a b ++ [0]
            /\ b_size r = slen (std_join_opt a b) + 1.
Proof.
  intros Na. unfold zix_path_join, std_join_opt, std_join.
  set (sb := opt_str b).
  assert (Hblen : match b with Some s => slen s | None => 0 end = slen sb) by (destruct b; reflexivity).
  rewrite Hblen.
  destruct a as [sa|]; cbn [opt_str] in *.
  2:{ cbn [bind is_nil]. rewrite orb_true_r. rewrite string_view_copy_ok. eexists. split; [reflexivity|]. auto. }
  change 0 with (Z.of_nat 0) at 1. rewrite rd_nat by lia. cbn [bind skipn].
  destruct sa as [|c t] eqn:Esa.
  { cbn [hd is_nil bind]. rewrite orb_true_r. change (0 =? 0) with true. cbv iota.
    rewrite string_view_copy_ok. eexists. split; [reflexivity|]. auto. }
  rewrite <- Esa in *. assert (Hc : c <> 0) by (subst sa; inversion Na; auto).
  replace (hd 0 sa) with c by (subst; reflexivity).
  destruct (c =? 0) eqn:Ec; [lia|]. cbv iota.
  replace (is_nil sa) with false by (subst; reflexivity). rewrite orb_false_r.
  destruct (root_slices_some sa) as [da [HA1 [HA2 HA3]]]. rewrite HA1. cbn [bind].
  destruct (root_slices_opt b) as [db [HB1 HB3]]. rewrite HB1. cbn [bind fst snd].
  rewrite has_filename_m_spec. cbn [bind]. rewrite HB3, HA3, !negb_involutive.
  fold sb.
  destruct (has_root sb) eqn:Erb; cbn [negb bind].
  - (* b is absolute: b alone *)
    assert (Hpos : (1 <= length sb)%nat) by (destruct sb; [discriminate|simpl; lia]).
    unfold slen.
    change 0 with (Z.of_nat 0) at 1 2. rewrite rd_range_nat by (simpl; lia). cbn [bind firstn].
    replace (0 + 0 + Z.of_nat (length sb) + 1) with (Z.of_nat (length sb + 1)) by lia.
    set (B0 := calloc_buf (Z.of_nat (length sb + 1))).
    step_wr B0 (filled_calloc (length sb + 1)) b1 H1 F1 S1 K1; [reflexivity|cbn; lia|].
    cbn [app] in F1.
    destruct (Z.of_nat (length sb) >? 0) eqn:Eg; [|lia].
    destruct b as [sb'|]; [|discriminate]. cbn [opt_str] in sb. subst sb.
    replace (Z.of_nat (length sb') - 0) with (Z.of_nat (length sb')) by lia.
    change 0 with (Z.of_nat 0) at 1. rewrite rd_range_nat by (simpl; lia). cbn [bind skipn]. rewrite firstn_all.
    step_wr b1 F1 b2 H2 F2 S2 K2; [reflexivity|rewrite S1; cbn; lia|].
    cbn [app] in F2.
    step_wr b2 F2 b3 H3 F3 S3 K3; [lia|rewrite S2, S1; cbn; lia|].
    eexists. split; [reflexivity|].
    split; [|rewrite S3, S2, S1; cbn; lia].
    apply filled_full; [exact F3|]. rewrite S3, S2, S1, app_length. cbn. lia.
  - (* b is relative: a, maybe a separator, b *)
    assert (Hdec : (if has_filename sa then Ok (slen sa, true)
                    else if negb (has_root sa) then (do ab <- is_absolute (Some sa); Ok (slen sa, ab))
                    else Ok (slen sa, false)) = Ok (slen sa, has_filename sa)).
    { destruct (has_filename sa); [reflexivity|]. rewrite is_absolute_some. cbn [bind].
      destruct (has_root sa); reflexivity. }
    rewrite Hdec. cbn [bind]. clear Hdec.
    set (hf := has_filename sa). clearbody hf.
    set (sp := if hf then [sepc] else []).
    assert (Hsp : (if hf then 1 else 0) = Z.of_nat (length sp)) by (subst sp; destruct hf; reflexivity).
    rewrite Hsp. unfold slen.
    change 0 with (Z.of_nat 0) at 1. rewrite rd_range_nat by (simpl; lia). cbn [bind skipn]. rewrite firstn_all.
    replace (Z.of_nat (length sa) + Z.of_nat (length sp) + Z.of_nat (length sb) + 1)
      with (Z.of_nat (length sa + length sp + length sb + 1)) by lia.
    set (B0 := calloc_buf (Z.of_nat (length sa + length sp + length sb + 1))).
    step_wr B0 (filled_calloc (length sa + length sp + length sb + 1)) b1 H1 F1 S1 K1; [reflexivity|cbn; lia|].
    cbn [app] in F1.
    assert (H2 : exists b2, (if hf then wr b1 (Z.of_nat (length sa)) [sepc] else Ok b1) = Ok b2
                  /\ filled b2 (sa ++ sp) /\ b_size b2 = b_size b1 /\ b_kind b2 = b_kind b1).
    { subst sp. destruct hf.
      - destruct (wr_filled b1 sa [sepc] (Z.of_nat (length sa)) F1 eq_refl) as [b2 [H2 [F2 [S2 K2]]]].
        { rewrite S1. cbn. lia. }
        eauto.
      - exists b1. rewrite app_nil_r. auto. }
    destruct H2 as [b2 [H2 [F2 [S2 K2]]]]. rewrite H2. cbn [bind].
    assert (SB0 : b_size B0 = Z.of_nat (length sa + length sp + length sb + 1)) by reflexivity.
    assert (KB0 : b_kind B0 = true) by reflexivity.
    clear H1 H2 Hsp HA1 HA2 HA3 HB1 HB3 Hblen. clearbody sp B0.
    destruct (Z.of_nat (length sb) >? 0) eqn:Eg.
    + destruct b as [sb'|]; [|discriminate]. cbn [opt_str] in sb. subst sb.
      replace (Z.of_nat (length sb') - 0) with (Z.of_nat (length sb')) by lia.
      change 0 with (Z.of_nat 0) at 1. rewrite rd_range_nat by (simpl; lia). cbn [bind skipn]. rewrite firstn_all.
      step_wr b2 F2 b3 H3 F3 S3 K3;
        [rewrite app_length; lia|rewrite S2, S1, SB0, app_length; cbn [length]; lia|].
      step_wr b3 F3 b4 H4 F4 S4 K4;
        [rewrite !app_length; lia|rewrite S3, S2, S1, SB0, !app_length; cbn [length]; lia|].
      eexists. split; [reflexivity|].
      rewrite <- !app_assoc in F4.
      split; [|rewrite S4, S3, S2, S1, SB0, !app_length; cbn [length]; lia].
      rewrite <- !app_assoc.
      apply filled_full; [exact F4|]. rewrite S4, S3, S2, S1, SB0, !app_length. cbn [length]. lia.
    + assert (Esb : sb = []) by (destruct sb; [reflexivity|simpl in Eg; lia]).
      assert (Lsb : length sb = 0%nat) by (rewrite Esb; reflexivity).
      eexists. split; [reflexivity|]. rewrite Esb, !app_nil_r.
      split; [|rewrite S2, S1, SB0, !app_length; cbn [length]; lia].
      apply (filled_calloc_rest b2 (sa ++ sp) 1 F2).
      * rewrite K2, K1. exact KB0.
      * rewrite S2, S1, SB0, app_length. cbn [length]. lia.
Qed.

(* ---------------------------------------------------------------- zix_path_preferred *)
Lemma firstn_S_hd (s : str) k : (k < length s)%nat -> firstn (S k) s = firstn k s ++ [hd 0 (skipn k s)].
Proof.
  revert s; induction k; intros s H; destruct s as [|a s]; simpl in H; try lia; [reflexivity|].
  change (a :: firstn (S k) s = (a :: firstn k s) ++ [hd 0 (skipn k s)]).
  rewrite IHk by lia. reflexivity.
Qed.

Lemma preferred_loop_ok fuel s k b :
  (k <= length s)%nat -> (length s - k < fuel)%nat ->
  filled b (firstn k s) -> b_size b = Z.of_nat (length s + 1) ->
  exists b', preferred_loop fuel s (slen s) (Z.of_nat k) b = Ok b'
             /\ filled b' s /\ b_size b' = b_size b /\ b_kind b' = b_kind b.
Proof.
  revert k b; induction fuel; intros k b Hk Hf F S0; [lia|].
  cbn [preferred_loop]. unfold slen.
  destruct (Z.of_nat k <? Z.of_nat (length s)) eqn:E.
  - rewrite rd_nat by lia. cbn [bind].
    set (c := hd 0 (skipn k s)).
    assert (Hc : (if is_sep c then sepc else c) = c).
    { destruct (is_sep c) eqn:Ec; [symmetry; now apply is_sep_true|reflexivity]. }
    rewrite Hc.
    step_wr b F b1 H1 F1 S1 K1.
    { rewrite firstn_length. f_equal. lia. }
    { rewrite firstn_length, S0. cbn. lia. }
    replace (Z.of_nat k + 1) with (Z.of_nat (S k)) by lia.
    rewrite <- firstn_S_hd in F1 by lia.
    destruct (IHfuel (S k) b1) as [b' [H2 [F2 [S2 K2]]]]; try lia; try assumption.
    exists b'. unfold slen in H2. rewrite H2. repeat split; auto; congruence.
  - exists b. assert (k = length s) by lia. subst k. rewrite firstn_all in F. auto.
Qed.

Lemma preferred_ok s :
  exists r, zix_path_preferred s = Ok r /\ b_cells r = s ++ [0] /\ b_size r = slen s + 1.
Proof.
  unfold zix_path_preferred.
  replace (slen s + 1) with (Z.of_nat (length s + 1)) by (unfold slen; lia).
  destruct (preferred_loop_ok (S (length s)) s 0 (calloc_buf (Z.of_nat (length s + 1))))
    as [b' [H [F [S0 K]]]]; try lia.
  { apply filled_calloc. }
  { reflexivity. }
  exists b'. split; [exact H|]. split; [|rewrite S0; reflexivity].
  apply (filled_calloc_rest b' s 1 F); [rewrite K; reflexivity|rewrite S0; reflexivity].
Qed.

(* ---------------------------------------------------------------- observable statements *)
Lemma nonul_std_join a b : nonul a -> nonul b -> nonul (std_join a b).
Proof.
  intros Na Nb. unfold std_join. destruct (has_root b || is_nil a); [assumption|].
  apply nonul_app; [assumption|]. apply nonul_app; [|assumption].
  destruct (has_filename a); constructor; [unfold sepc; lia|constructor].
Qed.

Lemma join_text_ok a b :
  nonul (opt_str a) -> nonul (opt_str b) -> join_text a b = Ok (std_join_opt a b).
Proof.
  intros Na Nb. unfold join_text. destruct (join_ok a b Na) as [r [H [HC HS]]].
  rewrite H. cbn [bind]. unfold buf_text. rewrite HC.
  rewrite c_text_app; [reflexivity|]. apply nonul_std_join; assumption.
Qed.

Lemma preferred_text_ok s : nonul s -> preferred_text s = Ok (std_preferred s).
Proof.
  intros N. unfold preferred_text. destruct (preferred_ok s) as [r [H [HC HS]]].
  rewrite H. cbn [bind]. unfold buf_text. rewrite HC. now rewrite c_text_app.
Qed.
