Require Extraction.
Require Import ExtrOcamlBasic.
From Zix Require Import EnvSpec EnvModel.
Separate Extraction EnvModel.expand_run EnvModel.result EnvModel.s_log EnvSpec.spec_expand.
