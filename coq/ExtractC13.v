Require Extraction.
Require Import ExtrOcamlBasic.
From Zix Require Import DigestModel DigestSpec.
Separate Extraction DigestModel.digest64_at DigestModel.digest32_at DigestModel.digest_at
  DigestModel.digest64_aligned DigestModel.digest32_aligned DigestModel.digest_aligned
  DigestModel.mem_of DigestModel.words_of_bytes
  DigestSpec.fasthash64 DigestSpec.murmur3_32.
