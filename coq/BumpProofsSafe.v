(* C09: the invariant over request histories and the main theorem (every trace of the model is
   accepted by the specification). *)
From Coq Require Import ZArith List Bool Lia ZifyBool.
From Zix Require Import BumpModel BumpSpec BumpProofs.
Import ListNotations.
Local Open Scope Z_scope.
Ltac Zify.zify_post_hook ::= Z.div_mod_to_equations.

(* ---------------------------------------------------------------- shadow list lemmas *)
Lemma find_blk_In id L b : find_blk id L = Some b -> In b L /\ b_id b = id.
Proof.
  induction L as [|x L IH]; cbn [find_blk]; [discriminate|].
  destruct (Nat.eqb (b_id x) id) eqn:E.
  - intros [= <-]. split; [now left | now apply Nat.eqb_eq].
  - intros H. destruct (IH H). split; [now right | assumption].
Qed.

Lemma In_remove_blk id L b : In b (remove_blk id L) -> In b L /\ b_id b <> id.
Proof.
  induction L as [|x L IH]; cbn [remove_blk]; [intros []|].
  destruct (Nat.eqb (b_id x) id) eqn:E.
  - intros H. destruct (IH H). split; [now right | assumption].
  - intros [<- | H].
    + split; [now left | now apply Nat.eqb_neq].
    + destruct (IH H). split; [now right | assumption].
Qed.

Lemma Forall_remove_blk (P : block -> Prop) id L :
  Forall P L -> Forall P (remove_blk id L).
Proof.
  intros H. apply Forall_forall. intros b Hb. apply In_remove_blk in Hb as [Hb _].
  rewrite Forall_forall in H. auto.
Qed.

(* ---------------------------------------------------------------- the invariant *)
Definition blk_end (b : block) : Z := b_off b + rounded (b_size b).

Definition recent_ok (A : Z) (st : state) (L : list block) (id : nat) (rc : option nat) : Prop :=
  match rc with
  | None => L = [] /\ last st = top st /\ top st = (- A) mod 8
  | Some r => (r < id)%nat /\
              Forall (fun b => if Nat.eqb (b_id b) r then b_off b = last st else blk_end b <= last st) L
  end.

Definition blk_ok (A : Z) (st : state) (id : nat) (b : block) : Prop :=
  0 <= b_off b /\ blk_end b <= top st /\ (A + b_off b) mod 8 = 0 /\ 0 <= b_size b /\ (b_id b < id)%nat.

Record Inv (A C : Z) (id : nat) (y : sys) (sp : spec_state) : Prop := {
  inv_dead : s_dead y = false;
  inv_live : s_live y = sp_live sp;
  inv_front : sp_front sp = top (s_st y);
  inv_st : 0 <= last (s_st y) <= top (s_st y) /\ (A + top (s_st y)) mod 8 = 0;
  inv_cap : top (s_st y) <= C \/ (sp_live sp = [] /\ sp_recent sp = None);
  inv_blocks : Forall (blk_ok A (s_st y) id) (sp_live sp);
  inv_recent : recent_ok A (s_st y) (sp_live sp) id (sp_recent sp)
}.

Lemma Inv_st_ok A C id y sp : Inv A C id y sp -> st_ok A C (s_st y).
Proof.
  intros I. destruct I as [_ _ _ (Hl & Ha) Hc _ Hr]. unfold st_ok. repeat split; try lia.
  destruct Hc as [Hc | (_ & Hn)]; [now left | right].
  rewrite Hn in Hr. destruct Hr as (_ & _ & ->). lia.
Qed.

Lemma Inv_init A C m : Inv A C 0 (sys_init A m) (spec_init A).
Proof.
  destruct (bump_init_spec A) as [Et El].
  constructor; cbn [sys_init spec_init s_dead s_live s_st sp_live sp_front sp_recent recent_ok];
    rewrite ?Et, ?El; auto.
  lia.
Qed.

Lemma pad_aligned a al : 0 < al -> (a + (- a) mod al) mod al = 0.
Proof.
  intros H. pose proof (Z.div_mod (- a) al ltac:(lia)) as Hd.
  replace (a + (- a) mod al) with ((- ((- a) / al)) * al) by lia. apply Z_mod_mult.
Qed.

Lemma pad_aligned8 a al : 0 < al -> al mod 8 = 0 -> (a + (- a) mod al) mod 8 = 0.
Proof.
  intros H H8. pose proof (Z.div_mod (- a) al ltac:(lia)) as Hd.
  pose proof (Z.div_mod al 8 ltac:(lia)) as Hd8.
  replace (a + (- a) mod al) with ((- ((- a) / al) * (al / 8)) * 8) by lia. apply Z_mod_mult.
Qed.

Lemma alloc_success A C id y y' sp al n off :
  0 < A -> 0 <= C -> A + C < W ->
  Inv A C id y sp -> 0 <= n -> 0 < al -> al mod 8 = 0 ->
  off = top (s_st y) + (- (A + top (s_st y))) mod al ->
  off + rounded n <= C ->
  s_st y' = {| top := off + rounded n; last := off |} ->
  s_live y' = {| b_id := id; b_off := off; b_size := n |} :: s_live y ->
  s_dead y' = false ->
  exists sp', spec_alloc A C id sp al n (OPtr off) = Some sp' /\ Inv A C (S id) y' sp'.
Proof.
  intros HA HC HAC I Hn Hal Hal8 Eoff Hfit Est Elive Edead.
  destruct I as [Hd Hlive Hfront (Hl & Ha) Hcap Hblocks Hrec].
  set (st := s_st y) in *. set (pad := (- (A + top st)) mod al) in *.
  pose proof (Z.mod_pos_bound (- (A + top st)) al Hal) as Hpad. fold pad in Hpad.
  pose proof (pad_aligned (A + top st) al Hal) as Hpa. fold pad in Hpa.
  pose proof (pad_aligned8 (A + top st) al Hal Hal8) as Hpa8. fold pad in Hpa8.
  pose proof (rounded_facts n) as Hr.
  assert (Hfits : fits A C (sp_front sp) al n = true).
  { unfold fits. rewrite Hfront. fold pad. lia. }
  assert (Hfresh : fresh_ok A C (sp_live sp) al n off = true).
  { unfold fresh_ok, extent.
    replace (A + off) with (A + top st + pad) by lia.
    rewrite Hpa, Hpa8.
    assert (E1 : (0 <=? off) = true) by lia. rewrite E1.
    assert (E2 : (off + Z.max n 1 <=? C) = true) by lia. rewrite E2.
    cbn [andb Z.eqb].
    apply forallb_forall. intros b Hb. rewrite Forall_forall in Hblocks.
    destruct (Hblocks b Hb) as (Hb0 & Hbe & _ & Hbs & _). unfold blk_end in Hbe.
    pose proof (rounded_facts (b_size b)). unfold disjoint. lia. }
  unfold spec_alloc. rewrite Hfits, Hfresh. cbn [andb].
  eexists. split; [reflexivity|].
  constructor; rewrite ?Est, ?Elive; cbn [sp_live sp_front sp_recent top last].
  - assumption.
  - rewrite Hlive. reflexivity.
  - lia.
  - split; [lia|].
    replace (A + (off + rounded n)) with ((A + top st + pad) + rounded n) by lia. lia.
  - left. lia.
  - constructor.
    + unfold blk_ok, blk_end; cbn [b_off b_size b_id top].
      replace (A + off) with (A + top st + pad) by lia. lia.
    + eapply Forall_impl; [|exact Hblocks].
      intros b (H1 & H2 & H3 & H4 & H5). unfold blk_ok; cbn [top]. repeat split; try lia.
  - cbn [recent_ok]. split; [lia|]. constructor.
    + cbn [b_id b_off last]. rewrite Nat.eqb_refl. reflexivity.
    + eapply Forall_impl; [|exact Hblocks].
      intros b (H1 & H2 & H3 & H4 & H5). cbn [last].
      destruct (Nat.eqb (b_id b) id) eqn:E; [apply Nat.eqb_eq in E; lia|]. lia.
Qed.

(* a step that changes neither the allocator state nor the shadow list *)
Lemma Inv_same A C id y y' sp :
  Inv A C id y sp -> s_st y' = s_st y -> s_live y' = s_live y -> s_dead y' = false ->
  Inv A C (S id) y' sp.
Proof.
  intros [Hd Hlive Hfront Hst Hcap Hblocks Hrec] Es El Ed.
  constructor; rewrite ?Es, ?El; auto.
  - eapply Forall_impl; [|exact Hblocks]. intros b (H1 & H2 & H3 & H4 & H5). unfold blk_ok. repeat split; try lia.
  - destruct (sp_recent sp) as [r|]; cbn [recent_ok] in *; [|assumption].
    destruct Hrec as [Hr HF]. split; [lia | assumption].
Qed.

Lemma alloc_failure A C id y y' sp al n :
  Inv A C id y sp ->
  ~ (top (s_st y) + (- (A + top (s_st y))) mod al + rounded n <= C) ->
  s_st y' = s_st y -> s_live y' = s_live y -> s_dead y' = false ->
  spec_alloc A C id sp al n ONull = Some sp /\ Inv A C (S id) y' sp.
Proof.
  intros I Hnf Es El Ed. split; [|eapply Inv_same; eauto].
  unfold spec_alloc, fits. rewrite (inv_front _ _ _ _ _ I).
  destruct (_ <=? C) eqn:E; [lia | reflexivity].
Qed.

Lemma all_zero_memset0 m p n : 0 <= n -> all_zero (memset0 m p n) p n = true.
Proof.
  intros Hn. unfold all_zero.
  assert (G : forall k a, p <= a -> a + Z.of_nat k <= p + n -> all_zero_from (memset0 m p n) a k = true).
  { induction k as [|k IH]; intros a H1 H2; cbn [all_zero_from]; [reflexivity|].
    rewrite IH by lia. unfold memset0.
    assert (E : ((p <=? a) && (a <? p + n)) = true) by lia. rewrite E. reflexivity. }
  apply G; lia.
Qed.

Section Step.
  Variables A C : Z.
  Hypothesis HA : 0 < A.
  Hypothesis HC : 0 <= C.
  Hypothesis HAC : A + C < W.

  Definition step_good (id : nat) (y : sys) (sp : spec_state) (r : request) : Prop :=
    let '(y', o, z, _) := sys_step A C id y r in
    exists sp', spec_step A C id sp r o z = Some sp' /\ Inv A C (S id) y' sp'.

  Lemma pad8_zero y id sp : Inv A C id y sp -> (- (A + top (s_st y))) mod 8 = 0.
  Proof. intros I. destruct (inv_st _ _ _ _ _ I) as [_ H]. lia. Qed.

  Lemma step_malloc id y sp n : Inv A C id y sp -> size_ok n = true -> step_good id y sp (Malloc n).
  Proof.
    intros I Hn. unfold size_ok in Hn. assert (Hn' : 0 <= n < W) by lia.
    unfold step_good, sys_step. rewrite bump_malloc_char by (eauto using Inv_st_ok).
    pose proof (pad8_zero _ _ _ I) as Hp0.
    destruct (top (s_st y) + rounded n <=? C) eqn:E; cbn [after_alloc spec_step].
    - replace (A + top (s_st y) - A) with (top (s_st y)) by lia.
      eapply alloc_success; eauto; cbn [s_st s_live s_dead]; try reflexivity; lia.
    - destruct (alloc_failure A C id y
                  {| s_st := s_st y; s_mem := s_mem y; s_live := s_live y; s_dead := false |} sp 8 n I) as [H1 H2];
        try reflexivity; [lia|].
      eauto.
  Qed.

  Lemma step_calloc id y sp a b : Inv A C id y sp -> size_ok a = true -> size_ok b = true ->
    step_good id y sp (Calloc a b).
  Proof.
    intros I Ha Hb. unfold size_ok in *. assert (Ha' : 0 <= a < W) by lia. assert (Hb' : 0 <= b < W) by lia.
    assert (Hab : 0 <= a * b) by nia.
    unfold step_good, sys_step. rewrite bump_calloc_char by (eauto using Inv_st_ok).
    pose proof (pad8_zero _ _ _ I) as Hp0.
    destruct (top (s_st y) + rounded (a * b) <=? C) eqn:E; cbn [after_alloc spec_step].
    - replace (A + top (s_st y) - A) with (top (s_st y)) by lia.
      rewrite all_zero_memset0 by assumption.
      match goal with |- context [Inv _ _ _ {| s_st := ?st; s_mem := ?m; s_live := ?l; s_dead := ?d |}] =>
        destruct (alloc_success A C id y {| s_st := st; s_mem := m; s_live := l; s_dead := d |} sp 8 (a * b)
                    (top (s_st y)) HA HC HAC I Hab ltac:(lia) eq_refl ltac:(lia) ltac:(lia) eq_refl eq_refl eq_refl)
          as (sp' & Hs & Hi)
      end.
      rewrite Hs. eexists; split; [reflexivity | exact Hi].
    - destruct (alloc_failure A C id y
                  {| s_st := s_st y; s_mem := s_mem y; s_live := s_live y; s_dead := false |} sp 8 (a * b) I) as [H1 H2];
        try reflexivity; [lia|].
      rewrite H1. eauto.
  Qed.

  Lemma align_ok_facts al n : align_ok al n = true -> 0 < al /\ al mod 8 = 0.
  Proof.
    intros H. destruct (align_ok_pow2 al n H) as (k & Hk & -> & _).
    split; [apply Z.pow_pos_nonneg; lia|].
    replace (2 ^ k) with (2 ^ (k - 3) * 8).
    - apply Z_mod_mult.
    - change 8 with (2 ^ 3). rewrite <- Z.pow_add_r by lia. f_equal. lia.
  Qed.

  Lemma step_aligned_alloc id y sp al n : Inv A C id y sp -> size_ok n = true -> align_ok al n = true ->
    step_good id y sp (AlignedAlloc al n).
  Proof.
    intros I Hn Hal. unfold size_ok in Hn. assert (Hn' : 0 <= n < W) by lia.
    destruct (align_ok_facts al n Hal) as [Hal0 Hal8].
    unfold step_good, sys_step.
    pose proof (bump_aligned_alloc_char A C (s_st y) al n HA HC HAC (Inv_st_ok _ _ _ _ _ I) Hn' Hal) as Hc.
    cbv zeta in Hc. rewrite Hc. clear Hc.
    set (pad := (- (A + top (s_st y))) mod al).
    destruct (top (s_st y) + pad + rounded n <=? C) eqn:E; cbn [after_alloc spec_step].
    - replace (A + top (s_st y) + pad - A) with (top (s_st y) + pad) by lia.
      match goal with |- context [Inv _ _ _ {| s_st := ?st; s_mem := ?m; s_live := ?l; s_dead := ?d |}] =>
        destruct (alloc_success A C id y {| s_st := st; s_mem := m; s_live := l; s_dead := d |} sp al n
                    (top (s_st y) + pad) HA HC HAC I ltac:(lia) Hal0 Hal8 eq_refl ltac:(lia) eq_refl eq_refl eq_refl)
          as (sp' & Hs & Hi)
      end.
      eauto.
    - destruct (alloc_failure A C id y
                  {| s_st := s_st y; s_mem := s_mem y; s_live := s_live y; s_dead := false |} sp al n I) as [H1 H2];
        try reflexivity; [fold pad; lia|].
      eauto.
  Qed.

  Lemma Inv_top_le_C id y sp b : Inv A C id y sp -> In b (sp_live sp) -> top (s_st y) <= C.
  Proof.
    intros I Hb. destruct (inv_cap _ _ _ _ _ I) as [H | (H & _)]; [assumption|].
    rewrite H in Hb. destruct Hb.
  Qed.

  (* the facts about one live block *)
  Lemma Inv_block id y sp b : Inv A C id y sp -> In b (sp_live sp) ->
    blk_ok A (s_st y) id b /\
    exists r, sp_recent sp = Some r /\ (r < id)%nat /\
      (if Nat.eqb (b_id b) r then b_off b = last (s_st y) else blk_end b <= last (s_st y)).
  Proof.
    intros I Hb. split.
    - pose proof (inv_blocks _ _ _ _ _ I) as H. rewrite Forall_forall in H. auto.
    - pose proof (inv_recent _ _ _ _ _ I) as H. destruct (sp_recent sp) as [r|]; cbn [recent_ok] in H.
      + destruct H as [Hr HF]. exists r. rewrite Forall_forall in HF. split; [reflexivity|]. split; [assumption|]. apply HF, Hb.
      + destruct H as [H _]. rewrite H in Hb. destruct Hb.
  Qed.

  Lemma free_null_state id y sp : Inv A C id y sp -> bump_free A (s_st y) 0 = s_st y.
  Proof.
    intros I. unfold bump_free.
    destruct (0 =? wrap (A + last (s_st y))) eqn:E; [|reflexivity].
    destruct (inv_st _ _ _ _ _ I) as [Hl _].
    assert (Hw : W <= A + last (s_st y)).
    { unfold wrap, W in *. lia. }
    destruct (inv_cap _ _ _ _ _ I) as [Hc | (HL & Hn)]; [lia|].
    pose proof (inv_recent _ _ _ _ _ I) as Hr. rewrite Hn in Hr. cbn [recent_ok] in Hr. destruct Hr as (_ & Hlt & _).
    destruct (s_st y) as [t l]; cbn [top last] in *. subst l. reflexivity.
  Qed.

  Lemma step_free_gen (f : Z -> state -> Z -> state) id y sp p :
    (forall a s q, f a s q = bump_free a s q) ->
    Inv A C id y sp ->
    let '(y', o, z, _) := do_free A y p f in
    exists sp', spec_free sp p o = Some sp' /\ Inv A C (S id) y' sp'.
  Proof.
    intros Hf I. unfold do_free. destruct p as [|id'].
    - rewrite Hf, (free_null_state id y sp I). cbn [spec_free]. eexists; split; [reflexivity|].
      eapply Inv_same; eauto.
    - cbn [spec_free]. rewrite (inv_live _ _ _ _ _ I).
      destruct (find_blk id' (sp_live sp)) as [b|] eqn:Ef.
      2:{ eexists; split; [reflexivity|]. eapply Inv_same; eauto. apply (inv_dead _ _ _ _ _ I). }
      apply find_blk_In in Ef as [Hb Hid].
      destruct (Inv_block id y sp b I Hb) as ((Hb0 & Hbe & Hb8 & Hbs & Hbi) & r & Hrec & Hr & Hcase).
      pose proof (Inv_top_le_C id y sp b I Hb) as HtC.
      destruct I as [Hd Hlive Hfront (Hl & Ha) Hcap Hblocks Hrc].
      pose proof (rounded_facts (b_size b)) as Hrf. unfold blk_end in *.
      rewrite Hf. unfold bump_free.
      rewrite (wrap_small (A + last (s_st y))) by lia.
      eexists; split; [reflexivity|].
      unfold is_recent. rewrite Hrec in *. cbn [recent_ok] in Hrc. destruct Hrc as [_ HF].
      rewrite <- Hid. rewrite Nat.eqb_sym.
      destruct (Nat.eqb (b_id b) r) eqn:Er.
      + (* the most recent block: its space is given back *)
        assert (Em : (A + b_off b =? A + last (s_st y)) = true) by lia. rewrite Em.
        constructor; cbn [s_dead s_live s_st sp_live sp_front sp_recent top last]; auto.
        * split; [lia|]. rewrite <- Hcase. assumption.
        * left. lia.
        * apply Forall_forall. intros b' Hb'. apply In_remove_blk in Hb' as [Hb' Hne].
          rewrite Forall_forall in Hblocks, HF.
          destruct (Hblocks b' Hb') as (H1 & H2 & H3 & H4 & H5). specialize (HF b' Hb').
          apply Nat.eqb_eq in Er.
          destruct (Nat.eqb (b_id b') r) eqn:Er'; [apply Nat.eqb_eq in Er'; congruence|].
          unfold blk_ok, blk_end in *; cbn [top]. repeat split; try lia.
        * cbn [recent_ok]. split; [lia|]. apply Forall_remove_blk. exact HF.
      + assert (Em : (A + b_off b =? A + last (s_st y)) = false) by lia. rewrite Em.
        constructor; cbn [s_dead s_live s_st sp_live sp_front sp_recent]; auto.
        * apply Forall_remove_blk. eapply Forall_impl; [|exact Hblocks].
          intros b' (H1 & H2 & H3 & H4 & H5). unfold blk_ok. repeat split; try lia.
        * cbn [recent_ok]. split; [lia|]. apply Forall_remove_blk. exact HF.
  Qed.

  Lemma step_realloc id y sp p n : Inv A C id y sp -> size_ok n = true -> step_good id y sp (Realloc p n).
  Proof.
    intros I Hn. unfold size_ok in Hn. assert (Hn' : 0 <= n < W) by lia.
    pose proof (rounded_facts n) as Hrn.
    assert (HCW : 0 <= C < W) by lia.
    destruct (inv_st _ _ _ _ _ I) as [Hl Ha].
    unfold step_good, sys_step. destruct p as [|id'].
    - (* realloc(NULL, n) *)
      rewrite bump_realloc_char by (assumption || lia).
      assert (E : ((0 =? wrap (A + last (s_st y))) && (last (s_st y) + rounded n <=? C)) = false).
      { destruct (0 =? wrap (A + last (s_st y))) eqn:E0; [|reflexivity]. cbn [andb].
        assert (W <= A + last (s_st y)) by (unfold wrap, W in *; lia). lia. }
      rewrite E. cbn [spec_step]. eexists; split; [reflexivity|]. apply (Inv_same A C id y _ sp I); try reflexivity; cbn [s_live]; symmetry; apply (inv_live _ _ _ _ _ I).
    - cbn [spec_step]. rewrite (inv_live _ _ _ _ _ I).
      destruct (find_blk id' (sp_live sp)) as [b|] eqn:Ef.
      2:{ eexists; split; [reflexivity|]. apply (Inv_same A C id y _ sp I); try reflexivity. apply (inv_dead _ _ _ _ _ I). }
      apply find_blk_In in Ef as [Hb Hid].
      destruct (Inv_block id y sp b I Hb) as ((Hb0 & Hbe & Hb8 & Hbs & Hbi) & r & Hrec & Hr & Hcase).
      pose proof (Inv_top_le_C id y sp b I Hb) as HtC.
      pose proof (rounded_facts (b_size b)) as Hrf. unfold blk_end in *.
      rewrite bump_realloc_char by (assumption || lia).
      rewrite (wrap_small (A + last (s_st y))) by lia.
      unfold is_recent. rewrite Hrec. rewrite <- Hid. rewrite Nat.eqb_sym.
      destruct (Nat.eqb (b_id b) r) eqn:Er.
      + assert (Em : (A + b_off b =? A + last (s_st y)) = true) by lia. rewrite Em. cbn [andb].
        rewrite <- Hcase.
        destruct (b_off b + rounded n <=? C) eqn:Efit.
        * (* resized in place *)
          replace (A + b_off b - A) with (b_off b) by lia. rewrite Z.eqb_refl. cbn [andb].
          destruct I as [Hd Hlive Hfront _ Hcap Hblocks Hrc].
          rewrite Hrec in Hrc. cbn [recent_ok] in Hrc. destruct Hrc as [_ HF].
          apply Nat.eqb_eq in Er.
          assert (Edis : forallb (fun b' => Nat.eqb (b_id b') (b_id b) ||
                            disjoint (b_off b) (extent n) (b_off b') (extent (b_size b'))) (sp_live sp) = true).
          { apply forallb_forall. intros b' Hb'. rewrite Forall_forall in HF. specialize (HF b' Hb').
            destruct (Nat.eqb (b_id b') (b_id b)) eqn:E1; [reflexivity|]. cbn [orb].
            apply Nat.eqb_neq in E1.
            destruct (Nat.eqb (b_id b') r) eqn:E2; [apply Nat.eqb_eq in E2; congruence|].
            pose proof (rounded_facts (b_size b')). unfold blk_end, disjoint, extent in *. lia. }
          rewrite Edis. eexists; split; [reflexivity|].
          constructor; cbn [s_dead s_live s_st sp_live sp_front sp_recent top last]; auto.
          -- rewrite Hcase. split; [lia|].
             replace (A + (last (s_st y) + rounded n)) with ((A + b_off b) + rounded n) by lia. lia.
          -- left. lia.
          -- unfold resize_blk. apply Forall_forall. intros x Hx. apply in_map_iff in Hx as (b' & <- & Hb').
             rewrite Forall_forall in Hblocks, HF.
             destruct (Hblocks b' Hb') as (H1 & H2 & H3 & H4 & H5). specialize (HF b' Hb').
             destruct (Nat.eqb (b_id b') (b_id b)) eqn:E1.
             ++ apply Nat.eqb_eq in E1.
                assert (E2 : Nat.eqb (b_id b') r = true) by (apply Nat.eqb_eq; congruence). rewrite E2 in HF.
                unfold blk_ok, blk_end; cbn [b_id b_off b_size top]. repeat split; try lia.
             ++ apply Nat.eqb_neq in E1.
                destruct (Nat.eqb (b_id b') r) eqn:E2; [apply Nat.eqb_eq in E2; congruence|].
                unfold blk_ok, blk_end in *; cbn [top]. repeat split; try lia.
          -- rewrite ?Hrec. cbn [recent_ok]. split; [lia|].
             unfold resize_blk. apply Forall_forall. intros x Hx. apply in_map_iff in Hx as (b' & <- & Hb').
             rewrite Forall_forall in HF. specialize (HF b' Hb'). cbn [last].
             destruct (Nat.eqb (b_id b') (b_id b)) eqn:E1.
             ++ apply Nat.eqb_eq in E1. cbn [b_id b_off].
                assert (E2 : Nat.eqb (b_id b') r = true) by (apply Nat.eqb_eq; congruence). rewrite E2 in *. lia.
             ++ destruct (Nat.eqb (b_id b') r) eqn:E2; lia.
        * eexists; split; [reflexivity|]. apply (Inv_same A C id y _ sp I); try reflexivity.
          cbn [s_live]. symmetry. apply (inv_live _ _ _ _ _ I).
      + assert (Em : (A + b_off b =? A + last (s_st y)) = false) by lia. rewrite Em. cbn [andb].
        eexists; split; [reflexivity|]. apply (Inv_same A C id y _ sp I); try reflexivity; cbn [s_live]; symmetry; apply (inv_live _ _ _ _ _ I).
  Qed.

  Lemma step_ok id y sp r : Inv A C id y sp -> req_ok r = true -> step_good id y sp r.
  Proof.
    intros I Hr. destruct r as [n | a b | p n | p | al n | p]; cbn [req_ok] in Hr.
    - apply step_malloc; assumption.
    - apply andb_true_iff in Hr as [H1 H2]. apply step_calloc; assumption.
    - apply step_realloc; assumption.
    - unfold step_good, sys_step. cbn [spec_step].
      pose proof (step_free_gen bump_free id y sp p (fun _ _ _ => eq_refl) I) as H.
      destruct (do_free A y p bump_free) as [[[y' o] z] m']. exact H.
    - apply andb_true_iff in Hr as [H1 H2]. apply step_aligned_alloc; assumption.
    - unfold step_good, sys_step. cbn [spec_step].
      pose proof (step_free_gen bump_aligned_free id y sp p (fun _ _ _ => eq_refl) I) as H.
      destruct (do_free A y p bump_aligned_free) as [[[y' o] z] m']. exact H.
  Qed.

  Lemma run_ok rs : forall id y sp, Inv A C id y sp ->
    spec_check_from A C id sp (trace_of (sys_run A C id y rs)) = true.
  Proof.
    induction rs as [|r rs IH]; intros id y sp I; cbn [sys_run]; [reflexivity|].
    rewrite (inv_dead _ _ _ _ _ I).
    pose proof (step_ok id y sp r I) as Hs. unfold step_good in Hs.
    destruct (sys_step A C id y r) as [[[y' o] z] m'].
    cbn [trace_of map e_req e_resp e_zero spec_check_from].
    destruct (req_ok r); [|reflexivity].
    destruct (Hs eq_refl) as (sp' & -> & I'). apply IH. exact I'.
  Qed.
End Step.

Theorem bump_safe_all A C m0 rs :
  0 < A -> 0 <= C -> A + C < W -> spec_check A C (trace_of (bump_run A C m0 rs)) = true.
Proof. intros HA HC HAC. apply run_ok; auto. apply Inv_init. Qed.
