(* C05 — property theorems only (single-threaded ring = bounded byte FIFO). *)
From Coq Require Import ZArith List Bool.
From Zix Require Import RingSpec RingModel.
Import ListNotations.
Local Open Scope Z_scope.

Theorem ring_reset_heads : forall rg, read_head (ring_reset rg) = 0 /\ write_head (ring_reset rg) = 0.
Proof. intros rg. split; reflexivity. Qed.
Print Assumptions ring_reset_heads.
