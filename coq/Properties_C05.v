(* C05 — "Ring is an all-or-nothing bounded byte FIFO with atomic transactions".
   Property theorems only.  The model (RingModel.v) follows /repo/src/ring.c used from one thread;
   the spec (RingSpec.v) is a byte queue `sq` with a capacity, plus the open transaction.
   All statements are for every ring size 1 <= s <= 2^31, every history, every byte value. *)
From Coq Require Import ZArith List Bool Lia.
From Zix Require Import RingSpec RingModel RingProofsNpot RingProofsBase RingProofs RingProofsSim
  RingProofsHist RingProofsTx RingProofsTxEq RingProofsFifo.
Import ListNotations.
Local Open Scope Z_scope.

(* ------------------------------------------------------------------ capacity *)

(* the bit-smearing code returns the least power of two >= s *)
Theorem npot_correct :
  forall s, 1 <= s <= 2 ^ 31 ->
    (exists k, 0 <= k /\ next_power_of_two s = 2 ^ k) /\
    s <= next_power_of_two s /\
    forall j, 0 <= j -> s <= 2 ^ j -> next_power_of_two s <= 2 ^ j.
Proof. exact npot_correct_lemma. Qed.
Print Assumptions npot_correct.

(* observation, not a violation: sizes 0 and > 2^31 are outside the property; the code computes
   size 0 for them *)
Theorem npot_outside :
  next_power_of_two 0 = 0 /\ forall s, 2 ^ 31 < s < 2 ^ 32 -> next_power_of_two s = 0.
Proof. exact npot_outside_lemma. Qed.
Print Assumptions npot_outside.

(* capacity of a new ring = (least power of two >= s) - 1; a new ring is empty *)
Theorem ring_capacity_new :
  forall s junk, 1 <= s <= 2 ^ 31 ->
    ring_capacity (ring_new s junk) = next_power_of_two s - 1 /\
    ring_capacity (ring_new s junk) = spec_capacity s /\
    is_least_pow2_ge (ring_capacity (ring_new s junk) + 1) s /\
    abs (ring_new s junk) = [] /\ inv (ring_new s junk).
Proof.
  intros s junk Hs. pose proof (ring_new_capacity s junk Hs) as C.
  split; [rewrite C; symmetry; now apply npot_spec_capacity|].
  split; [exact C|]. split; [rewrite C; now apply spec_capacity_least|].
  split; [now apply ring_new_abs|now apply ring_new_inv].
Qed.
Print Assumptions ring_capacity_new.

(* ------------------------------------------------------------------ refinement *)

(* Every history the queue spec defines (i.e. every history that does not amend/commit without an
   open transaction) makes the ring return, call by call, exactly what the queue returns — return
   values and delivered bytes — and leaves it holding exactly the queue's bytes, with the space
   queries agreeing. *)
Theorem ring_refines_queue :
  forall s junk h s' outs, 1 <= s <= 2 ^ 31 ->
    spec_run (spec_capacity s) spec_init h = Some (s', outs) ->
    exists st',
      ring_run (ring_init s junk) h = (st', outs) /\
      abs (fst st') = sq s' /\
      ring_read_space (fst st') = len (sq s') /\
      ring_write_space (fst st') = spec_capacity s - len (sq s') /\
      ring_capacity (fst st') = spec_capacity s.
Proof.
  intros s junk h s' outs Hs Hrun.
  destruct (R_run _ h _ _ _ _ (R_init s junk Hs) Hrun) as (st' & Eq & HR).
  exists st'. split; [exact Eq|]. destruct st' as [rg t].
  pose proof (R_free _ _ _ _ HR) as Hf. destruct HR as (Hi & _ & Hc & Ha & _). cbn [fst snd] in *.
  split; [exact Ha|]. split; [rewrite <- Ha; symmetry; now apply abs_len|].
  split; [now rewrite Hf|now rewrite Hc].
Qed.
Print Assumptions ring_refines_queue.

(* One call from ANY state related to a queue state (the induction step of the above). *)
Theorem ring_step_refines :
  forall cap st s o s' out,
    R cap st s -> spec_step cap s o = Some (s', out) ->
    exists st', ring_step st o = (st', out) /\ R cap st' s'.
Proof. exact R_step. Qed.
Print Assumptions ring_step_refines.

(* All or nothing, "nothing" part: a request that does not fit returns 0 (NO_MEM for amend) and
   leaves the ENTIRE state — heads, masks, every buffer byte, the caller's transaction — equal. *)
Theorem ring_refused_unchanged :
  forall rg, inv rg ->
    (forall src, ring_write_space rg < len src -> ring_write rg src = (rg, 0)) /\
    (forall n, ring_read_space rg < n ->
       ring_read rg n = (rg, (0, [])) /\ ring_peek rg n = (0, []) /\ ring_skip rg n = (rg, 0)) /\
    (forall t src, 0 <= tx_write_head t < size rg ->
       write_space_internal rg (tx_read_head t) (tx_write_head t) < len src ->
       ring_amend_write rg t src = (rg, t, ST_NO_MEM)).
Proof. exact refused_unchanged. Qed.
Print Assumptions ring_refused_unchanged.

(* All or nothing, "all" part: a request that fits transfers exactly the requested bytes:
   write appends them at the back; read / skip remove exactly n from the front; peek removes none. *)
Theorem ring_served_exactly :
  forall rg, inv rg ->
    (forall src, len src <= ring_write_space rg ->
       exists rg', ring_write rg src = (rg', len src) /\ inv rg' /\ abs rg' = abs rg ++ src) /\
    (forall n, 0 <= n <= ring_read_space rg ->
       (exists rg', ring_read rg n = (rg', (n, ztake n (abs rg))) /\ inv rg' /\
                    abs rg' = zdrop n (abs rg)) /\
       ring_peek rg n = (n, ztake n (abs rg)) /\
       (exists rg', ring_skip rg n = (rg', n) /\ inv rg' /\ abs rg' = zdrop n (abs rg))).
Proof. exact served. Qed.
Print Assumptions ring_served_exactly.

(* ------------------------------------------------------------------ space *)

(* read_space + write_space = capacity after EVERY history (even ones that misuse the transaction
   API or pass negative sizes), and the structural invariant holds *)
Theorem ring_space_sum :
  forall s junk h, 1 <= s <= 2 ^ 31 ->
    let rg := fst (fst (ring_run (ring_init s junk) h)) in
    inv rg /\
    ring_read_space rg + ring_write_space rg = ring_capacity rg /\
    ring_capacity rg = spec_capacity s.
Proof.
  intros s junk h Hs rg.
  pose proof (run_minv h _ (init_minv s junk Hs)) as [Hi _]. fold rg in Hi.
  split; [exact Hi|]. split; [now apply space_sum_lemma|].
  rewrite capacity_spec by exact Hi.
  assert (Hsz : forall h st, size (fst (fst (ring_run st h))) = size (fst st)).
  { clear. induction h as [|o h IH]; intros st; cbn [ring_run]; [reflexivity|].
    assert (S1 : size (fst (fst (ring_step st o))) = size (fst st)).
    { destruct st as [rg t]. destruct o as [src|n|n|n| | |src| ]; cbn [ring_step fst].
      - pose proof (write_frame rg src) as [_ F]. destruct (ring_write rg src). exact F.
      - unfold ring_read. destruct (peek_internal rg (read_head rg) (write_head rg) n).
        destruct (z =? 0); reflexivity.
      - reflexivity.
      - unfold ring_skip. destruct (read_space_internal rg (read_head rg) (write_head rg) <? n);
          reflexivity.
      - reflexivity.
      - reflexivity.
      - pose proof (amend_size rg t src) as F. destruct (ring_amend_write rg t src) as [[? ?] ?].
        exact F.
      - reflexivity. }
    destruct (ring_step st o) as [st1 out]. specialize (IH st1).
    destruct (ring_run st1 h) as [st2 outs]. cbn [fst] in *. congruence. }
  unfold rg. rewrite Hsz. cbn [ring_init fst ring_new size].
  now apply npot_spec_capacity.
Qed.
Print Assumptions ring_space_sum.

(* ------------------------------------------------------------------ transactions *)

(* begin_write; amend_write b1; ...; amend_write bk; [commit_write]  on any ring state:
   - the statuses are exactly: NO_MEM iff (bytes accepted so far in this transaction) + |bi| exceeds
     the write space the ring had at begin_write (the code tests the transaction's own heads), and a
     refused part changes nothing;
   - before commit nothing is visible: stored bytes, both heads, read and write space unchanged —
     so an abandoned transaction leaves no trace;
   - after commit the accepted bytes appear contiguously, and the ring is where a single
     ring_write of their concatenation puts it (same stored bytes, same heads). *)
Theorem ring_tx_atomic :
  forall rg parts, inv rg ->
    let room := ring_write_space rg in
    let acc := amend_accepted room 0 parts in
    exists rg1 t1,
      amend_all rg (ring_begin_write rg) parts = (rg1, t1, amend_statuses room 0 parts) /\
      inv rg1 /\ abs rg1 = abs rg /\ read_head rg1 = read_head rg /\ write_head rg1 = write_head rg /\
      ring_read_space rg1 = ring_read_space rg /\ ring_write_space rg1 = ring_write_space rg /\
      let rg2 := fst (ring_commit_write rg1 t1) in
      inv rg2 /\ abs rg2 = abs rg ++ acc /\
      exists rgw, ring_write rg acc = (rgw, len acc) /\ abs rgw = abs rg2 /\
                  read_head rgw = read_head rg2 /\ write_head rgw = write_head rg2 /\
                  size rgw = size rg2.
Proof. intros rg parts H. exact (tx_lemma rg parts H). Qed.
Print Assumptions ring_tx_atomic.

(* ... and not only the stored bytes and heads: the ENTIRE ring state after commit (both heads, size,
   mask, every byte of the buffer) equals the state after the single write of the accepted bytes *)
Theorem ring_tx_commit_is_write :
  forall rg parts, inv rg ->
    let acc := amend_accepted (ring_write_space rg) 0 parts in
    let rg1 := fst (fst (amend_all rg (ring_begin_write rg) parts)) in
    let t1 := snd (fst (amend_all rg (ring_begin_write rg) parts)) in
    fst (ring_commit_write rg1 t1) = fst (ring_write rg acc).
Proof. exact tx_state_eq. Qed.
Print Assumptions ring_tx_commit_is_write.

(* when everything fits: all SUCCESS and commit == write (b1 ++ ... ++ bk) *)
Corollary ring_tx_all_fit :
  forall rg parts, inv rg -> len (concat parts) <= ring_write_space rg ->
    amend_statuses (ring_write_space rg) 0 parts = map (fun _ => ST_SUCCESS) parts /\
    amend_accepted (ring_write_space rg) 0 parts = concat parts.
Proof.
  intros rg parts _ H. split; [apply amend_statuses_all|apply amend_accepted_all]; exact H.
Qed.
Print Assumptions ring_tx_all_fit.

(* ------------------------------------------------------------------ peek, reset, order *)

Theorem ring_peek_pure :
  forall rg t n, inv rg -> 0 <= n ->
    ring_peek rg n = snd (ring_read rg n) /\ fst (ring_step (rg, t) (OPeek n)) = (rg, t).
Proof. intros rg t n H Hn. split; [now apply peek_pure|reflexivity]. Qed.
Print Assumptions ring_peek_pure.

Theorem ring_reset_empty :
  forall rg, inv rg ->
    inv (ring_reset rg) /\ abs (ring_reset rg) = [] /\ ring_read_space (ring_reset rg) = 0 /\
    ring_write_space (ring_reset rg) = ring_capacity rg.
Proof. exact reset_empty. Qed.
Print Assumptions ring_reset_empty.

(* FIFO order over whole histories (no reset; skip left out so that every byte that leaves is
   seen): the bytes delivered by the reads, in call order, followed by the bytes still stored,
   are exactly the bytes accepted (served writes, committed transactions), in call order. *)
Theorem ring_fifo :
  forall s junk h s' outs, 1 <= s <= 2 ^ 31 ->
    spec_run (spec_capacity s) spec_init h = Some (s', outs) ->
    existsb is_reset h = false -> existsb is_skip h = false ->
    exists st', ring_run (ring_init s junk) h = (st', outs) /\
      run_in (spec_capacity s) spec_init h = read_data h outs ++ abs (fst st').
Proof. exact fifo_lemma. Qed.
Print Assumptions ring_fifo.

(* the same with skips: what left the queue (read or skipped, as the queue spec accounts it),
   followed by what is stored, is what went in *)
Theorem ring_fifo_with_skip :
  forall s junk h s' outs, 1 <= s <= 2 ^ 31 ->
    spec_run (spec_capacity s) spec_init h = Some (s', outs) ->
    existsb is_reset h = false ->
    exists st', ring_run (ring_init s junk) h = (st', outs) /\
      run_in (spec_capacity s) spec_init h = run_out (spec_capacity s) spec_init h ++ abs (fst st').
Proof.
  intros s junk h s' outs Hs Hrun Hr.
  destruct (R_run _ h _ _ _ _ (R_init s junk Hs) Hrun) as (st' & Eq & (_ & _ & _ & Ha & _)).
  exists st'. split; [exact Eq|].
  pose proof (run_balance _ _ _ _ _ Hrun Hr) as B. cbn [spec_init sq app] in B.
  now rewrite B, Ha.
Qed.
Print Assumptions ring_fifo_with_skip.

(* ------------------------------------------------------------------ non-vacuity *)

(* a history on a ring of size 5 (capacity 7) that wraps, fails a write, runs a transaction with a
   refused part, and abandons another: the spec defines it, so the theorems apply to it *)
Example history_example :
  let h := [OWrite [1;2;3;4;5]; ORead 4; OWrite [6;7;8;9;10]; OWrite [11;12;13];
            OBegin; OAmend [13]; OAmend [14]; OCommit; OPeek 2; OBegin; OAmend []; ORead 8; OSkip 1] in
  exists s' outs, spec_run (spec_capacity 5) spec_init h = Some (s', outs) /\
    ring_run (ring_init 5 (fun _ => 165)) h = (fst (ring_run (ring_init 5 (fun _ => 165)) h), outs) /\
    sq s' = [6;7;8;9;10;13].
Proof. vm_compute. eexists. eexists. split; [reflexivity|]. split; reflexivity. Qed.

Example inv_example : inv (ring_new 100 (fun _ => 0)) /\ ring_capacity (ring_new 100 (fun _ => 0)) = 127.
Proof. split; [apply ring_new_inv; lia|reflexivity]. Qed.

(* what "exceeds the free space" means in the code: amend_write tests the transaction's own copy of
   the read head, so the room is the write space at begin_write.  Here the ring (capacity 7) is
   full at begin_write; the reader then frees 3 bytes; amend of 1 byte is still refused (and a
   fresh begin_write sees the space).  ring_step_refines / ring_refines_queue state this through
   the spec field `room`. *)
Example tx_room_is_snapshot_example :
  let h := [OWrite [1;2;3;4;5;6;7]; OBegin; ORead 3; OAmend [8]; OBegin; OAmend [8]; OCommit] in
  map fst (snd (ring_run (ring_init 8 (fun _ => 0)) h)) = [7; 0; 3; ST_NO_MEM; 0; ST_SUCCESS; ST_SUCCESS] /\
  abs (fst (fst (ring_run (ring_init 8 (fun _ => 0)) h))) = [4;5;6;7;8] /\
  exists s' outs, spec_run (spec_capacity 8) spec_init h = Some (s', outs) /\ sq s' = [4;5;6;7;8].
Proof. vm_compute. split; [reflexivity|]. split; [reflexivity|]. eexists. eexists. split; reflexivity. Qed.
