(* C07 / C08 — allocation skeletons of the zix functions whose memory behaviour is a fixed, small
   pattern: which requests they make to the caller's allocator (answered by an oracle), what they
   release on each failure path, and what they hand back.  Block ids are request serial numbers
   (a refused request consumes a serial too), exactly as harness/valloc.h numbers them, so the
   model's event log can be compared with the implementation's allocator trace.
   Containers with data-dependent allocation (B-tree pages, hash arrays) are covered by their own
   models (BTreeModel/HashModel); the AVL tree's pattern (one node per element) is here.
   Definitions only. *)
From Coq Require Import ZArith List Bool Arith.
From Zix Require Import FaultSpec.
Import ListNotations.

Record ast := { oracle : list bool; next : nat; log : list aevent }.

Definition ast0 (o : list bool) : ast := {| oracle := o; next := 0; log := [] |}.

(* one request to the caller's allocator: [] means "every further request succeeds" *)
Definition alloc (k : akind) (s : ast) : option nat * ast :=
  let ok := match oracle s with [] => true | b :: _ => b end in
  let s' := {| oracle := tl (oracle s); next := S (next s);
               log := if ok then log s ++ [EAlloc Caller k (next s)] else log s |} in
  (if ok then Some (next s) else None, s').

Definition release (k : akind) (id : nat) (s : ast) : ast :=
  {| oracle := oracle s; next := next s; log := log s ++ [EFree Caller k id] |}.

(* ---- zix_ring_new / zix_ring_free : struct, then buffer; struct released if the buffer fails *)
Definition ring_new (s : ast) : option (nat * nat) * ast :=
  match alloc Plain s with
  | (None, s1) => (None, s1)
  | (Some r, s1) =>
      match alloc Plain s1 with
      | (None, s2) => (None, release Plain r s2)
      | (Some b, s2) => (Some (r, b), s2)
      end
  end.

Definition ring_free (rb : nat * nat) (s : ast) : ast :=
  release Plain (fst rb) (release Plain (snd rb) s).

(* ---- functions that make exactly one request and return that block or NULL:
   zix_string_view_copy, zix_path_join, zix_path_preferred, zix_path_lexically_normal,
   zix_path_lexically_relative (when it allocates at all), zix_canonical_path, zix_current_path,
   zix_temp_directory_path, zix_create_temporary_directory *)
Definition one_block (s : ast) : option nat * ast := alloc Plain s.

(* caller releases the returned string with the same allocator *)
Definition caller_free (r : option nat) (s : ast) : ast :=
  match r with Some id => release Plain id s | None => s end.

(* ---- zix_create_directories: one copy of the path, always released before returning *)
Definition create_directories (s : ast) : bool * ast :=
  match alloc Plain s with
  | (None, s1) => (false, s1)                     (* NO_MEM, nothing touched *)
  | (Some p, s1) => (true, release Plain p s1)
  end.

(* ---- zix_expand_environment_strings: a chain of n realloc-style requests (each growing the
   result); when one fails the partial result is released and NULL returned.  A successful
   realloc is modelled as new block + release of the old one (the tracking allocator always moves). *)
Fixpoint realloc_chain (n : nat) (cur : option nat) (s : ast) : option nat * ast :=
  match n with
  | O => (cur, s)
  | S n' =>
      match alloc Plain s with
      | (None, s1) => (None, match cur with Some c => release Plain c s1 | None => s1 end)
      | (Some b, s1) =>
          realloc_chain n' (Some b) (match cur with Some c => release Plain c s1 | None => s1 end)
      end
  end.

(* ---- zix_copy_file (block path) and zix_file_equals: aligned blocks, stack fall-back, every
   obtained block released with the matching entry before returning *)
Definition copy_file_block (s : ast) : ast :=
  match alloc Aligned s with
  | (None, s1) => s1                               (* stack buffer fall-back *)
  | (Some b, s1) => release Aligned b s1
  end.

Definition file_equals_blocks (s : ast) : ast :=
  let '(a, s1) := alloc Aligned s in
  let '(b, s2) := alloc Aligned s1 in
  let s3 := match b with Some id => release Aligned id s2 | None => s2 end in
  match a with Some id => release Aligned id s3 | None => s3 end.

(* ---- ZixTree (AVL): one plain block for the tree, one per element *)
Inductive tree_op := TIns | TRem (i : nat).        (* TRem i: remove the i-th live node *)

Definition tree_new (s : ast) : option nat * ast := alloc Plain s.

Fixpoint remove_nth {A} (i : nat) (l : list A) : list A :=
  match l, i with
  | [], _ => []
  | _ :: l', O => l'
  | x :: l', S i' => x :: remove_nth i' l'
  end.

(* nodes = ids of live node blocks; result bool = the op reported NO_MEM *)
Definition tree_step (nodes : list nat) (o : tree_op) (s : ast) : list nat * ast * bool :=
  match o with
  | TIns => match alloc Plain s with
            | (None, s1) => (nodes, s1, true)
            | (Some n, s1) => (nodes ++ [n], s1, false)
            end
  | TRem i => match nth_error nodes i with
              | Some n => (remove_nth i nodes, release Plain n s, false)
              | None => (nodes, s, false)
              end
  end.

Fixpoint tree_run (nodes : list nat) (ops : list tree_op) (s : ast) : list nat * ast :=
  match ops with
  | [] => (nodes, s)
  | o :: ops' => let '(nodes', s', _) := tree_step nodes o s in tree_run nodes' ops' s'
  end.

Fixpoint release_all (k : akind) (ids : list nat) (s : ast) : ast :=
  match ids with [] => s | id :: ids' => release_all k ids' (release k id s) end.

Definition tree_free (t : nat) (nodes : list nat) (s : ast) : ast :=
  release Plain t (release_all Plain nodes s).

(* whole life of a tree under an oracle: log at the end *)
Definition tree_life (o : list bool) (ops : list tree_op) : list aevent :=
  match tree_new (ast0 o) with
  | (None, s) => log s
  | (Some t, s) => let '(nodes, s') := tree_run [] ops s in log (tree_free t nodes s')
  end.

(* ---- src/allocator.c: the default allocator (used when the caller passes NULL) forwards every entry to libc,
   one call per request with the same arguments; aligned blocks come from posix_memalign and go back through free *)
Inductive def_req :=
| DMalloc (n : Z) | DCalloc (n s : Z) | DRealloc (blk : nat) (n : Z) | DFree (blk : nat)
| DAlignedAlloc (al n : Z) | DAlignedFree (blk : nat).

Inductive libc_call :=
| LMalloc (n : Z) | LCalloc (n s : Z) | LRealloc (blk : nat) (n : Z) | LFree (blk : nat)
| LPosixMemalign (al n : Z).

Definition default_call (r : def_req) : libc_call :=
  match r with
  | DMalloc n => LMalloc n
  | DCalloc n s => LCalloc n s
  | DRealloc b n => LRealloc b n
  | DFree b => LFree b
  | DAlignedAlloc al n => LPosixMemalign al n
  | DAlignedFree b => LFree b
  end.

Definition default_trace (rs : list def_req) : list libc_call := map default_call rs.

(* does the request create / destroy a block (for the balance statement) *)
Definition req_allocs (r : def_req) : bool :=
  match r with DMalloc _ | DCalloc _ _ | DAlignedAlloc _ _ => true | _ => false end.
Definition req_frees (r : def_req) : bool :=
  match r with DFree _ | DAlignedFree _ => true | _ => false end.
Definition call_allocs (c : libc_call) : bool :=
  match c with LMalloc _ | LCalloc _ _ | LPosixMemalign _ _ => true | _ => false end.
Definition call_frees (c : libc_call) : bool := match c with LFree _ => true | _ => false end.
