(* C03 proofs, part 6: argument roles of the user callbacks (for EVERY state, not only reachable
   ones), and two-step insertion = insert. *)
From Coq Require Import ZArith List Bool Lia Permutation.
From Coq Require Import ZifyBool.
From Zix Require Import HashSpec HashModel HashProofsBase.
Import ListNotations.
Local Open Scope Z_scope.

Lemma rec_eqb_refl : forall r, rec_eqb r r = true.
Proof. intros. unfold rec_eqb. rewrite !Z.eqb_refl. reflexivity. Qed.

Lemma rec_eqb_eq : forall a b, rec_eqb a b = true -> a = b.
Proof.
  intros [k1 i1] [k2 i2]. unfold rec_eqb, rkey, rid. simpl. intros H.
  apply andb_true_iff in H as [A B]. f_equal; lia.
Qed.

Lemma rec_in_In : forall r l, In r l -> rec_in r l = true.
Proof.
  intros. unfold rec_in. apply existsb_exists. exists r. split; [assumption|apply rec_eqb_refl].
Qed.

Lemma rec_in_iff : forall r l, rec_in r l = true <-> In r l.
Proof.
  intros. split; [|apply rec_in_In]. unfold rec_in. intros H.
  apply existsb_exists in H as (x & I & E). apply rec_eqb_eq in E. subst. assumption.
Qed.

Lemma kref_eqb_refl : forall k, kref_eqb k k = true.
Proof. destruct k; simpl; [apply rec_eqb_refl|apply Z.eqb_refl]. Qed.

(* every record held by a slot of [l] is one of [A] *)
Definition slots_in (A : list rec) (l : list slot) : Prop := forall c r, In (Live c r) l -> In r A.

Definition evs_ok (A : list rec) (ck : kref) (lg : list event) : Prop :=
  Forall (fun e => ev_okb A ck e = true) lg.

Lemma evs_ok_app : forall A ck a b, evs_ok A ck a -> evs_ok A ck b -> evs_ok A ck (a ++ b).
Proof. intros. apply Forall_app. split; assumption. Qed.

Lemma evs_ok_nil : forall A ck, evs_ok A ck [].
Proof. intros. constructor. Qed.

Lemma evs_ok_cons : forall A ck e l, ev_okb A ck e = true -> evs_ok A ck l -> evs_ok A ck (e :: l).
Proof. intros. constructor; assumption. Qed.

Lemma zget_in : forall l i c r, zget l i = Live c r -> In (Live c r) l.
Proof.
  intros l i c r E. unfold zget in E.
  destruct (nth_in_or_default (Z.to_nat i) l Empty) as [I|D]; [rewrite E in I; assumption|].
  rewrite E in D. discriminate.
Qed.

Lemma In_upd : forall l i v e, In e (upd l i v) -> e = v \/ In e l.
Proof.
  induction l; destruct i; simpl; intros; auto.
  - destruct H; auto.
  - destruct H; auto. apply IHl in H. destruct H; auto.
Qed.

Lemma slots_in_zset : forall A l i c r, slots_in A l -> In r A -> slots_in A (zset l i (Live c r)).
Proof.
  intros A l i c r S I c' r' H. unfold zset in H. apply In_upd in H as [E|H].
  - inversion E; subst. assumption.
  - eapply S; eauto.
Qed.

Lemma slots_in_zset_free : forall A l i v, slots_in A l -> has_value v = false -> slots_in A (zset l i v).
Proof.
  intros A l i v S HV c' r' H. unfold zset in H. apply In_upd in H as [E|H].
  - subst v. discriminate.
  - eapply S; eauto.
Qed.

Lemma slots_in_repeat : forall A n, slots_in A (repeat Empty n).
Proof. intros A n c r H. apply repeat_spec in H. discriminate. Qed.

Lemma In_firstn : forall (l : list slot) n e, In e (firstn n l) -> In e l.
Proof.
  induction l; destruct n; simpl; intros; auto; try contradiction.
  destruct H; [left; assumption|right; eapply IHl; eassumption].
Qed.

Lemma slots_in_firstn : forall A l n, slots_in A l -> slots_in A (firstn n l).
Proof. intros A l n S c r H. apply In_firstn in H. eapply S; eauto. Qed.

Lemma slots_in_live : forall l, slots_in (live_recs l) l.
Proof.
  intros l c r H. unfold live_recs. apply in_flat_map. exists (Live c r). split; [assumption|simpl; auto].
Qed.

Lemma slots_in_weaken : forall A B l, slots_in A l -> (forall r, In r A -> In r B) -> slots_in B l.
Proof. intros A B l S W c r H. apply W. eapply S; eauto. Qed.

(* the log of one is_match *)
Lemma is_match_log : forall A ck e code pred ud,
  (kref_eqb ud ck || stored_key A ud = true) ->
  (forall c' r', e = Live c' r' -> In r' A) ->
  evs_ok A ck (snd (is_match e code pred ud)).
Proof.
  intros A ck e code pred ud UD S. unfold is_match.
  destruct e as [| |c' r']; simpl; try apply evs_ok_nil.
  destruct (c' =? code); simpl; [|apply evs_ok_nil].
  assert (In r' A) by (eapply S; reflexivity).
  apply evs_ok_cons; [simpl; apply rec_in_In; assumption|].
  apply evs_ok_cons; [|apply evs_ok_nil].
  simpl. rewrite (rec_in_In _ _ H). simpl. assumption.
Qed.

Lemma slot_match_log : forall A ck st i code pred ud,
  slots_in A (h_ent st) -> (kref_eqb ud ck || stored_key A ud = true) ->
  evs_ok A ck (snd (is_match (zget (h_ent st) i) code pred ud)).
Proof.
  intros. apply is_match_log; auto. intros c' r' E. eapply H. eapply zget_in. exact E.
Qed.

Lemma find_loop_log : forall A ck st key h code,
  slots_in A (h_ent st) -> (kref_eqb key ck || stored_key A key = true) ->
  forall fuel i, evs_ok A ck (snd (find_loop fuel st key h code i)).
Proof.
  intros A ck st key h code S UD. induction fuel; intros i; cbn [find_loop]; [apply evs_ok_nil|].
  destruct (is_empty (zget (h_ent st) i)); [apply evs_ok_nil|].
  pose proof (slot_match_log A ck st i code (Z.eqb (kval key)) key S UD) as ML.
  destruct (is_match (zget (h_ent st) i) code (Z.eqb (kval key)) key) as [m lg]. simpl in ML.
  destruct m; [assumption|].
  destruct (next_index (h_mask st) i =? h); [assumption|].
  specialize (IHfuel (next_index (h_mask st) i)).
  destruct (find_loop fuel st key h code (next_index (h_mask st) i)) as [r lg']. simpl in *.
  apply evs_ok_app; assumption.
Qed.

Lemma plan_loop_log : forall A ck st code pred ud start,
  slots_in A (h_ent st) -> (kref_eqb ud ck || stored_key A ud = true) ->
  forall fuel i ft, evs_ok A ck (snd (plan_loop fuel st code pred ud start i ft)).
Proof.
  intros A ck st code pred ud start S UD. induction fuel; intros i ft; cbn [plan_loop]; [apply evs_ok_nil|].
  destruct (is_empty (zget (h_ent st) i)); [apply evs_ok_nil|].
  pose proof (slot_match_log A ck st i code pred ud S UD) as ML.
  destruct (is_match (zget (h_ent st) i) code pred ud) as [m lg]. simpl in ML.
  destruct m; [assumption|].
  destruct (next_index (h_mask st) i =? start); [assumption|].
  match goal with |- context [plan_loop fuel st code pred ud start ?i' ?ft'] =>
    specialize (IHfuel i' ft'); destruct (plan_loop fuel st code pred ud start i' ft') as [r lg'] end.
  simpl in *. apply evs_ok_app; assumption.
Qed.

Lemma In_stored_key : forall A r, In r A -> stored_key A (KOfRec r) = true.
Proof. intros. simpl. apply rec_in_In. assumption. Qed.

Lemma rehash_loop_log : forall A ck old st,
  slots_in A old -> slots_in A (h_ent st) ->
  evs_ok A ck (snd (rehash_loop old st)).
Proof.
  intros A ck. induction old as [|e rest IH]; intros st SO SN; cbn [rehash_loop]; [apply evs_ok_nil|].
  assert (SR : slots_in A rest) by (intros c r H; eapply SO; right; exact H).
  destruct e as [| |c r]; cbn [s_value s_hash]; auto.
  assert (IA : In r A) by (eapply SO; left; reflexivity).
  assert (UD : kref_eqb (KOfRec r) ck || stored_key A (KOfRec r) = true)
    by (rewrite (In_stored_key A r IA); apply orb_true_r).
  pose proof (find_loop_log A ck st (KOfRec r) (fold_hash c (h_mask st)) c SN UD
                (Z.to_nat (h_n st)) (fold_hash c (h_mask st))) as FL.
  unfold find_entry.
  destruct (find_loop (Z.to_nat (h_n st)) st (KOfRec r) (fold_hash c (h_mask st)) c
              (fold_hash c (h_mask st))) as [fr lg]. simpl in FL.
  assert (K : ev_okb A ck (EvKeyOf r) = true) by (simpl; apply rec_in_In; assumption).
  destruct fr as [i| |].
  - specialize (IH (set_ent st (zset (h_ent st) i (Live c r))) SR).
    destruct (rehash_loop rest (set_ent st (zset (h_ent st) i (Live c r)))) as [o lg'].
    simpl in *. apply evs_ok_cons; [assumption|]. apply evs_ok_app; [assumption|].
    apply IH. apply slots_in_zset; assumption.
  - simpl. apply evs_ok_cons; assumption.
  - simpl. apply evs_ok_cons; assumption.
Qed.

Lemma resize_log : forall A ck st new_n o,
  slots_in A (h_ent st) ->
  evs_ok A ck (snd (fst (resize st new_n o))).
Proof.
  intros A ck st new_n o S. unfold resize, rehash.
  set (st1 := set_size st new_n (new_n - 1)).
  destruct o as [|b o1]; [|destruct b].
  - pose proof (rehash_loop_log A ck (firstn (Z.to_nat (h_n st)) (h_ent st1))
                  (set_ent st1 (repeat Empty (Z.to_nat (h_n st1))))
                  (slots_in_firstn _ _ _ S) (slots_in_repeat _ _)) as R.
    destruct (rehash_loop (firstn (Z.to_nat (h_n st)) (h_ent st1))
                (set_ent st1 (repeat Empty (Z.to_nat (h_n st1))))) as [r lg].
    simpl in *. exact R.
  - pose proof (rehash_loop_log A ck (firstn (Z.to_nat (h_n st)) (h_ent st1))
                  (set_ent st1 (repeat Empty (Z.to_nat (h_n st1))))
                  (slots_in_firstn _ _ _ S) (slots_in_repeat _ _)) as R.
    destruct (rehash_loop (firstn (Z.to_nat (h_n st)) (h_ent st1))
                (set_ent st1 (repeat Empty (Z.to_nat (h_n st1))))) as [r lg].
    simpl in *. exact R.
  - simpl. apply evs_ok_nil.
Qed.

Lemma insert_at_log : forall A ck st p r o,
  slots_in A (h_ent st) -> In r A ->
  evs_ok A ck (snd (fst (insert_at st p r o))).
Proof.
  intros A ck st p r o S I. unfold insert_at.
  destruct (has_value (zget (h_ent st) (p_index p))); [apply evs_ok_nil|].
  destruct (h_n st / 2 + h_n st / 8 <=? h_count st + 1); [|apply evs_ok_nil].
  unfold grow.
  set (st1 := set_ent st (zset (h_ent st) (p_index p) (Live (p_code p) r))).
  pose proof (resize_log A ck st1 (Z.shiftl (h_n st1) 1) o) as R.
  destruct (resize st1 (Z.shiftl (h_n st1) 1) o) as [[g lg] o'].
  simpl in *. apply R. unfold st1; simpl. apply slots_in_zset; assumption.
Qed.

Lemma erase_log : forall A ck st i o,
  slots_in A (h_ent st) ->
  evs_ok A ck (snd (fst (erase st i o))).
Proof.
  intros A ck st i o S. unfold erase.
  set (st2 := set_count (set_ent st (zset (h_ent st) i Tomb)) (h_count (set_ent st (zset (h_ent st) i Tomb)) - 1)).
  destruct (h_count st2 <? h_n st2 / 4); [|apply evs_ok_nil].
  unfold shrink. destruct (min_n_entries <? h_n st2); [|apply evs_ok_nil].
  pose proof (resize_log A ck st2 (Z.shiftr (h_n st2) 1) o) as R.
  destruct (resize st2 (Z.shiftr (h_n st2) 1) o) as [[g lg] o'].
  simpl in *. apply R. unfold st2; simpl. apply slots_in_zset_free; [assumption|reflexivity].
Qed.

Section WithHash.
  Variable hf : Z -> Z.

  Lemma find_log : forall A st k,
    slots_in A (h_ent st) -> evs_ok A (KArg k) (snd (find hf st k)).
  Proof.
    intros A st k S. unfold find, find_entry.
    pose proof (find_loop_log A (KArg k) st (KArg k) (fold_hash (code_of hf k) (h_mask st)) (code_of hf k) S
                  ltac:(simpl; rewrite Z.eqb_refl; reflexivity)
                  (Z.to_nat (h_n st)) (fold_hash (code_of hf k) (h_mask st))) as F.
    destruct (find_loop (Z.to_nat (h_n st)) st (KArg k) (fold_hash (code_of hf k) (h_mask st))
                (code_of hf k) (fold_hash (code_of hf k) (h_mask st))) as [fr lg].
    simpl in *. apply evs_ok_cons; [simpl; apply Z.eqb_refl|assumption].
  Qed.

  Lemma find_record_log : forall A st k,
    slots_in A (h_ent st) -> evs_ok A (KArg k) (snd (find_record hf st k)).
  Proof.
    intros A st k S. unfold find_record, find_entry.
    pose proof (find_loop_log A (KArg k) st (KArg k) (fold_hash (code_of hf k) (h_mask st)) (code_of hf k) S
                  ltac:(simpl; rewrite Z.eqb_refl; reflexivity)
                  (Z.to_nat (h_n st)) (fold_hash (code_of hf k) (h_mask st))) as F.
    destruct (find_loop (Z.to_nat (h_n st)) st (KArg k) (fold_hash (code_of hf k) (h_mask st))
                (code_of hf k) (fold_hash (code_of hf k) (h_mask st))) as [fr lg].
    simpl in *. apply evs_ok_cons; [simpl; apply Z.eqb_refl|assumption].
  Qed.

  Lemma plan_prehashed_log : forall A st code pred ud,
    slots_in A (h_ent st) -> evs_ok A ud (snd (plan_insert_prehashed st code pred ud)).
  Proof.
    intros A st code pred ud S. unfold plan_insert_prehashed.
    pose proof (plan_loop_log A ud st code pred ud (fold_hash code (h_mask st)) S
                  ltac:(rewrite kref_eqb_refl; reflexivity)
                  (Z.to_nat (h_n st)) (fold_hash code (h_mask st)) None) as F.
    destruct (plan_loop (Z.to_nat (h_n st)) st code pred ud (fold_hash code (h_mask st))
                (fold_hash code (h_mask st)) None) as [r lg].
    simpl in *. assumption.
  Qed.

  Lemma plan_insert_log : forall A st key,
    slots_in A (h_ent st) -> evs_ok A key (snd (plan_insert hf st key)).
  Proof.
    intros A st key S. unfold plan_insert.
    pose proof (plan_prehashed_log A st (code_of hf (kval key)) (Z.eqb (kval key)) key S) as F.
    destruct (plan_insert_prehashed st (code_of hf (kval key)) (Z.eqb (kval key)) key) as [r lg].
    simpl in *. apply evs_ok_cons; [simpl; apply kref_eqb_refl|assumption].
  Qed.

  (* every call, in every state: the log obeys the documented roles *)
  Lemma step_roles : forall st pend c o,
    roles_okb st c (snd (fst (step hf (st, pend) c o))) = true.
  Proof.
    intros st pend c o. unfold roles_okb. apply forallb_forall. apply Forall_forall.
    change (evs_ok (op_rec c ++ live_recs (h_ent st)) (op_callkey c) (snd (fst (step hf (st, pend) c o)))).
    set (A := op_rec c ++ live_recs (h_ent st)).
    assert (S : slots_in A (h_ent st)).
    { eapply slots_in_weaken; [apply slots_in_live|]. intros r I. apply in_or_app. right. assumption. }
    destruct c as [r|k|k|r|k|k|k|k| |]; cbn [step op_callkey].
    - (* OInsert *)
      unfold insert.
      pose proof (plan_insert_log A st (KOfRec r) S) as PL.
      destruct (plan_insert hf st (KOfRec r)) as [pr lg0]. simpl in PL.
      assert (IA : In r A) by (left; reflexivity).
      assert (K : ev_okb A (KOfRec r) (EvKeyOf r) = true) by (cbn [ev_okb]; apply rec_in_In; assumption).
      destruct pr as [pl| |]; simpl; try (apply evs_ok_cons; assumption).
      pose proof (insert_at_log A (KOfRec r) st pl r o S IA) as IL.
      destruct (insert_at st pl r o) as [[x lg'] o']. simpl in *.
      destruct x as [[s st']| |]; simpl;
        (apply evs_ok_cons; [assumption|apply evs_ok_app; assumption]).
    - pose proof (plan_insert_log A st (KArg k) S) as PL.
      destruct (plan_insert hf st (KArg k)) as [pr lg0]. simpl in *. destruct pr; assumption.
    - pose proof (plan_prehashed_log A st (code_of hf k) (Z.eqb k) (KArg k) S) as PL.
      destruct (plan_insert_prehashed st (code_of hf k) (Z.eqb k) (KArg k)) as [pr lg0].
      simpl in *. destruct pr; assumption.
    - (* OInsertAt *)
      destruct pend as [[pl k]|]; [|apply evs_ok_nil].
      destruct (rkey r =? k); [|apply evs_ok_nil].
      assert (IA : In r A) by (left; reflexivity).
      pose proof (insert_at_log A (KOfRec r) st pl r o S IA) as IL.
      destruct (insert_at st pl r o) as [[x lg'] o']. simpl in *.
      destruct x as [[s st']| |]; assumption.
    - pose proof (find_log A st k S) as F.
      destruct (find hf st k) as [fi lg0]. simpl in *. destruct fi; assumption.
    - pose proof (find_record_log A st k S) as F.
      destruct (find_record hf st k) as [fi lg0]. simpl in *. destruct fi; assumption.
    - (* ORemove *)
      unfold remove. pose proof (find_log A st k S) as F.
      destruct (find hf st k) as [fi lg0]. simpl in F.
      destruct fi as [i| |]; try assumption.
      destruct (i =? h_n st); [assumption|].
      pose proof (erase_log A (KArg k) st i o S) as EL.
      destruct (erase st i o) as [[x lg'] o']. simpl in *.
      destruct x as [[[s rm] st']| |]; apply evs_ok_app; assumption.
    - (* OErase *)
      pose proof (find_log A st k S) as F.
      destruct (find hf st k) as [fi lg0]. simpl in F.
      destruct fi as [i| |]; try assumption.
      destruct (i =? h_n st); [assumption|].
      pose proof (erase_log A (KArg k) st i o S) as EL.
      destruct (erase st i o) as [[x lg'] o']. simpl in *.
      destruct x as [[[s rm] st']| |]; apply evs_ok_app; assumption.
    - apply evs_ok_nil.
    - destruct (iterate st); apply evs_ok_nil.
  Qed.

  (* ---------------------------------------------------------------- two-step insertion *)
  Lemma plan_loop_ud : forall st code pred ud1 ud2 start fuel i ft,
    fst (plan_loop fuel st code pred ud1 start i ft) = fst (plan_loop fuel st code pred ud2 start i ft).
  Proof.
    intros st code pred ud1 ud2 start. induction fuel; intros i ft; cbn [plan_loop]; [reflexivity|].
    destruct (is_empty (zget (h_ent st) i)); [reflexivity|].
    pose proof (is_match_fst (zget (h_ent st) i) code pred ud1) as M1.
    pose proof (is_match_fst (zget (h_ent st) i) code pred ud2) as M2.
    destruct (is_match (zget (h_ent st) i) code pred ud1) as [m1 l1].
    destruct (is_match (zget (h_ent st) i) code pred ud2) as [m2 l2].
    simpl in M1, M2. subst m1 m2.
    destruct (matchp (zget (h_ent st) i) code pred); [reflexivity|].
    destruct (next_index (h_mask st) i =? start); [reflexivity|].
    match goal with |- context [plan_loop fuel st code pred ud1 start ?i' ?ft'] =>
      specialize (IHfuel i' ft');
      destruct (plan_loop fuel st code pred ud1 start i' ft') as [r1 g1];
      destruct (plan_loop fuel st code pred ud2 start i' ft') as [r2 g2] end.
    simpl in *. assumption.
  Qed.

  Lemma plan_prehashed_ud : forall st code pred ud1 ud2,
    fst (plan_insert_prehashed st code pred ud1) = fst (plan_insert_prehashed st code pred ud2).
  Proof.
    intros. unfold plan_insert_prehashed.
    pose proof (plan_loop_ud st code pred ud1 ud2 (fold_hash code (h_mask st)) (Z.to_nat (h_n st))
                  (fold_hash code (h_mask st)) None) as E.
    destruct (plan_loop (Z.to_nat (h_n st)) st code pred ud1 (fold_hash code (h_mask st))
                (fold_hash code (h_mask st)) None) as [r1 g1].
    destruct (plan_loop (Z.to_nat (h_n st)) st code pred ud2 (fold_hash code (h_mask st))
                (fold_hash code (h_mask st)) None) as [r2 g2].
    simpl in *. subst. reflexivity.
  Qed.

  (* zix_hash_insert(record) returns and does exactly what zix_hash_insert_at does with the plan
     made by zix_hash_plan_insert (or by plan_insert_prehashed with the key's code and equality)
     for the record's key on the same table -- in every state *)
  Lemma plan_then_insert_at : forall st r o,
    (forall p, fst (plan_insert hf st (KArg (rkey r))) = Ret p ->
       fst (fst (insert_at st p r o)) = fst (fst (insert hf st r o)) /\
       snd (insert_at st p r o) = snd (insert hf st r o)) /\
    fst (plan_insert_prehashed st (code_of hf (rkey r)) (Z.eqb (rkey r)) (KArg (rkey r))) =
      fst (plan_insert hf st (KArg (rkey r))) /\
    (fst (plan_insert hf st (KArg (rkey r))) = OutOfFuel -> fst (fst (insert hf st r o)) = OutOfFuel).
  Proof.
    intros st r o.
    assert (E : fst (plan_insert hf st (KArg (rkey r))) = fst (plan_insert hf st (KOfRec r))).
    { unfold plan_insert. simpl kval.
      pose proof (plan_prehashed_ud st (code_of hf (rkey r)) (Z.eqb (rkey r)) (KArg (rkey r)) (KOfRec r)) as U.
      destruct (plan_insert_prehashed st (code_of hf (rkey r)) (Z.eqb (rkey r)) (KArg (rkey r))) as [a b].
      destruct (plan_insert_prehashed st (code_of hf (rkey r)) (Z.eqb (rkey r)) (KOfRec r)) as [c d].
      simpl in *. assumption. }
    split; [|split].
    - intros p Hp. rewrite E in Hp. unfold insert.
      destruct (plan_insert hf st (KOfRec r)) as [pr lg]. simpl in Hp. subst pr.
      destruct (insert_at st p r o) as [[x lg'] o']. simpl. split; reflexivity.
    - unfold plan_insert. simpl kval.
      destruct (plan_insert_prehashed st (code_of hf (rkey r)) (Z.eqb (rkey r)) (KArg (rkey r))) as [a b].
      reflexivity.
    - intros Hp. rewrite E in Hp. unfold insert.
      destruct (plan_insert hf st (KOfRec r)) as [pr lg]. simpl in Hp. subst pr. reflexivity.
  Qed.
End WithHash.
