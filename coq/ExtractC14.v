Require Extraction.
Require Import ExtrOcamlBasic.
From Zix Require Import CopySpec CopyModel.
Separate Extraction CopyModel.zix_copy_file CopyModel.world0 CopySpec.copy_spec CopySpec.dst_bytes
  CopySpec.benignb CopySpec.stat_faultedb CopySpec.w_fds CopySpec.w_trace CopySpec.w_src CopySpec.w_dst.
