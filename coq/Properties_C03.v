(* C03 — property theorems only.
   "zix_hash is a faithful, always-terminating map for any hash function."

   Model: coq/HashModel.v follows /repo/src/hash.c as it is now (after the fix: commits bd9d1cb
   full-cycle guard, 746ddc6 rehash by key, 1f365c2 shrink roll-back).  Spec: coq/HashSpec.v, an
   association list.  Every theorem quantifies over an ARBITRARY hash function hf : Z -> Z (the code of
   a key is hf k mod 2^64), over every history of API calls (insert, plan_insert /
   plan_insert_prehashed + insert_at, find, find_record, remove, find + erase, size, iteration) and
   over every allocation oracle o : list bool (false = the calloc of a grow/shrink returns NULL). *)
From Coq Require Import ZArith List Bool Permutation.
From Zix Require Import HashSpec HashModel HashProofsBase HashProofsProbe HashProofsOps HashProofsCalls
  HashProofsHist HashProofsRoles.
Import ListNotations.
Local Open Scope Z_scope.

(* a state of the table that some history of calls reaches from zix_hash_new *)
Definition reachable (hf : Z -> Z) (st : hstate) : Prop :=
  exists cs o l pend, run hf (hash_new, None) cs o = (Ret l, (st, pend)).

(* (H1) count = number of records; (H2) count < n/2 + n/8; (H3) no Empty slot between the home slot
   of a record and the slot holding it; (H4) keys of the records pairwise distinct -- plus the shape
   (n a power of two >= 4, mask = n-1, n slots) and "the stored code is the code of the key".
   Invariant of every reachable state, for every hash function and every allocation oracle. *)
Theorem hash_invariants :
  forall hf st, reachable hf st ->
    (exists k, 2 <= k /\ h_n st = 2 ^ k) /\ h_mask st = h_n st - 1 /\
    Z.of_nat (length (h_ent st)) = h_n st /\
    h_count st = Z.of_nat (length (live_recs (h_ent st))) /\
    h_count st < h_n st / 2 + h_n st / 8 /\
    chain_ok (h_n st) (h_ent st) /\
    NoDup (map rkey (live_recs (h_ent st))) /\
    codes_ok hf (h_ent st).
Proof.
  intros hf st (cs & o & l & pend & R).
  destruct (run_ok hf cs hash_new None o (Inv_new hf) Logic.I) as (l' & st' & pend' & R' & _ & I & _).
  rewrite R in R'. inversion R'; subst.
  destruct I as ((P & M & L) & H1 & H2 & (_ & CH & ND & CO)). repeat split; assumption.
Qed.
Print Assumptions hash_invariants.

(* Every history runs to completion and its results are results the association list allows:
   insert answers EXISTS iff the key is present, else the record is stored (or NO_MEM and nothing
   changes); find / find_record / plan+record_at return exactly the record the map holds under the
   key (the same pointer: records carry their identity) and end / NULL for an absent key; remove and
   find+erase return the stored record and delete it, NOT_FOUND for an absent key; size = number of
   records; iteration returns each record once. *)
Theorem hash_refines_map :
  forall hf cs o, exists l rs,
    run hf (hash_new, None) cs o = (Ret l, rs) /\ spec_run [] None cs (map fst l).
Proof.
  intros hf cs o.
  destruct (run_ok hf cs hash_new None o (Inv_new hf) Logic.I) as (l & st' & pend' & R & S & _).
  exists l, (st', pend'). split; assumption.
Qed.
Print Assumptions hash_refines_map.

(* begin .. next .. end visits every record of the table exactly once (and nothing else), in slot
   order; distinct iterators; the records visited are pairwise distinct *)
Theorem hash_iter_each_once :
  forall hf st, reachable hf st ->
    exists l, iterate st = Ret l /\
      NoDup (map fst l) /\
      map snd l = map Some (live_recs (h_ent st)) /\
      NoDup (live_recs (h_ent st)).
Proof.
  intros hf st (cs & o & l & pend & R).
  destruct (run_ok hf cs hash_new None o (Inv_new hf) Logic.I) as (l' & st' & pend' & R' & _ & I & _).
  rewrite R in R'. inversion R'; subst.
  exists (live_idx (h_ent st') 0). split; [apply iterate_ok; apply I|].
  split; [apply live_idx_nodup|]. split; [apply live_idx_snd|].
  destruct I as (_ & _ & _ & (_ & _ & ND & _)). eapply NoDup_map_inv. exact ND.
Qed.
Print Assumptions hash_iter_each_once.

(* No call of any history fails to return (OutOfFuel = a probe loop that never ends) or writes past
   the array (Undef), whatever the hash function and the allocation failures. *)
Theorem hash_calls_terminate :
  forall hf cs o,
    fst (run hf (hash_new, None) cs o) <> OutOfFuel /\ fst (run hf (hash_new, None) cs o) <> Undef.
Proof.
  intros hf cs o. destruct (hash_refines_map hf cs o) as (l & rs & R & _). rewrite R. simpl.
  split; discriminate.
Qed.
Print Assumptions hash_calls_terminate.

(* With the full-cycle guard the look-ups and the insertion plans terminate in ANY table of a
   power-of-two size, reachable or not (e.g. one without a single Empty slot): the measure is the
   number of slots not yet visited, no invariant is needed. *)
Theorem hash_probes_terminate_in_any_state :
  forall hf st, shape_ok st ->
    (forall k, fst (find hf st k) <> OutOfFuel /\ fst (find_record hf st k) <> OutOfFuel) /\
    (forall key, fst (plan_insert hf st key) <> OutOfFuel) /\
    (forall code pred ud, fst (plan_insert_prehashed st code pred ud) <> OutOfFuel).
Proof. exact probes_terminate. Qed.
Print Assumptions hash_probes_terminate_in_any_state.

(* Argument roles, for every call in every state: key_func only receives records of the table or
   the record of the call; hash_func only the key of the call; equal_func / the match predicate
   receives (key of a record of the table, key of the call) -- during a resize (key of a record,
   key of a record).  [roles_okb] (HashModel.v) is the checker the drivers also run on the real log. *)
Theorem hash_callback_roles :
  forall hf st pend c o, roles_okb st c (snd (fst (step hf (st, pend) c o))) = true.
Proof. exact step_roles. Qed.
Print Assumptions hash_callback_roles.

(* the same along every history: each call's log obeys the roles with respect to the table the
   call was made on -- whose records are, by hash_refines_map, exactly the records the user
   inserted and has not removed *)
Theorem hash_callback_roles_history :
  forall hf cs o, roles_run hf (hash_new, None) cs o = true.
Proof.
  intros hf cs. generalize (hash_new, @None (plan * Z)).
  induction cs as [|c cs IH]; intros rs o; [reflexivity|].
  cbn [roles_run]. pose proof (step_roles hf (fst rs) (snd rs) c o) as R.
  rewrite <- surjective_pairing in R.
  destruct (step hf rs c o) as [[x lg] o']. simpl in R. rewrite R. simpl.
  destruct x as [[res rs']| |]; auto.
Qed.
Print Assumptions hash_callback_roles_history.

(* Two-step insertion: on the same (unmodified) table, zix_hash_insert_at with the plan made by
   zix_hash_plan_insert -- or by zix_hash_plan_insert_prehashed with the key's code and equality --
   for the record's key returns the same status, produces the same table and consumes the same
   allocations as zix_hash_insert.  Holds in every state. *)
Theorem hash_plan_then_insert_at :
  forall hf st r o,
    (forall p, fst (plan_insert hf st (KArg (rkey r))) = Ret p ->
       fst (fst (insert_at st p r o)) = fst (fst (insert hf st r o)) /\
       snd (insert_at st p r o) = snd (insert hf st r o)) /\
    fst (plan_insert_prehashed st (code_of hf (rkey r)) (Z.eqb (rkey r)) (KArg (rkey r))) =
      fst (plan_insert hf st (KArg (rkey r))) /\
    (fst (plan_insert hf st (KArg (rkey r))) = OutOfFuel -> fst (fst (insert hf st r o)) = OutOfFuel).
Proof. exact plan_then_insert_at. Qed.
Print Assumptions hash_plan_then_insert_at.

(* ---- non-vacuity and regressions (closed computations) *)

(* the old non-termination witness (bd9d1cb): n = 8, identity hash; after it no Empty slot is
   left, and the three look-ups of an absent key return "absent" *)
Example hash_old_witness_terminates :
  let ins k := OInsert (k, k) in
  let hist := [ins 0; ins 1; ins 2] ++ flat_map (fun k => [ins k; ORemove k]) [3; 4; 5; 6; 7]
              ++ [OFind 100; OFindRec 100; ORemove 100] in
  exists l rs, run hf_id (hash_new, None) hist [] = (Ret l, rs) /\
               ~ In Empty (h_ent (fst rs)) /\
               map fst (skipn 13 l) = [RFind None None; RRec None; RRemoved NOT_FOUND None].
Proof. vm_compute. do 2 eexists. split; [reflexivity|]. split; [|reflexivity]. intuition discriminate. Qed.

(* the old role witness (746ddc6): constant hash, ten inserts: all ten records are found *)
Example hash_const_ten_inserts :
  let hist := map (fun k => OInsert (k, k)) [1; 2; 3; 4; 5; 6; 7; 8; 9; 10] ++ [OSize; OFindRec 3] in
  exists l rs, run hf_const (hash_new, None) hist [] = (Ret l, rs) /\
               map fst (skipn 10 l) = [RSize 10; RRec (Some (3, 3))].
Proof. vm_compute. do 2 eexists. split; reflexivity. Qed.

(* a reachable state with records, tombstones and a failed shrink behind it *)
Example hash_reachable_nontrivial :
  exists st, reachable hf_mod4 st /\ h_count st = 4 /\ h_n st = 16 /\ In Tomb (h_ent st).
Proof.
  eexists. split.
  - exists (map (fun k => OInsert (k, k)) [0; 1; 2; 3; 4; 5] ++ [ORemove 1; ORemove 2; ORemove 3; OInsert (9, 9)]),
           [true; true; false]. do 2 eexists. vm_compute. reflexivity.
  - vm_compute. intuition.
Qed.
