(* C03 — property theorems only (zix_hash is a faithful, always-terminating map for any hash function). *)
From Coq Require Import ZArith List Bool Permutation.
From Zix Require Import HashSpec HashModel.
Import ListNotations.
Local Open Scope Z_scope.

(* regression: the old non-termination witness (n = 8, identity hash, every Empty slot consumed by
   tombstones) returns "absent" in the model of the repaired code *)
Theorem hash_old_witness_terminates :
  let ins k := OInsert (k, k) in
  let hist := [ins 0; ins 1; ins 2] ++ flat_map (fun k => [ins k; ORemove k]) [3; 4; 5; 6; 7]
              ++ [OFind 100; OFindRec 100; ORemove 100] in
  exists l rs, run hf_id (hash_new, None) hist [] = (Ret l, rs) /\
               ~ In Empty (h_ent (fst rs)) /\
               map fst (skipn 13 l) = [RFind None None; RRec None; RRemoved NOT_FOUND None].
Proof. vm_compute. do 2 eexists. split; [reflexivity|]. split; [|reflexivity]. intuition discriminate. Qed.
Print Assumptions hash_old_witness_terminates.
