(* C15 — property theorems, second part: symbolic links, zix_file_type / zix_symlink_type, zix_dir_for_each,
   descriptors.  (First part: Properties_C15.v.)

   File system: coq/FsLinkSpec.v — directories, regular files, symbolic links (any target string), fifos,
   sockets, devices; path resolution with '.', '..', absolute and relative link targets, trailing separators, at
   most B links followed per resolution (ELOOP beyond; Linux: B = 40; every theorem is for EVERY B), stat = follow
   the last name, lstat = do not, mkdir = EEXIST when the name exists even as a dangling link.
   Models: coq/FsLinkModel.v.  zix_create_directories is the same loop as in FsModel.v (theorem
   mkdirs_same_loop_both_file_systems).  Not modelled: permissions (no EACCES), concurrent modification, what a
   callback of zix_dir_for_each does besides being called; zix_canonical_path (= realpath) is not in the proved part. *)
From Coq Require Import ZArith List Bool Lia Permutation.
From Zix Require Import CopySpec CopyModel FsSpec FsModel FsProofs FsProofs3 FsLinkSpec FsLinkModel
                        FsLinkProofs FsLinkProofs2 FsLinkProofs3.
Import ListNotations.
Local Open Scope Z_scope.

Definition mkdirs_l (perms : loc -> Z) (B : nat) (fs : lfs) (cwd : loc) (s : list Z) :=
  create_directories_l perms B true fs cwd s.

(* ---- zix_create_directories: every file-system state WITH symbolic links, every cwd, every NUL-free path, every
   bound on the links followed, any permission bits ---- *)

(* SUCCESS exactly when the path then resolves (following links) to a directory *)
Theorem mkdirs_links_success_iff_directory : forall perms B fs cwd s, nul_free s ->
  fst (fst (mkdirs_l perms B fs cwd s)) = SUCCESS <->
  names_directory_l B (snd (fst (mkdirs_l perms B fs cwd s))) cwd s.
Proof. exact mkdirs_l_iff. Qed.
Print Assumptions mkdirs_links_success_iff_directory.

(* idempotent: a second call succeeds and changes nothing *)
Theorem mkdirs_links_idempotent : forall perms B fs cwd s, nul_free s ->
  fst (fst (mkdirs_l perms B fs cwd s)) = SUCCESS ->
  exists tr, mkdirs_l perms B (snd (fst (mkdirs_l perms B fs cwd s))) cwd s =
             (SUCCESS, snd (fst (mkdirs_l perms B fs cwd s)), tr).
Proof. exact mkdirs_l_idem. Qed.
Print Assumptions mkdirs_links_idempotent.

(* the k-th name of the path exists in the directory the names before it lead to, and does not lead (following
   links) to a directory - a regular file, a fifo, a link to one of them, a dangling link, a link loop, a chain
   longer than the bound: an error (EXISTS) and nothing is created *)
Theorem mkdirs_links_blocked_by_non_directory : forall perms B fs cwd s k c l b n0, nul_free s -> s <> [] ->
  nth_error (components s) k = Some c ->
  lwalk B fs (lstart s cwd) (firstn k (components s)) = RAt l NDir b ->
  is_dot c = false -> is_dotdot c = false -> llookup fs (l ++ [c]) = Some n0 ->
  (forall l' b', lwalk b fs l [c] <> RAt l' NDir b') ->
  fst (fst (mkdirs_l perms B fs cwd s)) = EXISTS /\ snd (fst (mkdirs_l perms B fs cwd s)) = fs.
Proof. exact mkdirs_l_blocked. Qed.
Print Assumptions mkdirs_links_blocked_by_non_directory.

(* in particular a dangling link (its target does not resolve) anywhere on the path *)
Corollary mkdirs_links_blocked_by_dangling_link : forall perms B fs cwd s k c l b t e, nul_free s -> s <> [] ->
  nth_error (components s) k = Some c ->
  lwalk B fs (lstart s cwd) (firstn k (components s)) = RAt l NDir b ->
  is_dot c = false -> is_dotdot c = false -> llookup fs (l ++ [c]) = Some (NLink t) ->
  lwalk b fs l [c] = RErr e ->
  fst (fst (mkdirs_l perms B fs cwd s)) = EXISTS /\ snd (fst (mkdirs_l perms B fs cwd s)) = fs.
Proof.
  intros perms B fs cwd s k c l b t e Hn Hne Hk Hw D1 D2 L E.
  eapply mkdirs_l_blocked; try eassumption. intros l' b'. rewrite E. discriminate.
Qed.
Print Assumptions mkdirs_links_blocked_by_dangling_link.

(* the code is the component-wise "mkdir -p" on the file system with links: same status, same resulting state *)
Theorem mkdirs_links_refines_spec : forall perms B fs cwd s, nul_free s -> s <> [] ->
  exists tr, mkdirs_l perms B fs cwd s =
             (lstatus_of (fst (lmkdirs_spec B fs cwd s)), snd (lmkdirs_spec B fs cwd s), tr).
Proof. exact create_directories_l_refines. Qed.
Print Assumptions mkdirs_links_refines_spec.

Theorem mkdirs_links_no_mem : forall perms B fs cwd s, s <> [] ->
  create_directories_l perms B false fs cwd s = (NO_MEM, fs, []).
Proof. exact mkdirs_l_nomem. Qed.
Print Assumptions mkdirs_links_no_mem.

(* the model of Properties_C15.v (link-free file system) is the same loop, instantiated with that file system's
   stat-based type query and mkdir *)
Theorem mkdirs_same_loop_both_file_systems : forall a fs cwd s,
  create_directories a fs cwd s =
  g_create_directories fsT (fun fs q => file_type fs cwd q) (fun fs q => mkdir_path fs cwd q) a fs s.
Proof. exact create_directories_is_generic_l. Qed.
Print Assumptions mkdirs_same_loop_both_file_systems.

(* ---- zix_file_type / zix_symlink_type ---- *)
(* zix_file_type = the kind of the node stat leads to (all links followed), NONE when the resolution fails;
   for every permission bits in st_mode *)
Theorem file_type_follows_links : forall perms B fs cwd s,
  file_type_l perms B fs cwd s = kind_of_res (stat_l B fs cwd s) /\
  file_type_l perms B fs cwd s <> FT_SYMLINK.
Proof.
  intros perms B fs cwd s. unfold file_type_l. rewrite type_of_res_kind. split; [reflexivity|].
  unfold stat_l. destruct s as [|c0 s']; [discriminate|].
  destruct (lwalk B fs (lstart (c0 :: s') cwd) (pcomps (c0 :: s'))) as [e|l n b] eqn:W; [discriminate|].
  destruct n; try discriminate. exfalso. exact (lwalk_not_link _ _ _ _ _ _ _ W).
Qed.
Print Assumptions file_type_follows_links.

(* zix_symlink_type = the kind of the node lstat leads to: the last name is not followed, so a link is reported
   as SYMLINK whether or not its target exists; NONE when the resolution fails *)
Theorem symlink_type_does_not : forall perms B fs cwd s,
  symlink_type_l perms B fs cwd s = kind_of_res (lstat_l B fs cwd s) /\
  (forall l t b, lstat_l B fs cwd s = RAt l (NLink t) b -> symlink_type_l perms B fs cwd s = FT_SYMLINK) /\
  (symlink_type_l perms B fs cwd s <> FT_SYMLINK ->
   symlink_type_l perms B fs cwd s = file_type_l perms B fs cwd s).
Proof.
  intros perms B fs cwd s. unfold symlink_type_l, file_type_l. rewrite !type_of_res_kind.
  split; [reflexivity|]. split.
  - intros l t b E. rewrite E. reflexivity.
  - intro H. rewrite lstat_l_stat_l; [reflexivity|]. intros l t b E. apply H. rewrite E. reflexivity.
Qed.
Print Assumptions symlink_type_does_not.

(* zix_file_size: -1 when stat fails; the number of bytes of the regular file the links lead to *)
Theorem file_size_follows_links : forall other B fs cwd s,
  (forall e, stat_l B fs cwd s = RErr e -> file_size_l other B fs cwd s = -1) /\
  (forall l bytes b, stat_l B fs cwd s = RAt l (NFile bytes) b ->
                     file_size_l other B fs cwd s = Z.of_nat (length bytes)).
Proof. intros. unfold file_size_l. split; [intros e E|intros l bytes b E]; rewrite E; reflexivity. Qed.
Print Assumptions file_size_follows_links.

(* ---- zix_dir_for_each ---- *)
(* [ents] is whatever readdir returns: any names, any order, "." and ".." anywhere, any number of times.
   The callback is called with (path, name, data) for exactly the names other than "." and "..", in readdir's
   order, each as often as readdir returned it (so exactly once for a kernel that lists every name once); names that
   merely start with dots ("..data", "...", ".hidden") are visited; the calls are opendir, then for each entry its
   readdir followed at once by its callback (the stream is open during every callback), the final readdir that
   returns NULL, closedir; the stream is closed again *)
Theorem dir_for_each_visits_each_once : forall path data ents st0, Forall nul_free ents ->
  let st := dir_for_each path data (Some ents) st0 in
  d_log st = d_log st0 ++ map (fun e => (path, e, data))
                              (filter (fun e => negb (list_eqb e [DOT] || list_eqb e [DOT; DOT])) ents) /\
  (d_log st0 = [] ->
   forall e, count_occ lz_eq_dec (log_names (d_log st)) e =
             if list_eqb e [DOT] || list_eqb e [DOT; DOT] then O else count_occ lz_eq_dec ents e) /\
  d_calls st = d_calls st0 ++ [DOpendir path true] ++
               flat_map (fun e => DReaddir (Some e) ::
                                  (if negb (list_eqb e [DOT] || list_eqb e [DOT; DOT]) then [DCallback path e data] else []))
                        ents ++
               [DReaddir None; DClosedir] /\
  d_open st = d_open st0.
Proof.
  intros path data ents st0 H. cbn zeta. rewrite dir_for_each_some by exact H. cbn [d_log d_calls d_open].
  split; [reflexivity|]. split; [|split; reflexivity].
  intros E0 e. rewrite E0. cbn [app]. rewrite log_names_map. apply count_filter_not_dots.
Qed.
Print Assumptions dir_for_each_visits_each_once.

(* opendir fails (missing, not a directory, no permission, ...): no callback, nothing opened *)
Theorem dir_for_each_opendir_failure : forall path data st0,
  let st := dir_for_each path data None st0 in
  d_log st = d_log st0 /\ d_calls st = d_calls st0 ++ [DOpendir path false] /\ d_open st = d_open st0.
Proof. intros path data st0. cbn zeta. rewrite dir_for_each_none. repeat split. Qed.
Print Assumptions dir_for_each_opendir_failure.

(* on the abstract file system: the path leads (following links) to a directory, the kernel lists its names and
   "." and ".." in an order of its choosing: the names visited are the names of the directory, each exactly once *)
Theorem dir_for_each_visits_directory_names : forall order B fs cwd path data l b,
  lwf fs -> (forall x, Permutation (order x) x) -> Forall nul_free (children fs l) ->
  stat_l B fs cwd path = RAt l NDir b ->
  exists ents, opendir_l order B fs cwd path = Some ents /\
    let st := dir_for_each path data (Some ents) d_init in
    Permutation (log_names (d_log st)) (children fs l) /\ NoDup (log_names (d_log st)) /\ d_open st = O.
Proof.
  intros order B fs cwd path data l b W Hord Hnf Hst. unfold opendir_l. rewrite Hst.
  eexists. split; [reflexivity|]. cbn zeta.
  set (ents := order ([DOT] :: [DOT; DOT] :: children fs l)).
  assert (Hn : Forall nul_free ents).
  { apply Forall_forall. intros e He. apply (Permutation_in _ (Hord _)) in He.
    destruct He as [<-|[<-|He]]; [repeat constructor; unfold DOT; lia|repeat constructor; unfold DOT; lia|].
    rewrite Forall_forall in Hnf. apply Hnf. exact He. }
  rewrite dir_for_each_some by exact Hn. cbn [d_log d_open d_init app]. rewrite log_names_map.
  assert (P : Permutation (filter not_dots ents) (children fs l)).
  { apply filter_not_dots_perm; [apply Hord|apply children_good; exact W]. }
  split; [exact P|]. split; [|reflexivity].
  eapply Permutation_NoDup; [apply Permutation_sym; exact P|]. apply children_nodup. exact (proj1 W).
Qed.
Print Assumptions dir_for_each_visits_directory_names.

(* ---- descriptors ---- *)
(* none of the functions leaves a descriptor open: zix_create_directories, zix_file_type, zix_symlink_type and
   zix_file_size only make calls that open nothing (stat, lstat, mkdir); zix_dir_for_each closes the stream it
   opened on every path (entries or none, opendir failing); zix_file_equals closes both files (any allocator
   answers, any page size) *)
Theorem fs_functions_close_descriptors :
  (forall perms B a fs cwd s,
     fd_balance (map sys_of_fsev (snd (create_directories_l perms B a fs cwd s))) = 0) /\
  fd_balance file_type_calls = 0 /\ fd_balance symlink_type_calls = 0 /\ fd_balance file_size_calls = 0 /\
  (forall path data dir st0, Forall nul_free (match dir with Some ents => ents | None => [] end) ->
     let st := dir_for_each path data dir st0 in
     d_open st = d_open st0 /\
     exists calls, d_calls st = d_calls st0 ++ calls /\ fd_balance (map sys_of_dcall calls) = 0) /\
  (forall ia a ib b page al1 al2 errno0, (0 < page)%nat -> ia <> ib ->
     e_open (snd (file_equals false (Some (ia, a)) (Some (ib, b)) page al1 al2 errno0 [])) = O).
Proof.
  split; [intros; apply fd_balance_fsev|]. split; [reflexivity|]. split; [reflexivity|]. split; [reflexivity|].
  split.
  - intros path data [ents|] st0 H; cbn zeta.
    + rewrite dir_for_each_some by exact H. cbn [d_open d_calls]. split; [reflexivity|].
      eexists. split; [reflexivity|].
      rewrite !map_app, !fd_balance_app, fd_balance_readdirs. reflexivity.
    + rewrite dir_for_each_none. cbn [d_open d_calls]. split; [reflexivity|].
      eexists. split; [reflexivity|]. reflexivity.
  - intros ia a ib b page al1 al2 errno0 Hp Hi.
    assert (H : negb (ia =? 0) && negb (ib =? 0) && (ia =? ib) = false)
      by (destruct (Z.eqb_spec ia ib); [contradiction|apply andb_false_r]).
    exact (proj2 (file_equals_bytes ia a ib b page al1 al2 errno0 Hp H)).
Qed.
Print Assumptions fs_functions_close_descriptors.

(* ---- the hypotheses are satisfiable / the theorems are not vacuous ---- *)
(* w/ : a/  a/f  s -> a  d -> nowhere  loop -> loop  up -> ../w/a  fifo *)
Definition ex_w : loc := [[119]].
Definition ex_fs : lfs :=
  [ (ex_w, NDir); (ex_w ++ [[97]], NDir); (ex_w ++ [[97]; [102]], NFile [1; 2; 3]);
    (ex_w ++ [[115]], NLink [97]); (ex_w ++ [[100]], NLink [110; 111]);
    (ex_w ++ [[108]], NLink [108]); (ex_w ++ [[117]], NLink [46; 46; 47; 119; 47; 97]); (ex_w ++ [[112]], NFifo) ].
Definition ex_run (s : list Z) := let r := mkdirs_l (fun _ => 493) 40 ex_fs ex_w s in (fst (fst r), length (snd (fst r))).
Example mkdirs_links_ex :
  ex_run [115; 47; 120; 47; 121] = (SUCCESS, 10%nat) /\          (* "s/x/y" through the link: a/x, a/x/y created *)
  ex_run [117; 47; 47; 120; 47] = (SUCCESS, 9%nat) /\            (* "u//x/" through "../w/a" *)
  ex_run [115] = (SUCCESS, 8%nat) /\                             (* "s": already a directory *)
  ex_run [100; 47; 120] = (EXISTS, 8%nat) /\                     (* "d/x": dangling link *)
  ex_run [100] = (EXISTS, 8%nat) /\                              (* "d" *)
  ex_run [108; 47; 120] = (EXISTS, 8%nat) /\                     (* "l/x": link loop *)
  ex_run [115; 47; 102; 47; 120] = (EXISTS, 8%nat) /\            (* "s/f/x": file behind the link *)
  ex_run [112; 47; 120] = (EXISTS, 8%nat).                       (* "p/x": fifo *)
Proof. vm_compute. repeat split. Qed.
Example types_ex :
  let ty s := (file_type_l (fun _ => 420) 40 ex_fs ex_w s, symlink_type_l (fun _ => 420) 40 ex_fs ex_w s) in
  ty [115] = (FT_DIRECTORY, FT_SYMLINK) /\ ty [115; 47] = (FT_DIRECTORY, FT_DIRECTORY) /\
  ty [100] = (FT_NONE, FT_SYMLINK) /\ ty [108] = (FT_NONE, FT_SYMLINK) /\ ty [112] = (FT_FIFO, FT_FIFO) /\
  ty [115; 47; 102] = (FT_REGULAR, FT_REGULAR) /\ ty [115; 47; 102; 47] = (FT_NONE, FT_NONE) /\
  ty [117; 47; 46; 46; 47; 115] = (FT_DIRECTORY, FT_SYMLINK) /\ ty [120] = (FT_NONE, FT_NONE).
Proof. vm_compute. repeat split. Qed.
Example dir_for_each_ex :
  (* readdir: "..data" "." "..." ".hidden" ".." "a b" *)
  let ents := [[46; 46; 100; 97; 116; 97]; [46]; [46; 46; 46]; [46; 104]; [46; 46]; [97; 32; 98]] in
  log_names (d_log (dir_for_each [100] 7 (Some ents) d_init)) =
  [[46; 46; 100; 97; 116; 97]; [46; 46; 46]; [46; 104]; [97; 32; 98]].
Proof. vm_compute. reflexivity. Qed.
