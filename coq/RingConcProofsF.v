(* C04: wait-freedom.  Every call performs a number of micro-steps bounded by a function of its
   size argument alone; the bound is independent of the ring state, of the other thread and of the
   memory-order configuration (no hypothesis on the cfg at all). *)
From Coq Require Import ZArith List Bool Arith Lia.
From Zix Require Import RingConcModel.
Import ListNotations.
Local Open Scope Z_scope.

Definition wf_w (wl : wloc) : Prop :=
  match wcalls wl with
  | [] => wpcs wl = WIdle /\ wsteps wl = O
  | call :: _ => (wsteps wl + wremaining (wpcs wl) <= wbound call)%nat
  end /\
  match wpcs wl with WCopy _ _ _ _ todo => todo <> [] | _ => True end.

Definition wf_r (rl : rloc) : Prop :=
  match rcalls rl with
  | [] => rpcs rl = RIdle /\ rsteps rl = O
  | call :: _ => (rsteps rl + rremaining (rpcs rl) <= rbound call)%nat
  end /\
  match rpcs rl with RCopy _ _ size i _ => i < size | _ => True end.

Lemma wstep_sr : forall c p s k, sr (wstep c p s k) = sr s.
Proof.
  intros c p s k. unfold wstep.
  destruct (wpcs (sw s)) as [|call r rc|fin w size i todo|res v].
  - destruct (p (wresl (sw s))) as [call|]; [|reflexivity].
    destruct call; try reflexivity; destruct (wtx (sw s)) as [[r w]|]; try reflexivity.
    destruct (write_space c r w <? wsize bs); reflexivity.
  - destruct call; try reflexivity.
    destruct (write_space c r (lastv (WH (sm s))) <? wsize bs); reflexivity.
  - destruct todo; [reflexivity|]. destruct (wtx (sw s)) as [[r w0]|]; reflexivity.
  - reflexivity.
Qed.

Lemma rstep_sw : forall c p s k, sw (rstep c p s k) = sw s.
Proof.
  intros c p s k. unfold rstep.
  destruct (rpcs (sr s)) as [|call w wc|adv r size i acc|res v n].
  - destruct (p (rresl (sr s))); reflexivity.
  - destruct call; try reflexivity;
      destruct (read_space c (lastv (RH (sm s))) w <? u32 n); reflexivity.
  - reflexivity.
  - reflexivity.
Qed.

(* remaining work after wcopy_next / rcopy_next *)
Lemma wcopy_next_rem : forall c fin r w size i todo wl,
  wremaining (wpcs (wcopy_next c fin r w size i todo wl)) = (length todo + (if fin then 1 else 0))%nat /\
  wsteps (wcopy_next c fin r w size i todo wl) = S (wsteps wl) /\
  wcalls (wcopy_next c fin r w size i todo wl) = wcalls wl /\
  match wpcs (wcopy_next c fin r w size i todo wl) with WCopy _ _ _ _ t => t <> [] | _ => True end.
Proof.
  intros. unfold wcopy_next, set_wpc, w_finish. destruct todo as [|z todo].
  - destruct fin; cbn; auto.
  - cbn. repeat split. discriminate.
Qed.

Lemma rcopy_next_rem : forall adv c r size i acc rl, 0 <= i ->
  (rremaining (rpcs (rcopy_next adv c r size i acc rl)) <= Z.to_nat (size - i) + (if adv then 1 else 0))%nat /\
  rsteps (rcopy_next adv c r size i acc rl) = S (rsteps rl) /\
  rcalls (rcopy_next adv c r size i acc rl) = rcalls rl /\
  match rpcs (rcopy_next adv c r size i acc rl) with RCopy _ _ sz j _ => j < sz | _ => True end.
Proof.
  intros adv c r size i acc rl Hi. unfold rcopy_next, set_rpc, r_finish.
  destruct (i <? size) eqn:E.
  - apply Z.ltb_lt in E. cbn. repeat split; try lia.
  - destruct adv; [destruct (size =? 0)|]; cbn; repeat split; lia.
Qed.

Lemma wstep_wf : forall c p s k, wf_w (sw s) -> wf_w (sw (wstep c p s k)).
Proof.
  intros c p s k (Hb & Hc). unfold wstep.
  destruct (wpcs (sw s)) as [|call r rc|fin w size i todo|res v] eqn:Epc.
  - destruct (p (wresl (sw s))) as [call|]; [|unfold wf_w; rewrite Epc; split; [exact Hb | exact I]].
    destruct call as [bs| |bs| |]; unfold wf_w, w_finish; cbn [sw wcalls wsteps wpcs wremaining wbound];
      try (split; [lia | exact I]).
    + destruct (wtx (sw s)) as [[r w]|]; cbn [sw wcalls wsteps wpcs wremaining wbound]; try (split; [lia | exact I]).
      destruct (write_space c r w <? wsize bs); cbn [sw wcalls wsteps wpcs wremaining wbound]; try (split; [lia | exact I]).
      match goal with |- context [wcopy_next ?c ?f ?r ?w ?z ?i ?t ?wl] =>
        pose proof (wcopy_next_rem c f r w z i t wl) as (A & B & C & D) end.
      rewrite A, B, C. cbn [wcalls wsteps wbound]. split; [lia | exact D].
    + destruct (wtx (sw s)) as [[r w]|]; cbn [sw wcalls wsteps wpcs wremaining wbound]; split; try lia; exact I.
  - destruct (wcalls (sw s)) as [|c0 cs] eqn:Ecs; [destruct Hb as (Hb & _); congruence|].
    cbn [wremaining] in Hb.
    destruct call as [bs| |bs| |]; unfold wf_w, w_finish; cbn [sw wcalls wsteps wpcs wremaining];
      rewrite ?Ecs; try (split; [lia | exact I]).
    destruct (write_space c r (lastv (WH (sm s))) <? wsize bs); cbn [sw wcalls wsteps wpcs wremaining];
      rewrite ?Ecs; try (split; [lia | exact I]).
    match goal with |- context [wcopy_next ?c ?f ?r ?w ?z ?i ?t ?wl] =>
      pose proof (wcopy_next_rem c f r w z i t wl) as (A & B & C & D) end.
    rewrite A, B, C. cbn [wcalls wsteps]. rewrite ?Ecs. split; [lia | exact D].
  - destruct (wcalls (sw s)) as [|c0 cs] eqn:Ecs; [destruct Hb as (Hb & _); congruence|].
    cbn [wremaining] in Hb.
    destruct todo as [|b rest]; [congruence|]. cbn [length] in Hb.
    destruct (wtx (sw s)) as [[r w0]|]; unfold wf_w, w_finish; cbn [sw wcalls wsteps wpcs wremaining];
      rewrite ?Ecs; try (split; [lia | exact I]).
    match goal with |- context [wcopy_next ?c ?f ?r ?w ?z ?i ?t ?wl] =>
      pose proof (wcopy_next_rem c f r w z i t wl) as (A & B & C & D) end.
    rewrite A, B, C. rewrite ?Ecs. cbn [length] in Hb. split; [lia | exact D].
  - destruct (wcalls (sw s)) as [|c0 cs] eqn:Ecs; [destruct Hb as (Hb & _); congruence|].
    cbn [wremaining] in Hb. unfold wf_w, w_finish; cbn [sw wcalls wsteps wpcs wremaining]. rewrite Ecs.
    split; [lia | exact I].
Qed.

Lemma rstep_wf : forall c p s k, wf_r (sr s) -> wf_r (sr (rstep c p s k)).
Proof.
  intros c p s k (Hb & Hc). unfold rstep.
  assert (U : forall n, 0 <= u32 n) by (intros n; unfold u32; apply Z.mod_pos_bound; lia).
  destruct (rpcs (sr s)) as [|call w wc|adv r size i acc|res v n] eqn:Epc.
  - destruct (p (rresl (sr s))) as [call|]; [|unfold wf_r; rewrite Epc; split; [exact Hb | exact I]].
    unfold wf_r; cbn [sr rcalls rsteps rpcs]. split; [|exact I].
    destruct call; cbn [rremaining rbound]; lia.
  - destruct (rcalls (sr s)) as [|c0 cs] eqn:Ecs; [destruct Hb as (Hb & _); congruence|].
    destruct call as [n|n|n|]; cbn [rremaining] in Hb; unfold wf_r, r_finish, set_rpc;
      cbn [sr rcalls rsteps rpcs rremaining]; rewrite ?Ecs; try (split; [lia | exact I]).
    + destruct (read_space c (lastv (RH (sm s))) w <? u32 n); cbn [sr rcalls rsteps rpcs rremaining];
        rewrite ?Ecs; try (split; [lia | exact I]).
      match goal with |- context [rcopy_next ?a ?c ?r ?z ?i ?acc ?rl] =>
        pose proof (rcopy_next_rem a c r z i acc rl (Z.le_refl 0)) as (A & B & C & D) end.
      rewrite B, C, Ecs. split; [|exact D]. rewrite Z.sub_0_r in A. lia.
    + destruct (read_space c (lastv (RH (sm s))) w <? u32 n); cbn [sr rcalls rsteps rpcs rremaining];
        rewrite ?Ecs; try (split; [lia | exact I]).
      match goal with |- context [rcopy_next ?a ?c ?r ?z ?i ?acc ?rl] =>
        pose proof (rcopy_next_rem a c r z i acc rl (Z.le_refl 0)) as (A & B & C & D) end.
      rewrite B, C, Ecs. split; [|exact D]. rewrite Z.sub_0_r in A. lia.
    + destruct (read_space c (lastv (RH (sm s))) w <? u32 n); cbn [sr rcalls rsteps rpcs rremaining];
        rewrite ?Ecs; split; try lia; exact I.
  - destruct (rcalls (sr s)) as [|c0 cs] eqn:Ecs; [destruct Hb as (Hb & _); congruence|].
    cbn [rremaining] in Hb. unfold wf_r; cbn [sr].
    (* the index only matters through i < size; its sign is irrelevant for the measure *)
    assert (Hm : (rremaining (rpcs (rcopy_next adv c r size (i + 1) (buf (sm s) (rcell c r size i) :: acc) (sr s)))
                  <= Z.to_nat (size - (i + 1)) + (if adv then 1 else 0))%nat /\
                 rsteps (rcopy_next adv c r size (i + 1) (buf (sm s) (rcell c r size i) :: acc) (sr s)) = S (rsteps (sr s)) /\
                 rcalls (rcopy_next adv c r size (i + 1) (buf (sm s) (rcell c r size i) :: acc) (sr s)) = rcalls (sr s) /\
                 match rpcs (rcopy_next adv c r size (i + 1) (buf (sm s) (rcell c r size i) :: acc) (sr s)) with
                 | RCopy _ _ sz j _ => j < sz | _ => True end).
    { unfold rcopy_next, set_rpc, r_finish. destruct (i + 1 <? size) eqn:E.
      - apply Z.ltb_lt in E. cbn. repeat split; try lia.
      - destruct adv; [destruct (size =? 0)|]; cbn; repeat split; lia. }
    destruct Hm as (A & B & C & D). rewrite B, C, Ecs. split; [|exact D]. lia.
  - destruct (rcalls (sr s)) as [|c0 cs] eqn:Ecs; [destruct Hb as (Hb & _); congruence|].
    cbn [rremaining] in Hb. unfold wf_r, r_finish; cbn [sr rcalls rsteps rpcs rremaining]. rewrite Ecs.
    split; [lia | exact I].
Qed.

Theorem run_wait_free : forall c wp rp sched,
  let s := run c wp rp sched in wf_w (sw s) /\ wf_r (sr s).
Proof.
  intros c wp rp sched. unfold run.
  assert (H0 : wf_w (sw (init c)) /\ wf_r (sr (init c))).
  { unfold init, wf_w, wf_r. cbn. auto. }
  revert H0. generalize (init c) as s0.
  induction sched as [|ch sched IH]; intros s0 H0; [exact H0|].
  unfold run_from. cbn [fold_left]. apply IH. destruct H0 as (Hw & Hr).
  unfold step. destruct (fst ch).
  - rewrite wstep_sr. split; [apply wstep_wf; exact Hw | exact Hr].
  - rewrite rstep_sw. split; [exact Hw | apply rstep_wf; exact Hr].
Qed.

(* a scheduled thread that is inside a call always gets strictly closer to the end of that call:
   there is no micro-step that waits *)
Theorem wstep_progress : forall c p s k, wf_w (sw s) -> wpcs (sw s) <> WIdle ->
  (wremaining (wpcs (sw (wstep c p s k))) < wremaining (wpcs (sw s)))%nat.
Proof.
  intros c p s k (_ & Hc) Hn. unfold wstep.
  destruct (wpcs (sw s)) as [|call r rc|fin w size i todo|res v] eqn:Epc; [congruence| | |].
  - destruct call as [bs| |bs| |]; unfold w_finish; cbn [sw wpcs wremaining]; try lia.
    destruct (write_space c r (lastv (WH (sm s))) <? wsize bs); cbn [sw wpcs wremaining]; try lia.
    match goal with |- context [wcopy_next ?c ?f ?r ?w ?z ?i ?t ?wl] =>
      pose proof (wcopy_next_rem c f r w z i t wl) as (A & _) end.
    rewrite A. lia.
  - destruct todo as [|b rest]; [congruence|].
    destruct (wtx (sw s)) as [[r w0]|]; unfold w_finish; cbn [sw wpcs wremaining length]; try lia.
    match goal with |- context [wcopy_next ?c ?f ?r ?w ?z ?i ?t ?wl] =>
      pose proof (wcopy_next_rem c f r w z i t wl) as (A & _) end.
    rewrite A. lia.
  - unfold w_finish; cbn [sw wpcs wremaining]. lia.
Qed.

Theorem rstep_progress : forall c p s k, wf_r (sr s) -> rpcs (sr s) <> RIdle ->
  (rremaining (rpcs (sr (rstep c p s k))) < rremaining (rpcs (sr s)))%nat.
Proof.
  intros c p s k (_ & Hc) Hn. unfold rstep.
  assert (U : forall n, 0 <= u32 n) by (intros n; unfold u32; apply Z.mod_pos_bound; lia).
  destruct (rpcs (sr s)) as [|call w wc|adv r size i acc|res v n] eqn:Epc; [congruence| | |].
  - destruct call as [n|n|n|]; unfold r_finish, set_rpc; cbn [sr rpcs rremaining]; try lia.
    + destruct (read_space c (lastv (RH (sm s))) w <? u32 n); cbn [sr rpcs rremaining]; try lia.
      match goal with |- context [rcopy_next ?a ?c ?r ?z ?i ?acc ?rl] =>
        pose proof (rcopy_next_rem a c r z i acc rl (Z.le_refl 0)) as (A & _) end.
      rewrite Z.sub_0_r in A. lia.
    + destruct (read_space c (lastv (RH (sm s))) w <? u32 n); cbn [sr rpcs rremaining]; try lia.
      match goal with |- context [rcopy_next ?a ?c ?r ?z ?i ?acc ?rl] =>
        pose proof (rcopy_next_rem a c r z i acc rl (Z.le_refl 0)) as (A & _) end.
      rewrite Z.sub_0_r in A. lia.
    + destruct (read_space c (lastv (RH (sm s))) w <? u32 n); cbn [sr rpcs rremaining]; lia.
  - cbn [sr rremaining]. unfold rcopy_next, set_rpc, r_finish.
    destruct (i + 1 <? size) eqn:E.
    + apply Z.ltb_lt in E. cbn [rpcs rremaining]. lia.
    + destruct adv; [destruct (size =? 0)|]; cbn [rpcs rremaining]; lia.
  - unfold r_finish; cbn [sr rpcs rremaining]. lia.
Qed.
