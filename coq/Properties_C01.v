(* C01 — B-tree is a sorted set under every operation history.  Property theorems only.

   Setting (see BTreeModel.v / BTreeProofsBase.v / BTreeProofsHist.v): (L, I, H) = (ZIX_BTREE_LEAF_VALS,
   ZIX_BTREE_INODE_VALS, ZIX_BTREE_MAX_HEIGHT) with I = L / 2, 3 <= I (every page size >= 64 bytes with 8-byte
   pointers) and 1 <= H; elements are
   opaque and ordered by an integer rank (any total preorder on the finitely many elements of a history);
   allocation requests are answered by an arbitrary script [o : list bool]; a history is a list of calls
   [OInsert o e | ORemove e | OFind e | OClear d]; [run] executes it on the model from the empty tree.
   [Inv rank L I t] is, literally (BTreeProofsBase.Inv):
     (exists h, root_ok L I h (root t))      all leaves at depth h; every non-root page holds between
                                             (max+1)/2-1 and max values; an internal root holds >= 1 value;
                                             every internal page has (values + 1) children; root <= max values
     /\ asc rank (elements (root t))         the in-order listing is strictly ascending
     /\ size t = Z.of_nat (length (elements (root t)))     the size field is the cardinality. *)
From Coq Require Import ZArith List Bool Arith Permutation.
From Zix Require Import BTreeSpec BTreeModel BTreeProofsBase BTreeProofsIter BTreeProofsInsert BTreeProofsRemove
  BTreeProofsFind BTreeProofsMisc BTreeProofsHist.
Import ListNotations.

(* the invariant holds after every history, whatever the allocation scripts *)
Theorem btree_inv_reachable :
  forall (elt : Type) (rank : elt -> Z) (dflt : elt) (L I : nat), I = L / 2 -> 3 <= I ->
  forall H : nat, 1 <= H ->
  forall ops : list (op elt), Inv rank L I (run rank dflt L I H ops).
Proof. exact inv_reachable. Qed.
Print Assumptions btree_inv_reachable.

(* insert: SUCCESS iff no element of that rank is stored (then the listing is the spec's), EXISTS otherwise, NO_MEM
   only if an allocation failed, OVERFLOW only when the root page is full and the tree already has H levels (fix
   1a03612: growth beyond ZIX_BTREE_MAX_HEIGHT is refused before anything is touched) -- listing unchanged in the last
   three cases although pages may have been split; the invariant (hence the size field) is re-established; the
   comparator only ever sees stored elements; the tree never grows beyond H levels; and below the capacity
   cap(L,I,H) = 2*((L+1)/2)*((I+1)/2)^(H-1) - 1 (the least size of a tree with a full root and H levels) OVERFLOW is
   impossible, so there status and listing are exactly the sorted-set spec's.
   FULL STATEMENT of the property ("SUCCESS iff the key was absent" for every size) does not hold: see
   btree_insert_overflow_refuted. *)
Theorem btree_insert_refines :
  forall (elt : Type) (rank : elt -> Z) (dflt : elt) (L I : nat), I = L / 2 -> 3 <= I ->
  forall (H : nat) (o : list bool) (t : tree elt) (e : elt), Inv rank L I t ->
    let '(st, t', o', lg) := insert rank dflt L I H o t e in
    Inv rank L I t' /\
    (st = SUCCESS \/ st = EXISTS \/ st = NO_MEM \/ st = OVERFLOW) /\
    (st <> NO_MEM -> st <> OVERFLOW -> (st, elements (root t')) = set_insert elt rank (elements (root t)) e) /\
    (st = NO_MEM -> elements (root t') = elements (root t)) /\
    ((forall b, In b o -> b = true) -> st <> NO_MEM) /\
    (forall x, In x lg -> In x (elements (root t))) /\
    (st = OVERFLOW -> t' = t /\ o' = o /\ lg = [] /\ is_full L I (root t) = true /\ H <= height (root t)) /\
    (height (root t) <= H -> height (root t') <= H) /\
    (1 <= H -> length (elements (root t)) < 2 * ((L + 1) / 2) * ((I + 1) / 2) ^ (H - 1) - 1 -> st <> OVERFLOW).
Proof.
  intros elt rank dflt L I HI HI3 H o t e Hinv.
  pose proof (insert_refines elt rank dflt L I HI HI3 H o t e Hinv) as R.
  pose proof (fun HH => no_overflow_below_cap elt rank dflt L I HI HI3 H HH o t e Hinv) as N.
  destruct (insert rank dflt L I H o t e) as [[[st t'] o'] lg]. cbn [fst] in N.
  destruct R as (R1 & R2 & R3 & R4 & R5 & R6 & R7 & R8).
  repeat (split; [assumption|]). exact N.
Qed.
Print Assumptions btree_insert_refines.

(* remove: SUCCESS with the stored element of that rank, or NOT_FOUND with the listing unchanged (pages may have
   been rotated or merged on the way) *)
Theorem btree_remove_refines :
  forall (elt : Type) (rank : elt -> Z) (dflt : elt) (L I : nat), I = L / 2 -> 3 <= I ->
  forall (t : tree elt) (e : elt), Inv rank L I t ->
    let '(st, out, t', it, lg) := remove rank dflt L I t e in
    Inv rank L I t' /\
    (st, out, elements (root t')) = set_remove elt rank (elements (root t)) (rank e) /\
    (forall x, In x lg -> In x (elements (root t))).
Proof. exact remove_refines. Qed.
Print Assumptions btree_remove_refines.

Theorem btree_find_refines :
  forall (elt : Type) (rank : elt -> Z) (dflt : elt) (L I : nat), I = L / 2 -> 3 <= I ->
  forall (t : tree elt) (e : elt), Inv rank L I t ->
    let '(st, it, lg) := find rank dflt t e in
    match set_find elt rank (elements (root t)) (rank e) with
    | Some x => st = SUCCESS /\ exists p, it = IAt p /\ valid (root t) p /\
                  nth_error (elements (root t)) (pos (root t) p) = Some x /\ iter_get dflt (root t) it = x
    | None => st = NOT_FOUND /\ it = IEnd
    end.
Proof. exact find_refines. Qed.
Print Assumptions btree_find_refines.

Theorem btree_clear_refines :
  forall (elt : Type) (rank : elt -> Z) (dflt : elt) (L I : nat), I = L / 2 -> 3 <= I ->
  forall (t : tree elt) (d : bool),
    fst (clear t d) = empty_tree /\ Inv rank L I (fst (clear t d)) /\
    elements (root (fst (clear t d))) = [] /\ size (fst (clear t d)) = 0%Z.
Proof. exact clear_refines. Qed.
Print Assumptions btree_clear_refines.

(* along a whole history the listing follows the sorted-list spec (an insert that reported NO_MEM or OVERFLOW leaves
   the set alone); without allocation failures and below the capacity it is the plain fold of set_insert /
   set_remove / clear *)
Theorem btree_history_refines :
  forall (elt : Type) (rank : elt -> Z) (dflt : elt) (L I : nat), I = L / 2 -> 3 <= I ->
  forall H : nat, 1 <= H ->
  forall ops : list (op elt),
    elements (root (run rank dflt L I H ops)) = spec_run_from rank dflt L I H empty_tree [] ops /\
    (Forall no_fail ops -> below_cap rank L I H [] ops ->
     elements (root (run rank dflt L I H ops)) = fold_left (plain_step rank) ops []).
Proof.
  intros elt rank dflt L I HI HI3 H HH ops. split.
  - exact (run_refines_gen elt rank dflt L I HI HI3 H HH ops).
  - exact (run_refines elt rank dflt L I HI HI3 H HH ops).
Qed.
Print Assumptions btree_history_refines.

(* begin + repeated increment yields exactly the listing, then the end iterator *)
Theorem btree_iteration :
  forall (elt : Type) (rank : elt -> Z) (dflt : elt) (L I : nat), I = L / 2 -> 3 <= I ->
  forall t : tree elt, Inv rank L I t ->
    walk dflt (S (length (elements (root t)))) (root t) (btree_begin t) = elements (root t).
Proof. exact iteration. Qed.
Print Assumptions btree_iteration.

(* clear/free with a destroy function call it exactly once per stored element (the call log is a permutation of
   the listing); without one, not at all *)
Theorem btree_destroy_once :
  forall (elt : Type) (rank : elt -> Z) (dflt : elt) (L I : nat), I = L / 2 -> 3 <= I ->
  forall t : tree elt, Inv rank L I t ->
    Permutation (snd (clear t true)) (elements (root t)) /\ snd (clear t false) = [].
Proof. exact destroy_once. Qed.
Print Assumptions btree_destroy_once.

(* height law: a tree of height h >= 2 holds at least 2*m*c^(h-2) - 1 elements, m = (L+1)/2, c = (I+1)/2 *)
Theorem btree_height_law :
  forall (elt : Type) (rank : elt -> Z) (dflt : elt) (L I : nat), I = L / 2 -> 3 <= I ->
  forall t : tree elt, Inv rank L I t -> 2 <= height (root t) ->
    2 * ((L + 1) / 2) * ((I + 1) / 2) ^ (height (root t) - 2) <= length (elements (root t)) + 1.
Proof. exact height_law. Qed.
Print Assumptions btree_height_law.

(* a lookup costs at most (floor(log2 L) + 1) comparisons per level *)
Theorem btree_find_cost :
  forall (elt : Type) (rank : elt -> Z) (dflt : elt) (L I : nat), I = L / 2 -> 3 <= I ->
  forall (t : tree elt) (e : elt), Inv rank L I t ->
    length (snd (find rank dflt t e)) <= height (root t) * (Nat.log2 L + 1).
Proof. exact find_cost. Qed.
Print Assumptions btree_find_cost.

(* no element is ever deeper than ZIX_BTREE_MAX_HEIGHT levels: every tree reachable by a history has at most H levels
   and every valid iterator path has at most H frames (level < H), with no hypothesis on the size (since fix 1a03612
   insert refuses to grow a tree that already has H levels) *)
Theorem btree_depth_le_max_height :
  forall (elt : Type) (rank : elt -> Z) (dflt : elt) (L I : nat), I = L / 2 -> 3 <= I ->
  forall H : nat, 1 <= H ->
  forall ops : list (op elt),
    height (root (run rank dflt L I H ops)) <= H /\
    forall p, valid (root (run rank dflt L I H ops)) p -> length p <= H.
Proof. exact depth_reachable. Qed.
Print Assumptions btree_depth_le_max_height.

(* independently of H: a tree with fewer than cap(L,I,K) elements has at most K levels (from the height law) *)
Theorem btree_height_bound_by_size :
  forall (elt : Type) (rank : elt -> Z) (dflt : elt) (L I : nat), I = L / 2 -> 3 <= I ->
  forall (t : tree elt) (K : nat), Inv rank L I t -> 1 <= K ->
    length (elements (root t)) < 2 * ((L + 1) / 2) * ((I + 1) / 2) ^ (K - 1) - 1 ->
    height (root t) <= K.
Proof. exact height_le_max. Qed.
Print Assumptions btree_height_bound_by_size.

(* page size 64: (L, I, H) = (6, 3, 6).  After inserting 1..259 in ascending order (no allocation failure) the tree
   has 6 levels and a full root; the insert of the absent key 260 is refused with OVERFLOW although the sorted-set
   spec says SUCCESS.  A tree of bounded height with small pages cannot hold arbitrarily many elements, so the clause
   "insert returns SUCCESS iff the key was absent" cannot hold for every accepted configuration and every size. *)
Theorem btree_insert_overflow_refuted :
  exists ops : list (op Z),
    Forall no_fail ops /\
    let t := run (fun x : Z => x) 0%Z 6 3 6 ops in
    set_find Z (fun x : Z => x) (elements (root t)) 260%Z = None /\
    fst (fst (fst (insert (fun x : Z => x) 0%Z 6 3 6 [] t 260%Z))) = OVERFLOW /\
    fst (set_insert Z (fun x : Z => x) (elements (root t)) 260%Z) = SUCCESS /\
    length (elements (root t)) = 259 /\ height (root t) = 6.
Proof.
  exists (map (fun k => OInsert [] (Z.of_nat k)) (seq 1 259)). split.
  - apply Forall_forall. intros x Hx. apply in_map_iff in Hx as [k [<- _]]. cbn. intros b [].
  - vm_compute. repeat split.
Qed.
Print Assumptions btree_insert_overflow_refuted.

(* non-vacuity: the four configurations meet the hypotheses; cap(6,3,6) = 191 and cap(510,255,6) > 10^13 *)
Example configs_ok : (3 = 6 / 2 /\ 3 <= 3) /\ (7 = 14 / 2 /\ 3 <= 7) /\ (15 = 30 / 2 /\ 3 <= 15) /\ (255 = 510 / 2 /\ 3 <= 255).
Proof. repeat split; try reflexivity; repeat constructor. Qed.
Example cap_page64 : 2 * ((6 + 1) / 2) * ((3 + 1) / 2) ^ (6 - 1) - 1 = 191.
Proof. reflexivity. Qed.
Example history_example :
  let t := run (fun x : Z => x) 0%Z 6 3 6
             (map (fun k => OInsert [] (Z.of_nat k)) (seq 1 40) ++ [ORemove 8%Z; OFind 9%Z; ORemove 8%Z]) in
  elements (root t) = map Z.of_nat (seq 1 7 ++ seq 9 32) /\ height (root t) = 3 /\ size t = 39%Z.
Proof. vm_compute. repeat split. Qed.
