(* C20: model of zix_strerror (over tables regenerated from the source) and of
   zix_string_view_equals / zix_string_view_copy.  Definitions only. *)
From Coq Require Import ZArith String Ascii List Bool Arith.
Import ListNotations.
Local Open Scope Z_scope.

Section Status.
  Variable enum_table : list (string * Z * string).   (* enumerator, value, header description *)
  Variable switch_table : list (string * string).     (* case label, literal returned *)
  Variable default_msg : string.

  Fixpoint name_of_value (v : Z) (t : list (string * Z * string)) : option string :=
    match t with
    | [] => None
    | (n, v', _) :: t' => if Z.eqb v v' then Some n else name_of_value v t'
    end.

  Fixpoint value_of_name (n : string) (t : list (string * Z * string)) : option Z :=
    match t with
    | [] => None
    | (n', v, _) :: t' => if String.eqb n n' then Some v else value_of_name n t'
    end.

  Fixpoint literal_of_case (n : string) (t : list (string * string)) : option string :=
    match t with
    | [] => None
    | (n', s) :: t' => if String.eqb n n' then Some s else literal_of_case n t'
    end.

  (* `switch (status) { case N: return lit; ... } return default;` on the integer value *)
  Definition strerror (v : Z) : string :=
    match name_of_value v enum_table with
    | Some n => match literal_of_case n switch_table with
                | Some s => s
                | None => default_msg
                end
    | None => default_msg
    end.

  Definition defined_values : list Z := map (fun e => snd (fst e)) enum_table.
End Status.

(* ---- well-formedness of a message: one sentence, upper-case first, no trailing period *)
Definition is_upper (a : ascii) : bool :=
  let n := nat_of_ascii a in (65 <=? n)%nat && (n <=? 90)%nat.

Fixpoint last_ascii (s : string) (d : ascii) : ascii :=
  match s with EmptyString => d | String a s' => last_ascii s' a end.

(* no sentence terminator anywhere (so: a single sentence, no trailing period) *)
Fixpoint no_terminator (s : string) : bool :=
  match s with
  | EmptyString => true
  | String a s' =>
      negb (Ascii.eqb a "."%char || Ascii.eqb a "!"%char || Ascii.eqb a "?"%char) && no_terminator s'
  end.

Definition well_formed (s : string) : bool :=
  match s with
  | EmptyString => false
  | String a _ => is_upper a && negb (Ascii.eqb (last_ascii s a) "."%char) && no_terminator s
  end.

Fixpoint nodup_str (l : list string) : bool :=
  match l with
  | [] => true
  | s :: l' => negb (existsb (String.eqb s) l') && nodup_str l'
  end.

(* ---- string views over one flat memory: (offset, length); distinct buffers are disjoint ranges *)
Record view := { v_off : nat; v_len : nat }.

Definition slice (mem : list Z) (v : view) : list Z := firstn (v_len v) (skipn (v_off v) mem).

Fixpoint bytes_eq_loop (mem : list Z) (pa pb : nat) (n : nat) : bool :=
  match n with
  | O => true
  | S n' => if Z.eqb (nth pa mem 0) (nth pb mem 0) then bytes_eq_loop mem (S pa) (S pb) n' else false
  end.

Definition sv_equals (mem : list Z) (a b : view) : bool :=
  if negb (Nat.eqb (v_len a) (v_len b)) then false
  else if Nat.eqb (v_off a) (v_off b) then true        (* lhs.data == rhs.data *)
  else bytes_eq_loop mem (v_off a) (v_off b) (v_len a).

(* zix_string_view_copy: one allocation request of length+1; NULL when it fails *)
Definition sv_copy (alloc_ok : bool) (mem : list Z) (v : view) : option (list Z) :=
  if alloc_ok then Some (slice mem v ++ [0]) else None.

Definition in_bounds (mem : list Z) (v : view) : Prop := (v_off v + v_len v <= length mem)%nat.
