From Coq Require Import ZArith List Bool Arith Lia.
From Zix Require Import FaultSpec AllocModel.
Import ListNotations.

(* ---- log_run basics *)
Lemma log_run_app live l1 l2 :
  log_run live (l1 ++ l2) = match log_run live l1 with Some l' => log_run l' l2 | None => None end.
Proof.
  revert live. induction l1 as [|e l1 IH]; intros live; cbn [app log_run]; [reflexivity|].
  destruct e as [w k id|w k id].
  - destruct (owner_eqb w Caller && negb (existsb (fun b => Nat.eqb (fst b) id) live)); [apply IH|reflexivity].
  - destruct (owner_eqb w Caller && existsb (fun b => Nat.eqb (fst b) id && akind_eqb (snd b) k) live); [apply IH|reflexivity].
Qed.

Definition ids (live : list (nat * akind)) : list nat := map fst live.

(* the allocator state is consistent with a set of live blocks *)
Definition wf (s : ast) (live : list (nat * akind)) : Prop :=
  log_run [] (log s) = Some live /\ (forall id, In id (ids live) -> id < next s) /\ NoDup (ids live).

Lemma wf0 o : wf (ast0 o) [].
Proof. repeat split; cbn; [intros ? []|constructor]. Qed.

Lemma existsb_fst_false live id :
  ~ In id (ids live) -> existsb (fun b : nat * akind => Nat.eqb (fst b) id) live = false.
Proof.
  intros H. apply not_true_is_false. intros E. apply existsb_exists in E as [b [Hb Eb]].
  apply Nat.eqb_eq in Eb. apply H. subst id. now apply in_map.
Qed.

Lemma alloc_ok k s live id s' :
  wf s live -> alloc k s = (Some id, s') ->
  id = next s /\ wf s' ((id, k) :: live).
Proof.
  intros (Hl & Hlt & Hnd) H. unfold alloc in H.
  destruct (match oracle s with [] => true | b :: _ => b end) eqn:Ok; inversion H; subst; clear H.
  split; [reflexivity|]. split; [|split]; cbn [log next ids map fst].
  - rewrite log_run_app, Hl. cbn [log_run owner_eqb andb].
    rewrite existsb_fst_false; [reflexivity|]. intros Hin. apply Hlt in Hin. lia.
  - intros id [<-|Hin]; [lia|]. apply Hlt in Hin. lia.
  - constructor; [|exact Hnd]. intros Hin. apply Hlt in Hin. lia.
Qed.

Lemma alloc_fail k s live s' :
  wf s live -> alloc k s = (None, s') -> wf s' live /\ log s' = log s.
Proof.
  intros (Hl & Hlt & Hnd) H. unfold alloc in H.
  destruct (match oracle s with [] => true | b :: _ => b end) eqn:Ok; inversion H; subst; clear H.
  split; [|reflexivity]. split; [exact Hl|split; [|exact Hnd]].
  intros id Hin. apply Hlt in Hin. cbn. lia.
Qed.

Definition drop (id : nat) (live : list (nat * akind)) := filter (fun b => negb (Nat.eqb (fst b) id)) live.

Lemma ids_drop_in id id' live : In id' (ids (drop id live)) -> In id' (ids live) /\ id' <> id.
Proof.
  unfold ids, drop. rewrite in_map_iff. intros [b [<- Hb]]. apply filter_In in Hb as [Hb E].
  split; [now apply in_map|]. apply negb_true_iff, Nat.eqb_neq in E. exact E.
Qed.

Lemma NoDup_ids_drop id live : NoDup (ids live) -> NoDup (ids (drop id live)).
Proof.
  unfold ids, drop. induction live as [|b live IH]; cbn; [constructor|].
  intros H. inversion H as [|? ? Hni Hnd]; subst.
  destruct (negb (Nat.eqb (fst b) id)); cbn; [|auto].
  constructor; [|auto]. intros Hin. apply Hni. apply in_map_iff in Hin as [c [Ec Hc]].
  apply filter_In in Hc as [Hc _]. rewrite <- Ec. now apply in_map.
Qed.

Lemma release_ok k id s live :
  wf s live -> In (id, k) live -> wf (release k id s) (drop id live).
Proof.
  intros (Hl & Hlt & Hnd) Hin. split; [|split]; cbn [release log next].
  - rewrite log_run_app, Hl. cbn [log_run owner_eqb andb].
    assert (E : existsb (fun b : nat * akind => Nat.eqb (fst b) id && akind_eqb (snd b) k) live = true).
    { apply existsb_exists. exists (id, k). split; [exact Hin|]. cbn. rewrite Nat.eqb_refl. now destruct k. }
    now rewrite E.
  - intros id' H. apply ids_drop_in in H as [H _]. now apply Hlt.
  - now apply NoDup_ids_drop.
Qed.

Lemma drop_head id k live : ~ In id (ids live) -> drop id ((id, k) :: live) = live.
Proof.
  intros H. unfold drop. cbn. rewrite Nat.eqb_refl. cbn.
  induction live as [|b live IH]; cbn; [reflexivity|].
  destruct (Nat.eqb_spec (fst b) id) as [E|NE]; cbn.
  - exfalso. apply H. left. exact E.
  - f_equal. apply IH. intros Hin. apply H. now right.
Qed.

Lemma drop_notin id live : ~ In id (ids live) -> drop id live = live.
Proof.
  intros H. unfold drop. induction live as [|b live IH]; cbn; [reflexivity|].
  destruct (Nat.eqb_spec (fst b) id) as [E|NE]; cbn.
  - exfalso. apply H. left. exact E.
  - f_equal. apply IH. intros Hin. apply H. now right.
Qed.

Lemma wf_log_ok_nil s : wf s [] -> log_ok (log s) [] = true.
Proof. intros (Hl & _). unfold log_ok. now rewrite Hl. Qed.

Lemma wf_log_ok_one s id k : wf s [(id, k)] -> log_ok (log s) [id] = true.
Proof. intros (Hl & _). unfold log_ok. rewrite Hl. cbn. now rewrite Nat.eqb_refl. Qed.

(* ---- one-request functions *)
Lemma one_block_spec o :
  match one_block (ast0 o) with
  | (Some id, s) => log_ok (log s) [id] = true /\ log_ok (log (caller_free (Some id) s)) [] = true
  | (None, s) => log s = [] /\ hd true o = false
  end.
Proof.
  unfold one_block. destruct (alloc Plain (ast0 o)) as [[id|] s] eqn:E.
  - destruct (alloc_ok _ _ _ _ _ (wf0 o) E) as [-> W]. split; [now apply wf_log_ok_one with Plain|].
    cbn [caller_free]. apply wf_log_ok_nil.
    pose proof (release_ok Plain _ _ _ W (or_introl eq_refl)) as W'.
    rewrite drop_head in W' by (cbn; tauto). exact W'.
  - destruct (alloc_fail _ _ _ _ (wf0 o) E) as [_ L]. split; [exact L|].
    unfold alloc in E. cbn in E. destruct o as [|[] o]; cbn in *; congruence.
Qed.

(* ---- ring *)
Lemma ring_new_spec o :
  match ring_new (ast0 o) with
  | (Some rb, s) => log_ok (log s) [fst rb; snd rb] = true /\ log_ok (log (ring_free rb s)) [] = true
  | (None, s) => log_ok (log s) [] = true /\ (hd true o = false \/ hd true (tl o) = false)
  end.
Proof.
  destruct o as [|b1 [|b2 o]]; try destruct b1; try destruct b2; cbn; auto.
Qed.

(* ---- create_directories / copy_file block / file_equals blocks: nothing outstanding, ever *)
Lemma create_directories_spec o :
  let '(ok, s) := create_directories (ast0 o) in
  log_ok (log s) [] = true /\ (ok = false <-> hd true o = false).
Proof. destruct o as [|[] o]; cbn; intuition congruence. Qed.

Lemma copy_file_block_spec o : log_ok (log (copy_file_block (ast0 o))) [] = true.
Proof. destruct o as [|[] o]; reflexivity. Qed.

Lemma file_equals_blocks_spec o : log_ok (log (file_equals_blocks (ast0 o))) [] = true.
Proof. destruct o as [|[] [|[] o]]; reflexivity. Qed.

(* ---- realloc chain (environment expansion): any length, any oracle *)
Lemma realloc_chain_wf n : forall cur s live,
  wf s live ->
  (match cur with Some c => live = [(c, Plain)] | None => live = [] end) ->
  let '(r, s') := realloc_chain n cur s in
  match r with Some b => wf s' [(b, Plain)] | None => wf s' [] end.
Proof.
  induction n as [|n IH]; intros cur s live W Hc; cbn [realloc_chain].
  - destruct cur; subst; exact W.
  - destruct (alloc Plain s) as [[b|] s1] eqn:E.
    + destruct (alloc_ok _ _ _ _ _ W E) as [-> W1].
      destruct cur as [c|]; subst live.
      * apply (IH (Some (next s)) _ [(next s, Plain)]); [|reflexivity].
        pose proof (release_ok Plain c _ _ W1 (or_intror (or_introl eq_refl))) as W2.
        assert (c <> next s) as NE.
        { destruct W as (_ & Hlt & _). specialize (Hlt c (or_introl eq_refl)). lia. }
        unfold drop in W2. cbn in W2. rewrite Nat.eqb_refl in W2.
        destruct (Nat.eqb_spec (next s) c); [congruence|]. exact W2.
      * apply (IH (Some (next s)) _ [(next s, Plain)]); [exact W1|reflexivity].
    + destruct (alloc_fail _ _ _ _ W E) as [W1 _].
      destruct cur as [c|]; subst live; [|exact W1].
      pose proof (release_ok Plain c _ _ W1 (or_introl eq_refl)) as W2.
      rewrite drop_head in W2 by (cbn; tauto). exact W2.
Qed.

Lemma realloc_chain_spec n o :
  let '(r, s) := realloc_chain n None (ast0 o) in
  match r with
  | Some b => log_ok (log s) [b] = true /\ log_ok (log (caller_free (Some b) s)) [] = true
  | None => log_ok (log s) [] = true
  end.
Proof.
  pose proof (realloc_chain_wf n None (ast0 o) [] (wf0 o) eq_refl) as H.
  destruct (realloc_chain n None (ast0 o)) as [[b|] s].
  - split; [now apply wf_log_ok_one with Plain|]. cbn [caller_free]. apply wf_log_ok_nil.
    pose proof (release_ok Plain b _ _ H (or_introl eq_refl)) as W.
    rewrite drop_head in W by (cbn; tauto). exact W.
  - now apply wf_log_ok_nil.
Qed.

(* ---- AVL tree life cycle: blocks outstanding = the tree + one per element, none after free *)
Definition tlive (t : nat) (nodes : list nat) : list (nat * akind) :=
  map (fun n => (n, Plain)) (rev nodes) ++ [(t, Plain)].

Lemma ids_tlive t nodes : ids (tlive t nodes) = rev nodes ++ [t].
Proof. unfold ids, tlive. rewrite map_app, map_map. cbn. now rewrite map_id. Qed.

Lemma drop_app id l1 l2 : drop id (l1 ++ l2) = drop id l1 ++ drop id l2.
Proof. unfold drop. apply filter_app. Qed.

Lemma drop_map_notin id l :
  ~ In id l -> drop id (map (fun n => (n, Plain)) l) = map (fun n => (n, Plain)) l.
Proof. intros H. apply drop_notin. unfold ids. rewrite map_map. cbn. now rewrite map_id. Qed.

Lemma remove_nth_split {A} i (l : list A) n :
  nth_error l i = Some n -> exists l1 l2, l = l1 ++ n :: l2 /\ remove_nth i l = l1 ++ l2.
Proof.
  revert l. induction i as [|i IH]; intros [|x l] H; cbn in H; try discriminate.
  - inversion H; subst. exists [], l. split; reflexivity.
  - destruct (IH l H) as (l1 & l2 & -> & E). exists (x :: l1), l2. cbn. now rewrite E.
Qed.

Lemma tree_step_wf t nodes o s :
  wf s (tlive t nodes) ->
  let '(nodes', s', nomem) := tree_step nodes o s in
  wf s' (tlive t nodes') /\ (nomem = true -> nodes' = nodes).
Proof.
  intros W. destruct o as [|i]; cbn [tree_step].
  - destruct (alloc Plain s) as [[n|] s1] eqn:E.
    + destruct (alloc_ok _ _ _ _ _ W E) as [-> W1]. split; [|discriminate].
      unfold tlive in *. rewrite rev_app_distr. cbn. exact W1.
    + destruct (alloc_fail _ _ _ _ W E) as [W1 _]. split; [exact W1|reflexivity].
  - destruct (nth_error nodes i) as [n|] eqn:E; [|split; [exact W|discriminate]].
    split; [|discriminate].
    destruct (remove_nth_split _ _ _ E) as (l1 & l2 & -> & ->).
    assert (Hin : In (n, Plain) (tlive t (l1 ++ n :: l2))).
    { unfold tlive. apply in_or_app. left. apply (in_map (fun m => (m, Plain))). rewrite <- in_rev.
      apply in_or_app. right. now left. }
    pose proof (release_ok Plain n _ _ W Hin) as W2.
    destruct W as (_ & _ & Hnd). rewrite ids_tlive in Hnd.
    rewrite rev_app_distr in Hnd. cbn [rev] in Hnd. rewrite <- !app_assoc in Hnd. cbn [app] in Hnd.
    assert (~ In n (rev l2) /\ ~ In n (rev l1 ++ [t])) as [N2 N1].
    { apply NoDup_remove_2 in Hnd. split; intros H; apply Hnd; apply in_or_app; [now left|now right]. }
    unfold tlive in W2 |- *. rewrite !rev_app_distr in W2 |- *. cbn [rev] in W2.
    rewrite !map_app, <- !app_assoc in W2. cbn [map app] in W2.
    rewrite !drop_app in W2. rewrite map_app, <- app_assoc.
    rewrite (drop_map_notin n (rev l2) N2) in W2.
    rewrite drop_head in W2; [exact W2|].
    unfold ids. rewrite map_app, map_map. cbn. rewrite map_id. exact N1.
Qed.

Lemma tree_run_wf t ops : forall nodes s,
  wf s (tlive t nodes) -> let '(nodes', s') := tree_run nodes ops s in wf s' (tlive t nodes').
Proof.
  induction ops as [|o ops IH]; intros nodes s W; cbn [tree_run]; [exact W|].
  pose proof (tree_step_wf t nodes o s W) as H.
  destruct (tree_step nodes o s) as [[nodes' s'] nm]. destruct H as [W' _]. apply IH, W'.
Qed.

Lemma release_all_wf t : forall nodes s,
  wf s (tlive t nodes) -> wf (release_all Plain (rev nodes) s) [(t, Plain)].
Proof.
  intros nodes. unfold tlive. induction (rev nodes) as [|n l IH]; intros s W; cbn [release_all map app] in *; [exact W|].
  apply IH. pose proof (release_ok Plain n _ _ W (or_introl eq_refl)) as W2.
  rewrite drop_head in W2; [exact W2|].
  destruct W as (_ & _ & Hnd). cbn in Hnd. now inversion Hnd.
Qed.

Lemma release_all_perm_log_ok t nodes s :
  wf s (tlive t nodes) -> log_ok (log (tree_free t nodes s)) [] = true.
Proof.
  (* tree_free releases nodes in list order; show it via the same invariant on an arbitrary order *)
  intros W. unfold tree_free. apply wf_log_ok_nil.
  assert (G : forall l s' live, wf s' live -> NoDup l -> (forall n, In n l -> In (n, Plain) live) ->
              ~ In t l -> In (t, Plain) live -> length live = S (length l) ->
              wf (release_all Plain l s') [(t, Plain)]).
  { induction l as [|n l IHl]; intros s' live W' Hnd Hall Hnt Ht Hlen; cbn [release_all].
    - destruct live as [|b [|c live]]; cbn in Hlen; try lia. destruct Ht as [->|[]]. exact W'.
    - inversion Hnd as [|? ? Hni Hnd']; subst.
      apply (IHl _ (drop n live)).
      + apply release_ok; [exact W'|]. apply Hall. now left.
      + exact Hnd'.
      + intros m Hm. unfold drop. apply filter_In. split; [apply Hall; now right|].
        cbn. apply negb_true_iff, Nat.eqb_neq. intros ->. contradiction.
      + intros H. apply Hnt. now right.
      + unfold drop. apply filter_In. split; [exact Ht|]. cbn. apply negb_true_iff, Nat.eqb_neq.
        intros ->. apply Hnt. now left.
      + destruct W' as (_ & _ & Hndl).
        assert (L : forall live0, NoDup (ids live0) -> In n (ids live0) -> length live0 = S (length (drop n live0))).
        { induction live0 as [|b live0 IHv]; cbn; [tauto|]. intros Hd [E|Hin].
          - rewrite E, Nat.eqb_refl. cbn. f_equal. inversion Hd; subst. symmetry. f_equal.
            apply drop_notin. assumption.
          - inversion Hd as [|? ? Hn0 Hd0]; subst. destruct (Nat.eqb_spec (fst b) n) as [E|NE]; cbn.
            + exfalso. apply Hn0. now rewrite E.
            + f_equal. now apply IHv. }
        assert (Hn : In n (ids live)).
        { unfold ids. apply in_map_iff. exists (n, Plain). split; [reflexivity|]. apply Hall. now left. }
        specialize (L live Hndl Hn). cbn in Hlen. lia. }
  pose proof W as (_ & _ & Hnd). rewrite ids_tlive in Hnd.
  pose proof (release_ok Plain t (release_all Plain nodes s) [(t, Plain)]) as R.
  assert (W1 : wf (release_all Plain nodes s) [(t, Plain)]).
  { apply (G nodes s (tlive t nodes) W).
    - apply NoDup_remove_1 in Hnd. rewrite app_nil_r in Hnd. apply NoDup_rev in Hnd.
      now rewrite rev_involutive in Hnd.
    - intros n Hn. unfold tlive. apply in_or_app. left. apply (in_map (fun m => (m, Plain))).
      now rewrite <- in_rev.
    - intros H. apply NoDup_remove_2 in Hnd. rewrite app_nil_r in Hnd. apply Hnd. now rewrite <- in_rev.
    - unfold tlive. apply in_or_app. right. now left.
    - unfold tlive. rewrite app_length, map_length, rev_length. cbn. lia. }
  specialize (R W1 (or_introl eq_refl)). rewrite drop_head in R by (cbn; tauto). exact R.
Qed.

Lemma tree_life_ok o ops : log_ok (tree_life o ops) [] = true.
Proof.
  unfold tree_life, tree_new. destruct (alloc Plain (ast0 o)) as [[t|] s] eqn:E.
  - destruct (alloc_ok _ _ _ _ _ (wf0 o) E) as [-> W].
    pose proof (tree_run_wf (next (ast0 o)) ops [] s W) as H.
    destruct (tree_run [] ops s) as [nodes s']. now apply release_all_perm_log_ok.
  - destruct (alloc_fail _ _ _ _ (wf0 o) E) as [W _]. now apply wf_log_ok_nil.
Qed.

(* a refused insertion changes nothing in the tree's block set *)
Lemma tree_step_nomem nodes s nodes' s' :
  tree_step nodes TIns s = (nodes', s', true) -> nodes' = nodes /\ log s' = log s.
Proof.
  cbn. unfold alloc. destruct (match oracle s with [] => true | b :: _ => b end); intros H; inversion H; subst.
  split; reflexivity.
Qed.

(* ---- default allocator *)
Lemma default_trace_length rs : length (default_trace rs) = length rs.
Proof. apply map_length. Qed.

Lemma default_call_kind r :
  call_allocs (default_call r) = req_allocs r /\ call_frees (default_call r) = req_frees r.
Proof. destruct r; split; reflexivity. Qed.

Lemma default_trace_balance rs :
  length (filter call_allocs (default_trace rs)) = length (filter req_allocs rs) /\
  length (filter call_frees (default_trace rs)) = length (filter req_frees rs).
Proof.
  unfold default_trace. induction rs as [|r rs [IH1 IH2]]; [split; reflexivity|].
  cbn [map filter]. destruct (default_call_kind r) as [-> ->].
  split; [destruct (req_allocs r)|destruct (req_frees r)]; cbn [length]; congruence.
Qed.
