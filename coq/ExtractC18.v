Require Extraction.
Require Import ExtrOcamlBasic.
From Zix Require Import SemErrnoModel ThreadModel.
Separate Extraction SemErrnoModel.status_code ThreadModel.thread_create_model ThreadModel.thread_join_model
  ThreadModel.new_env ThreadModel.glibc_setstack_result ThreadModel.irun ThreadModel.iinit ThreadModel.writes_of.
