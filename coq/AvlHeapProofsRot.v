(* C06 — heap model of tree.c, lemmas part 2: rotate() and the four rotations on a heap that
   represents a tree simulate the functional rotations (all pointer assignments, including the
   parent links and the child link of the node above). *)
From Coq Require Import ZArith List Bool Lia ZifyBool Permutation.
From Zix Require Import AvlSpec AvlModel AvlProofs AvlProofsIter AvlHeapModel AvlHeapProofsBase.
Import ListNotations.
Local Open Scope Z_scope.

Ltac hred := unfold left, right, parent, bal;
  repeat first [rewrite hget_set_left | rewrite hget_set_right | rewrite hget_set_parent | rewrite hget_set_bal].

Lemma rotate_get_l : forall h p q dp bp par lp dq bq lq rq,
  hget h p = Some (mkNode dp bp par lp (Some q)) ->
  hget h q = Some (mkNode dq bq (Some p) lq rq) ->
  p <> q ->
  (forall g, par = Some g -> g <> p /\ g <> q) ->
  (forall c, lq = Some c -> c <> p /\ c <> q /\ par <> Some c) ->
  forall j, hget (rotate h p q) j =
    if j =? p then Some (mkNode dp bp (Some q) lp lq)
    else if j =? q then Some (mkNode dq bq par (Some p) rq)
    else if ptr_is par j then option_map (fun n => if ptr_is (nleft n) p then w_left (Some q) n else w_right (Some q) n) (hget h j)
    else if ptr_is lq j then option_map (w_par (Some p)) (hget h j)
    else hget h j.
Proof.
  intros h p q dp bp par lp dq bq lq rq Hp Hq Npq Hg Hc j.
  unfold rotate.
  set (h1 := set_parent h q (parent h p)).
  match goal with |- context [ptr_is (right ?X p) q] => set (h2 := X) end.
  assert (G1 : forall k, hget h1 k = if k =? q then Some (mkNode dq bq par lq rq) else hget h k).
  { intros k. subst h1. hred. rewrite Hp, Hq. reflexivity. }
  assert (G2 : forall k, hget h2 k =
     if k =? q then Some (mkNode dq bq par lq rq)
     else if ptr_is par k then option_map (fun n => if ptr_is (nleft n) p then w_left (Some q) n else w_right (Some q) n) (hget h k)
     else hget h k).
  { intros k. subst h2. unfold parent at 1. rewrite G1. eqb_simp. cbn [npar].
    destruct par as [g|]; cbn [ptr_is].
    - destruct (Hg g eq_refl) as [A B]. unfold left. rewrite G1. eqb_simp.
      destruct (Z.eq_dec k q) as [->|Nq]; [|destruct (Z.eq_dec k g) as [->|Ng]].
      + destruct (hget h g) as [ng|]; [destruct (ptr_is (nleft ng) p)|cbn [ptr_is]]; hred; rewrite !G1; eqb_simp; reflexivity.
      + destruct (hget h g) as [ng|] eqn:Gg; [destruct (ptr_is (nleft ng) p) eqn:T|cbn [ptr_is]]; hred; rewrite !G1; eqb_simp;
          rewrite Gg; cbn [option_map]; rewrite ?T; reflexivity.
      + destruct (hget h g) as [ng|]; [destruct (ptr_is (nleft ng) p)|cbn [ptr_is]]; hred; rewrite !G1; eqb_simp; reflexivity.
    - rewrite G1. destruct (k =? q); reflexivity. }
  clearbody h2. clear G1. clear h1.
  assert (P2 : hget h2 p = Some (mkNode dp bp par lp (Some q))).
  { rewrite G2. eqb_simp. destruct par as [g|]; cbn [ptr_is]; [|assumption].
    destruct (Hg g eq_refl). eqb_simp. assumption. }
  assert (Q2 : hget h2 q = Some (mkNode dq bq par lq rq)).
  { rewrite G2. eqb_simp. reflexivity. }
  unfold right at 1. rewrite P2. cbn [nright ptr_is]. eqb_simp.
  assert (L2 : left h2 q = lq) by (unfold left; rewrite Q2; reflexivity). rewrite !L2.
  set (h3 := set_right h2 p lq).
  set (h4 := set_left h3 q (Some p)).
  assert (G4 : forall k, hget h4 k =
     if k =? q then Some (mkNode dq bq par (Some p) rq)
     else if k =? p then Some (mkNode dp bp par lp lq) else hget h2 k).
  { intros k. subst h4 h3. hred. eqb_simp. rewrite P2, Q2.
    destruct (Z.eq_dec k q) as [->|Nq]; [|destruct (Z.eq_dec k p) as [->|Np]]; eqb_simp; reflexivity. }
  clearbody h4. clear h3.
  unfold right at 1. rewrite G4. eqb_simp. cbn [nright].
  destruct (Z.eq_dec j p) as [->|Np]; [|destruct (Z.eq_dec j q) as [->|Nq]].
  - destruct lq as [c|]; [destruct (Hc c eq_refl) as (A & B & C)|]; hred; eqb_simp; rewrite !G4; eqb_simp; reflexivity.
  - destruct lq as [c|]; [destruct (Hc c eq_refl) as (A & B & C)|]; hred; eqb_simp; rewrite !G4; eqb_simp; reflexivity.
  - destruct lq as [c|]; [destruct (Hc c eq_refl) as (A & B & C)|].
    + hred. eqb_simp. rewrite !G4. eqb_simp. rewrite !G2. eqb_simp. cbn [ptr_is].
      destruct (Z.eq_dec j c) as [->|Nc].
      * eqb_simp. destruct par as [g|]; cbn [ptr_is]; [|reflexivity].
        assert (g <> c) by congruence. eqb_simp. reflexivity.
      * eqb_simp. destruct (ptr_is par j); reflexivity.
    + hred. eqb_simp. rewrite !G4. eqb_simp. rewrite !G2. eqb_simp. cbn [ptr_is].
      destruct (ptr_is par j); reflexivity.
Qed.

Lemma rotate_get_r : forall h p q dp bp par rp dq bq lq rq,
  hget h p = Some (mkNode dp bp par (Some q) rp) ->
  rp <> Some q ->
  hget h q = Some (mkNode dq bq (Some p) lq rq) ->
  p <> q ->
  (forall g, par = Some g -> g <> p /\ g <> q) ->
  (forall c, rq = Some c -> c <> p /\ c <> q /\ par <> Some c) ->
  forall j, hget (rotate h p q) j =
    if j =? p then Some (mkNode dp bp (Some q) rq rp)
    else if j =? q then Some (mkNode dq bq par lq (Some p))
    else if ptr_is par j then option_map (fun n => if ptr_is (nleft n) p then w_left (Some q) n else w_right (Some q) n) (hget h j)
    else if ptr_is rq j then option_map (w_par (Some p)) (hget h j)
    else hget h j.
Proof.
  intros h p q dp bp par rp dq bq lq rq Hp Nrp Hq Npq Hg Hc j.
  unfold rotate.
  set (h1 := set_parent h q (parent h p)).
  match goal with |- context [ptr_is (right ?X p) q] => set (h2 := X) end.
  assert (G1 : forall k, hget h1 k = if k =? q then Some (mkNode dq bq par lq rq) else hget h k).
  { intros k. subst h1. hred. rewrite Hp, Hq. reflexivity. }
  assert (G2 : forall k, hget h2 k =
     if k =? q then Some (mkNode dq bq par lq rq)
     else if ptr_is par k then option_map (fun n => if ptr_is (nleft n) p then w_left (Some q) n else w_right (Some q) n) (hget h k)
     else hget h k).
  { intros k. subst h2. unfold parent at 1. rewrite G1. eqb_simp. cbn [npar].
    destruct par as [g|]; cbn [ptr_is].
    - destruct (Hg g eq_refl) as [A B]. unfold left. rewrite G1. eqb_simp.
      destruct (Z.eq_dec k q) as [->|Nq]; [|destruct (Z.eq_dec k g) as [->|Ng]].
      + destruct (hget h g) as [ng|]; [destruct (ptr_is (nleft ng) p)|cbn [ptr_is]]; hred; rewrite !G1; eqb_simp; reflexivity.
      + destruct (hget h g) as [ng|] eqn:Gg; [destruct (ptr_is (nleft ng) p) eqn:T|cbn [ptr_is]]; hred; rewrite !G1; eqb_simp;
          rewrite Gg; cbn [option_map]; rewrite ?T; reflexivity.
      + destruct (hget h g) as [ng|]; [destruct (ptr_is (nleft ng) p)|cbn [ptr_is]]; hred; rewrite !G1; eqb_simp; reflexivity.
    - rewrite G1. destruct (k =? q); reflexivity. }
  clearbody h2. clear G1. clear h1.
  assert (P2 : hget h2 p = Some (mkNode dp bp par (Some q) rp)).
  { rewrite G2. eqb_simp. destruct par as [g|]; cbn [ptr_is]; [|assumption].
    destruct (Hg g eq_refl). eqb_simp. assumption. }
  assert (Q2 : hget h2 q = Some (mkNode dq bq par lq rq)).
  { rewrite G2. eqb_simp. reflexivity. }
  unfold right at 1. rewrite P2. cbn [nright].
  replace (ptr_is rp q) with false
    by (destruct rp as [x|]; cbn [ptr_is]; [destruct (Z.eq_dec x q); [subst; congruence|eqb_simp; reflexivity]|reflexivity]).
  assert (L2 : right h2 q = rq) by (unfold right; rewrite Q2; reflexivity). rewrite !L2.
  set (h3 := set_left h2 p rq).
  set (h4 := set_right h3 q (Some p)).
  assert (G4 : forall k, hget h4 k =
     if k =? q then Some (mkNode dq bq par lq (Some p))
     else if k =? p then Some (mkNode dp bp par rq rp) else hget h2 k).
  { intros k. subst h4 h3. hred. eqb_simp. rewrite P2, Q2.
    destruct (Z.eq_dec k q) as [->|Nq]; [|destruct (Z.eq_dec k p) as [->|Np]]; eqb_simp; reflexivity. }
  clearbody h4. clear h3.
  unfold left at 1. rewrite G4. eqb_simp. cbn [nleft].
  destruct (Z.eq_dec j p) as [->|Np]; [|destruct (Z.eq_dec j q) as [->|Nq]].
  - destruct rq as [c|]; [destruct (Hc c eq_refl) as (A & B & C)|]; hred; eqb_simp; rewrite !G4; eqb_simp; reflexivity.
  - destruct rq as [c|]; [destruct (Hc c eq_refl) as (A & B & C)|]; hred; eqb_simp; rewrite !G4; eqb_simp; reflexivity.
  - destruct rq as [c|]; [destruct (Hc c eq_refl) as (A & B & C)|].
    + hred. eqb_simp. rewrite !G4. eqb_simp. rewrite !G2. eqb_simp. cbn [ptr_is].
      destruct (Z.eq_dec j c) as [->|Nc].
      * eqb_simp. destruct par as [g|]; cbn [ptr_is]; [|reflexivity].
        assert (g <> c) by congruence. eqb_simp. reflexivity.
      * eqb_simp. destruct (ptr_is par j); reflexivity.
    + hred. eqb_simp. rewrite !G4. eqb_simp. rewrite !G2. eqb_simp. cbn [ptr_is].
      destruct (ptr_is par j); reflexivity.
Qed.

(* ------------------------------------------------------------------ distinctness from NoDup, by counting *)
Definition occ (l : list Z) (x : Z) : nat := count_occ Z.eq_dec l x.

Lemma occ_app : forall l1 l2 x, occ (l1 ++ l2) x = (occ l1 x + occ l2 x)%nat.
Proof. intros. unfold occ. apply count_occ_app. Qed.

Lemma occ_cons : forall a l x, occ (a :: l) x = (Nat.b2n (Z.eqb a x) + occ l x)%nat.
Proof.
  intros. unfold occ. cbn [count_occ]. destruct (Z.eq_dec a x) as [->|N].
  - rewrite Z.eqb_refl. reflexivity.
  - replace (a =? x) with false by (symmetry; apply Z.eqb_neq; assumption). reflexivity.
Qed.

Lemma occ_nil : forall x, occ [] x = O.
Proof. reflexivity. Qed.

Lemma occ_in : forall l x, In x l -> (1 <= occ l x)%nat.
Proof. intros l x H. unfold occ. apply (proj1 (count_occ_In Z.eq_dec l x)) in H. lia. Qed.

Lemma nodup_occ : forall l, NoDup l -> forall x, (occ l x <= 1)%nat.
Proof. intros l H x. unfold occ. apply (proj1 (NoDup_count_occ Z.eq_dec l) H). Qed.

(* goal a <> b, given ND : NoDup L and hypotheses In _ _ about segments of L *)
Ltac nd_neq ND :=
  let E := fresh "E" in let X := fresh "X" in
  intro E;
  match type of E with ?a = ?b =>
    pose proof (nodup_occ _ ND b) as X;
    repeat (rewrite ?occ_app, ?occ_cons, ?occ_nil in X);
    repeat match goal with H : In ?x ?l |- _ => apply occ_in in H end;
    subst;
    rewrite ?Z.eqb_refl in X; cbn [Nat.b2n] in X; lia
  end.

(* goal False, given ND : NoDup L and two hypotheses In x _ about different segments of L *)
Ltac nd_absurd ND x :=
  let X := fresh "X" in
  pose proof (nodup_occ _ ND x) as X;
  repeat (rewrite ?occ_app, ?occ_cons, ?occ_nil in X);
  repeat match goal with H : In ?y ?l |- _ => apply occ_in in H end;
  rewrite ?Z.eqb_refl in X; cbn [Nat.b2n] in X; lia.

Lemma ptr_is_false : forall a j, a <> Some j -> ptr_is a j = false.
Proof. intros [x|] j H; cbn [ptr_is]; [|reflexivity]. apply Z.eqb_neq. intros ->. apply H. reflexivity. Qed.

Lemma ptr_is_refl : forall j, ptr_is (Some j) j = true.
Proof. intros. cbn. apply Z.eqb_refl. Qed.

Lemma ctx_id_in : forall c g, ctx_id c = Some g -> In g (cids c).
Proof. intros [|i d b r c|i d b l c] g H; cbn in *; [discriminate| |]; inversion H; left; reflexivity. Qed.

(* the part of a context that a rotation at its hole touches: the child link of the innermost frame *)
Lemma repc_rehole : forall h h' c p q,
  repc h c (Some p) -> ~ In p (cids c) ->
  (forall g, ctx_id c = Some g ->
     hget h' g = option_map (fun n => if ptr_is (nleft n) p then w_left (Some q) n else w_right (Some q) n) (hget h g)) ->
  (forall j, In j (cids c) -> ctx_id c <> Some j -> hget h' j = hget h j) ->
  NoDup (cids c) ->
  repc h' c (Some q).
Proof.
  intros h h' c p q R Np Hg Hf ND. destruct c as [|g d b r c|g d b l c]; [exact I| |]; cbn [repc cids ctx_id] in *;
    destruct R as (R1 & R2 & R3); inversion ND as [|? ? Ng ND']; subst.
  - split; [|split].
    + rewrite (Hg g eq_refl), R1. cbn [option_map nleft ptr_is]. rewrite Z.eqb_refl. reflexivity.
    + eapply rep_ext; [|eassumption]. intros j Hj. apply Hf; [right; apply in_or_app; left; assumption|].
      intros X. inversion X. subst. apply Ng. apply in_or_app. left. assumption.
    + eapply repc_ext; [|eassumption]. intros j Hj. apply Hf; [right; apply in_or_app; right; assumption|].
      intros X. inversion X. subst. apply Ng. apply in_or_app. right. assumption.
  - split; [|split].
    + rewrite (Hg g eq_refl), R1. cbn [option_map nleft].
      replace (ptr_is (root_id l) p) with false; [reflexivity|].
      destruct l as [|li ld lb ll lr]; [reflexivity|]. cbn [root_id ptr_is]. symmetry. apply Z.eqb_neq.
      intros ->. apply Np. right. apply in_or_app. left. rewrite ids_N. apply in_or_app. right. left. reflexivity.
    + eapply rep_ext; [|eassumption]. intros j Hj. apply Hf; [right; apply in_or_app; left; assumption|].
      intros X. inversion X. subst. apply Ng. apply in_or_app. left. assumption.
    + eapply repc_ext; [|eassumption]. intros j Hj. apply Hf; [right; apply in_or_app; right; assumption|].
      intros X. inversion X. subst. apply Ng. apply in_or_app. right. assumption.
Qed.

Lemma rotate_sim_l : forall h c p dp bp lp q dq bq lq rq,
  let t := N p dp bp lp (N q dq bq lq rq) in
  NoDup (ids t ++ cids c) ->
  rep h t (ctx_id c) -> repc h c (Some p) ->
  let h' := rotate h p q in
  rep h' (N q dq bq (N p dp bp lp lq) rq) (ctx_id c) /\ repc h' c (Some q) /\
  (forall j, ~ In j (ids t ++ cids c) -> hget h' j = hget h j).
Proof.
  intros h c p dp bp lp q dq bq lq rq t ND R RC h'.
  subst t. cbn [rep root_id] in R. destruct R as (Hp & Rlp & Hq & Rlq & Rrq).
  rewrite !ids_N in ND.
  assert (Npq : p <> q) by nd_neq ND.
  assert (Hg : forall g, ctx_id c = Some g -> g <> p /\ g <> q).
  { intros g Eg. apply ctx_id_in in Eg. split; nd_neq ND. }
  assert (Hc : forall cc, root_id lq = Some cc -> cc <> p /\ cc <> q /\ ctx_id c <> Some cc).
  { intros cc Ec. apply root_id_in in Ec. split; [nd_neq ND|split; [nd_neq ND|]].
    intros Eg. apply ctx_id_in in Eg. nd_absurd ND cc. }
  pose proof (rotate_get_l h p q _ _ _ _ _ _ _ _ Hp Hq Npq Hg Hc) as G. fold h' in G.
  assert (F : forall j, j <> p -> j <> q -> ctx_id c <> Some j -> root_id lq <> Some j -> hget h' j = hget h j).
  { intros j A B C D. rewrite G. eqb_simp. rewrite (ptr_is_false _ _ C), (ptr_is_false _ _ D). reflexivity. }
  assert (Flp : forall j, In j (ids lp) -> hget h' j = hget h j).
  { intros j Hj. apply F; [nd_neq ND|nd_neq ND| |].
    - intros Eg. apply ctx_id_in in Eg. nd_absurd ND j.
    - intros Ec. apply root_id_in in Ec. nd_absurd ND j. }
  assert (Frq : forall j, In j (ids rq) -> hget h' j = hget h j).
  { intros j Hj. apply F; [nd_neq ND|nd_neq ND| |].
    - intros Eg. apply ctx_id_in in Eg. nd_absurd ND j.
    - intros Ec. apply root_id_in in Ec. nd_absurd ND j. }
  split; [|split].
  - cbn [rep root_id]. repeat split.
    + rewrite G. eqb_simp. reflexivity.
    + rewrite G. eqb_simp. reflexivity.
    + eapply rep_ext; eassumption.
    + destruct lq as [|cc dc bc lc rc]; [exact I|]. cbn [rep root_id] in *. destruct Rlq as (Hcc & Rlc & Rrc).
      destruct (Hc cc eq_refl) as (A & B & C). rewrite ids_N in ND.
      repeat split.
      * rewrite G. eqb_simp. rewrite (ptr_is_false _ _ C). rewrite ptr_is_refl, Hcc. reflexivity.
      * eapply rep_ext; [|eassumption]. intros j Hj. apply F; [nd_neq ND|nd_neq ND| |intros X; injection X; nd_neq ND].
        intros Eg. apply ctx_id_in in Eg. nd_absurd ND j.
      * eapply rep_ext; [|eassumption]. intros j Hj. apply F; [nd_neq ND|nd_neq ND| |intros X; injection X; nd_neq ND].
        intros Eg. apply ctx_id_in in Eg. nd_absurd ND j.
    + eapply rep_ext; eassumption.
  - apply nodup_app_disj in ND as ND3. destruct ND3 as (_ & NDc & Dj).
    eapply repc_rehole; [eassumption| | | |assumption].
    + intros X. nd_absurd ND p.
    + intros g Eg. destruct (Hg g Eg). rewrite G. eqb_simp. rewrite Eg. rewrite ptr_is_refl. reflexivity.
    + intros j Hj Cj. apply F; [nd_neq ND|nd_neq ND|assumption|].
      intros Ec. apply root_id_in in Ec. nd_absurd ND j.
  - intros j Hj. rewrite !ids_N in Hj. apply F.
    + intros ->. apply Hj. apply in_or_app. left. apply in_or_app. right. left. reflexivity.
    + intros ->. apply Hj. apply in_or_app. left. apply in_or_app. right. right. apply in_or_app. right. left. reflexivity.
    + intros Eg. apply ctx_id_in in Eg. apply Hj. apply in_or_app. right. assumption.
    + intros Ec. apply root_id_in in Ec. apply Hj. apply in_or_app. left. apply in_or_app. right. right. apply in_or_app. left. assumption.
Qed.

Lemma rotate_sim_r : forall h c p dp bp rp q dq bq lq rq,
  let t := N p dp bp (N q dq bq lq rq) rp in
  NoDup (ids t ++ cids c) ->
  rep h t (ctx_id c) -> repc h c (Some p) ->
  let h' := rotate h p q in
  rep h' (N q dq bq lq (N p dp bp rq rp)) (ctx_id c) /\ repc h' c (Some q) /\
  (forall j, ~ In j (ids t ++ cids c) -> hget h' j = hget h j).
Proof.
  intros h c p dp bp rp q dq bq lq rq t ND R RC h'.
  subst t. cbn [rep root_id] in R. destruct R as (Hp & (Hq & Rlq & Rrq) & Rrp).
  rewrite !ids_N in ND.
  assert (Npq : p <> q) by nd_neq ND.
  assert (Nrp : root_id rp <> Some q).
  { intros Ec. apply root_id_in in Ec. nd_absurd ND q. }
  assert (Hg : forall g, ctx_id c = Some g -> g <> p /\ g <> q).
  { intros g Eg. apply ctx_id_in in Eg. split; nd_neq ND. }
  assert (Hc : forall cc, root_id rq = Some cc -> cc <> p /\ cc <> q /\ ctx_id c <> Some cc).
  { intros cc Ec. apply root_id_in in Ec. split; [nd_neq ND|split; [nd_neq ND|]].
    intros Eg. apply ctx_id_in in Eg. nd_absurd ND cc. }
  pose proof (rotate_get_r h p q _ _ _ _ _ _ _ _ Hp Nrp Hq Npq Hg Hc) as G. fold h' in G.
  assert (F : forall j, j <> p -> j <> q -> ctx_id c <> Some j -> root_id rq <> Some j -> hget h' j = hget h j).
  { intros j A B C D. rewrite G. eqb_simp. rewrite (ptr_is_false _ _ C), (ptr_is_false _ _ D). reflexivity. }
  assert (Frp : forall j, In j (ids rp) -> hget h' j = hget h j).
  { intros j Hj. apply F; [nd_neq ND|nd_neq ND| |].
    - intros Eg. apply ctx_id_in in Eg. nd_absurd ND j.
    - intros Ec. apply root_id_in in Ec. nd_absurd ND j. }
  assert (Flq : forall j, In j (ids lq) -> hget h' j = hget h j).
  { intros j Hj. apply F; [nd_neq ND|nd_neq ND| |].
    - intros Eg. apply ctx_id_in in Eg. nd_absurd ND j.
    - intros Ec. apply root_id_in in Ec. nd_absurd ND j. }
  split; [|split].
  - cbn [rep root_id]. repeat split.
    + rewrite G. eqb_simp. reflexivity.
    + eapply rep_ext; eassumption.
    + rewrite G. eqb_simp. reflexivity.
    + destruct rq as [|cc dc bc lc rc]; [exact I|]. cbn [rep root_id] in *. destruct Rrq as (Hcc & Rlc & Rrc).
      destruct (Hc cc eq_refl) as (A & B & C). rewrite ids_N in ND.
      repeat split.
      * rewrite G. eqb_simp. rewrite (ptr_is_false _ _ C). rewrite ptr_is_refl, Hcc. reflexivity.
      * eapply rep_ext; [|eassumption]. intros j Hj. apply F; [nd_neq ND|nd_neq ND| |intros X; injection X; nd_neq ND].
        intros Eg. apply ctx_id_in in Eg. nd_absurd ND j.
      * eapply rep_ext; [|eassumption]. intros j Hj. apply F; [nd_neq ND|nd_neq ND| |intros X; injection X; nd_neq ND].
        intros Eg. apply ctx_id_in in Eg. nd_absurd ND j.
    + eapply rep_ext; eassumption.
  - apply nodup_app_disj in ND as ND3. destruct ND3 as (_ & NDc & Dj).
    eapply repc_rehole; [eassumption| | | |assumption].
    + intros X. nd_absurd ND p.
    + intros g Eg. destruct (Hg g Eg). rewrite G. eqb_simp. rewrite Eg. rewrite ptr_is_refl. reflexivity.
    + intros j Hj Cj. apply F; [nd_neq ND|nd_neq ND|assumption|].
      intros Ec. apply root_id_in in Ec. nd_absurd ND j.
  - intros j Hj. rewrite !ids_N in Hj. apply F.
    + intros ->. apply Hj. apply in_or_app. left. apply in_or_app. right. left. reflexivity.
    + intros ->. apply Hj. apply in_or_app. left. apply in_or_app. left. apply in_or_app. right. left. reflexivity.
    + intros Eg. apply ctx_id_in in Eg. apply Hj. apply in_or_app. right. assumption.
    + intros Ec. apply root_id_in in Ec. apply Hj. apply in_or_app. left. apply in_or_app. left. apply in_or_app. right. right. assumption.
Qed.

(* NoDup of a rearrangement of the segments of a NoDup list *)
Ltac nd_perm ND :=
  apply (proj2 (NoDup_count_occ Z.eq_dec _)); intros x;
  let X := fresh "X" in
  pose proof (nodup_occ _ ND x) as X; unfold occ in X;
  repeat (rewrite ?count_occ_app in X; cbn [count_occ] in X);
  repeat (rewrite ?count_occ_app; cbn [count_occ]);
  repeat match goal with |- context [Z.eq_dec ?a ?b] => destruct (Z.eq_dec a b) end; lia.

(* ------------------------------------------------------------------ the four rotations and zix_tree_rebalance *)
Ltac in_tauto := repeat first [rewrite in_app_iff | progress cbn [In]]; tauto.

Lemma hget_set_bal_other : forall h i v j, j <> i -> hget (set_bal h i v) j = hget h j.
Proof. intros. rewrite hget_set_bal. eqb_simp. reflexivity. Qed.

Lemma bal_get : forall h i n, hget h i = Some n -> bal h i = nbal n.
Proof. intros h i n H. unfold bal. rewrite H. reflexivity. Qed.

Definition rot_ok (h : heap) (c : ctx) (t : tree) (h' : heap) (t' : tree) : Prop :=
  rep h' t' (ctx_id c) /\ repc h' c (root_id t') /\ ids t' = ids t /\
  (forall j, ~ In j (ids t ++ cids c) -> hget h' j = hget h j).

Lemma h_rotate_left_sim : forall h c p dp bp lp q dq bq lq rq,
  let t := N p dp bp lp (N q dq bq lq rq) in
  NoDup (ids t ++ cids c) -> rep h t (ctx_id c) -> repc h c (Some p) ->
  exists h', h_rotate_left h p = (h', q, snd (fst (rotate_left t)), snd (rotate_left t)) /\
             rot_ok h c t h' (fst (fst (rotate_left t))).
Proof.
  intros h c p dp bp lp q dq bq lq rq t ND R RC.
  destruct (rotate_sim_l h c p dp bp lp q dq bq lq rq ND R RC) as (R1 & RC1 & F1).
  subst t. cbn [rep root_id] in R. destruct R as (Hp & Rlp & Hq & Rlq & Rrq).
  unfold h_rotate_left. unfold right at 1. rewrite Hp. cbn [nright].
  rewrite (bal_get _ _ _ Hq). cbn [nbal].
  set (h1 := rotate h p q) in *.
  cbn [rep root_id] in R1. destruct R1 as (Hq1 & (Hp1 & Rlp1 & Rlq1) & Rrq1).
  rewrite (bal_get _ _ _ Hq1). cbn [nbal].
  set (h2 := set_bal h1 q (bq - 1)).
  assert (Hq2 : hget h2 q = Some (mkNode dq (bq - 1) (ctx_id c) (Some p) (root_id rq))).
  { subst h2. rewrite hget_set_bal. eqb_simp. rewrite Hq1. reflexivity. }
  rewrite (bal_get _ _ _ Hq2). cbn [nbal].
  eexists. split; [cbn [rotate_left fst snd]; reflexivity|].
  cbn [rotate_left fst snd]. rewrite !ids_N in ND.
  assert (Npq : p <> q) by nd_neq ND.
  unfold rot_ok. split; [|split; [|split]].
  - cbn [rep root_id]. repeat split.
    + rewrite hget_set_bal. eqb_simp. assumption.
    + rewrite hget_set_bal. eqb_simp. subst h2. rewrite hget_set_bal. eqb_simp. rewrite Hp1. reflexivity.
    + eapply rep_ext; [|exact Rlp1]. intros j Hj. subst h2. rewrite !hget_set_bal_other; [reflexivity|nd_neq ND|nd_neq ND].
    + eapply rep_ext; [|exact Rlq1]. intros j Hj. subst h2. rewrite !hget_set_bal_other; [reflexivity|nd_neq ND|nd_neq ND].
    + eapply rep_ext; [|exact Rrq1]. intros j Hj. subst h2. rewrite !hget_set_bal_other; [reflexivity|nd_neq ND|nd_neq ND].
  - cbn [root_id]. eapply repc_ext; [|exact RC1]. intros j Hj. subst h2. rewrite !hget_set_bal_other; [reflexivity|nd_neq ND|nd_neq ND].
  - rewrite !ids_N. rewrite <- app_assoc. reflexivity.
  - intros j Hj. subst h2. rewrite !ids_N in Hj. rewrite !hget_set_bal_other.
    + apply F1. rewrite !ids_N. assumption.
    + intros ->. apply Hj. apply in_or_app. left. apply in_or_app. right. right. apply in_or_app. right. left. reflexivity.
    + intros ->. apply Hj. apply in_or_app. left. apply in_or_app. right. left. reflexivity.
Qed.

Lemma h_rotate_right_sim : forall h c p dp bp rp q dq bq lq rq,
  let t := N p dp bp (N q dq bq lq rq) rp in
  NoDup (ids t ++ cids c) -> rep h t (ctx_id c) -> repc h c (Some p) ->
  exists h', h_rotate_right h p = (h', q, snd (fst (rotate_right t)), snd (rotate_right t)) /\
             rot_ok h c t h' (fst (fst (rotate_right t))).
Proof.
  intros h c p dp bp rp q dq bq lq rq t ND R RC.
  destruct (rotate_sim_r h c p dp bp rp q dq bq lq rq ND R RC) as (R1 & RC1 & F1).
  subst t. cbn [rep root_id] in R. destruct R as (Hp & (Hq & Rlq & Rrq) & Rrp).
  unfold h_rotate_right. unfold left at 1. rewrite Hp. cbn [nleft].
  rewrite (bal_get _ _ _ Hq). cbn [nbal].
  set (h1 := rotate h p q) in *.
  cbn [rep root_id] in R1. destruct R1 as (Hq1 & Rlq1 & (Hp1 & Rrq1 & Rrp1)).
  rewrite (bal_get _ _ _ Hq1). cbn [nbal].
  set (h2 := set_bal h1 q (bq + 1)).
  assert (Hq2 : hget h2 q = Some (mkNode dq (bq + 1) (ctx_id c) (root_id lq) (Some p))).
  { subst h2. rewrite hget_set_bal. eqb_simp. rewrite Hq1. reflexivity. }
  rewrite (bal_get _ _ _ Hq2). cbn [nbal].
  eexists. split; [cbn [rotate_right fst snd]; reflexivity|].
  cbn [rotate_right fst snd]. rewrite !ids_N in ND.
  assert (Npq : p <> q) by nd_neq ND.
  unfold rot_ok. split; [|split; [|split]].
  - cbn [rep root_id]. repeat split.
    + rewrite hget_set_bal. eqb_simp. assumption.
    + eapply rep_ext; [|exact Rlq1]. intros j Hj. subst h2. rewrite !hget_set_bal_other; [reflexivity|nd_neq ND|nd_neq ND].
    + rewrite hget_set_bal. eqb_simp. subst h2. rewrite hget_set_bal. eqb_simp. rewrite Hp1. reflexivity.
    + eapply rep_ext; [|exact Rrq1]. intros j Hj. subst h2. rewrite !hget_set_bal_other; [reflexivity|nd_neq ND|nd_neq ND].
    + eapply rep_ext; [|exact Rrp1]. intros j Hj. subst h2. rewrite !hget_set_bal_other; [reflexivity|nd_neq ND|nd_neq ND].
  - cbn [root_id]. eapply repc_ext; [|exact RC1]. intros j Hj. subst h2. rewrite !hget_set_bal_other; [reflexivity|nd_neq ND|nd_neq ND].
  - rewrite !ids_N. rewrite <- !app_assoc. reflexivity.
  - intros j Hj. subst h2. rewrite !ids_N in Hj. rewrite !hget_set_bal_other.
    + apply F1. rewrite !ids_N. assumption.
    + intros ->. apply Hj. apply in_or_app. left. apply in_or_app. left. apply in_or_app. right. left. reflexivity.
    + intros ->. apply Hj. apply in_or_app. left. apply in_or_app. right. left. reflexivity.
Qed.

Lemma h_rotate_left_right_sim : forall h c p dp bp rp q dq bq lq r dr br lr rr,
  let t := N p dp bp (N q dq bq lq (N r dr br lr rr)) rp in
  NoDup (ids t ++ cids c) -> rep h t (ctx_id c) -> repc h c (Some p) ->
  exists h', h_rotate_left_right h p = (h', r, snd (fst (rotate_left_right t)), snd (rotate_left_right t)) /\
             rot_ok h c t h' (fst (fst (rotate_left_right t))).
Proof.
  intros h c p dp bp rp q dq bq lq r dr br lr rr t ND R RC.
  subst t. pose proof R as R0. cbn [rep root_id] in R. destruct R as (Hp & (Hq & Rlq & (Hr & Rlr & Rrr)) & Rrp).
  rewrite !ids_N in ND.
  (* first rotation: left about q, inside the frame of p *)
  assert (ND1 : NoDup (ids (N q dq bq lq (N r dr br lr rr)) ++ cids (CL p dp bp rp c))).
  { rewrite !ids_N. cbn [cids]. nd_perm ND. }
  assert (R1 : rep h (N q dq bq lq (N r dr br lr rr)) (ctx_id (CL p dp bp rp c))).
  { cbn [ctx_id rep root_id]. repeat split; assumption. }
  assert (RC1 : repc h (CL p dp bp rp c) (Some q)).
  { cbn [repc]. repeat split; assumption. }
  destruct (rotate_sim_l h _ q dq bq lq r dr br lr rr ND1 R1 RC1) as (R2 & RC2 & F2).
  set (h1 := rotate h q r) in *.
  cbn [repc ctx_id] in RC2. destruct RC2 as (Hp1 & Rrp1 & RC2).
  (* second rotation: right about p *)
  assert (ND2 : NoDup (ids (N p dp bp (N r dr br (N q dq bq lq lr) rr) rp) ++ cids c)).
  { rewrite !ids_N. nd_perm ND. }
  assert (R3 : rep h1 (N p dp bp (N r dr br (N q dq bq lq lr) rr) rp) (ctx_id c)).
  { cbn [rep root_id]. cbn [rep root_id ctx_id] in R2. destruct R2 as (A & (B & C & D) & E). repeat split; assumption. }
  destruct (rotate_sim_r h1 c p dp bp rp r dr br (N q dq bq lq lr) rr ND2 R3 RC2) as (R4 & RC4 & F4).
  set (h2 := rotate h1 p r) in *.
  cbn [rep root_id] in R4. destruct R4 as (Hr2 & (Hq2 & Rlq2 & Rlr2) & (Hp2 & Rrr2 & Rrp2)).
  unfold h_rotate_left_right. unfold left at 1. rewrite Hp. cbn [nleft].
  unfold right at 1. rewrite Hq. cbn [nright]. rewrite (bal_get _ _ _ Hr). cbn [nbal].
  fold h1. fold h2.
  rewrite (bal_get _ _ _ Hq2), (bal_get _ _ _ Hr2). cbn [nbal].
  assert (Npq : p <> q) by nd_neq ND. assert (Npr : p <> r) by nd_neq ND. assert (Nqr : q <> r) by nd_neq ND.
  set (h3 := set_bal h2 q _).
  assert (Hq3 : hget h3 q = Some (mkNode dq (bq - (1 + Z.max 0 br)) (Some r) (root_id lq) (root_id lr))).
  { subst h3. rewrite hget_set_bal. eqb_simp. rewrite Hq2. reflexivity. }
  assert (Hp3 : hget h3 p = hget h2 p) by (subst h3; apply hget_set_bal_other; assumption).
  assert (Hr3 : hget h3 r = hget h2 r) by (subst h3; apply hget_set_bal_other; congruence).
  rewrite Hp2 in Hp3. rewrite Hr2 in Hr3.
  rewrite (bal_get _ _ _ Hq3), (bal_get _ _ _ Hr3), (bal_get _ _ _ Hp3). cbn [nbal].
  eexists. split; [cbn [rotate_left_right fst snd]; reflexivity|].
  cbn [rotate_left_right fst snd].
  assert (Fb : forall j, j <> p -> j <> q -> j <> r ->
     hget (set_bal (set_bal h3 p (bp + (1 - Z.min (Z.min 0 br - 1) (br + (bq - (1 + Z.max 0 br)))))) r 0) j = hget h2 j).
  { intros j A B C. subst h3. rewrite !hget_set_bal_other by assumption. reflexivity. }
  unfold rot_ok. split; [|split; [|split]].
  - cbn [rep root_id]. repeat split.
    + rewrite hget_set_bal. eqb_simp. rewrite hget_set_bal_other by congruence. rewrite Hr3. reflexivity.
    + rewrite !hget_set_bal_other by congruence. assumption.
    + eapply rep_ext; [|exact Rlq2]. intros j Hj. apply Fb; nd_neq ND.
    + eapply rep_ext; [|exact Rlr2]. intros j Hj. apply Fb; nd_neq ND.
    + rewrite hget_set_bal_other by congruence. rewrite hget_set_bal. eqb_simp. rewrite Hp3. reflexivity.
    + eapply rep_ext; [|exact Rrr2]. intros j Hj. apply Fb; nd_neq ND.
    + eapply rep_ext; [|exact Rrp2]. intros j Hj. apply Fb; nd_neq ND.
  - cbn [root_id]. eapply repc_ext; [|exact RC4]. intros j Hj. apply Fb; nd_neq ND.
  - rewrite !ids_N. rewrite <- !app_assoc. cbn [app]. rewrite <- !app_assoc. reflexivity.
  - intros j Hj. rewrite !ids_N in Hj. rewrite Fb.
    + unfold h2. rewrite F4. 
      * unfold h1. apply F2. rewrite !ids_N. cbn [cids]. intros X. apply Hj. revert X. in_tauto.
      * rewrite !ids_N. intros X. apply Hj. revert X. in_tauto.
    + intros ->. apply Hj. in_tauto.
    + intros ->. apply Hj. in_tauto.
    + intros ->. apply Hj. in_tauto.
Qed.

Lemma h_rotate_right_left_sim : forall h c p dp bp lp q dq bq rq r dr br lr rr,
  let t := N p dp bp lp (N q dq bq (N r dr br lr rr) rq) in
  NoDup (ids t ++ cids c) -> rep h t (ctx_id c) -> repc h c (Some p) ->
  exists h', h_rotate_right_left h p = (h', r, snd (fst (rotate_right_left t)), snd (rotate_right_left t)) /\
             rot_ok h c t h' (fst (fst (rotate_right_left t))).
Proof.
  intros h c p dp bp lp q dq bq rq r dr br lr rr t ND R RC.
  subst t. pose proof R as R0. cbn [rep root_id] in R. destruct R as (Hp & Rlp & (Hq & (Hr & Rlr & Rrr) & Rrq)).
  rewrite !ids_N in ND.
  (* first rotation: right about q, inside the frame of p *)
  assert (ND1 : NoDup (ids (N q dq bq (N r dr br lr rr) rq) ++ cids (CR p dp bp lp c))).
  { rewrite !ids_N. cbn [cids]. nd_perm ND. }
  assert (R1 : rep h (N q dq bq (N r dr br lr rr) rq) (ctx_id (CR p dp bp lp c))).
  { cbn [ctx_id rep root_id]. repeat split; assumption. }
  assert (RC1 : repc h (CR p dp bp lp c) (Some q)).
  { cbn [repc]. repeat split; assumption. }
  destruct (rotate_sim_r h _ q dq bq rq r dr br lr rr ND1 R1 RC1) as (R2 & RC2 & F2).
  set (h1 := rotate h q r) in *.
  cbn [repc ctx_id] in RC2. destruct RC2 as (Hp1 & Rlp1 & RC2).
  (* second rotation: left about p *)
  assert (ND2 : NoDup (ids (N p dp bp lp (N r dr br lr (N q dq bq rr rq))) ++ cids c)).
  { rewrite !ids_N. nd_perm ND. }
  assert (R3 : rep h1 (N p dp bp lp (N r dr br lr (N q dq bq rr rq))) (ctx_id c)).
  { cbn [rep root_id]. cbn [rep root_id ctx_id] in R2. destruct R2 as (A & B & (C & D & E)). repeat split; assumption. }
  destruct (rotate_sim_l h1 c p dp bp lp r dr br lr (N q dq bq rr rq) ND2 R3 RC2) as (R4 & RC4 & F4).
  set (h2 := rotate h1 p r) in *.
  cbn [rep root_id] in R4. destruct R4 as (Hr2 & (Hp2 & Rlp2 & Rlr2) & (Hq2 & Rrr2 & Rrq2)).
  unfold h_rotate_right_left. unfold right at 1. rewrite Hp. cbn [nright].
  unfold left at 1. rewrite Hq. cbn [nleft]. rewrite (bal_get _ _ _ Hr). cbn [nbal].
  fold h1. fold h2.
  rewrite (bal_get _ _ _ Hq2), (bal_get _ _ _ Hr2). cbn [nbal].
  assert (Npq : p <> q) by nd_neq ND. assert (Npr : p <> r) by nd_neq ND. assert (Nqr : q <> r) by nd_neq ND.
  set (h3 := set_bal h2 q _).
  assert (Hq3 : hget h3 q = Some (mkNode dq (bq + (1 - Z.min 0 br)) (Some r) (root_id rr) (root_id rq))).
  { subst h3. rewrite hget_set_bal. eqb_simp. rewrite Hq2. reflexivity. }
  assert (Hp3 : hget h3 p = hget h2 p) by (subst h3; apply hget_set_bal_other; assumption).
  assert (Hr3 : hget h3 r = hget h2 r) by (subst h3; apply hget_set_bal_other; congruence).
  rewrite Hp2 in Hp3. rewrite Hr2 in Hr3.
  rewrite (bal_get _ _ _ Hq3), (bal_get _ _ _ Hr3), (bal_get _ _ _ Hp3). cbn [nbal].
  eexists. split; [cbn [rotate_right_left fst snd]; reflexivity|].
  cbn [rotate_right_left fst snd].
  assert (Fb : forall j, j <> p -> j <> q -> j <> r ->
     hget (set_bal (set_bal h3 p (bp - (1 + Z.max (Z.max 0 br + 1) (br + (bq + (1 - Z.min 0 br)))))) r 0) j = hget h2 j).
  { intros j A B C. subst h3. rewrite !hget_set_bal_other by assumption. reflexivity. }
  unfold rot_ok. split; [|split; [|split]].
  - cbn [rep root_id]. repeat split.
    + rewrite hget_set_bal. eqb_simp. rewrite hget_set_bal_other by congruence. rewrite Hr3. reflexivity.
    + rewrite hget_set_bal_other by congruence. rewrite hget_set_bal. eqb_simp. rewrite Hp3. reflexivity.
    + eapply rep_ext; [|exact Rlp2]. intros j Hj. apply Fb; nd_neq ND.
    + eapply rep_ext; [|exact Rlr2]. intros j Hj. apply Fb; nd_neq ND.
    + rewrite !hget_set_bal_other by congruence. assumption.
    + eapply rep_ext; [|exact Rrr2]. intros j Hj. apply Fb; nd_neq ND.
    + eapply rep_ext; [|exact Rrq2]. intros j Hj. apply Fb; nd_neq ND.
  - cbn [root_id]. eapply repc_ext; [|exact RC4]. intros j Hj. apply Fb; nd_neq ND.
  - rewrite !ids_N. repeat (rewrite <- ?app_assoc; cbn [app]). reflexivity.
  - intros j Hj. rewrite !ids_N in Hj. rewrite Fb.
    + unfold h2. rewrite F4.
      * unfold h1. apply F2. rewrite !ids_N. cbn [cids]. intros X. apply Hj. revert X. in_tauto.
      * rewrite !ids_N. intros X. apply Hj. revert X. in_tauto.
    + intros ->. apply Hj. in_tauto.
    + intros ->. apply Hj. in_tauto.
    + intros ->. apply Hj. in_tauto.
Qed.

Lemma ctx_root_nontop : forall c x y, ctx_id c <> None -> ctx_root c x = ctx_root c y.
Proof. intros [|i d b r c|i d b l c] x y H; cbn in *; [congruence|reflexivity|reflexivity]. Qed.

Lemma rot_ok_refl : forall h c t, rep h t (ctx_id c) -> repc h c (root_id t) -> rot_ok h c t h t.
Proof. intros. unfold rot_ok. repeat split; auto. Qed.

Lemma h_rebalance_sim : forall h c i d b l r rt,
  let t := N i d b l r in
  NoDup (ids t ++ cids c) -> rep h t (ctx_id c) -> repc h c (Some i) ->
  avl l -> avl r -> b = height r - height l ->
  rt = ctx_root c (Some i) ->
  exists h' repl, root_id (fst (fst (rebalance t))) = Some repl /\
    h_rebalance h rt i = (h', ctx_root c (Some repl), repl, snd (fst (rebalance t)), snd (rebalance t)) /\
    rot_ok h c t h' (fst (fst (rebalance t))).
Proof.
  intros h c i d b l r rt t ND R RC Al Ar Hb Hrt.
  assert (Hi : hget h i = Some (mkNode d b (ctx_id c) (root_id l) (root_id r))) by (apply R).
  assert (ROOT : forall repl, (if match parent h i with None => true | Some _ => false end then Some repl else rt) = ctx_root c (Some repl)).
  { intros repl. unfold parent. rewrite Hi. cbn [npar]. destruct (ctx_id c) eqn:Ec.
    - rewrite Hrt. apply ctx_root_nontop. congruence.
    - destruct c; cbn in Ec; try discriminate. reflexivity. }
  unfold h_rebalance. rewrite (bal_get _ _ _ Hi). cbn [nbal].
  unfold t at 1 2 3 5. unfold rebalance. 
  destruct (b =? -2) eqn:B1.
  - (* left-heavy *)
    destruct l as [|q dq bq lq rq].
    { exfalso. cbn [height] in Hb. pose proof (height_nonneg r). lia. }
    unfold left at 1. rewrite Hi. cbn [nleft root_id].
    assert (Hq : hget h q = Some (mkNode dq bq (Some i) (root_id lq) (root_id rq))) by (apply R).
    rewrite (bal_get _ _ _ Hq). cbn [nbal bal_of].
    destruct (bq =? 1) eqn:B2.
    + destruct rq as [|rr dr br lr rrr].
      { exfalso. cbn [avl] in Al. cbn [height] in Al. pose proof (height_nonneg lq). lia. }
      destruct (h_rotate_left_right_sim h c i d b r q dq bq lq rr dr br lr rrr ND R RC) as (h' & E1 & OK).
      exists h', rr. split; [reflexivity|]. rewrite E1. rewrite ROOT. split; [reflexivity|exact OK].
    + destruct (h_rotate_right_sim h c i d b r q dq bq lq rq ND R RC) as (h' & E1 & OK).
      exists h', q. split; [reflexivity|]. rewrite E1. rewrite ROOT. split; [reflexivity|exact OK].
  - destruct (b =? 2) eqn:B3.
    + destruct r as [|q dq bq lq rq].
      { exfalso. cbn [height] in Hb. pose proof (height_nonneg l). lia. }
      unfold right at 1. rewrite Hi. cbn [nright root_id].
      assert (Hq : hget h q = Some (mkNode dq bq (Some i) (root_id lq) (root_id rq))) by (apply R).
      rewrite (bal_get _ _ _ Hq). cbn [nbal bal_of].
      destruct (bq =? -1) eqn:B2.
      * destruct lq as [|rr dr br lr rrr].
        { exfalso. cbn [avl] in Ar. cbn [height] in Ar. pose proof (height_nonneg rq). lia. }
        destruct (h_rotate_right_left_sim h c i d b l q dq bq rq rr dr br lr rrr ND R RC) as (h' & E1 & OK).
        exists h', rr. split; [reflexivity|]. rewrite E1. rewrite ROOT. split; [reflexivity|exact OK].
      * destruct (h_rotate_left_sim h c i d b l q dq bq lq rq ND R RC) as (h' & E1 & OK).
        exists h', q. split; [reflexivity|]. rewrite E1. rewrite ROOT. split; [reflexivity|exact OK].
    + exists h, i. split; [reflexivity|]. rewrite ROOT. split; [reflexivity|]. apply rot_ok_refl; assumption.
Qed.
