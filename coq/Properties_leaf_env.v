(* is_path_delim and is_var_name_char of /repo/src/posix/environment_posix.c, REGENERATED from the C source on every
   run (gen/Leaf.v, module Env, by tools/translate_leaf.py), are the predicates the hand-written model of C16
   (EnvModel) uses.  The C parameter is a `char` (signed, 8 bits on this platform: asserted by the translator), the
   model works on byte values 0..255; c_char is the value the C function sees for the byte b.  Stated for every byte
   (equivalently, for every value of the C parameter type). *)
From Coq Require Import ZArith Bool Lia ZifyBool.
From Zix Require EnvModel.
From Zix.gen Require Import Leaf.
Local Open Scope Z_scope.
Ltac Zify.zify_post_hook ::= Z.div_mod_to_equations.

Definition c_char (b : Z) : Z := if b <? 128 then b else b - 256.

Theorem c_char_covers_char : forall c, Env.leaf_is_path_delim_dom c -> exists b, 0 <= b < 256 /\ c_char b = c.
Proof. intros c H. unfold Env.leaf_is_path_delim_dom in H. exists (c mod 256). unfold c_char. split; [lia|]. destruct (c mod 256 <? 128) eqn:E; lia.
Qed.
Print Assumptions c_char_covers_char.

Theorem leaf_is_path_delim_is_model :
  forall b, 0 <= b < 256 -> Env.leaf_is_path_delim_dom (c_char b) /\
    Env.leaf_is_path_delim (c_char b) = EnvModel.is_path_delim b.
Proof.
  intros b Hb. unfold Env.leaf_is_path_delim_dom, Env.leaf_is_path_delim, EnvModel.is_path_delim, c_char.
  destruct (b <? 128) eqn:E; lia.
Qed.
Print Assumptions leaf_is_path_delim_is_model.

Theorem leaf_is_var_name_char_is_model :
  forall b, 0 <= b < 256 -> Env.leaf_is_var_name_char_dom (c_char b) /\
    Env.leaf_is_var_name_char (c_char b) = EnvModel.is_var_name_char b.
Proof.
  intros b Hb. unfold Env.leaf_is_var_name_char_dom, Env.leaf_is_var_name_char, EnvModel.is_var_name_char, c_char.
  destruct (b <? 128) eqn:E; lia.
Qed.
Print Assumptions leaf_is_var_name_char_is_model.
