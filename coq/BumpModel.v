(* C09: model of /repo/src/bump_allocator.c as it is now (after the five fix: commits).
   Definitions only.  size_t / uintptr_t arithmetic is Z with the 64-bit wrap written out.
   A = (uintptr_t)buffer, C = capacity; the state is the two mutable fields (top, last). *)
From Coq Require Import ZArith List Bool.
Import ListNotations.
Local Open Scope Z_scope.

Definition W : Z := 18446744073709551616.          (* 2^64 *)
Definition wrap (x : Z) : Z := x mod W.
Definition min_alignment : Z := 8.                 (* sizeof(uintmax_t) *)
Definition SIZE_MAX : Z := W - 1.

(* (number + factor - 1U) & ~(factor - 1U), every intermediate reduced to 64 bits *)
Definition round_up_multiple (number factor : Z) : Z :=
  Z.land (wrap (number + factor - 1)) (wrap (Z.lnot (wrap (factor - 1)))).

(* the two assertions of round_up_multiple: factor != 0, (factor & (factor - 1U)) == 0 *)
Definition round_asserts (factor : Z) : bool :=
  negb (factor =? 0) && (Z.land factor (wrap (factor - 1)) =? 0).

Record state := { top : Z; last : Z }.

(* what a call returns: a pointer (absolute address), NULL, nothing (free), or a failed assert() *)
Inductive result := RPtr (addr : Z) | RNull | RVoid | RAbort.

(* memory: address -> byte; only calloc's memset writes it *)
Definition mem := Z -> Z.
Definition memset0 (m : mem) (a n : Z) : mem :=
  fun x => if (a <=? x) && (x <? a + n) then 0 else m x.

(* zix_bump_allocator(capacity, buffer) *)
Definition bump_init (A : Z) : state :=
  let aligned_top := (min_alignment - A mod min_alignment) mod min_alignment in
  {| top := aligned_top; last := aligned_top |}.

(* zix_bump_malloc *)
Definition bump_malloc (A C : Z) (s : state) (size : Z) : state * result :=
  if negb (wrap (A + top s) mod min_alignment =? 0) then (s, RAbort)           (* assert *)
  else
    let real_size := round_up_multiple (if size =? 0 then 1 else size) min_alignment in
    if (real_size <? size) || (top s >? C) || (real_size >? wrap (C - top s))
    then (s, RNull)
    else ({| top := wrap (top s + real_size); last := top s |}, RPtr (wrap (A + top s))).

(* zix_bump_calloc *)
Definition bump_calloc (A C : Z) (s : state) (m : mem) (nmemb size : Z) : state * mem * result :=
  if negb (size =? 0) && (nmemb >? SIZE_MAX / size) then (s, m, RNull)
  else
    let total_size := wrap (nmemb * size) in
    match bump_malloc A C s total_size with
    | (s', RPtr p) => (s', memset0 m p total_size, RPtr p)
    | (s', r) => (s', m, r)
    end.

(* zix_bump_realloc; ptr is an absolute address (0 = NULL) *)
Definition bump_realloc (A C : Z) (s : state) (ptr size : Z) : state * result :=
  if negb (ptr =? wrap (A + last s)) then (s, RNull)
  else
    let real_size := round_up_multiple (if size =? 0 then 1 else size) min_alignment in
    if (real_size <? size) || (last s >? C) || (real_size >? wrap (C - last s))
    then (s, RNull)
    else ({| top := wrap (last s + real_size); last := last s |}, RPtr ptr).

(* zix_bump_free (and zix_bump_aligned_free, which only forwards) *)
Definition bump_free (A : Z) (s : state) (ptr : Z) : state :=
  if ptr =? wrap (A + last s) then {| top := last s; last := last s |} else s.

Definition bump_aligned_free (A : Z) (s : state) (ptr : Z) : state := bump_free A s ptr.

(* zix_bump_aligned_alloc *)
Definition bump_aligned_alloc (A C : Z) (s : state) (alignment size : Z) : state * result :=
  let old_last := last s in
  let old_top := top s in
  if negb (alignment >=? min_alignment) then (s, RAbort)                         (* assert *)
  else if negb (size mod alignment =? 0) then (s, RAbort)                        (* assert *)
  else if negb (round_asserts alignment) then (s, RAbort)                        (* asserts in round_up_multiple *)
  else
    let top_addr := wrap (A + top s) in
    let aligned_top_addr := round_up_multiple top_addr alignment in
    let offset := wrap (aligned_top_addr - top_addr) in
    if wrap (top s + offset) >? C then (s, RNull)
    else
      let s1 := {| top := wrap (top s + offset); last := last s |} in
      match bump_malloc A C s1 size with
      | (s2, RPtr p) => (s2, RPtr p)
      | (s2, RAbort) => (s2, RAbort)
      | (_, _) => ({| top := old_top; last := old_last |}, RNull)
      end.

(* zix_bump_aligned_alloc as the library's normal build compiles it (-DNDEBUG): assert(size %
   alignment == 0) is gone, so every size reaches the code below (zix_bump_malloc rounds it up).
   The alignment asserts are kept as RAbort: a power-of-two alignment >= 8 stays a documented
   precondition (without the assert a violation is undefined, so such requests stay outside). *)
Definition bump_aligned_alloc_nd (A C : Z) (s : state) (alignment size : Z) : state * result :=
  let old_last := last s in
  let old_top := top s in
  if negb (alignment >=? min_alignment) then (s, RAbort)                         (* precondition *)
  else if negb (round_asserts alignment) then (s, RAbort)                        (* precondition *)
  else
    let top_addr := wrap (A + top s) in
    let aligned_top_addr := round_up_multiple top_addr alignment in
    let offset := wrap (aligned_top_addr - top_addr) in
    if wrap (top s + offset) >? C then (s, RNull)
    else
      let s1 := {| top := wrap (top s + offset); last := last s |} in
      match bump_malloc A C s1 size with
      | (s2, RPtr p) => (s2, RPtr p)
      | (s2, RAbort) => (s2, RAbort)
      | (_, _) => ({| top := old_top; last := old_last |}, RNull)
      end.

(* ---- the code before the fix: commits (only used for the *_old_refuted lemmas) ---- *)
Definition bump_init_old (A : Z) : state :=
  let t := A mod min_alignment in {| top := t; last := t |}.

Definition bump_malloc_old (A C : Z) (s : state) (size : Z) : state * result :=
  let real_size := round_up_multiple size min_alignment in
  if wrap (top s + real_size) >? C then (s, RNull)
  else ({| top := wrap (top s + real_size); last := top s |}, RPtr (wrap (A + top s))).

Definition bump_calloc_old (A C : Z) (s : state) (nmemb size : Z) : state * result :=
  bump_malloc_old A C s (wrap (nmemb * size)).

Definition bump_realloc_old (A C : Z) (s : state) (ptr size : Z) : state * result :=
  if negb (ptr =? wrap (A + last s)) then (s, RNull)
  else
    let new_top := wrap (last s + size) in
    if new_top >? C then (s, RNull) else ({| top := new_top; last := last s |}, RPtr ptr).
