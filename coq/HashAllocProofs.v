(* C08 (hash part) proofs: (a) erasing the block ids of the instrumented model gives HashModel;
   (b) between calls exactly the struct and the current array are live, and zix_hash_free
   releases both. *)
From Coq Require Import ZArith List Bool Arith Lia.
From Zix Require Import HashSpec HashModel FaultSpec AllocModel AllocProofs HashAllocModel.
Import ListNotations.
Local Open Scope Z_scope.

(* ------------------------------------------------------------------ (a) erasure *)
Definition er {A : Type} (x : outcome (A * ahash)) : outcome (A * hstate) :=
  map_out (fun p => (fst p, a_st (snd p))) x.

Definition er_rs (rs : arstate) : rstate := (a_st (fst rs), snd rs).

Definition er_step (x : outcome (oresult * arstate)) : outcome (oresult * rstate) :=
  map_out (fun y => (fst y, er_rs (snd y))) x.

Lemma resize_head : forall st n o,
  resize st n o = (fst (resize st n [hd true o]), tl o).
Proof.
  intros st n o. unfold resize, rehash.
  destruct o as [|[|] o']; cbn [hd tl];
    try (destruct (rehash_loop _ _) as [r lg]; destruct r; reflexivity).
  reflexivity.
Qed.

Lemma resize_true_success : forall st n x st' lg o',
  resize st n [true] = (Ret (x, st'), lg, o') -> x = SUCCESS.
Proof.
  intros st n x st' lg o'. unfold resize, rehash.
  destruct (rehash_loop _ _) as [r lg0]. destruct r; intros H; inversion H; reflexivity.
Qed.

Lemma alloc_oracle : forall k s a s1, alloc k s = (a, s1) ->
  oracle s1 = tl (oracle s) /\
  (a = if hd true (oracle s) then Some (next s) else None).
Proof.
  intros k s a s1 H. unfold alloc in H.
  replace (match oracle s with [] => true | b :: _ => b end) with (hd true (oracle s)) in H
    by (destruct (oracle s); reflexivity).
  inversion H; subst; clear H. split; [reflexivity|]. destruct (hd true (oracle s)); reflexivity.
Qed.

Lemma aresize_erase : forall h n s x lg s',
  aresize h n s = (x, lg, s') -> resize (a_st h) n (oracle s) = (er x, lg, oracle s').
Proof.
  intros h n s x lg s' H. unfold aresize in H.
  destruct (alloc Plain s) as [a s1] eqn:EA. apply alloc_oracle in EA as [O1 A].
  rewrite resize_head.
  destruct (hd true (oracle s)); subst a.
  - destruct (resize (a_st h) n [true]) as [[r lg0] o0] eqn:ER.
    destruct r as [[y st']| |].
    + pose proof (resize_true_success _ _ _ _ _ _ ER). subst y.
      inversion H; subst; clear H. cbn. rewrite O1. reflexivity.
    + inversion H; subst; clear H. cbn. rewrite O1. reflexivity.
    + inversion H; subst; clear H. cbn. rewrite O1. reflexivity.
  - destruct (resize (a_st h) n [false]) as [[r lg0] o0] eqn:ER.
    destruct r as [[y st']| |]; inversion H; subst; clear H; cbn; rewrite O1; reflexivity.
Qed.

Lemma ainsert_at_erase : forall h p r s x lg s',
  ainsert_at h p r s = (x, lg, s') -> insert_at (a_st h) p r (oracle s) = (er x, lg, oracle s').
Proof.
  intros h p r s x lg s' H. unfold ainsert_at in H. unfold insert_at.
  destruct (has_value (zget (h_ent (a_st h)) (p_index p))).
  - inversion H; subst. reflexivity.
  - destruct (h_n (a_st h) / 2 + h_n (a_st h) / 8 <=? h_count (a_st h) + 1).
    + unfold agrow in H. unfold grow.
      destruct (aresize _ _ s) as [[g lg0] s0] eqn:EG. apply aresize_erase in EG. cbn [with_st a_st] in EG.
      cbn [set_ent h_n] in *. rewrite EG.
      destruct g as [[y h2]| |]; inversion H; subst; clear H; cbn; try reflexivity.
      destruct y; reflexivity.
    + inversion H; subst. reflexivity.
Qed.

Lemma aerase_erase : forall h i s x lg s',
  aerase h i s = (x, lg, s') -> erase (a_st h) i (oracle s) = (er x, lg, oracle s').
Proof.
  intros h i s x lg s' H. unfold aerase in H. unfold erase.
  match type of H with (if ?c then _ else _) = _ => destruct c end.
  - unfold ashrink in H. unfold shrink. cbn [with_st a_st] in H.
    match type of H with context [if ?c then _ else _] => destruct c end.
    + destruct (aresize _ _ s) as [[g lg0] s0] eqn:EG. apply aresize_erase in EG. cbn [with_st a_st] in EG.
      rewrite EG. destruct g as [[y h3]| |]; inversion H; subst; reflexivity.
    + inversion H; subst. reflexivity.
  - inversion H; subst. reflexivity.
Qed.

Section WithHash.
  Variable hf : Z -> Z.

  Lemma ainsert_erase : forall h r s x lg s',
    ainsert hf h r s = (x, lg, s') -> insert hf (a_st h) r (oracle s) = (er x, lg, oracle s').
  Proof.
    intros h r s x lg s' H. unfold ainsert in H. unfold insert.
    destruct (plan_insert hf (a_st h) (KOfRec r)) as [p lg0].
    destruct p as [pl| |].
    - destruct (ainsert_at h pl r s) as [[y lg1] s1] eqn:E. apply ainsert_at_erase in E. rewrite E.
      inversion H; subst. reflexivity.
    - inversion H; subst. reflexivity.
    - inversion H; subst. reflexivity.
  Qed.

  Lemma aremove_erase : forall h k s x lg s',
    aremove hf h k s = (x, lg, s') -> remove hf (a_st h) k (oracle s) = (er x, lg, oracle s').
  Proof.
    intros h k s x lg s' H. unfold aremove in H. unfold remove.
    destruct (find hf (a_st h) k) as [fi lg0]. destruct fi as [i| |].
    - destruct (i =? h_n (a_st h)).
      + inversion H; subst. reflexivity.
      + destruct (aerase h i s) as [[y lg1] s1] eqn:E. apply aerase_erase in E. rewrite E.
        inversion H; subst. reflexivity.
    - inversion H; subst. reflexivity.
    - inversion H; subst. reflexivity.
  Qed.

  (* the calls that never allocate ignore the oracle *)
  Lemma step_no_alloc : forall st pend c o,
    match c with OInsert _ | OInsertAt _ | ORemove _ | OErase _ => False | _ => True end ->
    step hf (st, pend) c o = (fst (step hf (st, pend) c []), o).
  Proof.
    intros st pend c o H. destruct c; try contradiction; cbn [step].
    - destruct (plan_insert hf st (KArg k)) as [p lg]. reflexivity.
    - destruct (plan_insert_prehashed st (code_of hf k) (Z.eqb k) (KArg k)) as [p lg]. reflexivity.
    - destruct (find hf st k) as [p lg]. reflexivity.
    - destruct (find_record hf st k) as [p lg]. reflexivity.
    - reflexivity.
    - reflexivity.
  Qed.

  (* the state a non-allocating call returns is the state it was given *)
  Lemma step_no_alloc_state : forall st pend c o res rs' lg o',
    match c with OInsert _ | OInsertAt _ | ORemove _ | OErase _ => False | _ => True end ->
    step hf (st, pend) c o = (Ret (res, rs'), lg, o') -> fst rs' = st.
  Proof.
    intros st pend c o res rs' lg o' H E. destruct c; try contradiction; cbn [step] in E.
    - destruct (plan_insert hf st (KArg k)) as [p lg0]. destruct p; inversion E; reflexivity.
    - destruct (plan_insert_prehashed st (code_of hf k) (Z.eqb k) (KArg k)) as [p lg0].
      destruct p; inversion E; reflexivity.
    - destruct (find hf st k) as [p lg0]. destruct p; inversion E; reflexivity.
    - destruct (find_record hf st k) as [p lg0]. destruct p; inversion E; reflexivity.
    - inversion E; reflexivity.
    - destruct (iterate st); inversion E; reflexivity.
  Qed.

  Lemma astep_erase : forall rs c s x lg s',
    astep hf rs c s = (x, lg, s') -> step hf (er_rs rs) c (oracle s) = (er_step x, lg, oracle s').
  Proof.
    intros [h pend] c s x lg s' H. unfold er_rs. cbn [fst snd].
    destruct c; cbn [astep] in H;
      try (rewrite step_no_alloc by exact I;
           destruct (step hf (a_st h, pend) _ []) as [[y lg0] o0] eqn:ES;
           inversion H; subst; clear H; cbn [fst];
           destruct y as [[res rs']| |]; cbn; try reflexivity;
           pose proof (fun Hc => step_no_alloc_state _ _ _ _ _ _ _ _ Hc ES) as F; specialize (F I);
           destruct rs' as [st' pend']; cbn in *; subst; reflexivity).
    - (* OInsert *)
      cbn [step]. destruct (ainsert hf h r s) as [[y lg0] s0] eqn:E. apply ainsert_erase in E. rewrite E.
      inversion H; subst; clear H. destruct y as [[st h']| |]; reflexivity.
    - (* OInsertAt *)
      cbn [step]. destruct pend as [[pl k]|].
      + destruct (rkey r =? k).
        * destruct (ainsert_at h pl r s) as [[y lg0] s0] eqn:E. apply ainsert_at_erase in E. rewrite E.
          inversion H; subst; clear H. destruct y as [[st h']| |]; reflexivity.
        * inversion H; subst. reflexivity.
      + inversion H; subst. reflexivity.
    - (* ORemove *)
      cbn [step]. destruct (aremove hf h k s) as [[y lg0] s0] eqn:E. apply aremove_erase in E. rewrite E.
      inversion H; subst; clear H. destruct y as [[[st r] h']| |]; reflexivity.
    - (* OErase *)
      cbn [step]. destruct (find hf (a_st h) k) as [fi lg0]. destruct fi as [i| |].
      + destruct (i =? h_n (a_st h)).
        * inversion H; subst. reflexivity.
        * destruct (aerase h i s) as [[y lg1] s1] eqn:E. apply aerase_erase in E. rewrite E.
          inversion H; subst; clear H. destruct y as [[[st r] h']| |]; reflexivity.
      + inversion H; subst. reflexivity.
      + inversion H; subst. reflexivity.
  Qed.

  Lemma arun_erase : forall cs rs s x rs' s',
    arun hf rs cs s = (x, rs', s') -> run hf (er_rs rs) cs (oracle s) = (x, er_rs rs').
  Proof.
    induction cs as [|c cs IH]; intros rs s x rs' s' H; cbn [arun run] in *.
    - inversion H; subst. reflexivity.
    - destruct (astep hf rs c s) as [[y lg] s1] eqn:E. apply astep_erase in E. rewrite E.
      destruct y as [[res rs1]| |]; cbn [er_step map_out fst snd].
      + destruct (arun hf rs1 cs s1) as [[z rs2] s2] eqn:ER. apply IH in ER. rewrite ER.
        inversion H; subst. reflexivity.
      + inversion H; subst. reflexivity.
      + inversion H; subst. reflexivity.
  Qed.
End WithHash.

(* ------------------------------------------------------------------ (b) the two blocks *)
Definition blocks_ok (h : ahash) (s : ast) : Prop := wf s [(a_arr h, Plain); (a_self h, Plain)].

Lemma drop_arr : forall b arr self,
  b <> arr -> self <> arr ->
  drop arr [(b, Plain); (arr, Plain); (self, Plain)] = [(b, Plain); (self, Plain)].
Proof.
  intros b arr self H1 H2. unfold drop. cbn [filter fst].
  rewrite (proj2 (Nat.eqb_neq b arr) H1), Nat.eqb_refl, (proj2 (Nat.eqb_neq self arr) H2). reflexivity.
Qed.

Lemma aresize_blocks : forall h n s x lg s',
  blocks_ok h s -> aresize h n s = (x, lg, s') ->
  match x with Ret (_, h') => blocks_ok h' s' | _ => True end.
Proof.
  intros h n s x lg s' W H. unfold aresize in H.
  destruct (alloc Plain s) as [a s1] eqn:EA.
  destruct a as [b|].
  - destruct (alloc_ok _ _ _ _ _ W EA) as [-> W1].
    destruct (resize (a_st h) n [true]) as [[r lg0] o0] eqn:ER.
    destruct r as [[y st']| |]; [|inversion H; subst; exact I|inversion H; subst; exact I].
    pose proof (resize_true_success _ _ _ _ _ _ ER). subst y.
    inversion H; subst; clear H. unfold blocks_ok. cbn [a_arr a_self].
    destruct W as (_ & Lt & ND).
    assert (In1 : (a_arr h < next s)%nat) by (apply Lt; cbn; auto).
    assert (NE : a_self h <> a_arr h).
    { cbn in ND. inversion ND as [|? ? Nin _]; subst. intros E. apply Nin. left. exact E. }
    pose proof (release_ok Plain (a_arr h) _ _ W1 (or_intror (or_introl eq_refl))) as W2.
    rewrite drop_arr in W2 by lia. exact W2.
  - destruct (alloc_fail _ _ _ _ W EA) as [W1 _].
    destruct (resize (a_st h) n [false]) as [[r lg0] o0].
    destruct r as [[y st']| |]; inversion H; subst; try exact I. exact W1.
Qed.

Lemma ainsert_at_blocks : forall h p r s x lg s',
  blocks_ok h s -> ainsert_at h p r s = (x, lg, s') ->
  match x with Ret (_, h') => blocks_ok h' s' | _ => True end.
Proof.
  intros h p r s x lg s' W H. unfold ainsert_at in H.
  destruct (has_value _); [inversion H; subst; exact W|].
  match type of H with (if ?c then _ else _) = _ => destruct c end; [|inversion H; subst; exact W].
  unfold agrow in H. destruct (aresize _ _ s) as [[g lg0] s0] eqn:EG.
  eapply aresize_blocks in EG; [|exact W].
  destruct g as [[y h2]| |]; inversion H; subst; try exact I.
  destruct y; exact EG.
Qed.

Lemma aerase_blocks : forall h i s x lg s',
  blocks_ok h s -> aerase h i s = (x, lg, s') ->
  match x with Ret (_, h') => blocks_ok h' s' | _ => True end.
Proof.
  intros h i s x lg s' W H. unfold aerase in H.
  match type of H with (if ?c then _ else _) = _ => destruct c end; [|inversion H; subst; exact W].
  unfold ashrink in H.
  match type of H with context [if ?c then _ else _] => destruct c end.
  - destruct (aresize _ _ s) as [[g lg0] s0] eqn:EG.
    eapply aresize_blocks in EG; [|exact W].
    destruct g as [[y h3]| |]; inversion H; subst; try exact I. exact EG.
  - inversion H; subst. exact W.
Qed.

Section WithHash2.
  Variable hf : Z -> Z.

  Lemma astep_blocks : forall rs c s x lg s',
    blocks_ok (fst rs) s -> astep hf rs c s = (x, lg, s') ->
    match x with Ret (_, rs') => blocks_ok (fst rs') s' | _ => True end.
  Proof.
    intros [h pend] c s x lg s' W H. cbn [fst] in W.
    destruct c; cbn [astep] in H;
      try (destruct (step hf (a_st h, pend) _ []) as [[y lg0] o0];
           inversion H; subst; clear H; destruct y as [[res rs']| |]; cbn; auto; exact W).
    - unfold ainsert in H. destruct (plan_insert hf (a_st h) (KOfRec r)) as [p lg0].
      destruct p as [pl| |]; [|inversion H; subst; exact I|inversion H; subst; exact I].
      destruct (ainsert_at h pl r s) as [[y lg1] s1] eqn:E.
      apply (ainsert_at_blocks _ _ _ _ _ _ _ W) in E.
      inversion H; subst; clear H. destruct y as [[st h']| |]; cbn; auto.
    - destruct pend as [[pl k]|]; [|inversion H; subst; exact W].
      destruct (rkey r =? k); [|inversion H; subst; exact W].
      destruct (ainsert_at h pl r s) as [[y lg1] s1] eqn:E.
      apply (ainsert_at_blocks _ _ _ _ _ _ _ W) in E.
      inversion H; subst; clear H. destruct y as [[st h']| |]; cbn; auto.
    - unfold aremove in H. destruct (find hf (a_st h) k) as [fi lg0].
      destruct fi as [i| |]; [|inversion H; subst; exact I|inversion H; subst; exact I].
      destruct (i =? h_n (a_st h)); [inversion H; subst; exact W|].
      destruct (aerase h i s) as [[y lg1] s1] eqn:E.
      apply (aerase_blocks _ _ _ _ _ _ W) in E.
      inversion H; subst; clear H. destruct y as [[[st r] h']| |]; cbn; auto.
    - destruct (find hf (a_st h) k) as [fi lg0].
      destruct fi as [i| |]; [|inversion H; subst; exact I|inversion H; subst; exact I].
      destruct (i =? h_n (a_st h)); [inversion H; subst; exact W|].
      destruct (aerase h i s) as [[y lg1] s1] eqn:E.
      apply (aerase_blocks _ _ _ _ _ _ W) in E.
      inversion H; subst; clear H. destruct y as [[[st r] h']| |]; cbn; auto.
  Qed.

  (* whenever a history runs to its end, the two blocks of the final table are the live ones *)
  Lemma arun_blocks : forall cs rs s l rs' s',
    blocks_ok (fst rs) s -> arun hf rs cs s = (Ret l, rs', s') -> blocks_ok (fst rs') s'.
  Proof.
    induction cs as [|c cs IH]; intros rs s l rs' s' W H; cbn [arun] in H.
    - inversion H; subst. exact W.
    - destruct (astep hf rs c s) as [[y lg] s1] eqn:E.
      apply (astep_blocks _ _ _ _ _ _ W) in E.
      destruct y as [[res rs1]| |]; try discriminate.
      destruct (arun hf rs1 cs s1) as [[z rs2] s2] eqn:ER.
      destruct z; try discriminate. inversion H; subst.
      eapply IH; eauto.
  Qed.
End WithHash2.

Lemma anew_blocks : forall o,
  match anew (ast0 o) with
  | (Some h, s) => blocks_ok h s /\ a_st h = hash_new /\ a_self h = 0%nat /\ a_arr h = 1%nat /\
                   oracle s = tl (tl o)
  | (None, s) => wf s [] /\
                 (log s = [] \/ log s = [EAlloc Caller Plain 0; EFree Caller Plain 0])
  end.
Proof.
  intros o. unfold anew.
  destruct (alloc Plain (ast0 o)) as [a s1] eqn:E1. destruct a as [hid|].
  - destruct (alloc_ok _ _ _ _ _ (wf0 o) E1) as [-> W1].
    pose proof (alloc_oracle _ _ _ _ E1) as [O1 _].
    destruct (alloc Plain s1) as [a s2] eqn:E2. destruct a as [eid|].
    + destruct (alloc_ok _ _ _ _ _ W1 E2) as [-> W2].
      pose proof (alloc_oracle _ _ _ _ E2) as [O2 _].
      assert (N1 : next s1 = 1%nat) by (unfold alloc in E1; destruct (match oracle (ast0 o) with [] => true | b :: _ => b end); inversion E1; reflexivity).
      split; [exact W2|]. split; [reflexivity|]. split; [reflexivity|]. split; [exact N1|].
      rewrite O2, O1. reflexivity.
    + destruct (alloc_fail _ _ _ _ W1 E2) as [W2 L2].
      pose proof (release_ok Plain _ _ _ W2 (or_introl eq_refl)) as W3.
      rewrite drop_head in W3 by (cbn; tauto). split; [exact W3|]. right.
      cbn [release log]. rewrite L2.
      unfold alloc in E1. destruct (match oracle (ast0 o) with [] => true | b :: _ => b end);
        inversion E1; subst; reflexivity.
  - destruct (alloc_fail _ _ _ _ (wf0 o) E1) as [W1 L1]. split; [exact W1|]. left. exact L1.
Qed.

Lemma afree_ok : forall h s, blocks_ok h s -> wf (afree h s) [].
Proof.
  intros h s W. unfold afree.
  assert (NE : a_self h <> a_arr h).
  { destruct W as (_ & _ & ND). cbn in ND. inversion ND as [|? ? Nin _]; subst.
    intros E. apply Nin. left. exact E. }
  pose proof (release_ok Plain (a_arr h) _ _ W (or_introl eq_refl)) as W1.
  rewrite drop_head in W1 by (cbn; intros [E|[]]; auto).
  pose proof (release_ok Plain (a_self h) _ _ W1 (or_introl eq_refl)) as W2.
  rewrite drop_head in W2 by (cbn; tauto). exact W2.
Qed.
