(* C04: the concurrent ring (src/ring.c) under an explicit release/acquire model
   (DESIGN.md Appendix B).  Definitions only; everything is computable.

   Two threads (writer, reader).  Each API call is compiled to the sequence of shared
   accesses the C code performs; one shared access = one micro-step; a schedule (list of
   choices) decides which thread takes its next micro-step and which entry of the peer
   head's modification order an acquire load returns (any entry at or after the thread's
   view: all stale values release/acquire allows).

   Memory model.  Each head has a single writer, so its modification order is a list
   (oldest first) of (stored uint32 value, ghost cumulative byte count).  A thread keeps a
   monotone view index into the peer's list.  Every buffer cell carries the epoch of its
   last write (= length of WH at that time = index of the release store that will publish
   it) and of its last read (= length of RH at that time).  A plain write of a cell races
   unless the writer has acquired a reader store at or after the cell's read epoch; a plain
   read races unless the reader has acquired a writer store at or after the cell's write
   epoch.  The race flag is sticky.

   Ghost state (never read by the code paths): cumulative counts in the histories, gT
   (byte count at the writer's transaction head), gtxr (count behind tx.read_head), wlog
   (all bytes written for counts [0,gT)), rlast (byte count of the last read of each cell),
   per-call step counters, the global access trace. *)
From Coq Require Import ZArith List Bool Arith.
Import ListNotations.
Local Open Scope Z_scope.

Definition u32 (x : Z) : Z := x mod 4294967296.

(* configuration: ring size 2^ck; the two memory-order switches are [true] for the code as
   it is (release stores); [false] models a store downgraded to relaxed (no synchronisation:
   the peer's plain accesses are ordered after nothing that store was meant to publish). *)
Record cfg := mkCfg { ck : Z; w_release : bool; r_release : bool }.
Definition faithful (k : Z) : cfg := mkCfg k true true.

Definition rsize (c : cfg) : Z := 2 ^ ck c.                 (* ring->size *)
Definition rmask (c : cfg) : Z := u32 (rsize c - 1).         (* ring->size - 1U *)
Definition band (c : cfg) (x : Z) : Z := Z.land x (rmask c). (* x & ring->size_mask *)

(* read_space_internal / write_space_internal *)
Definition read_space (c : cfg) (r w : Z) : Z := band c (u32 (w - r)).
Definition write_space (c : cfg) (r w : Z) : Z := band c (u32 (u32 (r - w) - 1)).

(* peek_internal's two memcpy ranges: the cell of the i-th byte *)
Definition rcell (c : cfg) (r size i : Z) : Z :=
  if u32 (r + size) <? rsize c then r + i
  else let first_size := u32 (rsize c - r) in
       if i <? first_size then r + i else i - first_size.

(* zix_ring_amend_write's ranges and the new transaction head *)
Definition wcell (c : cfg) (w size i : Z) : Z :=
  let e := u32 (w + size) in
  if e <=? rsize c then w + i
  else let size1 := u32 (rsize c - w) in
       if i <? size1 then w + i else i - size1.
Definition wnew (c : cfg) (w size : Z) : Z :=
  let e := u32 (w + size) in
  if e <=? rsize c then band c e
  else u32 (size - u32 (rsize c - w)).

(* ---- API calls and their results *)
Inductive wcall := WWrite (bs : list Z) | WBegin | WAmend (bs : list Z) | WCommit | WSpace.
Inductive wres := WrWrote (n : Z) | WrBegun | WrAmend (ok : bool) | WrCommitted | WrSpace (n : Z) | WrMisuse.
Inductive rcall := RRead (n : Z) | RPeek (n : Z) | RSkip (n : Z) | RSpace.
Inductive rres := RrRead (ret : Z) (bs : list Z) | RrPeek (ret : Z) (bs : list Z) | RrSkip (ret : Z) | RrSpace (n : Z).

(* a program is a strategy: the next call as a function of the results so far (newest
   first); [None] = the thread is finished.  This covers clients that react to results. *)
Definition wprog := list wres -> option wcall.
Definition rprog := list rres -> option rcall.
Definition wprog_of_list (l : list wcall) : wprog := fun res => nth_error l (length res).
Definition rprog_of_list (l : list rcall) : rprog := fun res => nth_error l (length res).

(* ---- access trace *)
Inductive hd := HW | HR.
Inductive ev :=
| EvAcq (h : hd) (v : Z)               (* acquire load of the peer's head, value returned *)
| EvOwn (h : hd) (v : Z)               (* plain load of the own head *)
| EvSto (h : hd) (rel : bool) (v : Z)  (* atomic store of the own head, release or relaxed *)
| EvWr (cell v : Z)                    (* plain byte store into buf *)
| EvRd (cell v : Z).                   (* plain byte load from buf *)

(* ---- thread-local control state *)
Inductive wpc :=
| WIdle
| WOwn (c : wcall) (r rc : Z)                 (* acquire load done (value r, ghost count rc); next: plain load of write_head *)
| WCopy (fin : bool) (w size i : Z) (todo : list Z) (* memcpy in progress; fin: release store follows (zix_ring_write) *)
| WRel (res : wres) (v : Z).                  (* next: store of write_head *)

Inductive rpc :=
| RIdle
| ROwn (c : rcall) (w wc : Z)                 (* acquire load done; next: plain load of read_head *)
| RCopy (adv : bool) (r size i : Z) (acc : list Z)  (* memcpy out in progress (acc reversed); adv: store follows (read) *)
| RRel (res : rres) (v n : Z).                (* next: store of read_head; n = bytes consumed (ghost) *)

Record mem := mkMem {
  WH : list (Z * Z); RH : list (Z * Z);
  buf : Z -> Z; wep : Z -> nat; rep : Z -> nat;
  race : bool }.

Record wloc := mkW {
  wpcs : wpc; wtx : option (Z * Z); wresl : list wres; vw : nat;
  wcalls : list wcall; wsteps : nat }.

Record rloc := mkR {
  rpcs : rpc; rresl : list rres; vr : nat;
  rcalls : list rcall; rsteps : nat }.

Record ghost := mkG { gT : Z; gtxr : Z; wlog : list Z; rlast : Z -> Z }.

Record state := mkState { sm : mem; sw : wloc; sr : rloc; sg : ghost; trace : list ev }.

Definition upd {A} (f : Z -> A) (i : Z) (v : A) : Z -> A := fun j => if j =? i then v else f j.

Definition lastv (h : list (Z * Z)) : Z := fst (last h (0, 0)).
Definition lastc (h : list (Z * Z)) : Z := snd (last h (0, 0)).
Definition Wc (s : state) : Z := lastc (WH (sm s)).
Definition Rc (s : state) : Z := lastc (RH (sm s)).
Definition hval (h : list (Z * Z)) (i : nat) : Z := fst (nth i h (0, 0)).
Definition hcnt (h : list (Z * Z)) (i : nat) : Z := snd (nth i h (0, 0)).

(* an acquire load with view [v] and choice [k] returns entry max(v, last-k): k = 0 is the
   newest value, larger k older ones, never older than the view *)
Definition acq_pick (h : list (Z * Z)) (v k : nat) : nat := Nat.max v (length h - 1 - k).

Definition init (c : cfg) : state :=
  mkState (mkMem [(0, 0)] [(0, 0)] (fun _ => 0) (fun _ => O) (fun _ => O) false)
          (mkW WIdle None [] O [] O)
          (mkR RIdle [] O [] O)
          (mkG 0 0 [] (fun cell => cell - rsize c))
          [].

(* ---- small setters *)
Definition set_wpc (w : wloc) (p : wpc) : wloc := mkW p (wtx w) (wresl w) (vw w) (wcalls w) (S (wsteps w)).
Definition w_finish (w : wloc) (tx : option (Z * Z)) (res : wres) : wloc :=
  mkW WIdle tx (res :: wresl w) (vw w) (wcalls w) (S (wsteps w)).
Definition set_rpc (r : rloc) (p : rpc) : rloc := mkR p (rresl r) (vr r) (rcalls r) (S (rsteps r)).
Definition r_finish (r : rloc) (res : rres) : rloc :=
  mkR RIdle (res :: rresl r) (vr r) (rcalls r) (S (rsteps r)).

(* after i bytes of a writer memcpy: continue, or finish the amend (update tx.write_head) and
   either return (amend) or go on to the store (zix_ring_write) *)
Definition wcopy_next (c : cfg) (fin : bool) (r w size i : Z) (todo : list Z) (wl : wloc) : wloc :=
  match todo with
  | _ :: _ => set_wpc wl (WCopy fin w size i todo)
  | [] =>
    let w' := wnew c w size in
    if fin then mkW (WRel (WrWrote size) w') (Some (r, w')) (wresl wl) (vw wl) (wcalls wl) (S (wsteps wl))
    else w_finish wl (Some (r, w')) (WrAmend true)
  end.

Definition rcopy_next (adv : bool) (c : cfg) (r size i : Z) (acc : list Z) (rl : rloc) : rloc :=
  if i <? size then set_rpc rl (RCopy adv r size i acc)
  else if adv then
         (* zix_ring_read: `if (!peek_internal(...)) return 0;` -- a successful peek of size 0 returns 0 too,
            so a zero-size read returns before the store *)
         if size =? 0 then r_finish rl (RrRead 0 [])
         else set_rpc rl (RRel (RrRead size (rev acc)) (band c (u32 (r + size))) size)
       else r_finish rl (RrPeek size (rev acc)).

Definition wsize (bs : list Z) : Z := Z.of_nat (length bs).

(* ---- one micro-step of the writer *)
Definition wstep (c : cfg) (p : wprog) (s : state) (k : nat) : state :=
  let m := sm s in let wl := sw s in let g := sg s in
  match wpcs wl with
  | WIdle =>
    match p (wresl wl) with
    | None => s
    | Some call =>
      let wl0 := mkW WIdle (wtx wl) (wresl wl) (vw wl) (call :: wcalls wl) O in
      match call with
      | WWrite _ | WBegin | WSpace =>
        (* zix_atomic_load(&ring->read_head) *)
        let j := acq_pick (RH m) (vw wl) k in
        let r := hval (RH m) j in
        mkState m (mkW (WOwn call r (hcnt (RH m) j)) (wtx wl0) (wresl wl0) j (wcalls wl0) 1%nat)
                (sr s) g (EvAcq HR r :: trace s)
      | WAmend bs =>
        match wtx wl with
        | None => mkState m (w_finish wl0 None WrMisuse) (sr s) g (trace s)
        | Some (r, w) =>
          if write_space c r w <? wsize bs
          then mkState m (w_finish wl0 (Some (r, w)) (WrAmend false)) (sr s) g (trace s)
          else mkState m (wcopy_next c false r w (wsize bs) 0 bs wl0) (sr s) g (trace s)
        end
      | WCommit =>
        match wtx wl with
        | None => mkState m (w_finish wl0 None WrMisuse) (sr s) g (trace s)
        | Some (r, w) =>
          (* zix_atomic_store(&ring->write_head, tx->write_head) *)
          mkState (mkMem (WH m ++ [(w, gT g)]) (RH m) (buf m) (wep m) (rep m) (race m))
                  (w_finish wl0 None WrCommitted) (sr s) g
                  (EvSto HW (w_release c) w :: trace s)
        end
      end
    end
  | WOwn call r rc =>
    (* plain load of ring->write_head: own stores are always visible *)
    let w := lastv (WH m) in
    let tr := EvOwn HW w :: trace s in
    match call with
    | WSpace => mkState m (w_finish wl (wtx wl) (WrSpace (write_space c r w))) (sr s) g tr
    | WBegin =>
      let g' := mkG (lastc (WH m)) rc (firstn (Z.to_nat (lastc (WH m))) (wlog g)) (rlast g) in
      mkState m (w_finish wl (Some (r, w)) WrBegun) (sr s) g' tr
    | WWrite bs =>
      let g' := mkG (lastc (WH m)) rc (firstn (Z.to_nat (lastc (WH m))) (wlog g)) (rlast g) in
      if write_space c r w <? wsize bs
      then mkState m (w_finish wl None (WrWrote 0)) (sr s) g' tr
      else mkState m (wcopy_next c true r w (wsize bs) 0 bs
                        (mkW (wpcs wl) (Some (r, w)) (wresl wl) (vw wl) (wcalls wl) (wsteps wl)))
                   (sr s) g' tr
    | _ => mkState m (w_finish wl (wtx wl) WrMisuse) (sr s) g tr   (* unreachable *)
    end
  | WCopy fin w size i todo =>
    match todo, wtx wl with
    | b :: rest, Some (r, _) =>
      let cell := wcell c w size i in
      let sync := if r_release c then vw wl else O in
      let m' := mkMem (WH m) (RH m) (upd (buf m) cell b) (upd (wep m) cell (length (WH m))) (rep m)
                      (race m || negb (Nat.leb (rep m cell) sync)) in
      let g' := mkG (gT g + 1) (gtxr g) (wlog g ++ [b]) (rlast g) in
      mkState m' (wcopy_next c fin r w size (i + 1) rest wl) (sr s) g' (EvWr cell b :: trace s)
    | _, _ => mkState m (w_finish wl None WrMisuse) (sr s) g (trace s)   (* unreachable *)
    end
  | WRel res v =>
    mkState (mkMem (WH m ++ [(v, gT g)]) (RH m) (buf m) (wep m) (rep m) (race m))
            (w_finish wl None res) (sr s) g (EvSto HW (w_release c) v :: trace s)
  end.

(* ---- one micro-step of the reader *)
Definition rstep (c : cfg) (p : rprog) (s : state) (k : nat) : state :=
  let m := sm s in let rl := sr s in let g := sg s in
  match rpcs rl with
  | RIdle =>
    match p (rresl rl) with
    | None => s
    | Some call =>
      (* every reader function starts with zix_atomic_load(&ring->write_head) *)
      let j := acq_pick (WH m) (vr rl) k in
      let w := hval (WH m) j in
      mkState m (sw s) (mkR (ROwn call w (hcnt (WH m) j)) (rresl rl) j (call :: rcalls rl) 1%nat)
              g (EvAcq HW w :: trace s)
    end
  | ROwn call w wc =>
    let r := lastv (RH m) in
    let tr := EvOwn HR r :: trace s in
    match call with
    | RSpace => mkState m (sw s) (r_finish rl (RrSpace (read_space c r w))) g tr
    | RRead n =>
      let n := u32 n in
      if read_space c r w <? n then mkState m (sw s) (r_finish rl (RrRead 0 [])) g tr
      else mkState m (sw s) (rcopy_next true c r n 0 [] rl) g tr
    | RPeek n =>
      let n := u32 n in
      if read_space c r w <? n then mkState m (sw s) (r_finish rl (RrPeek 0 [])) g tr
      else mkState m (sw s) (rcopy_next false c r n 0 [] rl) g tr
    | RSkip n =>
      let n := u32 n in
      if read_space c r w <? n then mkState m (sw s) (r_finish rl (RrSkip 0)) g tr
      else mkState m (sw s) (set_rpc rl (RRel (RrSkip n) (band c (u32 (r + n))) n)) g tr
    end
  | RCopy adv r size i acc =>
    let cell := rcell c r size i in
    let b := buf m cell in
    let sync := if w_release c then vr rl else O in
    let m' := mkMem (WH m) (RH m) (buf m) (wep m) (upd (rep m) cell (length (RH m)))
                    (race m || negb (Nat.leb (wep m cell) sync)) in
    let g' := mkG (gT g) (gtxr g) (wlog g) (upd (rlast g) cell (lastc (RH m) + i)) in
    mkState m' (sw s) (rcopy_next adv c r size (i + 1) (b :: acc) rl) g' (EvRd cell b :: trace s)
  | RRel res v n =>
    mkState (mkMem (WH m) (RH m ++ [(v, lastc (RH m) + n)]) (buf m) (wep m) (rep m) (race m))
            (sw s) (r_finish rl res) g (EvSto HR (r_release c) v :: trace s)
  end.

(* ---- schedules *)
Definition choice := (bool * nat)%type.    (* (true = writer steps, staleness choice) *)

Definition step (c : cfg) (wp : wprog) (rp : rprog) (s : state) (ch : choice) : state :=
  if fst ch then wstep c wp s (snd ch) else rstep c rp s (snd ch).

Definition run_from (c : cfg) (wp : wprog) (rp : rprog) (s : state) (sched : list choice) : state :=
  fold_left (step c wp rp) sched s.

Definition run (c : cfg) (wp : wprog) (rp : rprog) (sched : list choice) : state :=
  run_from c wp rp (init c) sched.

(* ---- observables used by the theorems *)
Definition committed (s : state) : list Z := firstn (Z.to_nat (Wc s)) (wlog (sg s)).

Definition slice (l : list Z) (p n : Z) : list Z := firstn (Z.to_nat n) (skipn (Z.to_nat p) l).

Definition list_eqb (a b : list Z) : bool :=
  (length a =? length b)%nat && forallb (fun p => fst p =? snd p) (combine a b).

(* what the writer's completed calls have committed, read off its call and result logs alone: a successful
   write commits its bytes; a commit commits the bytes of the successful amends since the last begin;
   every other call/result commits nothing.  State = (bytes pending in the open transaction, committed). *)
Definition wapply (call : wcall) (res : wres) (st : option (list Z) * list Z) : option (list Z) * list Z :=
  match call, res with
  | WWrite bs, WrWrote n => (None, if n =? 0 then snd st else snd st ++ bs)
  | WBegin, WrBegun => (Some [], snd st)
  | WAmend bs, WrAmend true => (match fst st with Some p => Some (p ++ bs) | None => None end, snd st)
  | WCommit, WrCommitted => (None, snd st ++ match fst st with Some p => p | None => [] end)
  | _, _ => st
  end.
(* both logs newest first, the calls aligned with their results *)
Fixpoint wfold (calls : list wcall) (res : list wres) : option (list Z) * list Z :=
  match calls, res with
  | c :: cs, r :: rs => wapply c r (wfold cs rs)
  | _, _ => (None, [])
  end.
(* the call in progress, if any, has no result yet *)
Definition completed_calls (wl : wloc) : list wcall :=
  match wpcs wl with WIdle => wcalls wl | _ => tl (wcalls wl) end.
Definition writes_committed (s : state) : list Z := snd (wfold (completed_calls (sw s)) (wresl (sw s))).

(* walk the reader's results oldest first: every successful read/peek returned exactly the
   committed bytes at the current stream position; reads and skips advance it *)
Fixpoint stream_ok (com : list Z) (pos : Z) (res : list rres) : bool :=
  match res with
  | [] => true
  | RrRead n bs :: t => list_eqb bs (slice com pos n) && (pos + n <=? Z.of_nat (length com))
                        && (Z.of_nat (length bs) =? n) && stream_ok com (pos + n) t
  | RrPeek n bs :: t => list_eqb bs (slice com pos n) && (pos + n <=? Z.of_nat (length com))
                        && (Z.of_nat (length bs) =? n) && stream_ok com pos t
  | RrSkip n :: t => (pos + n <=? Z.of_nat (length com)) && (0 <=? n) && stream_ok com (pos + n) t
  | RrSpace _ :: t => stream_ok com pos t
  end.

Fixpoint read_bytes (res : list rres) : list Z :=
  match res with
  | [] => []
  | RrRead _ bs :: t => bs ++ read_bytes t
  | _ :: t => read_bytes t
  end.

(* bytes consumed by the reader's calls (reads and skips) *)
Fixpoint consumed (res : list rres) : Z :=
  match res with
  | [] => 0
  | RrRead n _ :: t => n + consumed t
  | RrSkip n :: t => n + consumed t
  | _ :: t => consumed t
  end.

Definition no_skip (res : list rres) : bool :=
  forallb (fun r => match r with RrSkip n => n =? 0 | _ => true end) res.

(* bytes held by the ring as the two (latest) heads describe them *)
Definition contents (c : cfg) (s : state) : list Z :=
  let r := lastv (RH (sm s)) in let w := lastv (WH (sm s)) in
  map (fun i => buf (sm s) (band c (u32 (r + Z.of_nat i)))) (seq 0 (Z.to_nat (read_space c r w))).

Definition both_idle (wp : wprog) (rp : rprog) (s : state) : Prop :=
  wpcs (sw s) = WIdle /\ rpcs (sr s) = RIdle /\ wp (wresl (sw s)) = None /\ rp (rresl (sr s)) = None.

(* wait-freedom: bound of a call = function of its size argument only *)
Definition wbound (call : wcall) : nat :=
  match call with
  | WWrite bs => length bs + 3
  | WAmend bs => length bs + 1
  | _ => 2
  end.
Definition rbound (call : rcall) : nat :=
  match call with
  | RRead n | RPeek n => Z.to_nat (u32 n) + 3
  | _ => 3
  end.
(* micro-steps the current call still needs, from the control state alone *)
Definition wremaining (p : wpc) : nat :=
  match p with
  | WIdle => 0
  | WOwn (WWrite bs) _ _ => length bs + 2
  | WOwn _ _ _ => 1
  | WCopy fin _ _ _ todo => length todo + (if fin then 1 else 0)
  | WRel _ _ => 1
  end.
Definition rremaining (p : rpc) : nat :=
  match p with
  | RIdle => 0
  | ROwn (RRead n) _ _ | ROwn (RPeek n) _ _ => Z.to_nat (u32 n) + 2
  | ROwn _ _ _ => 2
  | RCopy adv _ size i _ => Z.to_nat (size - i) + (if adv then 1 else 0)
  | RRel _ _ _ => 1
  end.
