// C20 implementation driver: zix_strerror / zix_string_view_equals / zix_string_view_copy
#include "vcommon.h"

#include <zix/allocator.h>
#include <zix/status.h>
#include <zix/string_view.h>

int main(void)
{
  char*  line = NULL;
  size_t cap  = 0;
  char*  tok[8];
  while (vgetline(&line, &cap)) {
    int n = vsplit(line, tok, 8);
    if (n == 2 && !strcmp(tok[0], "E")) {
      const char* m = zix_strerror((ZixStatus)atoi(tok[1]));
      fputs("msg=", stdout);
      vputescaped(stdout, m ? m : "(null)");
      fputc('\n', stdout);
    } else if (n == 6 && !strcmp(tok[0], "V")) {
      unsigned char* mem = NULL;
      size_t         len = vunhex(tok[1], &mem);
      size_t o1 = strtoul(tok[2], 0, 10), l1 = strtoul(tok[3], 0, 10);
      size_t o2 = strtoul(tok[4], 0, 10), l2 = strtoul(tok[5], 0, 10);
      if (o1 + l1 > len || o2 + l2 > len) {
        puts("bad-case");
        free(mem);
        continue;
      }
      const ZixStringView a = zix_substring((const char*)mem + o1, l1);
      const ZixStringView b = zix_substring((const char*)mem + o2, l2);
      const bool          eq = zix_string_view_equals(a, b);
      char*               cp = zix_string_view_copy(NULL, a);
      printf("eq=%s copy=", eq ? "true" : "false");
      if (cp) {
        vputhex(stdout, (const unsigned char*)cp, l1 + 1); // ASan checks the block really has l1+1 bytes
        // independence: mutate the copy, the source must not change
        unsigned char before = l1 ? mem[o1] : 0;
        cp[0] = (char)(cp[0] + 1);
        if (l1 && mem[o1] != before) {
          fputs(" ALIASED", stdout);
        }
      } else {
        fputs("NULL", stdout);
      }
      fputc('\n', stdout);
      zix_free(NULL, cp);
      free(mem);
    } else {
      puts("?");
    }
  }
  free(line);
  return 0;
}
