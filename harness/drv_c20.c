// C20 implementation driver: zix_strerror / zix_string_view_equals / zix_string_view_copy
#include "vcommon.h"

#include <zix/allocator.h>
#include <zix/status.h>
#include <zix/string_view.h>

// "same views, rewritten bytes" probe: two calls with identical view values and the viewed bytes changed in
// between, in one function, with nothing but memcpy between them; built with -O2 so that a declaration promising
// more than the function keeps (const instead of pure) lets the compiler merge the calls and return a stale answer
__attribute__((noinline)) static int probe_equals(char* buf, const unsigned char* m1, const unsigned char* m2, size_t n,
                                                  size_t o1, size_t l1, size_t o2, size_t l2, int* first)
{
  const ZixStringView a = zix_substring(buf + o1, l1);
  const ZixStringView b = zix_substring(buf + o2, l2);
  memcpy(buf, m1, n);
  const bool r1 = zix_string_view_equals(a, b);
  memcpy(buf, m2, n);
  const bool r2 = zix_string_view_equals(a, b);
  *first = r1;
  return r2;
}

int main(void)
{
  char*  line = NULL;
  size_t cap  = 0;
  char*  tok[8];
  setvbuf(stdout, NULL, _IOLBF, 0); // a sanitizer abort must not swallow the lines already produced
  while (vgetline(&line, &cap)) {
    int n = vsplit(line, tok, 8);
    if (n == 2 && !strcmp(tok[0], "E")) {
      const char* m = zix_strerror((ZixStatus)atoi(tok[1]));
      fputs("msg=", stdout);
      vputescaped(stdout, m ? m : "(null)");
      fputc('\n', stdout);
    } else if (n == 6 && !strcmp(tok[0], "V")) {
      unsigned char* mem = NULL;
      size_t         len = vunhex(tok[1], &mem);
      size_t o1 = strtoul(tok[2], 0, 10), l1 = strtoul(tok[3], 0, 10);
      size_t o2 = strtoul(tok[4], 0, 10), l2 = strtoul(tok[5], 0, 10);
      if (o1 + l1 > len || o2 + l2 > len) {
        puts("bad-case");
        free(mem);
        continue;
      }
      const ZixStringView a = zix_substring((const char*)mem + o1, l1);
      const ZixStringView b = zix_substring((const char*)mem + o2, l2);
      const bool          eq = zix_string_view_equals(a, b);
      char*               cp = zix_string_view_copy(NULL, a);
      printf("eq=%s copy=", eq ? "true" : "false");
      if (cp) {
        vputhex(stdout, (const unsigned char*)cp, l1 + 1); // ASan checks the block really has l1+1 bytes
        // independence: mutate the copy, the source must not change
        unsigned char before = l1 ? mem[o1] : 0;
        cp[0] = (char)(cp[0] + 1);
        if (l1 && mem[o1] != before) {
          fputs(" ALIASED", stdout);
        }
      } else {
        fputs("NULL", stdout);
      }
      fputc('\n', stdout);
      zix_free(NULL, cp);
      free(mem);
    } else if (n == 7 && !strcmp(tok[0], "W")) {
      unsigned char *m1 = NULL, *m2 = NULL;
      size_t         len = vunhex(tok[1], &m1), len2 = vunhex(tok[2], &m2);
      size_t o1 = strtoul(tok[3], 0, 10), l1 = strtoul(tok[4], 0, 10);
      size_t o2 = strtoul(tok[5], 0, 10), l2 = strtoul(tok[6], 0, 10);
      if (len != len2 || o1 + l1 > len || o2 + l2 > len) {
        puts("bad-case");
      } else {
        char* buf   = (char*)malloc(len ? len : 1);
        int   first = 0;
        int   r2    = probe_equals(buf, m1, m2, len, o1, l1, o2, l2, &first);
        printf("eq1=%s eq2=%s\n", first ? "true" : "false", r2 ? "true" : "false");
        free(buf);
      }
      free(m1);
      free(m2);
    } else {
      puts("?");
    }
  }
  free(line);
  return 0;
}
