// C13 implementation driver: zix_digest32/64/native and the *_aligned variants.
// Case format and output: see ocaml/drv_c13.ml.
//
// Each buffer lives in its own exact-size heap block, `off` bytes after the (16-aligned) start of
// the block, so that the byte after the buffer is an ASan red zone (any over-read aborts).  The
// `off` bytes before the buffer cannot be poisoned at byte granularity; instead every digest is
// computed three times with that prefix filled with 0x00, 0xFF and 0x5A: a result that depends on
// anything before the buffer (or on anything but seed/bytes/len between calls) prints h=UNSTABLE.
#include "vcommon.h"

#include <zix/digest.h>

#include <errno.h>
#include <inttypes.h>

_Static_assert(sizeof(size_t) == 8, "the model's `digest` is the 64-bit function: needs a 64-bit size_t");
_Static_assert(sizeof(uintptr_t) == 8, "64-bit pointers expected");
_Static_assert(UINTPTR_MAX >= UINT64_MAX, "native digest must select the 64-bit branch");

typedef struct {
  unsigned char* block; // what malloc returned
  unsigned char* buf;   // block + off (+8 for the empty block)
  size_t         off;
  size_t         len;
} Placed;

static Placed place(const unsigned char* bytes, size_t len, size_t off)
{
  Placed p;
  p.off = off;
  p.len = len;
  if (off + len == 0) {
    p.block = (unsigned char*)malloc(8); // empty buffer: one-past-the-end pointer, nothing readable
    p.buf   = p.block + 8;
  } else {
    p.block = (unsigned char*)malloc(off + len);
    p.buf   = p.block + off;
  }
  if (!p.block || ((uintptr_t)p.block % 8U) != 0U) {
    puts("driver-error: allocation");
    exit(3);
  }
  if (len) {
    memcpy(p.buf, bytes, len);
  }
  return p;
}

// returns 0 on success; *unstable set when the result depends on the prefix/call
static int run(const char* fn, uint64_t seed, const Placed* p, uint64_t* out, int* unstable)
{
  static const unsigned char fill[3] = {0x00, 0xFF, 0x5A};
  uint64_t r[3] = {0, 0, 0};
  for (int t = 0; t < 3; ++t) {
    if (p->off && p->buf == p->block + p->off) {
      memset(p->block, fill[t], p->off);
    }
    if (!strcmp(fn, "d64")) {
      r[t] = zix_digest64(seed, p->buf, p->len);
    } else if (!strcmp(fn, "d32")) {
      r[t] = zix_digest32((uint32_t)seed, p->buf, p->len);
    } else if (!strcmp(fn, "dn")) {
      r[t] = zix_digest((size_t)seed, p->buf, p->len);
    } else if (!strcmp(fn, "a64")) {
      r[t] = zix_digest64_aligned(seed, p->buf, p->len);
    } else if (!strcmp(fn, "a32")) {
      r[t] = zix_digest32_aligned((uint32_t)seed, p->buf, p->len);
    } else if (!strcmp(fn, "an")) {
      r[t] = zix_digest_aligned((size_t)seed, p->buf, p->len);
    } else {
      return 1;
    }
  }
  *unstable |= (r[0] != r[1] || r[1] != r[2]);
  *out = r[0];
  return 0;
}

static int word_of(const char* fn)
{
  return (!strcmp(fn, "d32") || !strcmp(fn, "a32")) ? 4 : 8;
}

static int is_aligned_fn(const char* fn)
{
  return fn[0] == 'a';
}

static int valid_call(const char* fn, size_t len, size_t off, uint64_t seed)
{
  const int w = word_of(fn);
  if (off > 7U) {
    return 0;
  }
  if (w == 4 && seed > UINT32_MAX) {
    return 0;
  }
  if (is_aligned_fn(fn) && (len % (size_t)w || off % (size_t)w)) {
    return 0;
  }
  return strcmp(fn, "d64") == 0 || strcmp(fn, "d32") == 0 || strcmp(fn, "dn") == 0 ||
         strcmp(fn, "a64") == 0 || strcmp(fn, "a32") == 0 || strcmp(fn, "an") == 0;
}

static int parse_u64(const char* s, uint64_t* out)
{
  if (!*s || *s == '-') {
    return 0;
  }
  char* end = NULL;
  errno = 0;
  *out = strtoull(s, &end, 10);
  return !errno && end && !*end;
}

int main(void)
{
  const uint32_t probe = 1U;
  if (*(const unsigned char*)&probe != 1U) {
    puts("driver-error: big-endian platform; the model assumes little-endian");
    return 3;
  }

  char*  line = NULL;
  size_t cap  = 0;
  char*  tok[8];
  while (vgetline(&line, &cap)) {
    int            n      = vsplit(line, tok, 8);
    unsigned char* bytes  = NULL;
    unsigned char* bytes2 = NULL;
    int            ok     = 0;
    do {
      if (n != 6) {
        break;
      }
      const char* fn = tok[0];
      uint64_t    seed = 0, off = 0;
      if (!parse_u64(tok[1], &seed) || !parse_u64(tok[3], &off)) {
        break;
      }
      for (const char* c = tok[2]; *c; ++c) {
        if (!(vhexval(*c) >= 0 || (c == tok[2] && *c == '-' && !c[1]))) {
          goto bad;
        }
      }
      if (strcmp(tok[2], "-") && strlen(tok[2]) % 2) {
        break;
      }
      size_t len = vunhex(tok[2], &bytes);
      if (!valid_call(fn, len, off, seed)) {
        break;
      }
      const int   w    = word_of(fn);
      const char* kind = tok[4];
      uint64_t    seed2 = seed, off2 = off;
      size_t      len2 = len;
      int         rel  = 1;
      bytes2 = (unsigned char*)malloc(len + 64 + 1);
      if (len) {
        memcpy(bytes2, bytes, len);
      }
      if (!strcmp(kind, "-")) {
        rel = 0;
      } else if (!strcmp(kind, "A")) {
        if (!parse_u64(tok[5], &off2) || !valid_call(fn, len, off2, seed)) {
          break;
        }
      } else if (!strcmp(kind, "S")) {
        if (!parse_u64(tok[5], &seed2) || seed2 == seed || !valid_call(fn, len, off, seed2) ||
            strcmp(tok[5], tok[1]) == 0) {
          break;
        }
      } else if (!strcmp(kind, "B")) {
        char* colon = strchr(tok[5], ':');
        if (!colon) {
          break;
        }
        *colon = 0;
        uint64_t idx = 0;
        if (!parse_u64(tok[5], &idx) || idx > len) {
          break;
        }
        const char* bh = colon + 1;
        size_t      hl = strlen(bh);
        if (!hl || hl % 2 || !strcmp(bh, "-")) {
          break;
        }
        for (const char* c = bh; *c; ++c) {
          if (vhexval(*c) < 0) {
            goto bad;
          }
        }
        unsigned char* nb  = NULL;
        size_t         ln  = vunhex(bh, &nb);
        size_t         pos = (size_t)idx * (size_t)w;
        int            fine = pos < len && ((ln == (size_t)w && pos + (size_t)w <= len) || (pos + ln == len && ln < (size_t)w));
        if (fine) {
          memcpy(bytes2 + pos, nb, ln);
          fine = memcmp(bytes2, bytes, len) != 0;
        }
        free(nb);
        if (!fine) {
          break;
        }
      } else if (!strcmp(kind, "Z")) {
        uint64_t j = 0;
        if (!parse_u64(tok[5], &j) || j == 0 || j > 64 || is_aligned_fn(fn)) {
          break;
        }
        memset(bytes2 + len, 0, (size_t)j);
        len2 = len + (size_t)j;
      } else {
        break;
      }

      int      unstable = 0;
      uint64_t h1 = 0, h2 = 0;
      Placed   p1 = place(bytes, len, (size_t)off);
      run(fn, seed, &p1, &h1, &unstable);
      if (rel) {
        Placed p2 = place(bytes2, len2, (size_t)off2);
        run(fn, seed2, &p2, &h2, &unstable);
        // the first buffer again, after other calls: same value expected
        uint64_t again = 0;
        run(fn, seed, &p1, &again, &unstable);
        unstable |= (again != h1);
        free(p2.block);
      }
      free(p1.block);
      if (unstable) {
        fputs("h=UNSTABLE", stdout);
      } else {
        printf("h=%" PRIu64, h1);
      }
      if (rel) {
        printf(" rel %s", h1 == h2 ? "same" : "diff");
      }
      fputc('\n', stdout);
      ok = 1;
    } while (0);
  bad:
    if (!ok) {
      puts("bad-case");
    }
    free(bytes);
    free(bytes2);
    fflush(stdout);
  }
  free(line);
  return 0;
}
