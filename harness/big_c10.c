// C10 helper: the decomposition functions on ONE string longer than 4 GiB (size_t indices must not be
// narrowed anywhere).  NOT sanitized (ASan's strlen interceptor would walk 4 GiB of shadow).
// case:  B <chunks> <tailhex>   path = 'x' * (chunks * 64 MiB) + tail   (chunks = 64 gives 2^32 'x')
// The 'x' run is <chunks> shared mappings of one 64 MiB memfd, so about 64 MiB of physical memory is used.
// line:  the record format of drv_c10.c, offsets/lengths in decimal, with the 'x' run inside a text written
//        as (78*<count>) instead of hex; SKIP if the address space cannot be mapped.
#define _GNU_SOURCE 1
#include "vcommon.h"

#include <zix/path.h>
#include <zix/string_view.h>

#include <stdbool.h>
#include <sys/mman.h>
#include <unistd.h>

#define CHUNK ((size_t)64U << 20U)
#define TAIL_ROOM ((size_t)65536U)

typedef ZixStringView (*ViewFunc)(const char*);
typedef bool (*QueryFunc)(const char*);

static const ViewFunc view_funcs[8] = {zix_path_root_name,     zix_path_root_directory,
                                       zix_path_root_path,     zix_path_relative_path,
                                       zix_path_parent_path,   zix_path_filename,
                                       zix_path_stem,          zix_path_extension};
static const char* const view_names[8] = {"rn", "rd", "rp", "rel", "par", "fn", "st", "ex"};
static const bool        as_path[8]    = {false, true, true, false, true, false, false, false};

static const QueryFunc query_funcs[10] = {zix_path_has_root_path,      zix_path_has_root_name,
                                          zix_path_has_root_directory, zix_path_has_relative_path,
                                          zix_path_has_parent_path,    zix_path_has_filename,
                                          zix_path_has_stem,           zix_path_has_extension,
                                          zix_path_is_absolute,        zix_path_is_relative};

static char* make_big_path(size_t n_chunks, const char* tail, size_t tail_len)
{
  const size_t big   = CHUNK * n_chunks;
  const size_t total = big + TAIL_ROOM;
  char* const  base  = (char*)mmap(NULL, total, PROT_READ | PROT_WRITE,
                                  MAP_PRIVATE | MAP_ANONYMOUS | MAP_NORESERVE, -1, 0);
  if (base == MAP_FAILED) {
    return NULL;
  }
  const int fd = memfd_create("zix_c10_big_path", 0U);
  if (fd < 0 || ftruncate(fd, (off_t)CHUNK)) {
    return NULL;
  }
  for (size_t i = 0U; i < n_chunks; ++i) {
    if (mmap(base + (i * CHUNK), CHUNK, PROT_READ | PROT_WRITE, MAP_SHARED | MAP_FIXED, fd, 0) ==
        MAP_FAILED) {
      return NULL;
    }
  }
  close(fd);
  memset(base, 'x', CHUNK); // fills every chunk: they share their pages
  memcpy(base + big, tail, tail_len);
  base[big + tail_len] = '\0';
  return base;
}

static bool inside(const char* base, size_t len, ZixStringView v)
{
  return v.data >= base && v.data <= base + len && v.length <= (size_t)(base + len - v.data);
}

int main(void)
{
  char*  line = NULL;
  size_t cap  = 0;
  char*  tok[4];
  while (vgetline(&line, &cap)) {
    int n = vsplit(line, tok, 4);
    if (n != 3 || strcmp(tok[0], "B")) {
      puts("?");
      continue;
    }
    const size_t   n_chunks = strtoul(tok[1], NULL, 10);
    unsigned char* tail     = NULL;
    const size_t   tail_len = vunhex(tok[2], &tail);
    if (tail_len + 1U > TAIL_ROOM || n_chunks == 0U) {
      puts("?");
      continue;
    }
    const size_t big  = CHUNK * n_chunks;
    const size_t len  = big + tail_len;
    char* const  path = make_big_path(n_chunks, (const char*)tail, tail_len);
    if (!path || path[0] != 'x' || path[big - 1U] != 'x' || strlen(path) != len) {
      puts("SKIP");
      continue;
    }
    ZixStringView v[8];
    bool          q[10];
    for (int i = 0; i < 8; ++i) {
      v[i] = view_funcs[i](path);
    }
    for (int i = 0; i < 10; ++i) {
      q[i] = query_funcs[i](path);
    }
    for (int i = 0; i < 8; ++i) {
      printf("%s=", view_names[i]);
      if (v[i].length == 0) {
        fputc('-', stdout);
      } else if (!inside(path, len, v[i])) {
        fputs("BAD", stdout);
      } else {
        const size_t off = (size_t)(v[i].data - path);
        const size_t end = off + v[i].length;
        if (off < big) { // the part inside the 'x' run, not spelled out
          printf("(78*%zu)", ((end < big) ? end : big) - off);
        }
        for (size_t k = (off > big) ? off : big; k < end; ++k) {
          if (!(as_path[i] && path[k] == '/' && k > off && path[k - 1] == '/')) {
            printf("%02x", (unsigned char)path[k]);
          }
        }
      }
      fputc(' ', stdout);
    }
    fputs("q=", stdout);
    for (int i = 0; i < 10; ++i) {
      fputc(q[i] ? '1' : '0', stdout);
    }
    fputs(" in=", stdout);
    for (int i = 0; i < 8; ++i) {
      fputc((v[i].length == 0 || inside(path, len, v[i])) ? '1' : '0', stdout);
    }
    fputs(" ||", stdout);
    for (int i = 0; i < 8; ++i) {
      if (inside(path, len, v[i])) {
        printf(" %s=%zu+%zu", view_names[i], (size_t)(v[i].data - path), v[i].length);
      } else if (v[i].length == 0) {
        printf(" %s=static", view_names[i]);
      } else {
        printf(" %s=ext+%zu", view_names[i], v[i].length);
      }
    }
    fputc('\n', stdout);
    fflush(stdout);
    munmap(path, big + TAIL_ROOM);
    free(tail);
  }
  free(line);
  return 0;
}
