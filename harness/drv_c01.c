// C01/C02 implementation driver: zix B-tree histories (compiled once per -DZIX_BTREE_PAGE_SIZE).
//
// case line:  <page> <flags> <op> <op> ...  (flags: '-', or letters: v = verbose, sequences printed in full
//             instead of hashed; 2 = C02 case, only the spec side cares; a = allocation trace token "t:.." after every op;
//             n = no spec line)
//   i<key>.<tag>  insert a new element           r<key>  remove (reports out and next)
//   I<key>.<tag>  insert a new element represented by the NULL pointer (if no such element is stored already)
//   f<key>        find                            c / C   clear with / without destroy callback
//   w             walk begin..end                 O<bits> allocation script (1 = succeed), then all succeed
//   b<key>        lower_bound, tree comparator    p<key>  lower_bound, wildcard comparator (key/16 equal)
//   s<key>        lower_bound then walk to end    e       iter_equals matrix on sampled positions
//   N<bits>       (first op only) allocation script in force during zix_btree_new
//   cfg           (whole line "<page> cfg") probe LEAF_VALS / INODE_VALS / MAX_HEIGHT through the public API
// output: one line "<observable tokens> || <structural tokens>", or CRASH if the case died.
// Every case runs in a forked child (assert / sanitizer aborts must not take the run down).
#include "vcommon.h"

#include <zix/allocator.h>
#include <zix/btree.h>
#include <zix/status.h>

#include <limits.h>
#include <stdarg.h>
#include <stdbool.h>
#include <sys/wait.h>
#include <unistd.h>

#if defined(__SANITIZE_ADDRESS__)
#  include <sanitizer/lsan_interface.h>
#  define LEAK_CHECK() __lsan_do_recoverable_leak_check()
#else
#  define LEAK_CHECK() 0
#endif

_Static_assert(sizeof(void*) == 8 && sizeof(size_t) == 8, "64-bit only");

#ifndef ZIX_BTREE_PAGE_SIZE
#  define ZIX_BTREE_PAGE_SIZE 4096U
#endif

typedef struct {
  int key;
  int tag;
  int stored;
} Elt;

// ---------------------------------------------------------------- sequences (hash or full list)
static int verbose = 0;
static int tracing = 0; // case flag 'a': allocation trace tokens in the structural part

typedef struct {
  uint64_t h;
  long     n;
  char*    buf;
  size_t   len, cap;
} Seq;

static void seq_init(Seq* s)
{
  s->h   = 17;
  s->n   = 0;
  s->len = 0;
  if (s->buf) {
    s->buf[0] = 0;
  }
}

static void seq_add(Seq* s, long x)
{
  s->h = (s->h * 1000003ULL + (uint64_t)(x + 1000)) % 2147483647ULL;
  ++s->n;
  if (verbose) {
    if (s->len + 24 > s->cap) {
      s->cap = s->cap ? 2 * s->cap : 256;
      s->buf = (char*)realloc(s->buf, s->cap);
    }
    s->len += (size_t)sprintf(s->buf + s->len, s->len ? ",%ld" : "%ld", x);
  }
}

static const char* seq_str(Seq* s, char* tmp)
{
  if (verbose) {
    return s->len ? s->buf : "-";
  }
  sprintf(tmp, "%llu", (unsigned long long)s->h);
  return tmp;
}

// ---------------------------------------------------------------- output buffers
typedef struct {
  char*  p;
  size_t len, cap;
} Buf;

static void bprintf(Buf* b, const char* fmt, ...)
{
  va_list ap;
  for (;;) {
    va_start(ap, fmt);
    int n = vsnprintf(b->p ? b->p + b->len : NULL, b->p ? b->cap - b->len : 0, fmt, ap);
    va_end(ap);
    if (b->p && (size_t)n < b->cap - b->len) {
      b->len += (size_t)n;
      return;
    }
    b->cap = (b->cap ? 2 * b->cap : 4096) + (size_t)n;
    b->p   = (char*)realloc(b->p, b->cap);
  }
}

// the case's output line: printed by the child only after its leak check, so that a case yields exactly one line
static char* out_line;

static void out_printf(const char* fmt, ...)
{
  va_list ap;
  va_start(ap, fmt);
  const int n = vsnprintf(NULL, 0, fmt, ap);
  va_end(ap);
  free(out_line);
  out_line = (char*)malloc((size_t)n + 1);
  va_start(ap, fmt);
  vsnprintf(out_line, (size_t)n + 1, fmt, ap);
  va_end(ap);
}

// ---------------------------------------------------------------- allocator with a failure script and a trace
// Requests are numbered over the whole case (a refused request consumes a serial, as in harness/valloc.h); with case
// flag 'a' every block obtained / released is recorded as "A<serial>:a:<size>" / "F<serial>:<entry>" where <entry> is
// 'a' for the aligned_free entry and 'p' for the plain free entry (a release through the wrong entry shows as 'p').
typedef struct {
  void*  ptr;
  size_t serial;
} VBlock;

typedef struct {
  ZixAllocator base;
  const char*  script; // '1' succeed, '0' fail; exhausted => succeed
  long         live;
  size_t       requests;
  int          tracing;
  Buf          trace;
  VBlock*      blocks;
  size_t       n_blocks, cap_blocks;
} VAlloc;

static void va_note_alloc(VAlloc* va, void* p, size_t serial, size_t size)
{
  if (va->n_blocks == va->cap_blocks) {
    va->cap_blocks = va->cap_blocks ? 2 * va->cap_blocks : 64;
    va->blocks     = (VBlock*)realloc(va->blocks, va->cap_blocks * sizeof(VBlock));
  }
  va->blocks[va->n_blocks].ptr    = p;
  va->blocks[va->n_blocks].serial = serial;
  ++va->n_blocks;
  if (va->tracing) {
    bprintf(&va->trace, "%sA%zu:a:%zu", va->trace.len ? "," : "", serial, size);
  }
}

static void va_note_free(VAlloc* va, void* p, char entry)
{
  for (size_t k = va->n_blocks; k > 0; --k) {
    if (va->blocks[k - 1].ptr == p) {
      if (va->tracing) {
        bprintf(&va->trace, "%sF%zu:%c", va->trace.len ? "," : "", va->blocks[k - 1].serial, entry);
      }
      va->blocks[k - 1] = va->blocks[--va->n_blocks];
      return;
    }
  }
  if (va->tracing) {
    bprintf(&va->trace, "%sF?:%c", va->trace.len ? "," : "", entry); // not one of ours
  }
}

static void* va_malloc(ZixAllocator* a, size_t size)
{
  (void)a;
  return malloc(size);
}
static void* va_calloc(ZixAllocator* a, size_t n, size_t size)
{
  (void)a;
  return calloc(n, size);
}
static void* va_realloc(ZixAllocator* a, void* p, size_t size)
{
  (void)a;
  return realloc(p, size);
}
static void va_free(ZixAllocator* a, void* p)
{
  if (p) {
    va_note_free((VAlloc*)a, p, 'p');
  }
  free(p);
}
static void* va_aligned_alloc(ZixAllocator* a, size_t alignment, size_t size)
{
  VAlloc*      va     = (VAlloc*)a;
  const size_t serial = va->requests++;
  if (va->script && *va->script) {
    const char c = *va->script++;
    if (c == '0') {
      return NULL;
    }
  }
  void* p = NULL;
  if (posix_memalign(&p, alignment < sizeof(void*) ? sizeof(void*) : alignment, size)) {
    return NULL;
  }
  ++va->live;
  va_note_alloc(va, p, serial, size);
  return p;
}
static void va_aligned_free(ZixAllocator* a, void* p)
{
  if (p) {
    --((VAlloc*)a)->live;
    va_note_free((VAlloc*)a, p, 'a');
  }
  free(p);
}

// the events since the last call, as one structural token
static void put_trace(VAlloc* va, Buf* sb)
{
  if (va->tracing) {
    bprintf(sb, "t:%s ", va->trace.len ? va->trace.p : "-");
    va->trace.len = 0;
    if (va->trace.p) {
      va->trace.p[0] = 0;
    }
  }
}

// ---------------------------------------------------------------- callbacks
// Elements are opaque pointers, so NULL is a legitimate element.  Op 'I' inserts its element REPRESENTED BY THE NULL
// POINTER (at most one at a time); comparators, the destroy callback and the readers map NULL back to that element.
static Elt* null_elt;

static inline Elt* elt_of(const void* p)
{
  return p ? (Elt*)p : null_elt;
}

static int  tree_ud, lb_ud, destroy_ud;
static int  ud_bad, roles_bad;
static Seq  cmplog;
static Elt* cur_probe; // the key object of the running lower_bound

static long*  dvec; // tags passed to the destroy callback, in call order
static size_t dlen, dcap;

// The comparator contract is the sign of the result.  Case flags pick the magnitude: default -1/0/1, 'd' = the key
// difference (the `return a - b` idiom), 'x' = INT_MIN / INT_MAX.
static int cmp_style;

static inline int cmp_result(const long x, const long y)
{
  const int sign = (x > y) - (x < y);
  if (cmp_style == 1) {
    return (int)(x - y);
  }
  if (cmp_style == 2) {
    return sign < 0 ? INT_MIN : sign > 0 ? INT_MAX : 0;
  }
  return sign;
}

static int tree_cmp(const void* a, const void* b, const void* ud)
{
  const Elt* x = elt_of(a);
  const Elt* y = elt_of(b);
  if (ud != &tree_ud) {
    ud_bad = 1;
  }
  seq_add(&cmplog, x->tag);
  return cmp_result(x->key, y->key);
}

static void check_roles(const Elt* x, const Elt* y, const void* ud)
{
  if (ud != &lb_ud) {
    ud_bad = 1;
  }
  if (y != cur_probe || !x->stored || x == cur_probe) {
    roles_bad = 1;
  }
}

static int lb_cmp(const void* a, const void* b, const void* ud)
{
  const Elt* x = elt_of(a);
  const Elt* y = elt_of(b);
  check_roles(x, y, ud);
  seq_add(&cmplog, x->tag);
  return cmp_result(x->key, y->key);
}

static int wild_cmp(const void* a, const void* b, const void* ud)
{
  const Elt* x = elt_of(a);
  const Elt* y = elt_of(b);
  check_roles(x, y, ud);
  seq_add(&cmplog, x->tag);
  const int xh = x->key >> 4, yh = y->key >> 4;
  return cmp_result(xh, yh);
}

static void destroy_cb(void* p, const void* ud)
{
  Elt* x = elt_of(p);
  if (ud != &destroy_ud) {
    ud_bad = 1;
  }
  x->stored = 0;
  if (dlen == dcap) {
    dcap = dcap ? 2 * dcap : 256;
    dvec = (long*)realloc(dvec, dcap * sizeof(long));
  }
  dvec[dlen++] = x->tag;
}

static const char* stname(ZixStatus st)
{
  switch (st) {
  case ZIX_STATUS_SUCCESS: return "SUCCESS";
  case ZIX_STATUS_NO_MEM: return "NO_MEM";
  case ZIX_STATUS_NOT_FOUND: return "NOT_FOUND";
  case ZIX_STATUS_EXISTS: return "EXISTS";
  case ZIX_STATUS_REACHED_END: return "REACHED_END";
  case ZIX_STATUS_OVERFLOW: return "OVERFLOW";
  default: return "OTHER";
  }
}

// Out-parameters are handed over holding a STALE position (an iterator the caller used before, here
// one that points into a dummy page): every query must overwrite it, also on an empty tree and
// when nothing is found.  A position that is still the stale one afterwards is printed as "STALE".
static _Alignas(64) unsigned char stale_page[64];

static ZixBTreeIter stale_iter(void)
{
  ZixBTreeIter it = zix_btree_end_iter;
  it.nodes[0]     = (ZixBTreeNode*)(void*)stale_page;
  it.indexes[0]   = 1U;
  return it;
}

static bool is_stale(const ZixBTreeIter it)
{
  return it.nodes[0] == (ZixBTreeNode*)(void*)stale_page;
}

static void put_iter(Buf* b, const ZixBTreeIter it)
{
  if (is_stale(it)) {
    bprintf(b, "STALE");
    return;
  }
  if (zix_btree_iter_is_end(it)) {
    bprintf(b, "end");
    return;
  }
  bprintf(b, "%u@", (unsigned)it.level);
  for (unsigned j = 0; j <= it.level && j < ZIX_BTREE_MAX_HEIGHT; ++j) {
    bprintf(b, j ? ".%u" : "%u", (unsigned)it.indexes[j]);
  }
}

static void put_tag_or_end(Buf* b, const ZixBTreeIter it)
{
  if (is_stale(it)) {
    bprintf(b, "STALE");
  } else if (zix_btree_iter_is_end(it)) {
    bprintf(b, "end");
  } else {
    bprintf(b, "%d", elt_of(zix_btree_get(it))->tag);
  }
}

static int cmp_long(const void* a, const void* b)
{
  const long x = *(const long*)a, y = *(const long*)b;
  return (x > y) - (x < y);
}

// destroy log of the last clear/free: count, hash of the sorted tags (multiset), hash in call order
static void put_destroyed(Buf* ob, Buf* sb, const char* what, size_t size)
{
  char tmp[64];
  Seq  order = {0, 0, 0, 0, 0}, sorted = {0, 0, 0, 0, 0};
  seq_init(&order);
  seq_init(&sorted);
  for (size_t j = 0; j < dlen; ++j) {
    seq_add(&order, dvec[j]);
  }
  if (dlen) {
    qsort(dvec, dlen, sizeof(long), cmp_long);
  }
  for (size_t j = 0; j < dlen; ++j) {
    seq_add(&sorted, dvec[j]);
  }
  bprintf(ob, "%s:%zu:%s:%zu ", what, dlen, seq_str(&sorted, tmp), size);
  bprintf(sb, "%s ", seq_str(&order, tmp));
  free(order.buf);
  free(sorted.buf);
  dlen = 0;
}

#define VALLOC_INIT {{va_malloc, va_calloc, va_realloc, va_free, va_aligned_alloc, va_aligned_free}, NULL, 0, 0, 0, {0, 0, 0}, NULL, 0, 0}

// ---------------------------------------------------------------- configuration probe
static void run_cfg(void)
{
  VAlloc    va = VALLOC_INIT;
  ZixBTree* t = zix_btree_new(&va.base, tree_cmp, &tree_ud);
  unsigned  leaf_max = 0, inode_max = 0;
  size_t    cap = 1 << 12, n = 0;
  Elt**     all = (Elt**)malloc(cap * sizeof(Elt*));
  for (int k = 1;; ++k) {
    Elt* e = (Elt*)malloc(sizeof(Elt));
    e->key = k;
    e->tag = k;
    e->stored = 1;
    if (n == cap) {
      cap *= 2;
      all = (Elt**)realloc(all, cap * sizeof(Elt*));
    }
    all[n++] = e;
    zix_btree_insert(t, e);
    ZixBTreeIter it = zix_btree_end_iter;
    zix_btree_find(t, e, &it); // the maximum: rightmost path
    if (it.level >= 2) {
      break;
    }
    if (it.level == 0) {
      leaf_max = it.indexes[0] + 1U > leaf_max ? it.indexes[0] + 1U : leaf_max;
    } else if (it.indexes[0] > inode_max) {
      inode_max = it.indexes[0]; // child index in the root page = its number of values (rightmost path)
    }
  }
  out_printf("cfg page=%u L=%u I=%u H=%u\n", (unsigned)ZIX_BTREE_PAGE_SIZE, leaf_max, inode_max,
         (unsigned)ZIX_BTREE_MAX_HEIGHT);
  zix_btree_free(t, NULL, NULL);
  for (size_t i = 0; i < n; ++i) {
    free(all[i]);
  }
  free(all);
  free(cmplog.buf);
  free(va.blocks);
  free(va.trace.p);
}

// ---------------------------------------------------------------- one history
static ZixBTreeIter nth_iter(const ZixBTree* t, size_t idx)
{
  ZixBTreeIter it = zix_btree_begin(t);
  for (size_t j = 0; j < idx && !zix_btree_iter_is_end(it); ++j) {
    zix_btree_iter_increment(&it);
  }
  return it;
}

static void run_case(char** tok, int ntok)
{
  VAlloc va = VALLOC_INIT;
  Buf    ob = {0, 0, 0}, sb = {0, 0, 0};
  char   tmp[64], tmp2[64];
  Elt**  arena = (Elt**)calloc((size_t)ntok + 1, sizeof(Elt*));
  size_t n_arena = 0;
  Elt    probe = {0, -1, 0};
  Seq    tags = {0, 0, 0, 0, 0}, shape = {0, 0, 0, 0, 0};
  char*  script = NULL;
  ud_bad = roles_bad = 0;
  dlen = 0;
  null_elt = NULL;

  va.tracing = tracing;
  int first_op = 0;
  if (ntok > 0 && tok[0][0] == 'N') { // allocation script in force during zix_btree_new
    script    = strdup(tok[0] + 1);
    va.script = script;
    first_op  = 1;
  }

  ZixBTree* t = zix_btree_new(&va.base, tree_cmp, &tree_ud);
  if (!t) {
    put_trace(&va, &sb);
    out_printf("NO-TREE live=%ld || %s\n", va.live, sb.p ? sb.p : "");
    free(arena);
    free(script);
    free(sb.p);
    free(va.trace.p);
    free(va.blocks);
    return;
  }
  put_trace(&va, &sb);

  for (int k = first_op; k < ntok; ++k) {
    const char* op = tok[k];
    seq_init(&cmplog);
    switch (op[0]) {
    case 'i':
    case 'I': {
      int key = 0, tag = 0;
      sscanf(op + 1, "%d.%d", &key, &tag);
      Elt* e = (Elt*)malloc(sizeof(Elt));
      e->key = key;
      e->tag = tag;
      e->stored = 0;
      arena[n_arena++] = e;
      void* ptr = e;
      if (op[0] == 'I' && !(null_elt && null_elt->stored)) {
        null_elt = e; // this element is the NULL pointer from now on
        ptr      = NULL;
      }
      const ZixStatus st = zix_btree_insert(t, ptr);
      if (st == ZIX_STATUS_SUCCESS) {
        e->stored = 1;
      }
      bprintf(&ob, "i:%s:%zu ", stname(st), zix_btree_size(t));
      bprintf(&sb, "%ld.%s ", cmplog.n, seq_str(&cmplog, tmp));
      break;
    }
    case 'r': {
      probe.key = atoi(op + 1);
      void*           out = NULL;
      ZixBTreeIter    next = zix_btree_end_iter;
      const ZixStatus st = zix_btree_remove(t, &probe, &out, &next);
      bprintf(&ob, "r:%s:", stname(st));
      if (st == ZIX_STATUS_SUCCESS && elt_of(out)) {
        elt_of(out)->stored = 0;
        bprintf(&ob, "%d", elt_of(out)->tag);
      } else {
        bprintf(&ob, "-");
      }
      bprintf(&ob, ":%zu n", zix_btree_size(t));
      if (st == ZIX_STATUS_SUCCESS) {
        put_tag_or_end(&ob, next);
      } else {
        bprintf(&ob, "na");
      }
      // next must compare equal to an iterator obtained independently at the same position
      if (st == ZIX_STATUS_SUCCESS) {
        const long   ncmp = cmplog.n;
        const uint64_t hh = cmplog.h;
        const size_t  ll = cmplog.len;
        ZixBTreeIter other = zix_btree_end(t);
        if (!zix_btree_iter_is_end(next)) {
          zix_btree_find(t, zix_btree_get(next), &other);
        }
        bprintf(&ob, " q%d", zix_btree_iter_equals(next, other) && zix_btree_iter_equals(other, next) ? 1 : 0);
        cmplog.n = ncmp; // the extra find is not part of the removal's comparator log
        cmplog.h = hh;
        cmplog.len = ll;
        if (cmplog.buf) {
          cmplog.buf[ll] = 0;
        }
      } else {
        bprintf(&ob, " qna");
      }
      bprintf(&ob, " ");
      put_iter(&sb, next);
      bprintf(&sb, "/%ld.%s ", cmplog.n, seq_str(&cmplog, tmp));
      break;
    }
    case 'f': {
      probe.key = atoi(op + 1);
      ZixBTreeIter    it = stale_iter();
      const ZixStatus st = zix_btree_find(t, &probe, &it);
      bprintf(&ob, "f:%s:", stname(st));
      if (st == ZIX_STATUS_SUCCESS) {
        put_tag_or_end(&ob, it);
      } else {
        bprintf(&ob, "-");
      }
      bprintf(&ob, " k%ld ", cmplog.n);
      put_iter(&sb, it);
      bprintf(&sb, "/%s ", seq_str(&cmplog, tmp));
      break;
    }
    case 'c':
      zix_btree_clear(t, destroy_cb, &destroy_ud);
      put_destroyed(&ob, &sb, "c", zix_btree_size(t));
      break;
    case 'C':
      zix_btree_clear(t, NULL, NULL);
      for (size_t j = 0; j < n_arena; ++j) {
        arena[j]->stored = 0;
      }
      bprintf(&ob, "C:%zu ", zix_btree_size(t));
      bprintf(&sb, "- ");
      break;
    case 'w': {
      seq_init(&tags);
      seq_init(&shape);
      unsigned depth = 0;
      long     count = 0;
      for (ZixBTreeIter it = zix_btree_begin(t); !zix_btree_iter_is_end(it); zix_btree_iter_increment(&it)) {
        const Elt* x = elt_of(zix_btree_get(it));
        seq_add(&tags, x->tag);
        seq_add(&shape, x->tag);
        seq_add(&shape, it.level);
        for (unsigned j = 0; j <= it.level; ++j) {
          seq_add(&shape, it.indexes[j]);
        }
        if (it.level + 1U > depth) {
          depth = it.level + 1U;
        }
        ++count;
      }
      bprintf(&ob, "w:%zu:%ld:%s d%u ", zix_btree_size(t), count, seq_str(&tags, tmp), depth);
      bprintf(&sb, "%s ", seq_str(&shape, tmp2));
      break;
    }
    case 'O':
      free(script);
      script = strdup(op + 1);
      va.script = script;
      bprintf(&ob, "O ");
      bprintf(&sb, "- ");
      break;
    case 'b':
    case 'p': {
      probe.key = atoi(op + 1);
      cur_probe = &probe;
      ZixBTreeIter    it = stale_iter();
      const ZixStatus st = zix_btree_lower_bound(t, op[0] == 'b' ? lb_cmp : wild_cmp, &lb_ud, &probe, &it);
      bprintf(&ob, "%c:%s:", op[0], stname(st));
      put_tag_or_end(&ob, it);
      bprintf(&ob, " ");
      put_iter(&sb, it);
      bprintf(&sb, "/%ld.%s ", cmplog.n, seq_str(&cmplog, tmp));
      break;
    }
    case 's': {
      probe.key = atoi(op + 1);
      cur_probe = &probe;
      ZixBTreeIter it = stale_iter();
      zix_btree_lower_bound(t, lb_cmp, &lb_ud, &probe, &it);
      seq_init(&tags);
      ZixStatus last = ZIX_STATUS_SUCCESS;
      if (is_stale(it)) {
        bprintf(&ob, "s:STALE ");
        bprintf(&sb, "- ");
        break;
      }
      while (!zix_btree_iter_is_end(it)) {
        seq_add(&tags, elt_of(zix_btree_get(it))->tag);
        last = zix_btree_iter_increment(&it);
      }
      bprintf(&ob, "s:%ld:%s:%s ", tags.n, seq_str(&tags, tmp), tags.n ? stname(last) : "-");
      bprintf(&sb, "- ");
      break;
    }
    case 'e': {
      // sampled positions, begin again, end, the end reached by incrementing, find of first/last sample
      const size_t n = zix_btree_size(t);
      ZixBTreeIter its[16];
      size_t       m = 0;
      size_t       first_idx = 0, last_idx = 0;
      if (n > 0) {
        const size_t np = n <= 8 ? n : 8;
        for (size_t j = 0; j < np; ++j) {
          const size_t idx = n <= 8 ? j : j * (n - 1) / 7;
          its[m++] = nth_iter(t, idx);
          if (j == 0) {
            first_idx = idx;
          }
          last_idx = idx;
        }
      }
      (void)first_idx;
      (void)last_idx;
      its[m++] = zix_btree_begin(t);
      its[m++] = zix_btree_end(t);
      its[m++] = nth_iter(t, n); // walked off the end
      if (n > 0) {
        ZixBTreeIter a = zix_btree_end_iter, b = zix_btree_end_iter;
        zix_btree_find(t, zix_btree_get(its[0]), &a);
        zix_btree_find(t, zix_btree_get(its[(n <= 8 ? n : 8) - 1]), &b);
        its[m++] = a;
        its[m++] = b;
      }
      bprintf(&ob, "e:");
      for (size_t a = 0; a < m; ++a) {
        for (size_t b = 0; b < m; ++b) {
          bprintf(&ob, "%d", zix_btree_iter_equals(its[a], its[b]) ? 1 : 0);
        }
      }
      bprintf(&ob, " ");
      bprintf(&sb, "- ");
      break;
    }
    default:
      bprintf(&ob, "?%s ", op);
      bprintf(&sb, "? ");
      break;
    }
    put_trace(&va, &sb);
  }

  // zix_btree_free: destroy every remaining element once
  const size_t remaining = zix_btree_size(t);
  zix_btree_free(t, destroy_cb, &destroy_ud);
  put_destroyed(&ob, &sb, "F", remaining);
  put_trace(&va, &sb);
  long still = 0;
  for (size_t j = 0; j < n_arena; ++j) {
    still += arena[j]->stored;
  }
  bprintf(&ob, "ud=%s roles=%s live=%ld stored=%ld", ud_bad ? "BAD" : "ok", roles_bad ? "BAD" : "ok", va.live, still);
  out_printf("%s || %s\n", ob.p ? ob.p : "", sb.p ? sb.p : "");

  for (size_t j = 0; j < n_arena; ++j) {
    free(arena[j]);
  }
  free(arena);
  free(script);
  free(ob.p);
  free(sb.p);
  free(va.trace.p);
  free(va.blocks);
  free(tags.buf);
  free(shape.buf);
  free(cmplog.buf);
  cmplog.buf = NULL;
  cmplog.cap = 0;
  free(dvec);
  dvec = NULL;
  dcap = 0;
}

int main(void)
{
  char*  line = NULL;
  size_t cap = 0;
  while (vgetline(&line, &cap)) {
    fflush(stdout);
    const pid_t pid = fork();
    if (pid == 0) {
      alarm(120);
      const int max = (int)strlen(line) / 2 + 4;
      char**    tok = (char**)malloc((size_t)max * sizeof(char*));
      int       n = vsplit(line, tok, max);
      int       first = 1;
      if (n >= 1 && (unsigned)atoi(tok[0]) != (unsigned)ZIX_BTREE_PAGE_SIZE) {
        out_printf("WRONG-PAGE-SIZE\n");
      } else if (n == 2 && !strcmp(tok[1], "cfg")) {
        run_cfg();
      } else {
        verbose = (n >= 2 && strchr(tok[1], 'v')) ? 1 : 0;
        tracing = (n >= 2 && strchr(tok[1], 'a')) ? 1 : 0;
        cmp_style = (n >= 2 && strchr(tok[1], 'd')) ? 1 : (n >= 2 && strchr(tok[1], 'x')) ? 2 : 0;
        first = n >= 2 ? 2 : n; // tok[1] = flags ('-', 'v', '2', 'v2')
        run_case(tok + first, n - first);
      }
      free(tok);
      free(line);
      if (LEAK_CHECK()) {
        fputs("CRASH leak\n", stdout);
      } else {
        fputs(out_line ? out_line : "CRASH no-output\n", stdout);
      }
      fflush(stdout);
      _exit(0); // _exit: do not rewind the shared stdin offset
    }
    int status = 0;
    waitpid(pid, &status, 0);
    if (!(WIFEXITED(status) && WEXITSTATUS(status) == 0)) {
      printf("CRASH\n");
    }
  }
  free(line);
  return 0;
}
