// C13, second driver: built at -O2 without sanitizers, for what only an optimised caller or a huge buffer shows.
//
//   O <fn> <seed> <hex> <off> B <idx>:<hex>   the buffer is hashed, one block is replaced IN PLACE, the same call
//        (same seed, pointer, length) is made again, the block is restored and the call made a third time, all in
//        one function with nothing opaque in between.  The declarations in zix/digest.h tell the compiler what it
//        may assume about these calls: if they promise more than the functions keep (e.g. "does not read memory"),
//        the optimiser reuses the first result and the digest no longer depends on the bytes given.
//        line:  h=<first digest> rel <same|diff>        (h=UNSTABLE if the third call differs from the first)
//   G <fn>   a buffer of 2^32 + 24 bytes (anonymous zero pages, MAP_NORESERVE), all zero, then with the byte at
//        offset 2^31 set: the digests must differ (block sensitivity holds at every length); for d64/d32 the
//        aligned variant on the same buffer must give the same values.
//        line:  huge diff=<0|1> eq=<0|1>     or   huge unavailable   (the mapping could not be made)
#include "vcommon.h"

#include <zix/digest.h>

#include <errno.h>
#include <inttypes.h>
#include <sys/mman.h>

_Static_assert(sizeof(size_t) == 8, "64-bit size_t expected");

#define REHASH(F, T)                                   \
  do {                                                 \
    const T a = F((T)seed, buf, len);                  \
    memcpy(buf + pos, nb, ln);                         \
    const T b = F((T)seed, buf, len);                  \
    memcpy(buf + pos, old, ln);                        \
    const T c = F((T)seed, buf, len);                  \
    h1        = (uint64_t)a;                           \
    h2        = (uint64_t)b;                           \
    h3        = (uint64_t)c;                           \
  } while (0)

static int rehash(const char* fn, uint64_t seed, unsigned char* buf, size_t len, size_t pos, const unsigned char* nb,
                  size_t ln)
{
  unsigned char old[8];
  uint64_t      h1 = 0, h2 = 0, h3 = 0;
  memcpy(old, buf + pos, ln);
  if (!strcmp(fn, "d64")) {
    REHASH(zix_digest64, uint64_t);
  } else if (!strcmp(fn, "d32")) {
    REHASH(zix_digest32, uint32_t);
  } else if (!strcmp(fn, "dn")) {
    REHASH(zix_digest, size_t);
  } else if (!strcmp(fn, "a64")) {
    REHASH(zix_digest64_aligned, uint64_t);
  } else if (!strcmp(fn, "a32")) {
    REHASH(zix_digest32_aligned, uint32_t);
  } else if (!strcmp(fn, "an")) {
    REHASH(zix_digest_aligned, size_t);
  } else {
    return 0;
  }
  if (h3 != h1) {
    fputs("h=UNSTABLE", stdout);
  } else {
    printf("h=%" PRIu64, h1);
  }
  printf(" rel %s\n", h1 == h2 ? "same" : "diff");
  return 1;
}

static void huge(const char* fn)
{
  const size_t   len = ((size_t)1 << 32) + 24U;
  unsigned char* buf = (unsigned char*)mmap(NULL, len + 4096U, PROT_READ | PROT_WRITE,
                                            MAP_PRIVATE | MAP_ANONYMOUS | MAP_NORESERVE, -1, 0);
  if (buf == (unsigned char*)MAP_FAILED) {
    puts("huge unavailable");
    return;
  }
  uint64_t a = 0, b = 0, aa = 0, ab = 0;
  int      has_aligned = 1;
  for (int pass = 0; pass < 2; ++pass) {
    uint64_t* const h  = pass ? &b : &a;
    uint64_t* const ha = pass ? &ab : &aa;
    if (pass) {
      buf[(size_t)1 << 31] = 0x5A;
    }
    if (!strcmp(fn, "d64")) {
      *h  = zix_digest64(7U, buf, len);
      *ha = zix_digest64_aligned(7U, buf, len);
    } else if (!strcmp(fn, "d32")) {
      *h  = zix_digest32(7U, buf, len);
      *ha = zix_digest32_aligned(7U, buf, len);
    } else {
      *h          = zix_digest(7U, buf, len);
      *ha         = *h;
      has_aligned = 0;
    }
  }
  (void)has_aligned;
  printf("huge diff=%d eq=%d\n", a != b, a == aa && b == ab);
  munmap(buf, len + 4096U);
}

int main(void)
{
  char*  line = NULL;
  size_t cap  = 0;
  char*  tok[8];
  while (vgetline(&line, &cap)) {
    const int n  = vsplit(line, tok, 8);
    int       ok = 0;
    if (n == 2 && !strcmp(tok[0], "G")) {
      huge(tok[1]);
      ok = 1;
    } else if (n == 7 && !strcmp(tok[0], "O") && !strcmp(tok[5], "B")) {
      unsigned char* bytes = NULL;
      unsigned char* nb    = NULL;
      const size_t   len   = vunhex(tok[3], &bytes);
      const uint64_t seed  = strtoull(tok[2], NULL, 10);
      const size_t   off   = (size_t)strtoull(tok[4], NULL, 10);
      const int      w     = (!strcmp(tok[1], "d32") || !strcmp(tok[1], "a32")) ? 4 : 8;
      char*          colon = strchr(tok[6], ':');
      if (colon && off < 8U) {
        *colon           = 0;
        const size_t pos = (size_t)strtoull(tok[6], NULL, 10) * (size_t)w;
        const size_t ln  = vunhex(colon + 1, &nb);
        if (ln && ln <= 8U && pos + ln <= len) {
          unsigned char* block = (unsigned char*)malloc(off + len + 8U);
          memcpy(block + off, bytes, len);
          ok = rehash(tok[1], seed, block + off, len, pos, nb, ln);
          free(block);
        }
      }
      free(nb);
      free(bytes);
    }
    if (!ok) {
      puts("bad-case");
    }
    fflush(stdout);
  }
  free(line);
  return 0;
}
