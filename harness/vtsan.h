// C04: our own implementation of the -fsanitize=thread call-outs (see vtsan.c)
#ifndef VTSAN_H
#define VTSAN_H
#include <stddef.h>
#include <stdint.h>
#include <stdio.h>

// where the shared objects are (everything else the call-outs see is dropped)
// buf_alloc = bytes actually allocated for the buffer, buf_logical = the ring's size (2^k): an access the code
// makes to [buf, buf+logical+slack) outside [buf, buf+alloc) is out of bounds: it is logged, NOT performed by
// verif_memcpy, and reported by vt_oob()
void vt_layout(void* ring, size_t ring_size, void* write_head, void* read_head, void* buf, size_t buf_alloc, size_t buf_logical);
int  vt_oob(void); // 1 if an out-of-bounds buffer access was seen since the last call (clears the flag)

// ---- trace mode: accesses are performed for real and logged
void vt_off(void);
void vt_trace_begin(void);
void vt_trace_end(FILE* out); // prints the canonical trace tokens, space separated; mode off afterwards

// ---- schedule mode: writer and reader are coroutines; the runtime decides who runs at every
// shared access and what an atomic load / a plain buffer read returns
typedef void (*VtFn)(void*);
typedef struct {
  const int* choices; // prefix of choices to replay (taken modulo the number of alternatives)
  int        nchoices;
  int*       taken; // out: choices taken (up to cap)
  int*       alts;  // out: number of alternatives at each choice point
  int        cap;
  int        ntaken;
  int        race;      // out: data race detected
  int        overrun;   // out: a call exceeded its step bound / global step limit
  long       steps;     // out: scheduling points passed
  char       why[160];  // out: first race / overrun description
} VtRun;
void vt_sched_run(VtFn writer, void* warg, VtFn reader, void* rarg, VtRun* run);
void vt_call_begin(long bound); // called by a coroutine before an API call: at most `bound` shared accesses
long vt_now(void);              // global step counter (time stamps for the oracle)
#endif
