// C03 implementation driver: operation histories on zix_hash with instrumented user callbacks,
// a scripted allocator and a per-call watchdog.
//
// case line:  <hf> <keyoff> <failscript> <op> <op> ...
//   hf         const | id | mod4 | mult | special
//   keyoff     offset of the 64-bit key inside a record (0, 8, 24)
//   failscript '-' or a string of 0/1: answer to the n-th allocation request made after
//              zix_hash_new (0 = return NULL); exhausted = succeed
//   ops        I<key>.<id> insert | P<key> plan_insert+record_at | Q<key> plan_insert_prehashed+record_at
//              | A<key>.<id> insert_at (latest plan) | F<key> find(+get) | G<key> find_record
//              | R<key> remove | E<key> find+erase | Z size | T iterate
// output line: <observable tokens> roles=<ok|BAD> || <structural tokens>
// Each case runs in a forked child; every API call is bracketed by a 2 s CPU-time watchdog: if it fires the child
// reports HANG for that call and the case ends there.
#include "vcommon.h"
#include "valloc.h"

#include <zix/allocator.h>
#include <zix/hash.h>
#include <zix/status.h>

#include <signal.h>
#include <stdbool.h>
#include <sys/time.h>
#include <sys/wait.h>
#include <unistd.h>

_Static_assert(sizeof(size_t) == 8, "64-bit size_t assumed (ZixHashCode)");

#define MAX_REC 4096

typedef struct {
  unsigned char* mem; // record storage, keyoff + 8 bytes
  uint64_t       key;
  bool           used;
  bool           stored; // the driver's own bookkeeping from the returned statuses
} Rec;

static Rec      recs[MAX_REC];
static size_t   keyoff;
static int      hf_kind;
static uint64_t callkey;       // the key object passed to find/remove/plan calls
static int      cur_rec = -1;  // id of the record passed to the current call, if any
static bool     cur_has_key;   // the current call received &callkey
static bool     roles_bad;

// growable output buffers (a constant hash function makes the callback logs quadratic)
static char*  obs;
static char*  str;
static char*  lg; // callback log of the current call
static size_t obs_n, str_n, lg_n;
static size_t obs_cap, str_cap, lg_cap;
static int    out_fd = 1;

static void reserve(char** buf, size_t* cap, size_t need)
{
  if (need + 1U > *cap) {
    size_t c = *cap ? *cap : 4096U;
    while (c < need + 1U) {
      c *= 2U;
    }
    char* nb = (char*)realloc(*buf, c);
    if (!nb) {
      fputs("drv_c03: out of memory\n", stderr);
      _exit(3);
    }
    if (!*cap) {
      nb[0] = 0;
    }
    *buf = nb;
    *cap = c;
  }
}

#define APPEND(buf, n, ...)                                                   \
  do {                                                                        \
    const int need_ = snprintf(NULL, 0, __VA_ARGS__);                         \
    reserve(&(buf), &buf##_cap, (n) + (size_t)need_ + 1U);                    \
    (n) += (size_t)snprintf((buf) + (n), buf##_cap - (n), __VA_ARGS__);       \
  } while (0)

// ---------------------------------------------------------------- pointer provenance
// kind: 'R' record, 'K' key of record, 'A' the call's key object, '?' anything else
typedef struct {
  char kind;
  int  id;
} Prov;

static Prov classify(const void* p, bool prefer_record)
{
  Prov r = {'?', -1};
  if (p == (const void*)&callkey) {
    r.kind = 'A';
    return r;
  }
  for (int i = 0; i < MAX_REC; ++i) {
    if (!recs[i].used) {
      continue;
    }
    const unsigned char* b = recs[i].mem;
    if (prefer_record && p == (const void*)b) {
      r.kind = 'R';
      r.id   = i;
      return r;
    }
    if (p == (const void*)(b + keyoff)) {
      r.kind = 'K';
      r.id   = i;
      return r;
    }
    if (p == (const void*)b) {
      r.kind = 'R';
      r.id   = i;
      return r;
    }
  }
  return r;
}

static void put_prov(Prov p)
{
  if (p.kind == 'A' || p.kind == '?') {
    APPEND(lg, lg_n, "%c", p.kind);
  } else {
    APPEND(lg, lg_n, "%c%d", p.kind, p.id);
  }
}

static bool rec_allowed(int id) { return id >= 0 && (recs[id].stored || id == cur_rec); }

static bool is_call_key(Prov p)
{
  return (p.kind == 'A' && cur_has_key) || (p.kind == 'K' && p.id == cur_rec && cur_rec >= 0);
}

static void sep(void)
{
  if (lg_n) {
    APPEND(lg, lg_n, ";");
  }
}

// ---------------------------------------------------------------- user callbacks
static const void* key_func(const void* record)
{
  Prov p = classify(record, true);
  sep();
  APPEND(lg, lg_n, "k(");
  put_prov(p);
  APPEND(lg, lg_n, ")");
  if (!(p.kind == 'R' && rec_allowed(p.id))) {
    roles_bad = true;
  }
  return (const unsigned char*)record + keyoff;
}

static uint64_t read_key(const void* k)
{
  uint64_t v;
  memcpy(&v, k, sizeof(v));
  return v;
}

static size_t hash_func(const void* key)
{
  Prov p = classify(key, false);
  sep();
  APPEND(lg, lg_n, "h(");
  put_prov(p);
  APPEND(lg, lg_n, ")");
  if (!is_call_key(p)) {
    roles_bad = true;
  }
  const uint64_t k = read_key(key);
  switch (hf_kind) {
  case 0: return 7U;
  case 1: return (size_t)k;
  case 2: return (size_t)(k % 4U);
  case 3: return (size_t)((k * 0x9E3779B97F4A7C15ULL) >> 29U);
  default: return (k % 3U == 0U) ? 0U : (k % 3U == 1U) ? 0xDEADU : (size_t)k;
  }
}

static bool equal_func(const void* a, const void* b)
{
  Prov pa = classify(a, false);
  Prov pb = classify(b, false);
  sep();
  APPEND(lg, lg_n, "e(");
  put_prov(pa);
  APPEND(lg, lg_n, ",");
  put_prov(pb);
  APPEND(lg, lg_n, ")");
  // documented roles: a = key of a record in the table, b = the key of the call
  // (or, while re-inserting during a resize, the key of another record of the table)
  const bool a_ok = pa.kind == 'K' && rec_allowed(pa.id);
  const bool b_ok = is_call_key(pb) || (pb.kind == 'K' && rec_allowed(pb.id));
  if (!a_ok || !b_ok) {
    roles_bad = true;
  }
  return read_key(a) == read_key(b);
}

// The search data of plan_insert_prehashed is NOT a key: it is an object only the predicate understands
// (here a box holding a pointer to the call's key).  The table may hand it to the predicate and to
// nothing else; a hash or equality callback that receives the box itself is logged as '?' (roles=BAD).
typedef struct {
  uint64_t    not_a_key; // what a callback that mistakes the box for a key would read
  const void* key;
} SearchBox;

static SearchBox search_box;

static bool match_func(const void* key, const void* user_data)
{
  return equal_func(key, ((const SearchBox*)user_data)->key);
}

// ---------------------------------------------------------------- scripted allocator
// harness/valloc.h does the tracking (header in front of every block: serial number, plain/aligned
// magic, double-free / foreign-pointer / mismatched-entry detection, event trace); this wrapper
// only decides from the script which requests are refused.  A refused request consumes a serial.
typedef struct {
  Valloc      v; // must be first (its ZixAllocator is first)
  const char* script;
  size_t      pos;
  bool        armed;
} ScriptAlloc;

static bool script_refuses(ScriptAlloc* a)
{
  if (a->armed && a->script && a->script[a->pos] && a->script[a->pos++] == '0') {
    ++a->v.requests; // the refused request has a serial number, too
    ++a->v.failed;
    return true;
  }
  return false;
}

static void* sa_malloc(ZixAllocator* al, size_t size)
{
  return script_refuses((ScriptAlloc*)al) ? NULL : valloc_malloc(al, size);
}

static void* sa_calloc(ZixAllocator* al, size_t n, size_t size)
{
  return script_refuses((ScriptAlloc*)al) ? NULL : valloc_calloc(al, n, size);
}

static void* sa_realloc(ZixAllocator* al, void* p, size_t size)
{
  return script_refuses((ScriptAlloc*)al) ? NULL : valloc_realloc(al, p, size);
}

static void* sa_aligned_alloc(ZixAllocator* al, size_t alignment, size_t size)
{
  return script_refuses((ScriptAlloc*)al) ? NULL : valloc_aligned_alloc(al, alignment, size);
}

// ---------------------------------------------------------------- watchdog
static unsigned wd_seconds = 2;
static char     cur_op;

static void emit_line(const char* tail_obs)
{
  char*  line = (char*)malloc(obs_n + str_n + strlen(tail_obs) + 16U);
  size_t n    = 0;
  if (!line) {
    _exit(3);
  }
  memcpy(line + n, obs, obs_n);
  n += obs_n;
  n += (size_t)sprintf(line + n, "%s || ", tail_obs);
  memcpy(line + n, str, str_n);
  n += str_n;
  while (n && line[n - 1] == ' ') {
    --n; // no trailing blanks (a HANG leaves the separator of the unfinished call)
  }
  line[n++] = '\n';
  size_t off = 0;
  while (off < n) {
    ssize_t w = write(out_fd, line + off, n - off);
    if (w <= 0) {
      break;
    }
    off += (size_t)w;
  }
}

static void on_alarm(int sig)
{
  (void)sig;
  char tail[32];
  snprintf(tail, sizeof(tail), "%c=HANG", cur_op);
  emit_line(tail);
  _exit(0);
}

// The watchdog counts the CPU time of the call (a probe loop that never ends burns CPU; a loaded
// machine that deschedules the driver does not trip it); a generous wall-clock alarm backs it up.
static void wd_arm(void)
{
  struct itimerval it = {{0, 0}, {(time_t)wd_seconds, 0}};
  setitimer(ITIMER_VIRTUAL, &it, NULL);
  alarm(30U * wd_seconds);
}

static void wd_disarm(void)
{
  struct itimerval it = {{0, 0}, {0, 0}};
  setitimer(ITIMER_VIRTUAL, &it, NULL);
  alarm(0);
}

#define CALL(stmt) \
  do {             \
    wd_arm();      \
    stmt;          \
    wd_disarm();   \
  } while (0)

// ---------------------------------------------------------------- helpers
static const char* st_name(ZixStatus st)
{
  switch (st) {
  case ZIX_STATUS_SUCCESS: return "SUCCESS";
  case ZIX_STATUS_EXISTS: return "EXISTS";
  case ZIX_STATUS_NO_MEM: return "NO_MEM";
  case ZIX_STATUS_NOT_FOUND: return "NOT_FOUND";
  default: return "OTHER";
  }
}

static int id_of_record(const void* p)
{
  if (!p) {
    return -1;
  }
  for (int i = 0; i < MAX_REC; ++i) {
    if (recs[i].used && recs[i].mem == (const unsigned char*)p) {
      return i;
    }
  }
  return -2;
}

static const char* id_text(int id, const char* nullname)
{
  static char tmp[32];
  if (id == -1) {
    return nullname;
  }
  if (id == -2) {
    return "?";
  }
  snprintf(tmp, sizeof(tmp), "%d", id);
  return tmp;
}

#define put_id(buf, nptr, id, nullname) APPEND(buf, *(nptr), "%s", id_text((id), (nullname)))

static Rec* get_rec(int id, uint64_t key)
{
  if (id < 0 || id >= MAX_REC) {
    return NULL;
  }
  Rec* r = &recs[id];
  if (!r->used) {
    r->mem = (unsigned char*)calloc(1, keyoff + 8U); // exact size: ASan guards both ends
    r->key = key;
    // bytes before the key look like the key of a neighbouring record
    const uint64_t decoy = key ^ 1U;
    if (keyoff >= 8U) {
      memcpy(r->mem, &decoy, 8U);
    }
    memcpy(r->mem + keyoff, &key, 8U);
    r->used = true;
  }
  return r;
}

static int cmp_int(const void* a, const void* b)
{
  return (*(const int*)a > *(const int*)b) - (*(const int*)a < *(const int*)b);
}

static void begin_call(char op, int rec_id, bool has_key)
{
  cur_op      = op;
  cur_rec     = rec_id;
  cur_has_key = has_key;
  reserve(&lg, &lg_cap, 16U);
  lg_n  = 0;
  lg[0] = 0;
}

// the allocator trace of the whole case goes to the structural part: mem=A0:p:64,A1:p:64,...,F1:p,F0:p
static ScriptAlloc* cur_sa;
static char**       cur_trace;

static void finish_mem(void)
{
  fflush(cur_sa->v.trace);
  if (str_n) {
    APPEND(str, str_n, " ");
  }
  APPEND(str, str_n, "mem=");
  const char* t = *cur_trace;
  size_t      n = t ? strlen(t) : 0U;
  while (n && t[n - 1] == ' ') {
    --n;
  }
  if (!n) {
    APPEND(str, str_n, "-");
  }
  for (size_t i = 0; i < n; ++i) {
    APPEND(str, str_n, "%c", t[i] == ' ' ? ',' : t[i]);
  }
}

// ---------------------------------------------------------------- one case (in the child)
static void run_case(char** tok, int n)
{
  const char* hfs[] = {"const", "id", "mod4", "mult", "special"};
  hf_kind           = -1;
  for (int i = 0; i < 5; ++i) {
    if (!strcmp(tok[0], hfs[i])) {
      hf_kind = i;
    }
  }
  keyoff = (size_t)strtoul(tok[1], NULL, 10);
  reserve(&obs, &obs_cap, 16U);
  reserve(&str, &str_cap, 16U);
  reserve(&lg, &lg_cap, 16U);
  if (hf_kind < 0 || n < 3 || keyoff > 64U) {
    emit_line("bad-case");
    return;
  }
  // fail script: "-" | bits (answers to the requests made after zix_hash_new) | "n" bits (answers from the
  // very first request on, so that zix_hash_new itself can be refused its first or second request)
  static ScriptAlloc sa;
  valloc_init(&sa.v, VALLOC_NONE, 0U);
  sa.v.base.malloc        = sa_malloc;
  sa.v.base.calloc        = sa_calloc;
  sa.v.base.realloc       = sa_realloc;
  sa.v.base.aligned_alloc = sa_aligned_alloc;
  const bool from_new     = tok[2][0] == 'n';
  sa.script               = !strcmp(tok[2], "-") ? NULL : tok[2] + (from_new ? 1 : 0);
  sa.pos                  = 0U;
  sa.armed                = from_new;
  char*  mem_trace = NULL;
  size_t mem_len   = 0U;
  sa.v.trace       = open_memstream(&mem_trace, &mem_len);
  cur_sa           = &sa;
  cur_trace        = &mem_trace;

  struct sigaction act;
  memset(&act, 0, sizeof(act));
  act.sa_handler = on_alarm;
  sigaction(SIGALRM, &act, NULL);
  sigaction(SIGVTALRM, &act, NULL);

  ZixHash* hash = zix_hash_new(&sa.v.base, key_func, hash_func, equal_func);
  if (!hash) {
    finish_mem();
    emit_line(sa.v.outstanding ? "new-failed LEAK" : sa.v.errors ? "new-failed MEMERR" : "new-failed");
    return;
  }
  sa.armed = true;

  bool              have_plan = false;
  ZixHashInsertPlan plan      = {0U, 0U};
  uint64_t          plan_key  = 0U;

  for (int t = 3; t < n; ++t) {
    const char     op  = tok[t][0];
    char*          end = NULL;
    const uint64_t key = (op == 'Z' || op == 'T') ? 0U : strtoull(tok[t] + 1, &end, 10);
    int            id  = -1;
    if ((op == 'I' || op == 'A') && end && *end == '.') {
      id = (int)strtol(end + 1, NULL, 10);
    }
    if (obs_n) {
      APPEND(obs, obs_n, " ");
    }
    if (str_n) {
      APPEND(str, str_n, " ");
    }
    switch (op) {
    case 'I': {
      Rec* r = get_rec(id, key);
      if (!r) {
        APPEND(obs, obs_n, "I=bad-id");
        APPEND(str, str_n, "-");
        break;
      }
      begin_call(op, id, false);
      ZixStatus st;
      CALL(st = zix_hash_insert(hash, r->mem));
      if (st == ZIX_STATUS_SUCCESS) {
        r->stored = true;
        have_plan = false;
      }
      APPEND(obs, obs_n, "I=%s", st_name(st));
      APPEND(str, str_n, "[%s]", lg);
      break;
    }
    case 'P':
    case 'Q': {
      callkey = key;
      begin_call(op, -1, true);
      if (op == 'P') {
        CALL(plan = zix_hash_plan_insert(hash, &callkey));
      } else {
        // the code is computed by the caller (not a callback of the table)
        const size_t saved = lg_n;
        const bool   sb    = roles_bad;
        const size_t code  = hash_func(&callkey);
        lg_n               = saved;
        lg[lg_n]           = 0;
        roles_bad          = sb;
        search_box.not_a_key = 0x5EA2C4B0C5ULL;
        search_box.key       = &callkey;
        CALL(plan = zix_hash_plan_insert_prehashed(hash, code, match_func, &search_box));
      }
      have_plan = true;
      plan_key  = key;
      const void* at;
      CALL(at = zix_hash_record_at(hash, plan));
      APPEND(obs, obs_n, "%c=", op);
      put_id(obs, &obs_n, id_of_record(at), "null");
      APPEND(str, str_n, "%zu[%s]", (size_t)plan.index, lg);
      break;
    }
    case 'A': {
      Rec* r = get_rec(id, key);
      if (!r) {
        APPEND(obs, obs_n, "A=bad-id");
        APPEND(str, str_n, "-");
        break;
      }
      if (!have_plan || plan_key != key) {
        APPEND(obs, obs_n, "A=skip");
        APPEND(str, str_n, "-");
        break;
      }
      begin_call(op, id, false);
      ZixStatus st;
      CALL(st = zix_hash_insert_at(hash, plan, r->mem));
      if (st == ZIX_STATUS_SUCCESS) {
        r->stored = true;
        have_plan = false;
      }
      APPEND(obs, obs_n, "A=%s", st_name(st));
      APPEND(str, str_n, "[%s]", lg);
      break;
    }
    case 'F': {
      callkey = key;
      begin_call(op, -1, true);
      ZixHashIter i;
      CALL(i = zix_hash_find(hash, &callkey));
      APPEND(obs, obs_n, "F=");
      if (i == zix_hash_end(hash)) {
        APPEND(obs, obs_n, "end");
      } else {
        const void* p;
        CALL(p = zix_hash_get(hash, i));
        put_id(obs, &obs_n, id_of_record(p), "null");
      }
      APPEND(str, str_n, "%zu[%s]", (size_t)i, lg);
      break;
    }
    case 'G': {
      callkey = key;
      begin_call(op, -1, true);
      const void* p;
      CALL(p = zix_hash_find_record(hash, &callkey));
      APPEND(obs, obs_n, "G=");
      put_id(obs, &obs_n, id_of_record(p), "null");
      APPEND(str, str_n, "[%s]", lg);
      break;
    }
    case 'R': {
      callkey = key;
      begin_call(op, -1, true);
      void*     removed = NULL;
      ZixStatus st;
      CALL(st = zix_hash_remove(hash, &callkey, &removed));
      const int rid = id_of_record(removed);
      if (st != ZIX_STATUS_NOT_FOUND) {
        have_plan = false;
      }
      if (rid >= 0) {
        recs[rid].stored = false;
      }
      APPEND(obs, obs_n, "R=%s:", st_name(st));
      put_id(obs, &obs_n, rid, "null");
      APPEND(str, str_n, "[%s]", lg);
      break;
    }
    case 'X': {
      // the in/out idiom: the key object and the out-parameter are the same 8 bytes
      callkey = key;
      begin_call(op, -1, true);
      ZixStatus st;
      CALL(st = zix_hash_remove(hash, &callkey, (ZixHashRecord**)(void*)&callkey));
      // NOT_FOUND leaves the out-parameter (here: the key object) alone or nulls it: only a record pointer counts
      void* removed = (st == ZIX_STATUS_NOT_FOUND) ? NULL : (void*)(uintptr_t)callkey;
      const int rid = id_of_record(removed);
      if (st != ZIX_STATUS_NOT_FOUND) {
        have_plan = false;
      }
      if (rid >= 0) {
        recs[rid].stored = false;
      }
      APPEND(obs, obs_n, "X=%s:", st_name(st));
      put_id(obs, &obs_n, rid, "null");
      APPEND(str, str_n, "[%s]", lg);
      break;
    }
    case 'E': {
      callkey = key;
      begin_call(op, -1, true);
      ZixHashIter i;
      CALL(i = zix_hash_find(hash, &callkey));
      if (i == zix_hash_end(hash)) {
        APPEND(obs, obs_n, "E=NOT_FOUND:null");
      } else {
        void*     removed = NULL;
        ZixStatus st;
        CALL(st = zix_hash_erase(hash, i, &removed));
        const int rid = id_of_record(removed);
        have_plan     = false;
        if (rid >= 0) {
          recs[rid].stored = false;
        }
        APPEND(obs, obs_n, "E=%s:", st_name(st));
        put_id(obs, &obs_n, rid, "null");
      }
      APPEND(str, str_n, "%zu[%s]", (size_t)i, lg);
      break;
    }
    case 'Z': {
      begin_call(op, -1, false);
      size_t z;
      CALL(z = zix_hash_size(hash));
      APPEND(obs, obs_n, "Z=%zu", z);
      APPEND(str, str_n, "-");
      break;
    }
    case 'T': {
      begin_call(op, -1, false);
      static int ids[MAX_REC + 8];
      int        cnt   = 0;
      bool       first = true;
      wd_arm();
      for (ZixHashIter i = zix_hash_begin(hash); i != zix_hash_end(hash); i = zix_hash_next(hash, i)) {
        const int rid = id_of_record(zix_hash_get(hash, i));
        if (cnt < MAX_REC) {
          ids[cnt++] = rid;
        }
        APPEND(str, str_n, "%s%zu:", first ? "" : ",", (size_t)i);
        put_id(str, &str_n, rid, "null");
        first = false;
      }
      wd_disarm();
      if (first) {
        APPEND(str, str_n, "-");
      }
      qsort(ids, (size_t)cnt, sizeof(int), cmp_int);
      APPEND(obs, obs_n, "T=");
      if (!cnt) {
        APPEND(obs, obs_n, "-");
      }
      for (int k = 0; k < cnt; ++k) {
        if (k) {
          APPEND(obs, obs_n, ",");
        }
        put_id(obs, &obs_n, ids[k], "null");
      }
      break;
    }
    default:
      APPEND(obs, obs_n, "bad-op");
      APPEND(str, str_n, "-");
    }
  }

  sa.armed = false;
  zix_hash_free(hash);
  finish_mem();
  for (int i = 0; i < MAX_REC; ++i) {
    if (recs[i].used) {
      free(recs[i].mem);
    }
  }
  char tail[64];
  snprintf(tail, sizeof(tail), "%sroles=%s%s%s", obs_n ? " " : "", roles_bad ? "BAD" : "ok",
           sa.v.outstanding ? " LEAK" : "", sa.v.errors ? " MEMERR" : "");
  emit_line(tail);
}

int main(void)
{
  const char* wd = getenv("C03_WD_SECONDS");
  if (wd && atoi(wd) > 0) {
    wd_seconds = (unsigned)atoi(wd);
  }
  char*        line = NULL;
  size_t       cap  = 0;
  static char* tok[65536];
  while (vgetline(&line, &cap)) {
    int n = vsplit(line, tok, 65536);
    if (n < 3) {
      puts("bad-case");
      fflush(stdout);
      continue;
    }
    int fds[2];
    if (pipe(fds)) {
      puts("pipe-failed");
      continue;
    }
    fflush(stdout);
    pid_t pid = fork();
    if (pid == 0) {
      close(fds[0]);
      out_fd = fds[1];
      run_case(tok, n);
      close(fds[1]);
      _exit(0); // leak checking is done by the allocator's own counter (reported as LEAK)
    }
    close(fds[1]);
    static char*  buf;
    static size_t buf_cap;
    size_t        got = 0;
    for (;;) {
      reserve(&buf, &buf_cap, got + 65536U);
      ssize_t r = read(fds[0], buf + got, buf_cap - 1U - got);
      if (r <= 0) {
        break;
      }
      got += (size_t)r;
    }
    close(fds[0]);
    int status = 0;
    waitpid(pid, &status, 0);
    buf[got] = 0;
    if (got && buf[got - 1] == '\n') {
      buf[got - 1] = 0;
    }
    if (WIFEXITED(status) && WEXITSTATUS(status) == 0 && got) {
      puts(buf);
    } else {
      // sanitizer report, assertion failure or signal inside the library
      printf("CRASH status=%d || %s\n", WIFEXITED(status) ? WEXITSTATUS(status) : 1000 + WTERMSIG(status),
             "-");
    }
    fflush(stdout);
  }
  free(line);
  return 0;
}
