// C11 implementation driver: zix_path_lexically_normal.
// case = hex of the path string ("-" = empty).  The input lives in an exact-size heap block
// (bytes + NUL) so ASan sees any over-read; the result is allocated through a tracking
// ZixAllocator that hands out exact-size blocks (ASan sees any overrun of the result buffer)
// and records the request; the result is copied (strlen + memcpy) and freed.
// output:  t=<hex of result>     |  NULL      (+ allocation counters only when anomalous)
#include "vcommon.h"

#include <zix/allocator.h>
#include <zix/path.h>

static size_t n_alloc, alloc_bytes, n_free;

static void* t_malloc(ZixAllocator* a, size_t size) { (void)a; ++n_alloc; alloc_bytes += size; return malloc(size); }
static void* t_calloc(ZixAllocator* a, size_t nmemb, size_t size)
{
  (void)a;
  ++n_alloc;
  alloc_bytes += nmemb * size;
  return calloc(nmemb, size);
}
static void* t_realloc(ZixAllocator* a, void* p, size_t size) { (void)a; ++n_alloc; alloc_bytes += size; return realloc(p, size); }
static void  t_free(ZixAllocator* a, void* p) { (void)a; if (p) { ++n_free; } free(p); }
static void* t_aligned_alloc(ZixAllocator* a, size_t al, size_t size) { (void)a; ++n_alloc; alloc_bytes += size; return aligned_alloc(al, size); }
static void  t_aligned_free(ZixAllocator* a, void* p) { (void)a; if (p) { ++n_free; } free(p); }

int main(void)
{
  ZixAllocator alloc = {t_malloc, t_calloc, t_realloc, t_free, t_aligned_alloc, t_aligned_free};
  char*        line  = NULL;
  size_t       cap   = 0;
  while (vgetline(&line, &cap)) {
    unsigned char* raw = NULL;
    const size_t   len = vunhex(line, &raw);
    char*          in  = (char*)malloc(len + 1U); // exact size: bytes + NUL
    memcpy(in, raw, len);
    in[len] = 0;
    free(raw);
    if (strlen(in) != len) { // embedded NUL: not a path string
      puts("bad-case");
      fflush(stdout);
      free(in);
      continue;
    }
    n_alloc = alloc_bytes = n_free = 0;
    char* res = zix_path_lexically_normal(&alloc, in);
    if (!res) {
      puts("NULL");
    } else {
      const size_t rl   = strlen(res);
      char*        copy = (char*)malloc(rl + 1U);
      memcpy(copy, res, rl + 1U);
      zix_free(&alloc, res);
      fputs("t=", stdout);
      vputhex(stdout, (const unsigned char*)copy, rl);
      // one allocation request, released once; the block must hold the result and its NUL
      if (n_alloc != 1 || n_free != 1 || alloc_bytes < rl + 1U) {
        printf(" alloc=%zu", alloc_bytes);
        printf(" nalloc=%zu nfree=%zu", n_alloc, n_free);
      }
      fputc('\n', stdout);
      free(copy);
    }
    free(in);
    fflush(stdout); // keep the output aligned with the cases if a later case aborts under ASan
  }
  free(line);
  return 0;
}
