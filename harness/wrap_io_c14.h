// C14: scripted system-call wrappers (see wrap_io_c14.c)
#ifndef WRAP_IO_C14_H
#define WRAP_IO_C14_H
#include <stddef.h>

#define VW_MAX_SCRIPT 256
#define VW_LOG_SIZE 65536
#define VW_KEEP_BLKSIZE (-999999L)

typedef struct {
  char kind; // 'F' full, 'S' short count, 'E' error
  int  val;
} VwOutcome;

extern int       vw_active;
extern VwOutcome vw_script[VW_MAX_SCRIPT];
extern int       vw_script_len, vw_script_pos;
extern int       vw_src_fd, vw_dst_fd;
extern long      vw_b1, vw_b2;
extern int       vw_ino_collide; // the second descriptor fstat'd reports the first one's st_ino on another st_dev
extern char      vw_log[VW_LOG_SIZE];
extern size_t    vw_log_len;
extern int       vw_first_cfr_errno;

extern int       vw_mode, vw_open_count;
struct stat;
extern void (*vw_stat_hook)(const char* path, int ret, const struct stat* sb);

void vw_reset(void);
void vw_logs(const char* text);
void vw_logf(const char* name, long arg, long ret);
#endif
