// C05 implementation driver: single-threaded histories on a real ZixRing.
//   H <size> <op> ...   ops: w:<hex> r:<n> p:<n> s:<n> z b a:<hex> c   (see ocaml/drv_c05.ml)
//   K <size>            capacity of a new ring only
// Output per history: cap=<capacity> then per op <ret>:<bytes delivered>:<rs>/<ws>/<cap>, then
// drain=<bytes of a final full read>.  Source and destination buffers are exact-size heap blocks
// so that ASan sees any access beyond the request.
#include "vcommon.h"

#include <zix/allocator.h>
#include <zix/ring.h>
#include <zix/status.h>

#include <unistd.h>

#define FILL 0xEEU
#define JUNK 0xA5 // what the ring's buffer holds before anything is written (model: junk = 165)

// allocator that hands out blocks with known content, so that even histories that misuse the
// transaction API (and so expose never-written buffer bytes) are deterministic
static void*
fill_malloc(ZixAllocator* const a, const size_t size)
{
  (void)a;
  void* const p = malloc(size);
  if (p) {
    memset(p, JUNK, size);
  }
  return p;
}

static void
fill_free(ZixAllocator* const a, void* const p)
{
  (void)a;
  free(p);
}

static ZixAllocator fill_allocator = {fill_malloc, NULL, NULL, fill_free, NULL, NULL};

static void
put_status(const ZixStatus st)
{
  if (st == ZIX_STATUS_SUCCESS) {
    fputs("ok", stdout);
  } else if (st == ZIX_STATUS_NO_MEM) {
    fputs("nomem", stdout);
  } else {
    printf("st%d", (int)st);
  }
}

static void
put_spaces(const ZixRing* const ring)
{
  printf(":%u/%u/%u",
         zix_ring_read_space(ring),
         zix_ring_write_space(ring),
         zix_ring_capacity(ring));
}

// read or peek `n` bytes into a fresh block; prints "<ret>:<bytes>"
static void
do_read(ZixRing* const ring, const uint32_t n, const int peek)
{
  // a request far beyond the capacity gets a smaller block: it must fail without touching it
  const uint32_t cap   = zix_ring_capacity(ring);
  const size_t   alloc = (n > cap + 64U) ? (size_t)cap + 64U : (size_t)n;
  unsigned char* dst   = (unsigned char*)malloc(alloc ? alloc : 1U);
  memset(dst, (int)FILL, alloc ? alloc : 1U);
  const uint32_t ret = peek ? zix_ring_peek(ring, dst, n) : zix_ring_read(ring, dst, n);
  printf("%u:", ret);
  if (ret > alloc) {
    fputs("BADRET", stdout);
  } else if (ret) {
    vputhex(stdout, dst, ret);
  } else {
    int dirty = 0;
    for (size_t i = 0; i < alloc; ++i) {
      dirty |= (dst[i] != FILL);
    }
    fputs(dirty ? "DIRTY" : "-", stdout);
  }
  free(dst);
}

static void
run_history(const uint32_t size, char** const tok, const int n_ops)
{
  ZixRing* const ring = zix_ring_new(&fill_allocator, size);
  if (!ring) {
    puts("NULL");
    return;
  }

  ZixRingTransaction tx = {0U, 0U};
  printf("cap=%u", zix_ring_capacity(ring));
  for (int i = 0; i < n_ops; ++i) {
    const char* const t   = tok[i];
    const char* const arg = (t[0] && t[1] == ':') ? t + 2 : "";
    fputc(' ', stdout);
    switch (t[0]) {
    case 'w': {
      unsigned char* src = NULL;
      const size_t   len = vunhex(arg, &src);
      printf("%u:-", zix_ring_write(ring, src, (uint32_t)len));
      free(src);
      break;
    }
    case 'a': {
      unsigned char* src = NULL;
      const size_t   len = vunhex(arg, &src);
      put_status(zix_ring_amend_write(ring, &tx, src, (uint32_t)len));
      fputs(":-", stdout);
      free(src);
      break;
    }
    case 'W':
    case 'A': {
      // a request of more bytes than the whole buffer, from a source block of capacity + 64 bytes only: it must be
      // refused without being read (ASan reports any access beyond the block)
      const uint32_t n   = (uint32_t)strtoul(arg, NULL, 10);
      const size_t   len = (size_t)zix_ring_capacity(ring) + 64U;
      unsigned char* src = (unsigned char*)malloc(len);
      memset(src, 0x5A, len);
      if (n <= zix_ring_capacity(ring)) {
        fputs("?", stdout);
      } else if (t[0] == 'W') {
        printf("%u:-", zix_ring_write(ring, src, n));
      } else {
        put_status(zix_ring_amend_write(ring, &tx, src, n));
        fputs(":-", stdout);
      }
      free(src);
      break;
    }
    case 'm':
      (void)zix_ring_mlock(ring); // status depends on RLIMIT_MEMLOCK: not compared
      fputs(".:-", stdout);
      break;
    case 'r':
      do_read(ring, (uint32_t)strtoul(arg, NULL, 10), 0);
      break;
    case 'p':
      do_read(ring, (uint32_t)strtoul(arg, NULL, 10), 1);
      break;
    case 's':
      printf("%u:-", zix_ring_skip(ring, (uint32_t)strtoul(arg, NULL, 10)));
      break;
    case 'z':
      zix_ring_reset(ring);
      fputs(".:-", stdout);
      break;
    case 'b':
      tx = zix_ring_begin_write(ring);
      fputs(".:-", stdout);
      break;
    case 'c':
      put_status(zix_ring_commit_write(ring, &tx));
      fputs(":-", stdout);
      break;
    default:
      fputs("?", stdout);
    }
    put_spaces(ring);
  }

  // final drain
  const uint32_t rs  = zix_ring_read_space(ring);
  const uint32_t cap = zix_ring_capacity(ring);
  fputs(" drain=", stdout);
  if (rs > cap) {
    fputs("BADSPACE", stdout);
  } else {
    unsigned char* dst = (unsigned char*)malloc(rs ? rs : 1U);
    const uint32_t ret = zix_ring_read(ring, dst, rs);
    if (ret != rs) {
      fputs("BADRET", stdout);
    } else {
      vputhex(stdout, dst, ret);
    }
    free(dst);
  }
  fputc('\n', stdout);
  zix_ring_free(ring);
}

int
main(void)
{
  char*  line = NULL;
  size_t cap  = 0;
  char** tok  = NULL;
  while (vgetline(&line, &cap)) {
    alarm(120);
    const size_t max = strlen(line) / 2U + 4U;
    tok              = (char**)realloc(tok, max * sizeof(char*));
    const int n      = vsplit(line, tok, (int)max);
    if (n >= 2 && !strcmp(tok[0], "H")) {
      run_history((uint32_t)strtoul(tok[1], NULL, 10), tok + 2, n - 2);
    } else if (n == 2 && !strcmp(tok[0], "K")) {
      ZixRing* const ring = zix_ring_new(NULL, (uint32_t)strtoul(tok[1], NULL, 10));
      if (ring) {
        printf("cap=%u\n", zix_ring_capacity(ring));
      } else {
        puts("NULL");
      }
      zix_ring_free(ring);
    } else {
      puts("?");
    }
    fflush(stdout);
  }
  free(tok);
  free(line);
  return 0;
}
