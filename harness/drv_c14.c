// C14 implementation driver: zix_copy_file on real temporary files with scripted system calls.
//   K <skind R|D|O|M> <src bytes> <dstate N|F|P|H|L|D> <dst bytes> <opt 0|1> <b1> <b2> <alloc A|N<e>> <errno0> <script>
//   X <len> <seed>                       real cross-filesystem copy /tmp -> /dev/shm (no faults)
// bytes: '-' | hex | @len:seed.  script: '-' | comma separated F / S<k> / E<errno>.
// output: st=<STATUS> dst=<absent|D|F:digest> src=<digest|-> fds=<delta> || <call trace>
#include "vcommon.h"
#include "wrap_io_c14.h"

#include <zix/allocator.h>
#include <zix/filesystem.h>
#include <zix/status.h>

#include <dirent.h>
#include <errno.h>
#include <fcntl.h>
#include <ftw.h>
#include <sys/stat.h>
#include <unistd.h>

static const char* const status_names[] = {
  "SUCCESS", "ERROR", "NO_MEM", "NOT_FOUND", "EXISTS", "BAD_ARG", "BAD_PERMS", "REACHED_END",
  "TIMEOUT", "OVERFLOW", "NOT_SUPPORTED", "UNAVAILABLE", "NO_SPACE", "MAX_LINKS"};

static const char*
status_name(const ZixStatus st)
{
  return ((unsigned)st < sizeof(status_names) / sizeof(status_names[0])) ? status_names[st] : "INVALID";
}

// ---- scripted tracking allocator (only aligned_alloc/aligned_free are expected)
typedef struct {
  ZixAllocator base;
  int          fail;      // answer NULL
  int          fail_errno;
  long         last_size;
} TrackAlloc;

static void* ta_malloc(ZixAllocator* a, size_t n) { (void)a; vw_logf("malloc", (long)n, 1); return malloc(n); }
static void* ta_calloc(ZixAllocator* a, size_t n, size_t s) { (void)a; vw_logf("calloc", (long)(n * s), 1); return calloc(n, s); }
static void* ta_realloc(ZixAllocator* a, void* p, size_t n) { (void)a; vw_logf("realloc", (long)n, 1); return realloc(p, n); }
static void  ta_free(ZixAllocator* a, void* p) { (void)a; vw_logf("plainfree", p ? 1 : 0, 0); free(p); }

static void*
ta_aligned_alloc(ZixAllocator* a, size_t align, size_t size)
{
  TrackAlloc* t = (TrackAlloc*)a;
  t->last_size  = (long)size;
  if (t->fail) {
    vw_logf("alloc", (long)size, 0);
    if (t->fail_errno) {
      errno = t->fail_errno;
    }
    return NULL;
  }
  void*     p = NULL;
  const int e = errno;
  if (posix_memalign(&p, align, size ? size : 1)) {
    p = NULL;
  }
  errno = e;
  vw_logf("alloc", (long)size, p ? 1 : 0);
  return p;
}

static void
ta_aligned_free(ZixAllocator* a, void* p)
{
  (void)a;
  const int e = errno;
  vw_logf("free", p ? 1 : 0, 0);
  free(p);
  errno = e;
}

static TrackAlloc track = {{ta_malloc, ta_calloc, ta_realloc, ta_free, ta_aligned_alloc, ta_aligned_free}, 0, 0, 0};

// ---- helpers
static size_t
parse_bytes(const char* s, unsigned char** out)
{
  if (s[0] == '@') {
    const size_t   len  = strtoul(s + 1, NULL, 10);
    const char*    c    = strchr(s, ':');
    const unsigned seed = c ? (unsigned)strtoul(c + 1, NULL, 10) : 0U;
    *out                = (unsigned char*)malloc(len ? len : 1);
    for (size_t i = 0; i < len; ++i) {
      (*out)[i] = (unsigned char)((i * 131U + seed * 17U + i / 256U) & 255U);
    }
    return len;
  }
  return vunhex(s, out);
}

static void
put_digest(FILE* f, const unsigned char* p, size_t n)
{
  uint32_t h = 2166136261U;
  for (size_t i = 0; i < n; ++i) {
    h = (h ^ p[i]) * 16777619U;
  }
  fprintf(f, "b%zu:%08x", n, h);
}

static int
write_file(const char* path, const unsigned char* p, size_t n)
{
  FILE* f = fopen(path, "wb");
  if (!f) {
    return -1;
  }
  if (n && fwrite(p, 1, n, f) != n) {
    fclose(f);
    return -1;
  }
  return fclose(f);
}

static void
put_file_state(FILE* out, const char* path)
{
  struct stat sb;
  if (stat(path, &sb)) {
    fputs("absent", out);
  } else if (S_ISDIR(sb.st_mode)) {
    fputs("D", out);
  } else if (S_ISREG(sb.st_mode)) {
    unsigned char* buf = (unsigned char*)malloc((size_t)sb.st_size + 1);
    FILE*          f   = fopen(path, "rb");
    size_t         n   = f ? fread(buf, 1, (size_t)sb.st_size + 1, f) : 0;
    if (f) {
      fclose(f);
    }
    fputs("F:", out);
    put_digest(out, buf, n);
    free(buf);
  } else {
    fputs("other", out);
  }
}

static int
count_fds(void)
{
  int  n = 0;
  DIR* d = opendir("/proc/self/fd");
  if (d) {
    while (readdir(d)) {
      ++n;
    }
    closedir(d);
  }
  return n;
}

static int
rm_cb(const char* p, const struct stat* sb, int flag, struct FTW* ftw)
{
  (void)sb;
  (void)flag;
  (void)ftw;
  return remove(p);
}

static void
rm_rf(const char* path)
{
  nftw(path, rm_cb, 16, FTW_DEPTH | FTW_PHYS);
}

static int
parse_script(char* s)
{
  vw_script_len = 0;
  if (!strcmp(s, "-")) {
    return 0;
  }
  char* save = NULL;
  for (char* t = strtok_r(s, ",", &save); t && vw_script_len < VW_MAX_SCRIPT; t = strtok_r(NULL, ",", &save)) {
    VwOutcome o = {t[0], t[1] ? atoi(t + 1) : 0};
    if (o.kind != 'F' && o.kind != 'S' && o.kind != 'E') {
      return -1;
    }
    vw_script[vw_script_len++] = o;
  }
  return 0;
}

static char base[64];
static char shm[64];

static void
cleanup(void)
{
  if (base[0]) {
    rm_rf(base);
  }
  if (shm[0]) {
    rm_rf(shm);
  }
}

int
main(void)
{
  snprintf(base, sizeof(base), "%s/zixc14.XXXXXX", getenv("VERIF_SCRATCH") ? getenv("VERIF_SCRATCH") : "/tmp");
  if (!mkdtemp(base)) {
    perror("mkdtemp");
    return 2;
  }
  atexit(cleanup);

  char*  line = NULL;
  size_t cap  = 0;
  char*  tok[16];
  long   idx = 0;
  char   dir[128], srcp[192], dstp[192];
  {
    // the cases are read from a duplicate of descriptor 0, so that a case may close descriptor 0 itself
    FILE* const in = fdopen(dup(0), "r");
    if (in) {
      stdin = in;
    }
  }
  while (vgetline(&line, &cap)) {
    ++idx;
    alarm(60);
    int n = vsplit(line, tok, 16);
    vw_reset();
    snprintf(dir, sizeof(dir), "%s/c", base);
    rm_rf(dir);
    if (n == 11 && !strcmp(tok[0], "K")) {
      const char     sk = tok[1][0], ds = tok[3][0];
      int            keep_fd = -1;
      unsigned char *sb = NULL, *db = NULL;
      const size_t   sl = parse_bytes(tok[2], &sb), dl = parse_bytes(tok[4], &db);
      const int      overwrite = atoi(tok[5]);
      int            bad       = mkdir(dir, 0700);
      snprintf(srcp, sizeof(srcp), "%s/src", dir);
      snprintf(dstp, sizeof(dstp), "%s/dst", dir);
      // source
      if (sk == 'R') {
        bad |= write_file(srcp, sb, sl);
      } else if (sk == 'D') {
        bad |= mkdir(srcp, 0700);
      } else if (sk == 'O') {
        snprintf(srcp, sizeof(srcp), "/dev/null");
      } else if (sk == 'I') {
        // a FIFO that holds five bytes and has a writer (this process), so that opening it for reading returns
        bad |= mkfifo(srcp, 0600);
        keep_fd = open(srcp, O_RDWR | O_NONBLOCK);
        bad |= keep_fd < 0 || write(keep_fd, "hello", 5) != 5;
      }
      // destination
      if (ds == 'F') {
        bad |= write_file(dstp, db, dl);
      } else if (ds == 'P') {
        snprintf(dstp, sizeof(dstp), "%s", srcp);
      } else if (ds == 'H') {
        bad |= link(srcp, dstp);
      } else if (ds == 'L') {
        bad |= symlink("src", dstp);
      } else if (ds == 'D') {
        bad |= mkdir(dstp, 0700);
      }
      bad |= parse_script(tok[10]);
      if (bad) {
        puts("bad-case");
        if (keep_fd >= 0) {
          close(keep_fd);
        }
        free(sb);
        free(db);
        continue;
      }
      vw_b1            = atol(tok[6]);
      vw_b2            = atol(tok[7]);
      track.fail       = tok[8][0] == 'N';
      track.fail_errno = track.fail ? atoi(tok[8] + 1) : 0;
      // errno at entry; a leading 'z': the call is made in a process whose descriptor 0 is closed (a daemon),
      // so that the first descriptor the function opens is 0
      const int closed0 = tok[9][0] == 'z';
      if (closed0) {
        close(0);
      }
      const int fds0   = count_fds();
      errno            = atoi(tok[9] + closed0);
      vw_active        = 1;
      const ZixStatus st =
        zix_copy_file(&track.base, srcp, dstp, (ZixCopyOptions)(unsigned)overwrite); // the token IS the option value
      vw_active      = 0;
      const int fds1 = count_fds();
      if (closed0) {
        const int nfd = open("/dev/null", O_RDONLY);
        if (nfd > 0) {
          dup2(nfd, 0);
          close(nfd);
        }
      }
      printf("st= %s dst= ", status_name(st));
      put_file_state(stdout, dstp);
      fputs(" src= ", stdout);
      if (sk == 'R') {
        // the source inode's bytes (srcp still names it)
        struct stat ssb;
        if (!stat(srcp, &ssb) && S_ISREG(ssb.st_mode)) {
          unsigned char* buf = (unsigned char*)malloc((size_t)ssb.st_size + 1);
          FILE*          f   = fopen(srcp, "rb");
          size_t         m   = f ? fread(buf, 1, (size_t)ssb.st_size + 1, f) : 0;
          if (f) {
            fclose(f);
          }
          put_digest(stdout, buf, m);
          free(buf);
        } else {
          fputs("gone", stdout);
        }
      } else {
        fputs("-", stdout);
      }
      printf(" fds= %d || %s\n", fds1 - fds0, vw_log);
      if (keep_fd >= 0) {
        close(keep_fd);
      }
      free(sb);
      free(db);
    } else if (n == 3 && !strcmp(tok[0], "X")) {
      // real cross-filesystem copy; the wrappers only observe
      unsigned char* sb = NULL;
      char           spec[64];
      snprintf(spec, sizeof(spec), "@%s:%s", tok[1], tok[2]);
      const size_t sl = parse_bytes(spec, &sb);
      if (!shm[0]) {
        strcpy(shm, "/dev/shm/zixc14.XXXXXX");
        if (!mkdtemp(shm)) {
          shm[0] = 0;
        }
      }
      int bad = mkdir(dir, 0700) || !shm[0];
      snprintf(srcp, sizeof(srcp), "%s/src", dir);
      snprintf(dstp, sizeof(dstp), "%s/dst", shm);
      remove(dstp);
      bad |= write_file(srcp, sb, sl);
      if (bad) {
        puts("bad-case");
        free(sb);
        continue;
      }
      struct stat a, b;
      const int   different = !stat(base, &a) && !stat(shm, &b) && a.st_dev != b.st_dev;
      vw_b1 = vw_b2 = VW_KEEP_BLKSIZE;
      track.fail    = 0;
      const int fds0 = count_fds();
      vw_active      = 1;
      const ZixStatus st = zix_copy_file(&track.base, srcp, dstp, ZIX_COPY_OPTION_NONE);
      vw_active      = 0;
      const int fds1 = count_fds();
      printf("st= %s dst= ", status_name(st));
      put_file_state(stdout, dstp);
      fputs(" src= ", stdout);
      unsigned char* chk = NULL;
      (void)chk;
      {
        FILE*          f   = fopen(srcp, "rb");
        unsigned char* buf = (unsigned char*)malloc(sl + 1);
        size_t         m   = f ? fread(buf, 1, sl + 1, f) : 0;
        if (f) {
          fclose(f);
        }
        put_digest(stdout, buf, m);
        free(buf);
      }
      printf(" fds= %d || xfs=%d cfr=%d bs=%ld\n", fds1 - fds0, different, vw_first_cfr_errno, track.last_size);
      remove(dstp);
      free(sb);
    } else {
      puts("?");
    }
    fflush(stdout);
  }
  free(line);
  return 0;
}
