// C10 oracle: what libstdc++'s std::filesystem::path (C++17) gives for the same cases, printed in the
// format of the spec line (observable part).  Used only to validate the Coq SPEC (PathDecSpec.v).
// Names and relative_path are texts; root_directory/root_path/parent_path are compared as paths
// (operator== is component-wise; on POSIX that is the text with separator runs collapsed).
#include <cstdio>
#include <filesystem>
#include <iostream>
#include <string>

namespace fs = std::filesystem;

static int hexval(int c)
{
  return (c >= '0' && c <= '9') ? c - '0' : (c >= 'a' && c <= 'f') ? c - 'a' + 10 : c - 'A' + 10;
}

static std::string hex(const std::string& s)
{
  if (s.empty()) {
    return "-";
  }
  static const char* d = "0123456789abcdef";
  std::string        r;
  for (unsigned char c : s) {
    r += d[c >> 4];
    r += d[c & 15];
  }
  return r;
}

static std::string canon(const fs::path& p)
{
  const std::string& s = p.native();
  std::string        r;
  for (size_t i = 0; i < s.size(); ++i) {
    if (!(s[i] == '/' && i > 0 && s[i - 1] == '/')) {
      r += s[i];
    }
  }
  return hex(r);
}

static std::string queries(const fs::path& p)
{
  const bool q[10] = {p.has_root_path(),   p.has_root_name(), p.has_root_directory(),
                      p.has_relative_path(), p.has_parent_path(), p.has_filename(),
                      p.has_stem(),        p.has_extension(), p.is_absolute(),
                      p.is_relative()};
  std::string r;
  for (bool b : q) {
    r += b ? '1' : '0';
  }
  return r;
}

static std::string unhex(const std::string& h)
{
  std::string s;
  if (h != "-") {
    for (size_t i = 0; i + 1 < h.size(); i += 2) {
      s += static_cast<char>(hexval(h[i]) * 16 + hexval(h[i + 1]));
    }
  }
  return s;
}

static std::string record(const std::string& s)
{
  const fs::path p{s};
  return "rn=" + hex(p.root_name().native()) + " rd=" + canon(p.root_directory()) +
         " rp=" + canon(p.root_path()) + " rel=" + hex(p.relative_path().native()) +
         " par=" + canon(p.parent_path()) + " fn=" + hex(p.filename().native()) +
         " st=" + hex(p.stem().native()) + " ex=" + hex(p.extension().native()) +
         " q=" + queries(p) + " in=11111111";
}

int main()
{
  std::string line;
  while (std::getline(std::cin, line)) {
    if (line == "N") {
      std::cout << "q=" << queries(fs::path{}) << "\n";
    } else if (line.size() >= 3 && line[0] == 'P' && line[1] == ' ') {
      std::cout << record(unhex(line.substr(2))) << "\n";
    } else if (line.size() >= 5 && line[0] == 'Q' && line[1] == ' ') {
      const size_t sp = line.find(' ', 2);
      std::cout << record(unhex(line.substr(2, sp - 2))) << " " << record(unhex(line.substr(sp + 1)))
                << "\n";
    } else {
      std::cout << "?\n";
    }
  }
  return 0;
}
