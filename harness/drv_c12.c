// C12 implementation driver: zix_path_join / zix_path_lexically_relative / zix_path_preferred
// (and, with -DC12_ITER, the internal element iterator zix_path_begin / zix_path_next).
// Every argument string lives in its own exact-size heap block (ASan guards both ends); the
// result block comes from a tracking ZixAllocator, so its requested size and its full content
// are part of the structural output.
#include "vcommon.h"

#include <zix/allocator.h>
#include <zix/path.h>

#include <sys/wait.h>
#include <unistd.h>

#ifdef C12_ITER
#  include "path_iter.h"
#endif

typedef struct {
  ZixAllocator base;
  char         kind; // 'm' malloc, 'c' calloc, '?' anything else, 0 none
  size_t       size;
  void*        ptr;
  unsigned     calls;
  int          fail; // every request is refused (X cases)
} Track;

static void* t_malloc(ZixAllocator* a, size_t size)
{
  Track* t = (Track*)a;
  t->kind  = 'm';
  t->size  = size;
  t->calls++;
  return t->ptr = t->fail ? NULL : malloc(size);
}

static void* t_calloc(ZixAllocator* a, size_t n, size_t size)
{
  Track* t = (Track*)a;
  t->kind  = 'c';
  t->size  = n * size;
  t->calls++;
  return t->ptr = t->fail ? NULL : calloc(n, size);
}

static void* t_realloc(ZixAllocator* a, void* p, size_t size)
{
  Track* t = (Track*)a;
  t->kind  = '?';
  t->size  = size;
  t->calls++;
  return t->ptr = t->fail ? NULL : realloc(p, size);
}

static void t_free(ZixAllocator* a, void* p)
{
  (void)a;
  free(p);
}

static void* t_aligned_alloc(ZixAllocator* a, size_t al, size_t size)
{
  Track* t = (Track*)a;
  t->kind  = '?';
  t->size  = size;
  t->calls++;
  return t->ptr = t->fail ? NULL : aligned_alloc(al, size);
}

static Track track = {{t_malloc, t_calloc, t_realloc, t_free, t_aligned_alloc, t_free}, 0, 0, NULL, 0, 0};

static void track_reset(void)
{
  track.kind  = 0;
  track.size  = 0;
  track.ptr   = NULL;
  track.calls = 0;
}

// "N" -> NULL, "-" -> "", hex -> bytes; exact-size block of len+1 bytes
static char* arg_string(const char* tok)
{
  if (!strcmp(tok, "N")) {
    return NULL;
  }
  unsigned char* raw = NULL;
  size_t         n   = vunhex(tok, &raw);
  char*          s   = (char*)malloc(n + 1);
  memcpy(s, raw, n);
  s[n] = 0;
  free(raw);
  return s;
}

// length of the C string inside the tracked block, or (size_t)-1 when it is not terminated there
static size_t text_len(const char* r)
{
  if ((void*)r != track.ptr || track.calls != 1) {
    return strlen(r); // not the tracked block: let ASan judge
  }
  const void* z = memchr(r, 0, track.size);
  return z ? (size_t)((const char*)z - r) : (size_t)-1;
}

static void put_structural(const char* r)
{
  if ((void*)r == track.ptr && track.calls == 1) {
    printf("alloc=%c%zu block=", track.kind, track.size);
    for (size_t i = 0; i < track.size; ++i) {
      printf("%02x", (unsigned char)r[i]);
    }
  } else {
    printf("alloc=untracked(calls=%u)", track.calls);
  }
}

// canonical form of a path text: root flag and elements (own splitter; '/' only)
static void put_canon(const char* t, size_t n)
{
  size_t i = 0;
  printf("%d:", (n && t[0] == '/') ? 1 : 0);
  while (i < n && t[i] == '/') {
    ++i;
  }
  int first = 1;
  while (i < n) {
    size_t j = i;
    while (j < n && t[j] != '/') {
      ++j;
    }
    if (!first) {
      putchar(',');
    }
    first = 0;
    vputhex(stdout, (const unsigned char*)t + i, j - i);
    if (j == n) {
      break;
    }
    while (j < n && t[j] == '/') {
      ++j;
    }
    if (j == n) { // trailing separator: a final empty element
      fputs(",-", stdout);
    }
    i = j;
  }
}

// "--fork": every case runs in its own child, so a sanitizer abort costs one line ("CRASH rc=..")
// instead of the process; the plug-in switches to it after repeated crashes
int main(int argc, char** argv)
{
  const int fork_mode = argc > 1 && !strcmp(argv[1], "--fork");
  char*     line      = NULL;
  size_t    cap       = 0;
  char*     tok0[5];
  while (vgetline(&line, &cap)) {
    if (fork_mode) {
      fflush(stdout);
      pid_t pid = fork();
      if (pid > 0) {
        int st = 0;
        waitpid(pid, &st, 0);
        if (!(WIFEXITED(st) && WEXITSTATUS(st) == 0)) {
          printf("CRASH rc=%d\n", WIFEXITED(st) ? WEXITSTATUS(st) : 128 + WTERMSIG(st));
        }
        continue;
      }
      if (pid == 0 && !freopen("/dev/null", "w", stderr)) {
        _exit(97);
      }
    }
    int    n   = vsplit(line, tok0, 5);
    char** tok = tok0;
    track_reset();
    track.fail = 0;
    if (n >= 2 && !strcmp(tok[0], "X")) {
      // X <case>: the same call with an allocator that refuses every request: NULL, nothing written anywhere
      track.fail = 1;
      ++tok;
      --n;
      char* a = n > 1 ? arg_string(tok[1]) : NULL;
      char* b = n > 2 ? arg_string(tok[2]) : NULL;
      char* r = NULL;
      const char* kind = "?";
      if (n == 3 && !strcmp(tok[0], "J")) {
        kind = "join";
        r    = zix_path_join(&track.base, a, b);
      } else if (n == 3 && !strcmp(tok[0], "R") && a && b) {
        kind = "rel";
        r    = zix_path_lexically_relative(&track.base, a, b);
      } else if (n == 2 && !strcmp(tok[0], "P") && a) {
        kind = "pref";
        r    = zix_path_preferred(&track.base, a);
      }
      printf("%s=%s || calls=%u\n", kind, r ? "NONNULL" : "NULL", track.calls);
      free(a);
      free(b);
      fflush(stdout);
      if (fork_mode) {
        _exit(0);
      }
      continue;
    }
    if (n == 3 && !strcmp(tok[0], "J")) {
      char* a = arg_string(tok[1]);
      char* b = arg_string(tok[2]);
      char* r = zix_path_join(&track.base, a, b);
      if (!r) {
        puts("join=NULL");
      } else {
        size_t len = text_len(r);
        fputs("join=", stdout);
        if (len == (size_t)-1) {
          fputs("UNTERMINATED", stdout);
        } else {
          vputhex(stdout, (const unsigned char*)r, len);
        }
        fputs(" || ", stdout);
        put_structural(r);
        putchar('\n');
      }
      free(r);
      free(a);
      free(b);
    } else if (n == 3 && !strcmp(tok[0], "R") && strcmp(tok[1], "N") && strcmp(tok[2], "N")) {
      char* p = arg_string(tok[1]);
      char* b = arg_string(tok[2]);
      char* r = zix_path_lexically_relative(&track.base, p, b);
      if (!r) {
        puts(track.calls ? "rel=NULL || alloc=failed" : "rel=NULL || alloc=none");
      } else {
        size_t len = text_len(r);
        fputs("rel=", stdout);
        if (len == (size_t)-1) {
          fputs("UNTERMINATED", stdout);
        } else {
          put_canon(r, len);
          fputs(" || text=", stdout);
          vputhex(stdout, (const unsigned char*)r, len);
          putchar(' ');
          put_structural(r);
        }
        putchar('\n');
      }
      free(r);
      free(p);
      free(b);
    } else if (n == 2 && !strcmp(tok[0], "P") && strcmp(tok[1], "N")) {
      char* p = arg_string(tok[1]);
      char* r = zix_path_preferred(&track.base, p);
      if (!r) {
        puts("pref=NULL");
      } else {
        size_t len = text_len(r);
        fputs("pref=", stdout);
        if (len == (size_t)-1) {
          fputs("UNTERMINATED", stdout);
        } else {
          vputhex(stdout, (const unsigned char*)r, len);
        }
        fputs(" || ", stdout);
        put_structural(r);
        putchar('\n');
      }
      free(r);
      free(p);
#ifdef C12_ITER
    } else if (n == 2 && !strcmp(tok[0], "I") && strcmp(tok[1], "N")) {
      static const char names[] = "NDFE";
      char*             p       = arg_string(tok[1]);
      size_t            budget  = strlen(p) + 3;
      ZixPathIter       it      = zix_path_begin(p);
      fputs("iter || ", stdout);
      for (;;) {
        printf("%c%zu-%zu", names[it.state], it.range.begin, it.range.end);
        if (it.state == ZIX_PATH_END || !budget--) {
          break;
        }
        putchar(',');
        it = zix_path_next(p, it);
      }
      putchar('\n');
      free(p);
#endif
    } else {
      puts("?");
    }
    fflush(stdout);
    if (fork_mode) {
      _exit(0);
    }
  }
  free(line);
  return 0;
}
