// C04 driver.  ring.c is compiled with clang -fsanitize=thread; vtsan.c serves the call-outs.
//
//  T <k> <r> <w> <op>...          trace case: ring of size 2^k brought to heads (r, w) through the API, then the
//                                 ops run in one thread; prints  results || access trace
//  X <k> <wop>... / <rop>... / E <max> | S <seed> <runs> | C <c1,c2,...>
//                                 schedule search: writer ops and reader ops run as coroutines under the
//                                 scheduler of vtsan.c; exhaustive DFS, seeded sampling or one replayed schedule.
//                                 prints "ok" or "FAIL <reason> replay=C <choices>"
//  ops: W<n> write, B begin, A<n> amend, C commit, S write_space | R<n> read, P<n> peek, K<n> skip, s read_space
#include "vcommon.h"
#include "vtsan.h"

#include <zix/allocator.h>
#include <zix/ring.h>
#include <zix/status.h>

#include <signal.h>
#include <unistd.h>

// ---------------------------------------------------------------- guarding, tracking allocator
// Every block ENDS at a PROT_NONE page (the buffer at byte granularity, other blocks 16-byte aligned), so an
// access past what zix_ring_new really allocated faults instead of landing in malloc slack.  Blocks are cached
// per size because the schedule search creates millions of rings.
#include <sys/mman.h>
typedef struct {
  ZixAllocator base;
  void*        p[8];
  size_t       n[8];
  int          k;
} Track;

typedef struct { char* map; size_t maplen; char* user; size_t size; int used; } GBlock;
#define NGB 64
static GBlock gb[NGB];
static long   pagesz;

static void* g_alloc(size_t size, int bytewise)
{
  if (!pagesz) pagesz = sysconf(_SC_PAGESIZE);
  size_t want = size ? size : 1;
  for (int i = 0; i < NGB; ++i)
    if (gb[i].map && !gb[i].used && gb[i].size == want) { gb[i].used = 1; memset(gb[i].user, 0, want); return gb[i].user; }
  int slot = -1;
  for (int i = 0; i < NGB; ++i) if (!gb[i].map) { slot = i; break; }
  if (slot < 0)
    for (int i = 0; i < NGB; ++i) if (!gb[i].used) { munmap(gb[i].map, gb[i].maplen); gb[i].map = NULL; slot = i; break; }
  if (slot < 0) return NULL;
  size_t body = (want + (size_t)pagesz - 1) / (size_t)pagesz * (size_t)pagesz;
  char*  m    = (char*)mmap(NULL, body + (size_t)pagesz, PROT_READ | PROT_WRITE, MAP_PRIVATE | MAP_ANONYMOUS, -1, 0);
  if (m == MAP_FAILED) return NULL;
  mprotect(m + body, (size_t)pagesz, PROT_NONE);
  size_t off = body - want;
  if (!bytewise) off &= ~(size_t)15;
  gb[slot].map = m; gb[slot].maplen = body + (size_t)pagesz; gb[slot].user = m + off; gb[slot].size = want; gb[slot].used = 1;
  return gb[slot].user;
}
static void g_free(void* p)
{
  if (!p) return;
  for (int i = 0; i < NGB; ++i) if (gb[i].map && gb[i].user == p) { gb[i].used = 0; return; }
}

static void* t_malloc(ZixAllocator* a, size_t size)
{
  Track* t = (Track*)a;
  void*  p = g_alloc(size, t->k >= 1); // first block = the ring object, second = its buffer
  if (t->k < 8) { t->p[t->k] = p; t->n[t->k] = size; t->k++; }
  return p;
}
static void* t_calloc(ZixAllocator* a, size_t nm, size_t size) { return t_malloc(a, nm * size); }
static void* t_realloc(ZixAllocator* a, void* p, size_t size) { (void)a; (void)p; (void)size; return NULL; }
static void  t_free(ZixAllocator* a, void* p) { (void)a; g_free(p); }
static void* t_aalloc(ZixAllocator* a, size_t al, size_t size) { (void)al; return t_malloc(a, size); }
static void  t_afree(ZixAllocator* a, void* p) { (void)a; g_free(p); }

static Track track = {{t_malloc, t_calloc, t_realloc, t_free, t_aalloc, t_afree}, {0}, {0}, 0};

static long off_wh = -1, off_rh = -1; // offsets of the two heads inside the ring object (found by calibration)

// ring of logical size 2^k created with the requested size req (2^(k-1) < req <= 2^k)
static ZixRing* ring_new(unsigned k, uint32_t req)
{
  track.k   = 0;
  ZixRing* r = zix_ring_new(&track.base, req);
  if (!r || track.k < 2) return NULL;
  if (off_wh >= 0) {
    vt_layout(track.p[0], track.n[0], (char*)track.p[0] + off_wh, (char*)track.p[0] + off_rh, track.p[1], track.n[1],
              (size_t)1 << k);
  }
  return r;
}

// "k" or "k/req"
static unsigned parse_size(const char* s, uint32_t* req)
{
  unsigned    k = (unsigned)atoi(s);
  const char* q = strchr(s, '/');
  *req          = q ? (uint32_t)strtoul(q + 1, 0, 10) : (1U << k);
  return k;
}

// find the heads by what the API does to the object, not by assuming a layout
static int calibrate(void)
{
  vt_off();
  ZixRing* r = ring_new(3, 8);
  if (!r) return 0;
  size_t         n    = track.n[0];
  unsigned char* base = (unsigned char*)track.p[0];
  unsigned char* snap = (unsigned char*)malloc(n);
  char           tmp[4];
  memcpy(snap, base, n);
  if (zix_ring_write(r, "abc", 3) != 3) return 0;
  for (size_t i = 0; i + 4 <= n; i += 4) {
    uint32_t a, b;
    memcpy(&a, snap + i, 4);
    memcpy(&b, base + i, 4);
    if (a != b) { if (off_wh >= 0 || a != 0 || b != 3) return 0; off_wh = (long)i; }
  }
  memcpy(snap, base, n);
  if (zix_ring_read(r, tmp, 3) != 3) return 0;
  for (size_t i = 0; i + 4 <= n; i += 4) {
    uint32_t a, b;
    memcpy(&a, snap + i, 4);
    memcpy(&b, base + i, 4);
    if (a != b) { if (off_rh >= 0 || a != 0 || b != 3) return 0; off_rh = (long)i; }
  }
  free(snap);
  zix_ring_free(r);
  return off_wh >= 0 && off_rh >= 0 && off_wh != off_rh;
}

static void on_segv(int sig)
{
  (void)sig;
  static const char m[] = "OOB-CRASH (access outside every allocated block faulted on a guard page)\n";
  if (write(1, m, sizeof(m) - 1)) {}
  _exit(4);
}

static void on_alarm(int sig)
{
  (void)sig;
  static const char m[] = "HANG (a call did not return: not wait-free)\n";
  if (write(1, m, sizeof(m) - 1)) {}
  _exit(3);
}

// ---------------------------------------------------------------- trace cases
static unsigned long datactr;
static void fill(unsigned char* p, uint32_t n)
{
  for (uint32_t i = 0; i < n; ++i) p[i] = (unsigned char)((datactr++ * 13U + 5U) & 255U);
}

static void trace_case(char** tok, int nt)
{
  uint32_t req;
  unsigned k = parse_size(tok[1], &req);
  uint32_t N = 1U << k, r0 = (uint32_t)strtoul(tok[2], 0, 10), w0 = (uint32_t)strtoul(tok[3], 0, 10);
  vt_off();
  ZixRing* ring = ring_new(k, req);
  if (!ring) { puts("NO-RING"); return; }
  unsigned char* tmp = (unsigned char*)malloc((size_t)N + 8);
  // setup through the API: r0 junk bytes in and out, then the content
  if (r0) {
    memset(tmp, 0xEE, r0);
    if (zix_ring_write(ring, tmp, r0) != r0 || zix_ring_read(ring, tmp, r0) != r0) { puts("SETUP-FAILED"); goto out; }
  }
  uint32_t d = (w0 - r0) & (N - 1U);
  for (uint32_t i = 0; i < d; ++i) tmp[i] = (unsigned char)(((r0 + i) * 7U + 1U) & 255U);
  if (d && zix_ring_write(ring, tmp, d) != d) { puts("SETUP-FAILED"); goto out; }
  datactr = 0;
  ZixRingTransaction tx = {0, 0};
  alarm(20);
  vt_trace_begin();
  for (int i = 4; i < nt; ++i) {
    char     op = tok[i][0];
    uint32_t n  = tok[i][1] ? (uint32_t)strtoul(tok[i] + 1, 0, 10) : 0;
    // a write / amend of n >= N bytes (anything up to 2^32-1) must be refused without touching the source: it gets
    // a source block of N + 64 bytes that ends at a PROT_NONE page (constant bytes, the data counter does not
    // advance; the model driver does the same with its N-byte stand-in, Properties_C04_huge.v), so an implementation
    // that accepts it faults (OOB-CRASH) instead of reading 4 GiB.  Sizes below N are served as before.
    // A read / peek of n >= N bytes must likewise be refused without touching the destination: it gets a destination
    // block of N + 64 bytes ending at a PROT_NONE page (a skip has no block; its size is passed unchanged).
    int            bigw = (op == 'W' || op == 'A') && n >= N;
    int            big  = bigw || ((op == 'R' || op == 'P') && n >= N);
    unsigned char* b    = big ? (unsigned char*)g_alloc((size_t)N + 64, 1) : (unsigned char*)malloc((size_t)n + 1);
    if (!b) { printf("NO-MEM"); break; }
    if (bigw) memset(b, 0x5A, (size_t)N + 64);
    if (i > 4) putchar(' ');
    switch (op) {
    case 'W': if (!bigw) fill(b, n); printf("w=%u", zix_ring_write(ring, b, n)); break;
    case 'B': tx = zix_ring_begin_write(ring); printf("b"); break;
    case 'A': if (!bigw) fill(b, n); printf("a=%d", (int)zix_ring_amend_write(ring, &tx, b, n)); break;
    case 'C': printf("c=%d", (int)zix_ring_commit_write(ring, &tx)); break;
    case 'S': printf("ws=%u", zix_ring_write_space(ring)); break;
    case 's': printf("rs=%u", zix_ring_read_space(ring)); break;
    case 'K': printf("k=%u", zix_ring_skip(ring, n)); break;
    case 'R':
    case 'P': {
      uint32_t ret = op == 'R' ? zix_ring_read(ring, b, n) : zix_ring_peek(ring, b, n);
      printf("%c=%u:", op == 'R' ? 'r' : 'p', ret);
      vputhex(stdout, b, big && ret > N + 64U ? N + 64U : ret); // (a wrongly accepted over-long read: print what the block holds)
      break;
    }
    default: printf("?");
    }
    if (big) g_free(b); else free(b);
  }
  alarm(0);
  if (vt_oob()) printf(" OOB"); // some access of the ops (or of the setup) fell outside the allocated buffer
  printf(" || ");
  vt_trace_end(stdout);
  putchar('\n');
out:
  vt_off();
  free(tmp);
  zix_ring_free(ring);
}

// ---------------------------------------------------------------- schedule search
#define MAXOPS 16
#define MAXSTREAM 4096
typedef struct { char op; uint32_t n; } Op;
typedef struct {
  ZixRing* ring;
  Op       ops[MAXOPS];
  int      nops;
} Prog;

// writer log: the committed stream with, per byte, the time its committing call started
static unsigned char stream[MAXSTREAM];
static long          avail[MAXSTREAM];
static int           nstream;
static long          bnd[MAXOPS + 1]; // commit boundaries: stream length after each successful write / commit
static int           nbnd;
// reader log
typedef struct { char op; uint32_t n, ret; long t_end; unsigned char bytes[64]; } RdEv;
static RdEv rdev[MAXOPS];
static int  nrdev;
static char oracle_msg[200];
static int  api_bad;

static void writer_fn(void* arg)
{
  Prog*              p = (Prog*)arg;
  ZixRingTransaction tx = {0, 0};
  unsigned char      pend[256];
  int                npend = 0, txok = 0;
  unsigned char      b[64];
  for (int i = 0; i < p->nops; ++i) {
    Op o = p->ops[i];
    long t0 = vt_now();
    switch (o.op) {
    case 'W': {
      for (uint32_t j = 0; j < o.n; ++j) b[j] = (unsigned char)(++datactr);
      vt_call_begin((long)o.n + 3);
      uint32_t ret = zix_ring_write(p->ring, b, o.n);
      if (ret == o.n) {
        for (uint32_t j = 0; j < o.n && nstream < MAXSTREAM; ++j) { stream[nstream] = b[j]; avail[nstream++] = t0; }
        if (nbnd <= MAXOPS) bnd[nbnd++] = nstream;
      } else if (ret != 0) api_bad = 1;
      txok = 0;
      break;
    }
    case 'B': vt_call_begin(2); tx = zix_ring_begin_write(p->ring); npend = 0; txok = 1; break;
    case 'A':
      if (!txok) break;
      for (uint32_t j = 0; j < o.n; ++j) b[j] = (unsigned char)(++datactr);
      vt_call_begin((long)o.n + 1);
      if (zix_ring_amend_write(p->ring, &tx, b, o.n) == ZIX_STATUS_SUCCESS) {
        for (uint32_t j = 0; j < o.n && npend < 256; ++j) pend[npend++] = b[j];
      } else txok = 0; // the transaction is invalid and is abandoned
      break;
    case 'C':
      if (!txok) break;
      vt_call_begin(2);
      zix_ring_commit_write(p->ring, &tx);
      for (int j = 0; j < npend && nstream < MAXSTREAM; ++j) { stream[nstream] = pend[j]; avail[nstream++] = t0; }
      if (nbnd <= MAXOPS) bnd[nbnd++] = nstream;
      npend = 0; txok = 0;
      break;
    case 'S': vt_call_begin(2); if (zix_ring_write_space(p->ring) >= (1U << 31)) api_bad = 1; break;
    default: break;
    }
  }
}

static void reader_fn(void* arg)
{
  Prog* p = (Prog*)arg;
  for (int i = 0; i < p->nops; ++i) {
    Op    o = p->ops[i];
    RdEv* e = &rdev[nrdev];
    memset(e, 0, sizeof(*e));
    e->op = o.op; e->n = o.n;
    switch (o.op) {
    case 'R': vt_call_begin((long)o.n + 3); e->ret = zix_ring_read(p->ring, e->bytes, o.n); break;
    case 'P': vt_call_begin((long)o.n + 3); e->ret = zix_ring_peek(p->ring, e->bytes, o.n); break;
    case 'K': vt_call_begin(3); e->ret = zix_ring_skip(p->ring, o.n); break;
    case 's': vt_call_begin(3); e->ret = zix_ring_read_space(p->ring); break;
    default: break;
    }
    e->t_end = vt_now();
    nrdev++;
  }
}

// the spec: reads return, in order and untorn, bytes already committed; nothing is lost
static int oracle(ZixRing* ring, uint32_t N)
{
  long pos = 0, known = 0; // known: stream position the reader has already seen committed (heads are published
                           // only at commit boundaries and the reader's view never goes back)
  if (api_bad) { snprintf(oracle_msg, sizeof oracle_msg, "a call returned neither 0 nor its size"); return 0; }
  for (int i = 0; i < nrdev; ++i) {
    RdEv* e = &rdev[i];
    if (e->op == 's') {
      if (e->ret > N - 1U) { snprintf(oracle_msg, sizeof oracle_msg, "read_space=%u exceeds capacity", e->ret); return 0; }
      long vis = pos + e->ret;
      int  isb = vis == 0;
      for (int j = 0; j < nbnd; ++j) isb |= bnd[j] == vis;
      if (!isb) { snprintf(oracle_msg, sizeof oracle_msg, "reader call %d: read_space=%u ends inside a write (part of a write visible before its commit)", i, e->ret); return 0; }
      if (vis < known) { snprintf(oracle_msg, sizeof oracle_msg, "reader call %d: read_space=%u is less than what the reader had already seen committed", i, e->ret); return 0; }
      known = vis;
      continue;
    }
    if (e->ret == 0 && e->n > 0 && pos + e->n <= known) {
      snprintf(oracle_msg, sizeof oracle_msg, "reader call %d (%c%u) failed although the reader had already seen a commit covering it (a write became visible in parts)", i, e->op, e->n);
      return 0;
    }
    if (e->ret) {
      long endp = pos + e->ret, b = nstream;
      for (int j = nbnd - 1; j >= 0; --j) if (bnd[j] >= endp) b = bnd[j];
      if (b > known) known = b;
    }
    if (e->ret != 0 && e->ret != e->n) { snprintf(oracle_msg, sizeof oracle_msg, "reader call %d returned %u for size %u", i, e->ret, e->n); return 0; }
    if (pos + e->ret > nstream) { snprintf(oracle_msg, sizeof oracle_msg, "reader call %d consumed bytes never committed", i); return 0; }
    for (uint32_t j = 0; j < e->ret; ++j) {
      if (avail[pos + j] > e->t_end) { snprintf(oracle_msg, sizeof oracle_msg, "reader call %d saw byte %ld before its commit began", i, pos + j); return 0; }
      if (e->op != 'K' && e->bytes[j] != stream[pos + j]) {
        snprintf(oracle_msg, sizeof oracle_msg, "reader call %d (%c%u) byte %u = %02x, committed stream has %02x at %ld (torn/stale/reordered)",
                 i, e->op, e->n, j, e->bytes[j], stream[pos + j], pos + j);
        return 0;
      }
    }
    if (e->op != 'P') pos += e->ret;
  }
  // both sides idle: the ring holds exactly the committed bytes not yet consumed
  vt_off();
  uint32_t left = zix_ring_read_space(ring);
  if ((long)left != nstream - pos) { snprintf(oracle_msg, sizeof oracle_msg, "idle ring holds %u bytes, committed-consumed = %ld (lost or duplicated)", left, nstream - pos); return 0; }
  unsigned char rest[MAXSTREAM];
  if (left && zix_ring_read(ring, rest, left) != left) { snprintf(oracle_msg, sizeof oracle_msg, "cannot drain"); return 0; }
  for (uint32_t j = 0; j < left; ++j) {
    if (rest[j] != stream[pos + j]) { snprintf(oracle_msg, sizeof oracle_msg, "idle ring content differs from the committed stream at %ld", pos + j); return 0; }
  }
  return 1;
}

#define MAXCH 4096
static int taken[MAXCH], alts[MAXCH];

// one schedule: fresh ring, run, judge.  returns 1 ok, 0 fail (message in oracle_msg)
static int one_run(unsigned k, uint32_t req, Prog* wp, Prog* rp, const int* choices, int nchoices, VtRun* run)
{
  vt_off();
  ZixRing* ring = ring_new(k, req);
  wp->ring = rp->ring = ring;
  nstream = nrdev = nbnd = 0; api_bad = 0; datactr = 0; oracle_msg[0] = 0;
  run->choices = choices; run->nchoices = nchoices; run->taken = taken; run->alts = alts; run->cap = MAXCH;
  vt_sched_run(writer_fn, wp, reader_fn, rp, run);
  int ok = 1;
  if (run->overrun || run->race) { snprintf(oracle_msg, sizeof oracle_msg, "%s", run->why); ok = 0; }
  else ok = oracle(ring, 1U << k);
  if (ok && vt_oob()) { snprintf(oracle_msg, sizeof oracle_msg, "OOB: access outside the allocated buffer"); ok = 0; }
  vt_off();
  zix_ring_free(ring);
  return ok;
}

static void print_fail(VtRun* run)
{
  printf("FAIL %s replay=C ", oracle_msg);
  int n = run->ntaken < MAXCH ? run->ntaken : MAXCH;
  // trailing zeros are the default
  while (n > 0 && taken[n - 1] == 0) --n;
  if (!n) printf("0");
  for (int i = 0; i < n; ++i) printf(i ? ",%d" : "%d", taken[i]);
  putchar('\n');
}

static void sched_case(char** tok, int nt)
{
  uint32_t req;
  unsigned k = parse_size(tok[1], &req);
  Prog     wp = {0}, rp = {0};
  int      i = 2;
  for (; i < nt && strcmp(tok[i], "/"); ++i)
    if (wp.nops < MAXOPS) { wp.ops[wp.nops].op = tok[i][0]; wp.ops[wp.nops++].n = tok[i][1] ? (uint32_t)atoi(tok[i] + 1) : 0; }
  for (++i; i < nt && strcmp(tok[i], "/"); ++i)
    if (rp.nops < MAXOPS) { rp.ops[rp.nops].op = tok[i][0]; rp.ops[rp.nops++].n = tok[i][1] ? (uint32_t)atoi(tok[i] + 1) : 0; }
  ++i;
  if (i >= nt) { puts("BAD-CASE"); return; }
  VtRun run;
  long  runs = 0, steps = 0;
  static int ch[MAXCH];
  if (tok[i][0] == 'C') {
    int n = 0;
    if (i + 1 < nt)
      for (char* s = strtok(tok[i + 1], ","); s && n < MAXCH; s = strtok(NULL, ",")) ch[n++] = atoi(s);
    if (!one_run(k, req, &wp, &rp, ch, n, &run)) { print_fail(&run); return; }
    runs = 1; steps = run.steps;
  } else if (tok[i][0] == 'S') {
    unsigned long seed = strtoul(tok[i + 1], 0, 10);
    long          want = atol(tok[i + 2]);
    unsigned long x    = seed * 2654435761UL + 12345UL;
    for (; runs < want; ++runs) {
      // random choices; a run of equal choices now and then keeps long stretches of one thread likely
      for (int j = 0; j < 512; ++j) {
        x ^= x << 13; x ^= x >> 7; x ^= x << 17;
        ch[j] = (int)((x >> 33) % 6);
      }
      if (!one_run(k, req, &wp, &rp, ch, 512, &run)) { print_fail(&run); return; }
      steps += run.steps;
    }
  } else { // exhaustive depth-first enumeration of all choice sequences
    long max = atol(tok[i + 1]);
    int  n   = 0;
    for (;;) {
      int ok = one_run(k, req, &wp, &rp, ch, n, &run);
      ++runs; steps += run.steps;
      if (!ok) { print_fail(&run); return; }
      if (run.ntaken > MAXCH) { puts("FAIL schedule too long for the enumerator"); return; }
      // next: bump the last choice that has an untried alternative
      int j = run.ntaken - 1;
      while (j >= 0 && taken[j] + 1 >= alts[j]) --j;
      if (j < 0) break;
      memcpy(ch, taken, sizeof(int) * (size_t)j);
      ch[j] = taken[j] + 1;
      n     = j + 1;
      if (runs >= max) { fprintf(stderr, "truncated 1\n"); break; }
    }
  }
  fprintf(stderr, "runs %ld steps %ld\n", runs, steps);
  puts("ok");
}

int main(void)
{
  char*  line = NULL;
  size_t cap  = 0;
  char*  tok[256];
  signal(SIGALRM, on_alarm);
  signal(SIGSEGV, on_segv);
  signal(SIGBUS, on_segv);
  alarm(20);
  int cal = calibrate();
  alarm(0);
  while (vgetline(&line, &cap)) {
    int nt = vsplit(line, tok, 256);
    if (!cal) { puts("CALIBRATION-FAILED (cannot locate the heads through the API)"); continue; }
    if (nt >= 4 && !strcmp(tok[0], "T")) trace_case(tok, nt);
    else if (nt >= 4 && !strcmp(tok[0], "X")) sched_case(tok, nt);
    else puts("BAD-CASE");
    fflush(stdout);
  }
  free(line);
  return 0;
}
