// C14: link-time wrappers (-Wl,--wrap=) around the system calls zix_copy_file makes.  While `vw_active`
// is set every wrapped call takes its outcome from the case's script (F = truthful, S<k> = short count,
// E<e> = fail with errno e) exactly as the Coq environment model (coq/CopySpec.v) does, and otherwise calls
// the real function on real files; every call is logged as name:arg:ret.
#include "wrap_io_c14.h"

#include <errno.h>
#include <fcntl.h>
#include <stdarg.h>
#include <stdio.h>
#include <string.h>
#include <sys/stat.h>
#include <sys/types.h>
#include <unistd.h>

int        vw_active  = 0;
VwOutcome  vw_script[VW_MAX_SCRIPT];
int        vw_script_len = 0;
int        vw_script_pos = 0;
int        vw_src_fd = -1, vw_dst_fd = -1;
long       vw_b1 = 0, vw_b2 = 0;
int        vw_ino_collide = 0;
static int   vw_first_fd  = -1;
static ino_t vw_first_ino;
static dev_t vw_first_dev;
char       vw_log[VW_LOG_SIZE];
size_t     vw_log_len = 0;
int        vw_first_cfr_errno = -1;
int        vw_mode = 0;       // 0: copy (source/destination told apart by the open flags); 1: two read-only files
int        vw_open_count = 0;
void (*vw_stat_hook)(const char* path, int ret, const struct stat* sb) = NULL;

void
vw_reset(void)
{
  vw_active = 0;
  vw_script_len = vw_script_pos = 0;
  vw_src_fd = vw_dst_fd = -1;
  vw_b1 = vw_b2 = 0;
  vw_ino_collide = 0;
  vw_first_fd    = -1;
  vw_log_len = 0;
  vw_log[0] = 0;
  vw_first_cfr_errno = -1;
  vw_mode = 0;
  vw_open_count = 0;
  vw_stat_hook = NULL;
}

void
vw_logs(const char* text)
{
  const size_t n = strlen(text);
  if (vw_log_len + n + 2 < VW_LOG_SIZE) {
    vw_log_len += (size_t)snprintf(vw_log + vw_log_len, VW_LOG_SIZE - vw_log_len, "%s%s", vw_log_len ? " " : "", text);
  }
}

void
vw_logf(const char* name, long arg, long ret)
{
  if (vw_log_len + 64 < VW_LOG_SIZE) {
    vw_log_len += (size_t)snprintf(vw_log + vw_log_len, VW_LOG_SIZE - vw_log_len, "%s%s:%ld:%ld",
                                   vw_log_len ? " " : "", name, arg, ret);
  }
}

static VwOutcome
vw_pop(void)
{
  VwOutcome full = {'F', 0};
  return (vw_script_pos < vw_script_len) ? vw_script[vw_script_pos++] : full;
}

static size_t
rd_count(const VwOutcome o, const size_t req)
{
  // the kernel clips to what is available; a short count is at least 1
  if (o.kind == 'S' && req > 0) {
    size_t k = (size_t)o.val < req ? (size_t)o.val : req;
    return k ? k : 1;
  }
  return req;
}

int     __real_open64(const char* path, int flags, ...);
int     __real_open(const char* path, int flags, ...);
int     __real_fstat64(int fd, struct stat* sb);
int     __real_fstat(int fd, struct stat* sb);
int     __real_stat64(const char* path, struct stat* sb);
int     __real_stat(const char* path, struct stat* sb);
ssize_t __real_copy_file_range(int, off_t*, int, off_t*, size_t, unsigned);
ssize_t __real_read(int, void*, size_t);
ssize_t __real_write(int, const void*, size_t);
int     __real_fdatasync(int);
int     __real_close(int);
int     __real_posix_fadvise64(int, off_t, off_t, int);
int     __real_posix_fadvise(int, off_t, off_t, int);

static int
do_open(int lfs, const char* path, int flags, mode_t mode)
{
  if (!vw_active) {
    return lfs ? __real_open64(path, flags, mode) : __real_open(path, flags, mode);
  }
  const int       which = vw_mode ? (vw_open_count ? 1 : 0) : (flags & O_EXCL) ? 1 : (flags & O_TRUNC) ? 2 : 0;
  const VwOutcome o     = vw_pop();
  ++vw_open_count;
  if (o.kind == 'E') {
    errno = o.val;
    vw_logf("open", which, -1);
    return -1;
  }
  const int fd = lfs ? __real_open64(path, flags, mode) : __real_open(path, flags, mode);
  if (fd >= 0) {
    if (which) {
      vw_dst_fd = fd;
    } else {
      vw_src_fd = fd;
    }
  }
  const int e = errno;
  vw_logf("open", which, fd >= 0 ? 0 : -1);
  errno = e;
  return fd;
}

int
__wrap_open64(const char* path, int flags, ...)
{
  va_list ap;
  va_start(ap, flags);
  mode_t mode = (flags & O_CREAT) ? (mode_t)va_arg(ap, int) : 0;
  va_end(ap);
  return do_open(1, path, flags, mode);
}

int
__wrap_open(const char* path, int flags, ...)
{
  va_list ap;
  va_start(ap, flags);
  mode_t mode = (flags & O_CREAT) ? (mode_t)va_arg(ap, int) : 0;
  va_end(ap);
  return do_open(0, path, flags, mode);
}

static int
do_fstat(int lfs, int fd, struct stat* sb)
{
  if (!vw_active) {
    return lfs ? __real_fstat64(fd, sb) : __real_fstat(fd, sb);
  }
  const int       which = (fd == vw_dst_fd) ? 1 : 0;
  const VwOutcome o     = vw_pop();
  if (o.kind == 'E') {
    errno = o.val;
    vw_logf("fstat", which, -1);
    return -1;
  }
  const int r = lfs ? __real_fstat64(fd, sb) : __real_fstat(fd, sb);
  const int e = errno;
  if (!r) {
    const long b = which ? vw_b2 : vw_b1;
    if (b != VW_KEEP_BLKSIZE) {
      sb->st_blksize = (blksize_t)b;
    }
    if (vw_ino_collide) {
      // two files on two file systems may carry the same inode number: only (st_dev, st_ino) identifies a file
      if (vw_first_fd < 0) {
        vw_first_fd  = fd;
        vw_first_ino = sb->st_ino;
        vw_first_dev = sb->st_dev;
      } else if (fd != vw_first_fd) {
        sb->st_ino = vw_first_ino;
        sb->st_dev = vw_first_dev + 1U;
      }
    }
  }
  vw_logf("fstat", which, r);
  errno = e;
  return r;
}

int __wrap_fstat64(int fd, struct stat* sb) { return do_fstat(1, fd, sb); }
int __wrap_fstat(int fd, struct stat* sb) { return do_fstat(0, fd, sb); }

static int
do_stat(int lfs, const char* path, struct stat* sb)
{
  if (!vw_active) {
    return lfs ? __real_stat64(path, sb) : __real_stat(path, sb);
  }
  const VwOutcome o = vw_pop();
  if (o.kind == 'E') {
    errno = o.val;
    vw_logf("stat", 0, -1);
    return -1;
  }
  const int r = lfs ? __real_stat64(path, sb) : __real_stat(path, sb);
  const int e = errno;
  if (vw_stat_hook) {
    vw_stat_hook(path, r, sb);
  } else {
    vw_logf("stat", 0, r);
  }
  errno = e;
  return r;
}

int __wrap_stat64(const char* path, struct stat* sb) { return do_stat(1, path, sb); }
int __wrap_stat(const char* path, struct stat* sb) { return do_stat(0, path, sb); }

ssize_t
__wrap_copy_file_range(int fd_in, off_t* off_in, int fd_out, off_t* off_out, size_t len, unsigned flags)
{
  if (!vw_active) {
    return __real_copy_file_range(fd_in, off_in, fd_out, off_out, len, flags);
  }
  const VwOutcome o = vw_pop();
  if (o.kind == 'E') {
    errno = o.val;
    vw_logf("cfr", (long)len, -1);
    return -1;
  }
  const ssize_t r = __real_copy_file_range(fd_in, off_in, fd_out, off_out, rd_count(o, len), flags);
  const int     e = errno;
  if (vw_first_cfr_errno < 0) {
    vw_first_cfr_errno = r < 0 ? e : 0;
  }
  vw_logf("cfr", (long)len, (long)r);
  errno = e;
  return r;
}

ssize_t
__wrap_read(int fd, void* buf, size_t count)
{
  if (!vw_active) {
    return __real_read(fd, buf, count);
  }
  const VwOutcome o = vw_pop();
  if (o.kind == 'E') {
    errno = o.val;
    vw_logf("read", (long)count, -1);
    return -1;
  }
  const ssize_t r = __real_read(fd, buf, rd_count(o, count));
  const int     e = errno;
  vw_logf("read", (long)count, (long)r);
  errno = e;
  return r;
}

ssize_t
__wrap_write(int fd, const void* buf, size_t count)
{
  if (!vw_active) {
    return __real_write(fd, buf, count);
  }
  const VwOutcome o = vw_pop();
  if (o.kind == 'E') {
    errno = o.val;
    vw_logf("write", (long)count, -1);
    return -1;
  }
  size_t n = count;
  if (o.kind == 'S' && (size_t)o.val < count) {
    n = (size_t)o.val;
  }
  const ssize_t r = n ? __real_write(fd, buf, n) : 0; // a write that makes no progress
  const int     e = errno;
  vw_logf("write", (long)count, (long)r);
  errno = e;
  return r;
}

int
__wrap_fdatasync(int fd)
{
  if (!vw_active) {
    return __real_fdatasync(fd);
  }
  const VwOutcome o = vw_pop();
  if (o.kind == 'E') {
    errno = o.val;
    vw_logf("fdatasync", 0, -1);
    return -1;
  }
  const int r = __real_fdatasync(fd);
  const int e = errno;
  vw_logf("fdatasync", 0, r);
  errno = e;
  return r;
}

int
__wrap_close(int fd)
{
  if (!vw_active) {
    return __real_close(fd);
  }
  const int       which = (fd == vw_dst_fd) ? 1 : 0;
  const VwOutcome o     = vw_pop();
  int             r     = __real_close(fd); // the descriptor is released even when close reports an error
  int             e     = errno;
  if (o.kind == 'E') {
    r = -1;
    e = o.val;
  }
  vw_logf("close", which, r);
  errno = e;
  return r;
}

static int
do_fadvise(int lfs, int fd, off_t off, off_t len, int advice)
{
  if (!vw_active) {
    return lfs ? __real_posix_fadvise64(fd, off, len, advice) : __real_posix_fadvise(fd, off, len, advice);
  }
  const int       which = (fd == vw_dst_fd) ? 1 : 0;
  const VwOutcome o     = vw_pop();
  const int       e     = errno;
  int             r     = 0;
  if (o.kind == 'E') {
    r = o.val;
  } else {
    r = lfs ? __real_posix_fadvise64(fd, off, len, advice) : __real_posix_fadvise(fd, off, len, advice);
  }
  vw_logf("fadvise", which, r);
  errno = e;
  return r;
}

int __wrap_posix_fadvise64(int fd, off_t off, off_t len, int advice) { return do_fadvise(1, fd, off, len, advice); }
int __wrap_posix_fadvise(int fd, off_t off, off_t len, int advice) { return do_fadvise(0, fd, off, len, advice); }
