// C06 implementation driver: ZixTree (see ocaml/drv_c06.ml for the case and line format).
//
// The node struct is private.  What is observed:
//  * statuses, the element behind every returned iterator, zix_tree_size after every call;
//  * every comparator call (which stored element was compared, in order; user data; first argument);
//  * every destroy call (element, user data); elements are freed by the destroy callback, so a second
//    destroy or a later access through the tree is an ASan error;
//  * the iterator returned by the insertion of an element is HELD and used for every later
//    remove/get/next/prev of that element (iterator stability; a dangling one is an ASan error);
//  * shape: the comparator is ours, so a read-only zix_tree_find can be steered to any node (answer by
//    in-order position relative to the target, 0 only at the target); the comparison log is then the
//    root-to-node path, also among equal keys;
//  * parent links: after every executed insert/remove (any status), while the tree has at most SWEEP_LIMIT
//    elements, one zix_tree_iter_next and one zix_tree_iter_prev from the HELD iterator of every live
//    element (token L<id>next.../<id>prev..., see ocaml/drv_c06.ml); the model side computes the same
//    steps on the pointer-level model coq/AvlHeapModel.v.
#include "vcommon.h"

#include <zix/allocator.h>
#include <zix/status.h>
#include <zix/tree.h>

#include <signal.h>
#include <unistd.h>

typedef struct {
  int key;
  int id;
} Elem;

typedef struct {
  int tagc;
} UserData;

static UserData cmp_ud     = {1};
static UserData destroy_ud = {2};

// per-case state
static ZixTree*      tree;
static Elem**        elem;  // by id
static ZixTreeIter** iter;  // by id; NULL = not live
static int*          pos;   // by id: in-order position (valid after a walk)
static int           n_ids, cap_ids;
static int           ud_bad;
static int*          cmplog;
static int           n_cmplog, cap_cmplog;
static const Elem*   probe;        // expected first comparator argument
static int           steer_target; // -1: compare keys; else id of the node to steer to
static FILE*         dlog;         // destroy log sink
static int*          dlist;
static int           n_dlist, cap_dlist;

static void push(int** a, int* n, int* cap, int v)
{
  if (*n == *cap) {
    *cap = *cap ? 2 * *cap : 64;
    *a   = (int*)realloc(*a, (size_t)*cap * sizeof(int));
  }
  (*a)[(*n)++] = v;
}

// NULL-element mode (policy token d0z / d1z): elements are opaque void* and NULL is a legitimate one.  The first
// key-0 element inserted while no NULL element is live is handed to the tree as the NULL pointer; elem[null_id]
// is its shadow record.  Comparator, destroy callback and zix_tree_get results map NULL back to the shadow.
static int null_mode;
static ZixTreeIter* last_found;      // the iterator most recently set by a successful zix_tree_find (never dereferenced)
static long         stale_dummy[8];  // a non-NULL value for the out-iterator when nothing was found yet
static int null_id = -1;

static Elem* unnull(const void* p)
{
  return p ? (Elem*)p : (null_id >= 0 ? elem[null_id] : NULL);
}

static int compare(const void* a, const void* b, const void* ud)
{
  const Elem* ea = unnull(a);
  const Elem* eb = unnull(b);
  if (!ea || !eb) { // a NULL that is not the designated element
    ud_bad = 1;
    return 0;
  }
#ifdef C06_VERIFY_BUILD
  // cross-check build with tree.c's ZIX_TREE_VERIFY: verify() compares stored elements with each other
  if (ea != probe) {
    return (ea->key < eb->key) ? -1 : (ea->key > eb->key) ? 1 : 0;
  }
#endif
  if (ud != &cmp_ud || ea != probe) {
    ud_bad = 1;
  }
  push(&cmplog, &n_cmplog, &cap_cmplog, eb->id);
  if (steer_target >= 0) {
    const int d = pos[steer_target] - pos[eb->id];
    return (d < 0) ? -1 : (d > 0) ? 1 : 0;
  }
  return (ea->key < eb->key) ? -1 : (ea->key > eb->key) ? 1 : 0;
}

static void destroy(void* ptr, const void* ud)
{
  Elem* e = unnull(ptr);
  if (!e) { // destroy(NULL) while no NULL element is stored
    ud_bad = 1;
    return;
  }
  if (dlog) {
    fprintf(dlog, "%sd%d@%s", n_dlist ? "," : "", e->id, (ud == &destroy_ud) ? "ok" : "bad");
  }
  if (ud != &destroy_ud) {
    ud_bad = 1;
  }
  push(&dlist, &n_dlist, &cap_dlist, e->id);
  if (!ptr) {
    elem[null_id] = NULL;
    null_id       = -1;
  }
  free(e);
}

// allocator with a one-shot failure switch
static int fail_next;
static void* a_malloc(ZixAllocator* a, size_t size)
{
  (void)a;
  if (fail_next) {
    fail_next = 0;
    return NULL;
  }
  return malloc(size);
}
static void* a_calloc(ZixAllocator* a, size_t n, size_t size)
{
  (void)a;
  if (fail_next) {
    fail_next = 0;
    return NULL;
  }
  return calloc(n, size);
}
static void* a_realloc(ZixAllocator* a, void* p, size_t size)
{
  (void)a;
  return realloc(p, size);
}
static void a_free(ZixAllocator* a, void* p)
{
  (void)a;
  free(p);
}
static void* a_aligned_alloc(ZixAllocator* a, size_t al, size_t size)
{
  (void)a;
  return aligned_alloc(al, size);
}
static ZixAllocator the_alloc = {a_malloc, a_calloc, a_realloc, a_free, a_aligned_alloc, a_free};

static void putdots(FILE* f, const int* a, int n)
{
  for (int i = 0; i < n; ++i) {
    fprintf(f, "%s%d", i ? "." : "", a[i]);
  }
}

static int cmp_int(const void* a, const void* b)
{
  const int x = *(const int*)a, y = *(const int*)b;
  return (x < y) ? -1 : (x > y);
}

// the element behind a non-null iterator (NULL pointer = the designated element)
static Elem* elem_of(ZixTreeIter* it)
{
  return it ? unnull(zix_tree_get(it)) : NULL;
}

static int id_of(ZixTreeIter* it)
{
  Elem* e = elem_of(it);
  return e ? e->id : -1;
}

#define SWEEP_LIMIT 24 // the same constant as sweep_limit in ocaml/drv_c06.ml

// next (fwd) or prev of every held iterator, ascending ids: "<id>><id of the neighbour or ->" dot-separated
static void sweep_dir(FILE* s, int fwd)
{
  int first = 1;
  for (int id = 0; id < n_ids; ++id) {
    if (!iter[id]) {
      continue;
    }
    ZixTreeIter* r   = fwd ? zix_tree_iter_next(iter[id]) : zix_tree_iter_prev(iter[id]);
    const int    end = fwd ? zix_tree_iter_is_end(r) : zix_tree_iter_is_rend(r);
    fprintf(s, "%s%d>", first ? "" : ".", id);
    first = 0;
    if (end) {
      fputc('-', s);
    } else {
      fprintf(s, "%d", id_of(r));
    }
  }
}

static void do_sweep(FILE* s)
{
  if (zix_tree_size(tree) > SWEEP_LIMIT) {
    return;
  }
  fputs(" L", s);
  sweep_dir(s, 1);
  fputc('/', s);
  sweep_dir(s, 0);
}

// forward / backward walk into malloc'd id arrays; returns count, -1 if it does not stop
static int walk(int fwd, int** out)
{
  const size_t size = zix_tree_size(tree);
  int*         a    = NULL;
  int          n = 0, cap = 0;
  ZixTreeIter* it = fwd ? zix_tree_begin(tree) : zix_tree_rbegin(tree);
  ZixTreeIter* en = fwd ? zix_tree_end(tree) : zix_tree_rend(tree);
  while (it != en && !(fwd ? zix_tree_iter_is_end(it) : zix_tree_iter_is_rend(it))) {
    if ((size_t)n > size + 1) {
      free(a);
      *out = NULL;
      return -1;
    }
    push(&a, &n, &cap, id_of(it));
    it = fwd ? zix_tree_iter_next(it) : zix_tree_iter_prev(it);
  }
  *out = a;
  return n;
}

static void set_positions(const int* f, int n)
{
  for (int i = 0; i < n; ++i) {
    if (f[i] >= 0 && f[i] < n_ids) {
      pos[f[i]] = i;
    }
  }
}

// steer a find to the node of element id; path = cmplog[0..n_cmplog); returns 0 if the find did not
// arrive at the held iterator
static int steer(int id)
{
  Elem         p  = {0, -2};
  ZixTreeIter* ti = NULL;
  probe           = &p;
  steer_target    = id;
  n_cmplog        = 0;
  const ZixStatus s = zix_tree_find(tree, &p, &ti);
  steer_target      = -1;
  return s == ZIX_STATUS_SUCCESS && ti == iter[id] && elem_of(ti) == elem[id];
}

static void do_walk(FILE* o, FILE* s)
{
  int *f = NULL, *b = NULL;
  int  nf = walk(1, &f), nb = walk(0, &b);
  if (nf < 0 || nb < 0) {
    fputs("w:LOOP", o);
    fputs("WLOOP", s);
    free(f);
    free(b);
    return;
  }
  fputs("w:", o);
  for (int i = 0; i < nf; ++i) {
    fprintf(o, "%s%d", i ? "." : "", (f[i] >= 0) ? elem[f[i]]->key : -1);
  }
  fputc('/', o);
  for (int i = 0; i < nb; ++i) {
    fprintf(o, "%s%d", i ? "." : "", (b[i] >= 0) ? elem[b[i]]->key : -1);
  }
  fputc('W', s);
  putdots(s, f, nf);
  fputc('/', s);
  putdots(s, b, nb);
  if (nf) {
    qsort(f, (size_t)nf, sizeof(int), cmp_int);
  }
  if (nb) {
    qsort(b, (size_t)nb, sizeof(int), cmp_int);
  }
  fputc('/', o);
  putdots(o, f, nf);
  fputc('/', o);
  putdots(o, b, nb);
  free(f);
  free(b);
}

static void do_dump(FILE* o, FILE* s)
{
  int* f  = NULL;
  int  nf = walk(1, &f);
  fputs("D", s);
  if (nf < 0) {
    fputs("D:LOOP", o);
    fputs("LOOP", s);
    return;
  }
  set_positions(f, nf);
  int maxdepth = 0;
  for (int i = 0; i < nf; ++i) {
    const int ok = steer(f[i]);
    fprintf(s, "%s%d=", i ? ";" : "", f[i]);
    if (ok) {
      putdots(s, cmplog, n_cmplog);
    } else {
      fputs("BAD", s);
    }
    if (n_cmplog > maxdepth) {
      maxdepth = n_cmplog;
    }
  }
  // the deepest node = the most comparisons any (steered) find needs
  fprintf(o, "D:h%d/%zu", maxdepth, zix_tree_size(tree));
  free(f);
}

static void on_alarm(int sig)
{
  (void)sig;
  static const char msg[] = "TIMEOUT\n";
  if (write(1, msg, sizeof(msg) - 1) < 0) {
    _exit(97);
  }
  _exit(97);
}

int main(void)
{
  char*  line = NULL;
  size_t cap  = 0;
  signal(SIGALRM, on_alarm);
  while (vgetline(&line, &cap)) {
    alarm(60);
    char*  obuf = NULL;
    char*  sbuf = NULL;
    size_t on = 0, sn = 0;
    FILE*  o = open_memstream(&obuf, &on);
    FILE*  s = open_memstream(&sbuf, &sn);
    char*  save = NULL;
    char*  tok  = strtok_r(line, " ", &save);
    const int dup = tok && tok[0] == 'd' && tok[1] == '1';
    null_mode     = tok && strchr(tok, 'z') != NULL;
    // q (sets only): zix_tree_insert is called without an iterator out-parameter (it is optional); the iterator is
    // then obtained with zix_tree_find, whose comparisons are kept out of the insertion's comparator log
    const int quiet_ti = !dup && tok && strchr(tok, 'q') != NULL;
    null_id       = -1;
    last_found    = NULL;
    n_ids = 0;
    ud_bad = 0;
    steer_target = -1;
    tree = zix_tree_new(&the_alloc, dup, compare, &cmp_ud, destroy, &destroy_ud);
    int first = 1;
#define SEP()            \
  do {                   \
    if (!first) {        \
      fputc(' ', o);     \
      fputc(' ', s);     \
    }                    \
    first = 0;           \
  } while (0)
    for (tok = tok ? strtok_r(NULL, " ", &save) : NULL; tok; tok = strtok_r(NULL, " ", &save)) {
      const char c   = tok[0];
      const int  arg = atoi(tok + 1);
      SEP();
      if (c == 'i' || c == 'I') {
        if (n_ids == cap_ids) {
          cap_ids = cap_ids ? 2 * cap_ids : 64;
          elem    = (Elem**)realloc(elem, (size_t)cap_ids * sizeof(*elem));
          iter    = (ZixTreeIter**)realloc(iter, (size_t)cap_ids * sizeof(*iter));
          pos     = (int*)realloc(pos, (size_t)cap_ids * sizeof(*pos));
        }
        const int id = n_ids++;
        Elem*     e  = (Elem*)malloc(sizeof(Elem));
        e->key = arg;
        e->id  = id;
        elem[id] = e;
        iter[id] = NULL;
        pos[id]  = 0;
        ZixTreeIter* ti = NULL;
        probe     = e;
        n_cmplog  = 0;
        fail_next = (c == 'I');
        const int as_null = null_mode && arg == 0 && null_id < 0;
        if (as_null) {
          null_id = id;
        }
        const ZixStatus st = zix_tree_insert(tree, as_null ? NULL : e, quiet_ti ? NULL : &ti);
        fail_next = 0;
        if (quiet_ti && (st == ZIX_STATUS_SUCCESS || st == ZIX_STATUS_EXISTS)) {
          const int n_log = n_cmplog;
          zix_tree_find(tree, as_null ? NULL : e, &ti);
          n_cmplog = n_log;
        }
        const char* sname = st == ZIX_STATUS_SUCCESS  ? "OK"
                            : st == ZIX_STATUS_EXISTS ? "EXISTS"
                            : st == ZIX_STATUS_NO_MEM ? "NOMEM"
                                                      : zix_strerror(st);
        fprintf(o, "i:%s:", sname);
        if (ti) {
          fprintf(o, "%d", id_of(ti));
        } else {
          fputc('-', o);
        }
        fprintf(o, ":s%zu", zix_tree_size(tree));
        fputc('c', s);
        putdots(s, cmplog, n_cmplog);
        if (st == ZIX_STATUS_SUCCESS) {
          iter[id] = ti;
        } else {
          free(e);
          elem[id] = NULL;
          if (as_null) {
            null_id = -1;
          }
        }
        do_sweep(s);
      } else if (c == 'r') {
        if (arg < 0 || arg >= n_ids || !iter[arg]) {
          fputs("r:skip", o);
          fputs("-", s);
          continue;
        }
        // classify the target: number of children, root (through steered finds + neighbours)
        int* f  = NULL;
        int  nf = walk(1, &f);
        int  cls = -1, is_root = 0;
        if (nf >= 0) {
          set_positions(f, nf);
          ZixTreeIter* pv = zix_tree_iter_prev(iter[arg]);
          ZixTreeIter* nx = zix_tree_iter_next(iter[arg]);
          const int    ok = steer(arg);
          const int    lx = n_cmplog;
          is_root         = ok && lx == 1;
          cls             = 0;
          if (pv && !zix_tree_iter_is_rend(pv)) {
            steer(id_of(pv));
            cls += (n_cmplog > lx);
          }
          if (nx && !zix_tree_iter_is_end(nx)) {
            steer(id_of(nx));
            cls += (n_cmplog > lx);
          }
        }
        free(f);
        char*  dbuf = NULL;
        size_t dn   = 0;
        dlog        = open_memstream(&dbuf, &dn);
        n_dlist     = 0;
        n_cmplog    = 0;
        probe       = NULL;
        const ZixStatus st = zix_tree_remove(tree, iter[arg]);
        fclose(dlog);
        dlog      = NULL;
        iter[arg] = NULL;
        if (arg == null_id) { // destroy was not called for the NULL element: release its shadow record ourselves
          free(elem[arg]);
          null_id = -1;
        }
        elem[arg] = NULL; // freed by destroy (if it was called)
        fprintf(o, "r:%s:%s:s%zu", st == ZIX_STATUS_SUCCESS ? "OK" : zix_strerror(st), dbuf, zix_tree_size(tree));
        fprintf(s, "k%d%s", cls, is_root ? "R" : "");
        if (n_cmplog) {
          fputs("+cmp", s);
        }
        free(dbuf);
        do_sweep(s);
      } else if (c == 'f') {
        Elem p = {arg, -1};
        // the out-iterator is pre-loaded with a non-NULL value (the most recently found iterator, possibly of a node
        // freed since; else a dummy): tree.h documents "If no such item exists, `ti` is set to NULL"
        ZixTreeIter* ti = last_found ? last_found : (ZixTreeIter*)(void*)stale_dummy;
        probe           = &p;
        n_cmplog        = 0;
        const ZixStatus st = zix_tree_find(tree, &p, &ti);
        const char* sname = st == ZIX_STATUS_SUCCESS ? "OK" : st == ZIX_STATUS_NOT_FOUND ? "NOTFOUND" : zix_strerror(st);
        if (st != ZIX_STATUS_SUCCESS) {
          // never dereferenced: only whether the library reset it
          fprintf(o, "f:%s:%s:s%zu", sname, ti ? "STALE" : "-", zix_tree_size(tree));
          fputs("-:c", s);
        } else if (ti) {
          Elem* e = elem_of(ti);
          fprintf(o, "f:%s:%d:s%zu", sname, e->key, zix_tree_size(tree));
          fprintf(s, "%d:c", (iter[e->id] == ti) ? e->id : -3);
          last_found = ti;
        } else {
          fprintf(o, "f:%s:-:s%zu", sname, zix_tree_size(tree));
          fputs("-:c", s);
        }
        putdots(s, cmplog, n_cmplog);
        fprintf(o, " fc%d/%zu", n_cmplog, zix_tree_size(tree));
        fputs(" -", s);
      } else if (c == 'g') {
        if (arg < 0 || arg >= n_ids || !iter[arg]) {
          fputs("g:skip", o);
        } else {
          void* const raw = zix_tree_get(iter[arg]);
          Elem*       e   = unnull(raw);
          if ((raw == NULL) != (arg == null_id) || !e) { // zix_tree_get must hand back exactly the stored pointer
            fputs("g:BADPTR", o);
          } else {
            fprintf(o, "g:%d.%d", e->key, e->id);
          }
        }
        fputs("-", s);
      } else if (c == 'n' || c == 'p') {
        if (arg < 0 || arg >= n_ids || !iter[arg]) {
          fprintf(o, "%c:skip", c);
          fputs("-", s);
        } else {
          ZixTreeIter* r = (c == 'n') ? zix_tree_iter_next(iter[arg]) : zix_tree_iter_prev(iter[arg]);
          const int end = (c == 'n') ? zix_tree_iter_is_end(r) : zix_tree_iter_is_rend(r);
          if (end) {
            fprintf(o, "%c:ok", c);
            fputs("-", s);
          } else {
            Elem* e  = elem_of(r);
            int   ok = (c == 'n') ? (e->key >= elem[arg]->key) : (e->key <= elem[arg]->key);
            fprintf(o, "%c:%s", c, ok ? "ok" : "BAD");
            fprintf(s, "%d", e->id);
          }
        }
      } else if (c == 'w') {
        do_walk(o, s);
      } else if (c == 'D') {
        do_dump(o, s);
      } else {
        fputs("?", o);
        fputs("?", s);
      }
    }
    SEP();
    do_walk(o, s);
    SEP();
    do_dump(o, s);
    SEP();
    const size_t fsize = zix_tree_size(tree);
    n_dlist = 0;
    dlog    = NULL;
    zix_tree_free(tree);
    fprintf(s, "F");
    putdots(s, dlist, n_dlist);
    if (n_dlist) {
      qsort(dlist, (size_t)n_dlist, sizeof(int), cmp_int);
    }
    if (null_id >= 0) { // the NULL element was never destroyed: release its shadow record ourselves
      free(elem[null_id]);
      elem[null_id] = NULL;
      null_id       = -1;
    }
    fprintf(o, "end:s%zu:free=", fsize);
    putdots(o, dlist, n_dlist);
    fprintf(o, ":ud=%s", ud_bad ? "bad" : "ok");
    fclose(o);
    fclose(s);
    printf("%s || %s\n", obuf, sbuf);
    fflush(stdout);
    free(obuf);
    free(sbuf);
    alarm(0);
  }
  free(line);
  free(elem);
  free(iter);
  free(pos);
  free(cmplog);
  free(dlist);
  return 0;
}
