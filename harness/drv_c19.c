// C19 implementation driver: zix_file_lock / zix_file_unlock from /repo/src/posix/filesystem_posix.c
//
// Linked with -Wl,--wrap=flock and --wrap of calls a lock wrapper has no business making (fcntl, fflush, fsync,
// fdatasync, ftruncate, write, close, fclose, lockf): made inside zix_file_lock/unlock they count as unexpected.
//   F <L|U> <B|T> <rc> <errno> <m>  scripted: flock is replaced, (fd, flags) recorded, result injected; the FILE is
//                                  opened with mode m (r, R = r+, w, a, A = a+); any fcntl call is recorded too
//   P <kinds> <sched>              lock-step run: one worker per handle, two characters each: p = forked process /
//                                  t = thread of this process, then the fopen mode (r R w a A); every worker opens
//                                  the lock file itself and is driven over pipes so that the interleaving is exactly
//                                  the given one.  sched tokens <i><c>:
//                                    t/b lock TRY/BLOCK, u/v unlock TRY/BLOCK, c fclose, o fopen,
//                                    r collect a sleeping BLOCK call (or confirm it still sleeps), s signal,
//                                    w fputs a few bytes into the FILE's buffer (no flush; the file size limit is 0
//                                      during these runs, so any flush of them fails)
#ifndef _GNU_SOURCE
#  define _GNU_SOURCE
#endif
#include "vcommon.h"

#include <zix/filesystem.h>
#include <zix/status.h>

#include <errno.h>
#include <fcntl.h>
#include <poll.h>
#include <pthread.h>
#include <signal.h>
#include <stdatomic.h>
#include <sys/file.h>
#include <sys/mman.h>
#include <sys/resource.h>
#include <sys/stat.h>
#include <sys/syscall.h>
#include <sys/wait.h>
#include <time.h>
#include <unistd.h>

_Static_assert(LOCK_SH == 1 && LOCK_EX == 2 && LOCK_NB == 4 && LOCK_UN == 8, "LockModel flag values");
_Static_assert(EINTR == 4 && EBADF == 9 && EAGAIN == 11 && EWOULDBLOCK == 11 && EINVAL == 22 && ENOLCK == 37,
               "errno values differ from coq/SemErrnoModel.v");
_Static_assert(ZIX_FILE_LOCK_BLOCK == 0 && ZIX_FILE_LOCK_TRY == 1, "LockModel.lmode");
#ifndef SYS_flock
#  error "SYS_flock needed"
#endif

static const char* status_name(int st)
{
  static const char* const names[] = {"SUCCESS", "ERROR", "NO_MEM", "NOT_FOUND", "EXISTS", "BAD_ARG",
                                      "BAD_PERMS", "REACHED_END", "TIMEOUT", "OVERFLOW", "NOT_SUPPORTED",
                                      "UNAVAILABLE", "NO_SPACE", "MAX_LINKS"};
  return ((unsigned)st < 14U) ? names[st] : "INVALID";
}

int __real_flock(int, int);
int __real_fcntl(int, int, ...);
int __real_fcntl64(int, int, ...);
#include <stdarg.h>

static __thread int in_zix_call; // set around zix_file_lock / zix_file_unlock
static __thread int unexpected;  // system calls the model does not prescribe, made inside them
static __thread int unexpected_cmd = -1;

int __wrap_fcntl(int fd, int cmd, ...)
{
  va_list ap;
  va_start(ap, cmd);
  void* arg = va_arg(ap, void*);
  va_end(ap);
  if (in_zix_call) {
    ++unexpected;
    unexpected_cmd = cmd;
  }
  return __real_fcntl(fd, cmd, arg);
}

int __wrap_fcntl64(int fd, int cmd, ...)
{
  va_list ap;
  va_start(ap, cmd);
  void* arg = va_arg(ap, void*);
  va_end(ap);
  if (in_zix_call) {
    ++unexpected;
    unexpected_cmd = cmd;
  }
  return __real_fcntl64(fd, cmd, arg);
}

static void note_call(int code)
{
  if (in_zix_call) {
    ++unexpected;
    unexpected_cmd = code;
  }
}

int     __real_fflush(FILE*);
int     __real_fsync(int);
int     __real_fdatasync(int);
int     __real_ftruncate(int, off_t);
int     __real_ftruncate64(int, off_t);
ssize_t __real_write(int, const void*, size_t);
int     __real_close(int);
int     __real_fclose(FILE*);
int     __real_lockf(int, int, off_t);
int     __real_lockf64(int, int, off_t);

int     __wrap_fflush(FILE* f) { note_call(1001); return __real_fflush(f); }
int     __wrap_fsync(int fd) { note_call(1002); return __real_fsync(fd); }
int     __wrap_fdatasync(int fd) { note_call(1003); return __real_fdatasync(fd); }
int     __wrap_ftruncate(int fd, off_t n) { note_call(1004); return __real_ftruncate(fd, n); }
int     __wrap_ftruncate64(int fd, off_t n) { note_call(1004); return __real_ftruncate64(fd, n); }
ssize_t __wrap_write(int fd, const void* b, size_t n) { note_call(1005); return __real_write(fd, b, n); }
int     __wrap_close(int fd) { note_call(1006); return __real_close(fd); }
int     __wrap_fclose(FILE* f) { note_call(1007); return __real_fclose(f); }
int     __wrap_lockf(int fd, int c, off_t n) { note_call(1008); return __real_lockf(fd, c, n); }
int     __wrap_lockf64(int fd, int c, off_t n) { note_call(1008); return __real_lockf64(fd, c, n); }

static const char* open_mode(char m)
{
  switch (m) {
  case 'r': return "r";
  case 'w': return "w";
  case 'a': return "a";
  case 'A': return "a+";
  default: return "r+";
  }
}

static int          scripted;
static int          inj_rc, inj_errno;
static int          seen_fd, seen_flags, seen_calls;
static __thread int last_flags = -1;

static int try_call;        // the running scripted call is zix_file_lock(..., ZIX_FILE_LOCK_TRY)
static int blocking_in_try; // it made a flock() request that can sleep

int __wrap_flock(int fd, int flags)
{
  last_flags = flags;
  if (scripted) {
    seen_fd    = fd;
    seen_flags = flags;
    ++seen_calls;
    if (try_call && !(flags & (LOCK_NB | LOCK_UN))) {
      blocking_in_try = 1; // a request that sleeps while somebody else holds the lock, made on behalf of a TRY call
    }
    if (inj_rc) {
      errno = inj_errno;
    }
    return inj_rc;
  }
  return __real_flock(fd, flags);
}

static void print_flags(int flags)
{
  const char* sep = "";
  if (flags & LOCK_SH) { printf("%sSH", sep); sep = "|"; }
  if (flags & LOCK_EX) { printf("%sEX", sep); sep = "|"; }
  if (flags & LOCK_UN) { printf("%sUN", sep); sep = "|"; }
  if (flags & LOCK_NB) { printf("%sNB", sep); sep = "|"; }
  if (flags & ~(LOCK_SH | LOCK_EX | LOCK_UN | LOCK_NB)) { printf("%s%d", sep, flags); sep = "|"; }
  if (!*sep) { printf("0"); }
}

static char lock_path[64];
static char dir_path[64]; // "D" cases: the object every handle is opened on is a DIRECTORY (flock works on any open file)
static int  use_dir;
#define OBJ_PATH (use_dir ? dir_path : lock_path)

// A case line may start with "@<n>": errno is set to n immediately before every library call under test.
static int entry_errno;

static void case_scripted(char** tok)
{
  FILE* f = fopen(OBJ_PATH, use_dir ? "r" : open_mode(tok[5][0]));
  if (!f) {
    puts("nofile");
    return;
  }
  const ZixFileLockMode mode = (tok[2][0] == 'B') ? ZIX_FILE_LOCK_BLOCK : ZIX_FILE_LOCK_TRY;
  unexpected = 0;
  inj_rc     = atoi(tok[3]);
  inj_errno  = atoi(tok[4]);
  seen_calls = 0;
  seen_fd    = -1;
  scripted   = 1;
  in_zix_call = 1;
  errno      = entry_errno;
  try_call        = tok[1][0] == 'L' && mode == ZIX_FILE_LOCK_TRY;
  blocking_in_try = 0;
  const ZixStatus st = (tok[1][0] == 'L') ? zix_file_lock(f, mode) : zix_file_unlock(f, mode);
  in_zix_call = 0;
  scripted   = 0;
  try_call   = 0;
  printf("st=%s nb=%s || calls=%d flock(%s,", status_name((int)st), blocking_in_try ? "BAD" : "ok", seen_calls,
         seen_fd == fileno(f) ? "fd" : "fd?");
  print_flags(seen_flags);
  fputs(")", stdout);
  if (unexpected) {
    printf(" unexpected=%d call(%d)", unexpected, unexpected_cmd);
  }
  fputc('\n', stdout);
  fclose(f);
}

// ------------------------------------------------------------------ workers
typedef struct {
  atomic_int occ;
  atomic_int viol;
  atomic_int max;
  atomic_int sigs[8];
} Shared;

static Shared* shared;

typedef struct {
  char      kind; // 'p' or 't'
  char      mode; // fopen mode letter
  int       idx;
  int       cmd[2];   // parent writes cmd[1], worker reads cmd[0]
  int       reply[2]; // worker writes reply[1], parent reads reply[0]
  pid_t     pid;      // process worker
  pthread_t th;       // thread worker
  pid_t     tid;
  int       busy;     // a command was sent and no reply collected yet
  char      pending;  // the operation it is busy with
  FILE* volatile fh;       // kind 't': the handle this worker opened (a worker of kind 'T' that follows it shares it)
  volatile int   fh_ready;
} Worker;

static __thread int my_idx = -1;

static void on_sigusr1(int sig)
{
  (void)sig;
  if (my_idx >= 0 && shared) {
    atomic_fetch_add(&shared->sigs[my_idx], 1);
  }
}

static double mono_now(void)
{
  struct timespec t;
  clock_gettime(CLOCK_MONOTONIC, &t);
  return (double)t.tv_sec + (double)t.tv_nsec / 1e9;
}

static void usleep_real(long us)
{
  struct timespec d = {us / 1000000, (us % 1000000) * 1000};
  nanosleep(&d, NULL);
}

static void occ_enter(void)
{
  const int n = atomic_fetch_add(&shared->occ, 1) + 1;
  if (n > 1) {
    atomic_store(&shared->viol, 1);
  }
  int m = atomic_load(&shared->max);
  while (n > m && !atomic_compare_exchange_weak(&shared->max, &m, n)) {
  }
}

static void worker_loop(Worker* w)
{
  my_idx        = w->idx;
  // kind 'T': a second thread of this process that uses the SAME handle as the worker before it (never its own):
  // what the library does to the FILE object itself (flockfile, buffers) is shared between the two
  const int shares = w->kind == 'T' && w->idx > 0;
  FILE*     f      = NULL;
  if (shares) {
    while (!w[-1].fh_ready) {
      usleep_real(100);
    }
    f = w[-1].fh;
  } else {
    f           = fopen(OBJ_PATH, use_dir ? "r" : open_mode(w->mode));
    w->fh       = f;
    w->fh_ready = 1;
  }
  int holding = 0;
  {
    // ready: the handle is open (the scheduler issues no step - an unlink of the lock file, say - before every
    // worker, process or thread, has said so)
    unsigned char hello[3] = {0xEE, 0, 0};
    while (write(w->reply[1], hello, 3) < 0 && errno == EINTR) {
    }
  }
  for (;;) {
    char    c = 0;
    ssize_t n = read(w->cmd[0], &c, 1);
    if (n < 0 && errno == EINTR) {
      continue;
    }
    if (n <= 0 || c == 'q') {
      break;
    }
    unsigned char out[3] = {0, 0, 0xFF};
    last_flags           = -1;
    unexpected           = 0;
    in_zix_call          = (c == 't' || c == 'b' || c == 'u' || c == 'v');
    const double t0      = mono_now();
    ZixStatus    st      = ZIX_STATUS_SUCCESS;
    switch (c) {
    case 't':
    case 'b':
      errno = entry_errno;
      st = f ? zix_file_lock(f, c == 't' ? ZIX_FILE_LOCK_TRY : ZIX_FILE_LOCK_BLOCK) : ZIX_STATUS_BAD_ARG;
      if (st == ZIX_STATUS_SUCCESS && !holding) {
        holding = 1;
        occ_enter(); // inside the critical section from here ...
      }
      break;
    case 'u':
    case 'v':
      if (holding) {
        atomic_fetch_sub(&shared->occ, 1); // ... to here
        holding = 0;
      }
      errno = entry_errno;
      st = f ? zix_file_unlock(f, c == 'u' ? ZIX_FILE_LOCK_TRY : ZIX_FILE_LOCK_BLOCK) : ZIX_STATUS_BAD_ARG;
      break;
    case 'c':
      if (holding) {
        atomic_fetch_sub(&shared->occ, 1);
        holding = 0;
      }
      if (f) {
        fclose(f);
        f = NULL;
      }
      break;
    case 'w':
      if (f) {
        fputs("zix", f); // stays in the stdio buffer
      }
      break;
    case 'x':
      unlink(lock_path); // the name goes; every open handle still refers to the same file and lock
      break;
    case 'o':
      if (!f) {
        f = fopen(OBJ_PATH, use_dir ? "r" : open_mode(w->mode));
      }
      st = f ? ZIX_STATUS_SUCCESS : ZIX_STATUS_ERROR;
      break;
    default: st = ZIX_STATUS_BAD_ARG;
    }
    in_zix_call = 0;
    out[0] = (unsigned char)st;
    out[1] = (unsigned char)(((c == 't' && mono_now() - t0 > 2.0) ? 1 : 0) | (unexpected ? 2 : 0));
    out[2] = (unsigned char)(last_flags < 0 ? 0xFF : last_flags);
    while (write(w->reply[1], out, 3) < 0 && errno == EINTR) {
    }
  }
  if (f && !shares) {
    fclose(f);
  }
}

static void* thread_main(void* arg)
{
  Worker* w = (Worker*)arg;
  w->tid    = (pid_t)syscall(SYS_gettid);
  worker_loop(w);
  return NULL;
}

// is the worker asleep inside flock(2)?  Both must hold: its current system call is flock (a task that is merely
// pre-empted inside a non-blocking flock shows that too) and the scheduler state is S (sleeping).
static int in_flock(const Worker* w)
{
  char path[64];
  char buf[160];
  if (w->kind == 'p') {
    snprintf(path, sizeof(path), "/proc/%d/syscall", (int)w->pid);
  } else {
    snprintf(path, sizeof(path), "/proc/self/task/%d/syscall", (int)w->tid);
  }
  FILE* f = fopen(path, "r");
  if (f) {
    size_t n = fread(buf, 1, sizeof(buf) - 1, f);
    fclose(f);
    buf[n] = 0;
    if (n > 0 && !(buf[0] >= '0' && buf[0] <= '9' && atoi(buf) == SYS_flock)) {
      return 0; // readable and not in flock ("running", "-1 ...", another call)
    }
  }
  if (w->kind == 'p') {
    snprintf(path, sizeof(path), "/proc/%d/stat", (int)w->pid);
  } else {
    snprintf(path, sizeof(path), "/proc/self/task/%d/stat", (int)w->tid);
  }
  f = fopen(path, "r");
  if (!f) {
    return 0;
  }
  size_t n = fread(buf, 1, sizeof(buf) - 1, f);
  fclose(f);
  buf[n]  = 0;
  char* p = strrchr(buf, ')');
  return p && p[1] == ' ' && p[2] == 'S';
}

// 1 = reply read into out, 0 = confirmed asleep in flock, -1 = watchdog
static int collect(Worker* w, unsigned char* out, int done_only)
{
  const double t0   = mono_now();
  int          seen = 0;
  for (;;) {
    struct pollfd pfd = {w->reply[0], POLLIN, 0};
    const int     pr  = poll(&pfd, 1, 0);
    if (pr > 0) {
      size_t got = 0;
      while (got < 3) {
        ssize_t n = read(w->reply[0], out + got, 3 - got);
        if (n < 0 && errno == EINTR) {
          continue;
        }
        if (n <= 0) {
          return -1;
        }
        got += (size_t)n;
      }
      return 1;
    }
    if (!done_only) {
      if (in_flock(w)) {
        if (++seen >= 4) {
          return 0;
        }
      } else {
        seen = 0;
      }
    }
    if (mono_now() - t0 > 8.0) {
      return -1;
    }
    usleep_real(150);
  }
}

static void send_cmd(Worker* w, char c)
{
  while (write(w->cmd[1], &c, 1) < 0 && errno == EINTR) {
  }
}

static void signal_worker(Worker* w)
{
  if (w->kind == 'p') {
    kill(w->pid, SIGUSR1);
  } else {
    pthread_kill(w->th, SIGUSR1);
  }
}

#define MAXW 8

static void case_lockstep(char** tok)
{
  Worker      w[MAXW];
  const int   n = (int)strlen(tok[1]) / 2 > MAXW ? MAXW : (int)strlen(tok[1]) / 2;
  char        flags[1024];
  int         slow = 0, hung = 0, unexp = 0;
  alarm(60); // nothing in a case may take this long: the driver dies and the case is reported as a crash
  // no file may grow during the run: whatever a worker has buffered in its FILE cannot be flushed
  struct rlimit old_lim;
  struct stat   out_st;
  int           limited = 0;
  if (!getrlimit(RLIMIT_FSIZE, &old_lim) && !(fstat(1, &out_st) == 0 && S_ISREG(out_st.st_mode))) {
    struct rlimit zero = old_lim;
    zero.rlim_cur      = 0;
    limited            = !setrlimit(RLIMIT_FSIZE, &zero);
  }
  flags[0] = 0;
  memset(shared, 0, sizeof(*shared));
  fflush(stdout);
  // the lock file exists at the start of every case (a step 'x' of an earlier case may have removed it), and the
  // driver's own probe handle is opened now: it still names the file the workers lock after an unlink
  {
    const int fd = open(lock_path, O_CREAT | O_RDWR, 0600);
    if (fd >= 0) {
      close(fd);
    }
  }
  FILE* const probe = fopen(OBJ_PATH, use_dir ? "r" : "r+");
  for (int i = 0; i < n; ++i) {
    memset(&w[i], 0, sizeof(Worker));
    w[i].kind = tok[1][2 * i];
    w[i].mode = tok[1][2 * i + 1];
    w[i].idx  = i;
    if (pipe(w[i].cmd) || pipe(w[i].reply)) {
      puts("nopipe");
      return;
    }
  }
  // processes first (no other threads exist yet), then threads
  for (int i = 0; i < n; ++i) {
    if (w[i].kind == 'p') {
      const pid_t pid = fork();
      if (pid == 0) {
        for (int j = 0; j < n; ++j) {
          close(w[j].cmd[1]);
          close(w[j].reply[0]);
          if (j != i) {
            close(w[j].cmd[0]);
            close(w[j].reply[1]);
          }
        }
        worker_loop(&w[i]);
        _exit(0);
      }
      w[i].pid = pid;
    }
  }
  for (int i = 0; i < n; ++i) {
    if (w[i].kind != 'p') {
      pthread_create(&w[i].th, NULL, thread_main, &w[i]);
    }
  }
  for (int i = 0; i < n; ++i) {
    unsigned char hello[3];
    collect(&w[i], hello, 1); // every worker has opened its handle
  }
  char* sched = strdup(tok[2]);
  char* save  = NULL;
  int   first = 1;
  for (char* c = strtok_r(sched, ",", &save); c && !hung; c = strtok_r(NULL, ",", &save)) {
    const int  i  = atoi(c);
    const char op = c[strlen(c) - 1];
    unsigned char out[3];
    if (!first) {
      fputc(' ', stdout);
    }
    first = 0;
    if (i < 0 || i >= n) {
      printf("%d:?", i);
      continue;
    }
    if (op == 's') {
      const int s0 = atomic_load(&shared->sigs[i]);
      signal_worker(&w[i]);
      const double t0 = mono_now();
      while (atomic_load(&shared->sigs[i]) == s0 && mono_now() - t0 < 3.0) {
        usleep_real(100);
      }
      if (w[i].busy) {
        if (collect(&w[i], out, 1) == 1) {
          printf("%d:s=%s", i, status_name(out[0]));
          unexp |= (out[1] & 2) >> 1;
          w[i].busy = 0;
          if (out[2] != 0xFF) {
            snprintf(flags + strlen(flags), sizeof(flags) - strlen(flags), "%s%d", flags[0] ? "," : "", out[2]);
          }
        } else {
          printf("%d:s=hung", i);
          hung = 1;
        }
      } else {
        printf("%d:s", i);
      }
      continue;
    }
    if (op == 'r') {
      if (!w[i].busy) {
        printf("%d:r=idle", i);
        continue;
      }
    } else {
      if (w[i].busy) {
        printf("%d:%c=busy", i, op);
        continue;
      }
      send_cmd(&w[i], op);
      w[i].busy    = 1;
      w[i].pending = op;
    }
    const int r = collect(&w[i], out, 0);
    if (r == 1) {
      printf("%d:%c=%s", i, op, status_name(out[0]));
      slow |= out[1] & 1;
      unexp |= (out[1] & 2) >> 1;
      w[i].busy = 0;
      if (out[2] != 0xFF) {
        snprintf(flags + strlen(flags), sizeof(flags) - strlen(flags), "%s%d", flags[0] ? "," : "", out[2]);
      }
    } else if (r == 0) {
      printf("%d:%c=sleep", i, op);
    } else {
      printf("%d:%c=hung", i, op);
      hung = 1;
    }
  }
  // is the lock free now?  (an independent description of the driver itself asks)
  int   lock_free = -1;
  if (probe) {
    lock_free = !__real_flock(fileno(probe), LOCK_EX | LOCK_NB);
    if (lock_free) {
      __real_flock(fileno(probe), LOCK_UN);
    }
    fclose(probe);
  }
  printf(" maxocc=%d viol=%d slow=%d free=%d || flags=%s unexpected=%d\n", atomic_load(&shared->max),
         atomic_load(&shared->viol), slow, lock_free, flags[0] ? flags : "-", unexp);
  // stop everybody
  for (int i = 0; i < n; ++i) {
    if (w[i].kind == 'p') {
      kill(w[i].pid, SIGKILL);
      waitpid(w[i].pid, NULL, 0);
    }
  }
  for (int i = 0; i < n; ++i) {
    if (w[i].kind != 'p') {
      unsigned char out[3];
      int           guard = 0;
      while (w[i].busy && guard++ < 100) { // still asleep in flock: interrupt it
        signal_worker(&w[i]);
        struct pollfd pfd = {w[i].reply[0], POLLIN, 0};
        if (poll(&pfd, 1, 50) > 0 && collect(&w[i], out, 1) == 1) {
          w[i].busy = 0;
        }
      }
      send_cmd(&w[i], 'q');
      pthread_join(w[i].th, NULL);
    }
    close(w[i].cmd[0]);
    close(w[i].cmd[1]);
    close(w[i].reply[0]);
    close(w[i].reply[1]);
  }
  free(sched);
  if (limited) {
    setrlimit(RLIMIT_FSIZE, &old_lim);
  }
  alarm(0);
}

static void cleanup(void)
{
  if (lock_path[0]) {
    unlink(lock_path);
  }
  if (dir_path[0]) {
    rmdir(dir_path);
  }
}

int main(void)
{
  char*  line = NULL;
  size_t cap  = 0;
  char*  tok[8];
  setvbuf(stdout, NULL, _IOLBF, 0);
  snprintf(lock_path, sizeof(lock_path), "%s/zix_c19_lock.XXXXXX", getenv("VERIF_SCRATCH") ? getenv("VERIF_SCRATCH") : "/tmp");
  const int fd = mkstemp(lock_path);
  if (fd < 0) {
    perror("mkstemp");
    return 2;
  }
  close(fd);
  snprintf(dir_path, sizeof(dir_path), "%s/zix_c19_dir.XXXXXX", getenv("VERIF_SCRATCH") ? getenv("VERIF_SCRATCH") : "/tmp");
  if (!mkdtemp(dir_path)) {
    dir_path[0] = 0;
  }
  atexit(cleanup);
  shared = (Shared*)mmap(NULL, sizeof(Shared), PROT_READ | PROT_WRITE, MAP_SHARED | MAP_ANONYMOUS, -1, 0);
  if (shared == MAP_FAILED) {
    perror("mmap");
    return 2;
  }
  struct sigaction sa;
  memset(&sa, 0, sizeof(sa));
  sa.sa_handler = on_sigusr1; // no SA_RESTART: a sleeping flock returns EINTR
  sigemptyset(&sa.sa_mask);
  sigaction(SIGUSR1, &sa, NULL);
  signal(SIGPIPE, SIG_IGN);
  signal(SIGXFSZ, SIG_IGN); // a write over the file size limit fails with EFBIG instead of killing us
  while (vgetline(&line, &cap)) {
    int n = vsplit(line, tok, 8);
    entry_errno = 0;
    use_dir     = 0;
    if (n > 0 && !strcmp(tok[0], "D") && dir_path[0]) {
      use_dir = 1;
      --n;
      memmove(tok, tok + 1, (size_t)n * sizeof(tok[0]));
    }
    if (n > 0 && tok[0][0] == '@') {
      entry_errno = atoi(tok[0] + 1);
      --n;
      memmove(tok, tok + 1, (size_t)n * sizeof(tok[0]));
    }
    if (n == 6 && !strcmp(tok[0], "F")) {
      case_scripted(tok);
    } else if (n == 3 && !strcmp(tok[0], "P")) {
      case_lockstep(tok);
    } else {
      puts("?");
    }
  }
  free(line);
  return 0;
}
