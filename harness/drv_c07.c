// C07 / C08 implementation driver: every allocating zix operation run through the tracking,
// fault-injecting allocator of valloc.h.
//
// case:   <component> <fault> <args...>       fault = @N | @F<k> | @P<k>
//   btree  <fault> <ops>           ops: i<k> r<k> f<k> c  !(= memory available again)
//   hash   <fault> <hf> <ops>      hf = m (mixed) | c (constant) | l (k mod 4); ops: i<k> r<k> f<k> !
//   tree   <fault> <d|n> <ops>     duplicates allowed / not; ops: i<k> r<k> f<k> !
//   ring   <fault> <size>
//   sv|pref|norm|env <fault> <hex>         join|rel <fault> <hexA|NULL> <hexB|NULL>
//   fs     <fault> <mkdirs|canon|cwd|tmpdir|mktmp|copy|equals> [size]
// output: <per-op reports> ; size=<n> list=<k,...> ; req=<requests> failed=<refused> out=<outstanding
//         after free> err=<allocator protocol errors> spurious=<NO_MEM reports with no refused request>
//         trace=<allocation events>
#include "valloc.h"
#include "vcommon.h"

#include <zix/allocator.h>
#include <zix/btree.h>
#include <zix/environment.h>
#include <zix/filesystem.h>
#include <zix/hash.h>
#include <zix/path.h>
#include <zix/ring.h>
#include <zix/status.h>
#include <zix/string_view.h>
#include <zix/tree.h>

#include <dirent.h>
#include <errno.h>
#include <fcntl.h>
#include <stdbool.h>
#include <sys/stat.h>
#include <unistd.h>

#define NKEYS 1024
static int    keys[NKEYS];
static Valloc        V;
static ZixAllocator* A; // allocator handed to the library: A, or NULL (= default) for @D cases
static char   tracebuf[1 << 16];
static int    force_exdev;
static size_t default_allocator_calls;

// ---- the C library's own heap: bytes allocated now, as the sanitizer runtime counts them.  Measured around the
// filesystem cases (every block the driver itself takes in between is released again before the second reading):
// growth means that a block obtained behind the caller's allocator (realpath(p, NULL), strdup, getcwd(NULL, 0),
// opendir without closedir ...) was not released.  Without a sanitizer runtime the token is "libc=-".
__attribute__((weak)) size_t __sanitizer_get_current_allocated_bytes(void);
static size_t heap0;
static long   heap_delta;
static int    heap_measured;

// descriptors open now (what a call opened it must have closed when it returns, on every path)
static int count_open_fds(void)
{
  int  n = 0;
  DIR* d = opendir("/proc/self/fd");
  if (d) {
    while (readdir(d)) {
      ++n;
    }
    closedir(d);
  }
  return n;
}
static int fds0;
static int fds_delta;

static size_t heap_now(void)
{
  return __sanitizer_get_current_allocated_bytes ? __sanitizer_get_current_allocated_bytes() : 0U;
}

static const char* stname(ZixStatus st)
{
  switch (st) {
  case ZIX_STATUS_SUCCESS: return "SUCCESS";
  case ZIX_STATUS_EXISTS: return "EXISTS";
  case ZIX_STATUS_NOT_FOUND: return "NOT_FOUND";
  case ZIX_STATUS_NO_MEM: return "NO_MEM";
  default: return "OTHER";
  }
}

static int cmp_int(const void* a, const void* b, const void* ud)
{
  (void)ud;
  const int x = *(const int*)a, y = *(const int*)b;
  return (x > y) - (x < y);
}

static char hf_kind = 'm';
static const void* key_id(const void* rec) { return rec; }
static size_t hash_int(const void* k)
{
  const unsigned x = (unsigned)*(const int*)k;
  return hf_kind == 'c' ? 7U : hf_kind == 'l' ? (x & 3U) : (size_t)x * 2654435761U;
}
static bool eq_int(const void* a, const void* b) { return *(const int*)a == *(const int*)b; }

static void report_tail(size_t spurious)
{
  printf(" ; req=%zu failed=%zu out=%zu err=%zu spurious=%zu defalloc=%zu", V.requests, V.failed, V.outstanding, V.errors,
         spurious, default_allocator_calls);
  if (heap_measured && __sanitizer_get_current_allocated_bytes) {
    printf(" libc=%ld", heap_delta);
  } else {
    printf(" libc=-");
  }
  printf(" fds=%d", heap_measured ? fds_delta : 0);
  if (V.errors) {
    printf(" first_error=\"%s\"", V.first_error);
  }
  fflush(V.trace);
  printf(" trace=%s\n", tracebuf[0] ? tracebuf : "-");
}

static void begin_case(VallocMode mode, size_t k)
{
  valloc_init(&V, mode, k);
  default_allocator_calls = 0;
  force_exdev             = 0;
  memset(tracebuf, 0, sizeof(tracebuf));
  V.trace = fmemopen(tracebuf, sizeof(tracebuf) - 1, "w");
  if (V.trace) {
    setvbuf(V.trace, NULL, _IONBF, 0); // no stdio buffer that would appear on the heap at the first event
  }
  heap_measured = 0;
  heap_delta    = 0;
}

static void end_case(void)
{
  fflush(stdout);
  if (V.trace) {
    fclose(V.trace);
    V.trace = NULL;
  }
}

// ---- containers -------------------------------------------------------------------------------

static void run_btree(char** ops, int n)
{
  size_t    spurious = 0;
  ZixBTree* t        = zix_btree_new(A, cmp_int, NULL);
  if (!t) {
    printf("new:NULL");
    report_tail(V.failed ? 0 : 1);
    return;
  }
  printf("new:ok");
  for (int i = 0; i < n; ++i) {
    const char   c      = ops[i][0];
    const int    k      = (c == 'c' || c == '!') ? 0 : atoi(ops[i] + 1) % NKEYS;
    const size_t failed = V.failed;
    ZixStatus    st     = ZIX_STATUS_SUCCESS;
    if (c == '!') {
      valloc_script(&V, VALLOC_NONE, 0);
      printf(" !");
      continue;
    }
    if (c == '*') {
      // *<n>: re-arm a single fault: the n-th request from now is refused (repeated partial failures of one operation)
      valloc_script(&V, VALLOC_SINGLE, V.requests + (size_t)atoi(ops[i] + 1));
      printf(" *");
      continue;
    }
    if (c == 'i') {
      st = zix_btree_insert(t, &keys[k]);
      printf(" i%d:%s", k, stname(st));
    } else if (c == 'r') {
      void*        out  = NULL;
      ZixBTreeIter next = zix_btree_end(t);
      st                = zix_btree_remove(t, &keys[k], &out, &next);
      printf(" r%d:%s", k, stname(st));
      if (out) {
        printf("=%d", *(int*)out);
      }
    } else if (c == 'f') {
      ZixBTreeIter it = zix_btree_end(t);
      st              = zix_btree_find(t, &keys[k], &it);
      printf(" f%d:%s", k, stname(st));
      if (!st) {
        printf("=%d", *(int*)zix_btree_get(it));
      }
    } else if (c == 'c') {
      zix_btree_clear(t, NULL, NULL);
      printf(" c:SUCCESS");
    }
    if (st == ZIX_STATUS_NO_MEM && V.failed == failed) {
      ++spurious;
    }
  }
  printf(" ; size=%zu list=", zix_btree_size(t));
  size_t cnt = 0;
  for (ZixBTreeIter it = zix_btree_begin(t); !zix_btree_iter_is_end(it); zix_btree_iter_increment(&it)) {
    printf("%s%d", cnt++ ? "," : "", *(int*)zix_btree_get(it));
  }
  if (!cnt) {
    printf("-");
  }
  zix_btree_free(t, NULL, NULL);
  report_tail(spurious);
}

static void run_hash(char** ops, int n)
{
  size_t   spurious = 0;
  ZixHash* h        = zix_hash_new(A, key_id, hash_int, eq_int);
  if (!h) {
    printf("new:NULL");
    report_tail(V.failed ? 0 : 1);
    return;
  }
  printf("new:ok");
  for (int i = 0; i < n; ++i) {
    const char   c      = ops[i][0];
    const int    k      = (c == '!') ? 0 : atoi(ops[i] + 1) % NKEYS;
    const size_t failed = V.failed;
    ZixStatus    st     = ZIX_STATUS_SUCCESS;
    if (c == '!') {
      valloc_script(&V, VALLOC_NONE, 0);
      printf(" !");
      continue;
    }
    if (c == '*') {
      // *<n>: re-arm a single fault: the n-th request from now is refused (repeated partial failures of one operation)
      valloc_script(&V, VALLOC_SINGLE, V.requests + (size_t)atoi(ops[i] + 1));
      printf(" *");
      continue;
    }
    if (c == 'i') {
      st = zix_hash_insert(h, &keys[k]);
      printf(" i%d:%s", k, stname(st));
    } else if (c == 'r') {
      ZixHashRecord* removed = NULL;
      st                     = zix_hash_remove(h, &keys[k], &removed);
      printf(" r%d:%s", k, stname(st));
      if (removed) {
        printf("=%d", *(int*)removed);
      }
    } else if (c == 'f') {
      const int      probe = keys[k]; // a key that is not the stored pointer itself
      ZixHashRecord* r     = zix_hash_find_record(h, &probe);
      ZixHashIter    it    = zix_hash_find(h, &probe);
      const bool     found = it != zix_hash_end(h);
      st                   = found ? ZIX_STATUS_SUCCESS : ZIX_STATUS_NOT_FOUND;
      printf(" f%d:%s", k, stname(st));
      if (found) {
        printf("=%d", *(int*)zix_hash_get(h, it));
      }
      if ((r != NULL) != found || (r && r != zix_hash_get(h, it))) {
        printf("!MISMATCH");
      }
    }
    if (st == ZIX_STATUS_NO_MEM && V.failed == failed) {
      ++spurious;
    }
  }
  // contents, sorted (iteration order is not part of the property)
  int    vals[NKEYS];
  size_t cnt = 0;
  for (ZixHashIter it = zix_hash_begin(h); it != zix_hash_end(h) && cnt < NKEYS; it = zix_hash_next(h, it)) {
    vals[cnt++] = *(int*)zix_hash_get(h, it);
  }
  for (size_t a = 1; a < cnt; ++a) {
    for (size_t b = a; b > 0 && vals[b - 1] > vals[b]; --b) {
      int tmp = vals[b]; vals[b] = vals[b - 1]; vals[b - 1] = tmp;
    }
  }
  printf(" ; size=%zu list=", zix_hash_size(h));
  for (size_t a = 0; a < cnt; ++a) {
    printf("%s%d", a ? "," : "", vals[a]);
  }
  if (!cnt) {
    printf("-");
  }
  zix_hash_free(h);
  report_tail(spurious);
}

static size_t n_destroyed;
static void   destroy_cb(void* p, const void* ud)
{
  (void)p;
  (void)ud;
  ++n_destroyed;
}

static void run_tree(bool dup, char** ops, int n)
{
  size_t spurious = 0;
  n_destroyed     = 0;
  ZixTree* t      = zix_tree_new(A, dup, cmp_int, NULL, destroy_cb, NULL);
  if (!t) {
    printf("new:NULL");
    report_tail(V.failed ? 0 : 1);
    return;
  }
  printf("new:ok");
  for (int i = 0; i < n; ++i) {
    const char   c      = ops[i][0];
    const int    k      = (c == '!') ? 0 : atoi(ops[i] + 1) % NKEYS;
    const size_t failed = V.failed;
    ZixStatus    st     = ZIX_STATUS_SUCCESS;
    if (c == '!') {
      valloc_script(&V, VALLOC_NONE, 0);
      printf(" !");
      continue;
    }
    if (c == '*') {
      // *<n>: re-arm a single fault: the n-th request from now is refused (repeated partial failures of one operation)
      valloc_script(&V, VALLOC_SINGLE, V.requests + (size_t)atoi(ops[i] + 1));
      printf(" *");
      continue;
    }
    if (c == 'i') {
      ZixTreeIter* it = NULL;
      st              = zix_tree_insert(t, &keys[k], &it);
      printf(" i%d:%s", k, stname(st));
    } else if (c == 'r') {
      ZixTreeIter* it = NULL;
      st              = zix_tree_find(t, &keys[k], &it);
      if (!st && it) {
        const int v = *(int*)zix_tree_get(it);
        st          = zix_tree_remove(t, it);
        printf(" r%d:%s=%d", k, stname(st), v);
      } else {
        printf(" r%d:%s", k, stname(st));
      }
    } else if (c == 'f') {
      ZixTreeIter* it = NULL;
      st              = zix_tree_find(t, &keys[k], &it);
      printf(" f%d:%s", k, stname(st));
      if (!st && it) {
        printf("=%d", *(int*)zix_tree_get(it));
      }
    }
    if (st == ZIX_STATUS_NO_MEM && V.failed == failed) {
      ++spurious;
    }
  }
  printf(" ; size=%zu list=", zix_tree_size(t));
  size_t cnt = 0;
  for (ZixTreeIter* it = zix_tree_begin(t); !zix_tree_iter_is_end(it); it = zix_tree_iter_next(it)) {
    printf("%s%d", cnt++ ? "," : "", *(int*)zix_tree_get(it));
  }
  if (!cnt) {
    printf("-");
  }
  zix_tree_free(t);
  report_tail(spurious);
}

// ---- functions returning a string / object ------------------------------------------------------

static char* arg_str(const char* tok) // exact-size NUL-terminated heap copy, or NULL for "NULL"
{
  if (!strcmp(tok, "NULL")) {
    return NULL;
  }
  unsigned char* raw = NULL;
  size_t         n   = vunhex(tok, &raw);
  char*          s   = (char*)malloc(n + 1);
  memcpy(s, raw, n);
  s[n] = 0;
  free(raw);
  return s;
}

static void put_result(const char* r)
{
  if (r) {
    printf("res=");
    vputhex(stdout, (const unsigned char*)r, strlen(r));
  } else {
    printf("res=NULL");
  }
}

static char scratch[256];

// platform fall-back: make the kernel copy unavailable so the block loop (which allocates) runs
static int force_exdev;
ssize_t    __real_copy_file_range(int, off_t*, int, off_t*, size_t, unsigned);
ssize_t    __wrap_copy_file_range(int a, off_t* b, int c, off_t* d, size_t e, unsigned f)
{
  if (force_exdev) {
    errno = EXDEV;
    return -1;
  }
  return __real_copy_file_range(a, b, c, d, e, f);
}

// ---- default allocator (src/allocator.c): record the libc calls its entries make
static int   rec_on;
static char  rec_buf[4096];
static void* rec_blk[64];
static size_t rec_size[64];
static int   rec_nblk;
void*        __real_malloc(size_t);
void*        __real_calloc(size_t, size_t);
void*        __real_realloc(void*, size_t);
void         __real_free(void*);
int          __real_posix_memalign(void**, size_t, size_t);
static int   rec_index(void* p)
{
  for (int i = 0; i < rec_nblk; ++i) {
    if (rec_blk[i] == p) {
      return i;
    }
  }
  return -1;
}
static void rec_add(const char* s)
{
  strncat(rec_buf, rec_buf[0] ? "," : "", sizeof(rec_buf) - strlen(rec_buf) - 1);
  strncat(rec_buf, s, sizeof(rec_buf) - strlen(rec_buf) - 1);
}
void* __wrap_malloc(size_t n)
{
  if (rec_on) {
    char b[64];
    snprintf(b, sizeof(b), "malloc(%zu)", n);
    rec_add(b);
  }
  return __real_malloc(n);
}
void* __wrap_calloc(size_t n, size_t s)
{
  if (rec_on) {
    char b[64];
    snprintf(b, sizeof(b), "calloc(%zu;%zu)", n, s);
    rec_add(b);
  }
  return __real_calloc(n, s);
}
void* __wrap_realloc(void* p, size_t n)
{
  if (rec_on) {
    char b[64];
    snprintf(b, sizeof(b), "realloc(#%d;%zu)", rec_index(p), n);
    rec_add(b);
  }
  return __real_realloc(p, n);
}
void __wrap_free(void* p)
{
  if (rec_on) {
    char b[64];
    snprintf(b, sizeof(b), "free(#%d)", rec_index(p));
    rec_add(b);
  }
  __real_free(p);
}
int __wrap_posix_memalign(void** out, size_t al, size_t n)
{
  if (rec_on) {
    char b[64];
    snprintf(b, sizeof(b), "posix_memalign(%zu;%zu)", al, n);
    rec_add(b);
  }
  return __real_posix_memalign(out, al, n);
}

// requests: m<size> c<n>x<size> r<blk>:<size> f<blk> a<align>:<size> F<blk>   (blk = index of the i-th block obtained)
ZixAllocator* __real_zix_default_allocator(void);
static void   run_default(char** req, int n)
{
  ZixAllocator* d = __real_zix_default_allocator();
  rec_buf[0]      = 0;
  rec_nblk        = 0;
  int bad         = 0;
  for (int i = 0; i < n; ++i) {
    const char c = req[i][0];
    void*      p = NULL;
    rec_on       = 1;
    if (c == 'm') {
      p      = zix_malloc(NULL, strtoul(req[i] + 1, 0, 10)); // NULL = the default allocator, through the public wrapper
      rec_on = 0;
      if (p && strtoul(req[i] + 1, 0, 10)) {
        memset(p, 0x5A, strtoul(req[i] + 1, 0, 10));
      }
    } else if (c == 'c') {
      char* x = strchr(req[i], 'x');
      const size_t cn = strtoul(req[i] + 1, 0, 10), cs = strtoul(x + 1, 0, 10);
      p               = d->calloc(d, cn, cs);
      rec_on          = 0;
      for (size_t k = 0; p && k < cn * cs; ++k) {
        if (((unsigned char*)p)[k]) {
          bad |= 2; // calloc memory not zero
        }
      }
      if (p && cn * cs) {
        memset(p, 0x5A, cn * cs);
      }
    } else if (c == 'a') {
      char* x = strchr(req[i], ':');
      p       = zix_aligned_alloc(NULL, strtoul(req[i] + 1, 0, 10), strtoul(x + 1, 0, 10));
      if (p && ((uintptr_t)p % strtoul(req[i] + 1, 0, 10))) {
        bad = 1;
      }
    } else if (c == 'r') {
      char* x = strchr(req[i], ':');
      int   b = atoi(req[i] + 1);
      if (b < rec_nblk) {
        void* q = d->realloc(d, rec_blk[b], strtoul(x + 1, 0, 10));
        rec_on  = 0;
        if (q) {
          rec_blk[b] = q;
          if (rec_size[b] && strtoul(x + 1, 0, 10) && ((unsigned char*)q)[0] != 0x5A) {
            bad |= 4; // realloc lost the contents
          }
          rec_size[b] = strtoul(x + 1, 0, 10);
          memset(q, 0x5A, rec_size[b]);
        }
      }
    } else if (c == 'f' || c == 'F') {
      int b = atoi(req[i] + 1);
      if (b < rec_nblk && rec_blk[b]) {
        if (c == 'f') {
          zix_free(NULL, rec_blk[b]);
        } else {
          zix_aligned_free(NULL, rec_blk[b]);
        }
        rec_on     = 0;
        rec_blk[b] = NULL;
      }
    }
    rec_on = 0;
    if ((c == 'm' || c == 'c' || c == 'a') && rec_nblk < 64) {
      char* x2            = strchr(req[i], c == 'c' ? 'x' : ':');
      rec_size[rec_nblk]  = c == 'm' ? strtoul(req[i] + 1, 0, 10) : c == 'c' ? strtoul(req[i] + 1, 0, 10) * strtoul(x2 + 1, 0, 10) : 0;
      rec_blk[rec_nblk++] = p;
    }
  }
  for (int i = 0; i < rec_nblk; ++i) { // release what is left (not recorded)
    __real_free(rec_blk[i]);
  }
  printf("calls=%s sem=%d", rec_buf[0] ? rec_buf : "-", bad);
  report_tail(0);
}

// the driver always supplies an allocator, so the library must never ask for the default one
static size_t  default_allocator_calls;
ZixAllocator* __real_zix_default_allocator(void);
ZixAllocator* __wrap_zix_default_allocator(void)
{
  ++default_allocator_calls;
  return __real_zix_default_allocator();
}

static void write_file(const char* path, size_t n, unsigned seed, long flip)
{
  FILE* f = fopen(path, "wb");
  for (size_t i = 0; i < n; ++i) {
    unsigned char b = (unsigned char)((i * 131U + seed) >> 3);
    if ((long)i == flip) {
      b ^= 0x40;
    }
    fputc(b, f);
  }
  fclose(f);
}

static int files_equal(const char* a, const char* b)
{
  FILE* fa = fopen(a, "rb");
  FILE* fb = fopen(b, "rb");
  int   eq = fa && fb;
  while (eq) {
    int ca = fgetc(fa), cb = fgetc(fb);
    if (ca != cb) {
      eq = 0;
    }
    if (ca == EOF || cb == EOF) {
      break;
    }
  }
  if (fa) {
    fclose(fa);
  }
  if (fb) {
    fclose(fb);
  }
  return eq;
}

static void run_fs(char** a, int n)
{
  char p1[400], p2[400];
  snprintf(p1, sizeof(p1), "%s/a", scratch);
  snprintf(p2, sizeof(p2), "%s/b", scratch);
  const size_t size = n > 1 ? strtoul(a[1], 0, 10) : 0;
  fds0  = count_open_fds();
  heap0 = heap_now();
  if (!strcmp(a[0], "mkdirs")) {
    // optional argument: total length of the path (boundary cases of any fixed-size buffer inside the function)
    char long_path[1200];
    snprintf(long_path, sizeof(long_path), "%s/d%zu/x//y/./z", scratch, V.fail_at + 7 * (size_t)V.mode);
    if (size > strlen(long_path) + 2 && size < sizeof(long_path) - 1) {
      size_t n = strlen(long_path);
      long_path[n++] = '/';
      while (n < size) {
        long_path[n] = (char)((n % 40 == 39) ? '/' : 'a' + (int)(n % 7));  // components of at most 39 bytes
        ++n;
      }
      if (long_path[n - 1] == '/') {
        long_path[n - 1] = 'q';
      }
      long_path[n] = 0;
    }
    ZixStatus   st = zix_create_directories(A, long_path);
    struct stat sb;
    printf("st=%s isdir=%d len=%zu", stname(st), !stat(long_path, &sb) && S_ISDIR(sb.st_mode), strlen(long_path));
  } else if (!strcmp(a[0], "canon")) {
    snprintf(p1, sizeof(p1), "%s/./", scratch);
    char* r  = zix_canonical_path(A, p1);
    char* rp = realpath(p1, NULL);
    printf("same=%d ", r && rp && !strcmp(r, rp));
    printf("res=%s", r ? "str" : "NULL");
    zix_free(A, r);
    free(rp);
  } else if (!strcmp(a[0], "cwdlong")) {
    // working directory deeper than PATH_MAX: the result is NULL or a block of the caller's allocator
    char here[4096];
    if (!getcwd(here, sizeof(here))) {
      printf("res=skip");
    } else {
      char comp[201];
      memset(comp, 'd', 200);
      comp[200] = 0;
      int depth = 0, ok = !chdir(scratch);
      for (; ok && depth < 24; ++depth) {
        ok = (!mkdir(comp, 0777) || errno == EEXIST) && !chdir(comp);
      }
      char* r = ok ? zix_current_path(A) : NULL;
      printf("res=%s deep=%d", r ? "str" : "NULL", ok);
      zix_free(A, r); // a block that did not come from the caller's allocator is a protocol error here
      if (chdir(here)) {
        printf(" chdir-back-failed");
      }
    }
  } else if (!strcmp(a[0], "cwd")) {
    char* r = zix_current_path(A);
    char  b[4096];
    printf("same=%d res=%s", r && getcwd(b, sizeof(b)) && !strcmp(r, b), r ? "str" : "NULL");
    zix_free(A, r);
  } else if (!strcmp(a[0], "tmpdir")) {
    char* r = zix_temp_directory_path(A);
    printf("res=%s", r ? "str" : "NULL");
    zix_free(A, r);
  } else if (!strcmp(a[0], "mktmp") || !strcmp(a[0], "mktmpbad")) {
    // mktmp: a valid pattern in an empty directory of its own; mktmpbad <k>: patterns the OS refuses (no XXXXXX
    // suffix, missing parent, empty): NULL, nothing created, nothing outstanding
    char dir[300];
    snprintf(dir, sizeof(dir), "%s/tmpparent", scratch);
    mkdir(dir, 0700);
    const int bad = !strcmp(a[0], "mktmpbad") ? (n > 1 ? atoi(a[1]) : 0) + 1 : 0;
    snprintf(p1, sizeof(p1), bad == 1 ? "%s/tmpXXXXX_" : bad == 2 ? "%s/missing/tmpXXXXXX" : bad == 3 ? "%.0s" : "%s/tmpXXXXXX", dir);
    char*       r = zix_create_temporary_directory(A, p1);
    struct stat sb;
    printf("res=%s isdir=%d", r ? "str" : "NULL", r && !stat(r, &sb) && S_ISDIR(sb.st_mode));
    if (r) {
      rmdir(r);
    }
    zix_free(A, r);
    // what is left in the parent now that the returned directory (if any) is removed: a directory created by a call
    // that reported failure would stay behind, its name unknown to the caller
    int            left = 0;
    DIR*           d    = opendir(dir);
    struct dirent* e    = NULL;
    while (d && (e = readdir(d))) {
      if (strcmp(e->d_name, ".") && strcmp(e->d_name, "..")) {
        char q[600];
        snprintf(q, sizeof(q), "%s/%s", dir, e->d_name);
        rmdir(q);
        ++left;
      }
    }
    if (d) {
      closedir(d);
    }
    rmdir(dir);
    printf(" left=%d", left);
  } else if (!strcmp(a[0], "copy") || !strcmp(a[0], "copyx")) {
    force_exdev = !strcmp(a[0], "copyx");
    write_file(p1, size, 3, -1);
    unlink(p2);
    ZixStatus st = zix_copy_file(A, p1, p2, ZIX_COPY_OPTION_OVERWRITE_EXISTING);
    printf("st=%s equal=%d", stname(st), files_equal(p1, p2));
  } else if (!strcmp(a[0], "copyfull")) {
    // the destination accepts no data (/dev/full): the kernel copy is refused, the block loop's first write fails
    // with ENOSPC; an error must be reported and nothing may stay allocated
    write_file(p1, size, 3, -1);
    ZixStatus st = zix_copy_file(A, p1, "/dev/full", ZIX_COPY_OPTION_OVERWRITE_EXISTING);
    printf("st=%s", st == ZIX_STATUS_SUCCESS ? "SUCCESS" : "error");
  } else if (!strcmp(a[0], "equals")) {
    write_file(p1, size, 3, -1);
    write_file(p2, size, 3, n > 2 ? atol(a[2]) : -1);
    printf("equals=%d", zix_file_equals(A, p1, p2));
  } else {
    printf("?");
  }
  heap_delta    = (long)heap_now() - (long)heap0;
  fds_delta     = count_open_fds() - fds0;
  heap_measured = 1;
  report_tail(0);
}

int main(void)
{
  for (int i = 0; i < NKEYS; ++i) {
    keys[i] = i;
  }
  snprintf(scratch, sizeof(scratch), "%s/zixv-c07-XXXXXX", getenv("VERIF_SCRATCH") ? getenv("VERIF_SCRATCH") : "/tmp");
  if (!mkdtemp(scratch)) {
    return 3;
  }
  setenv("ZIXV", "value", 1);
  setenv("HOME", "/home/u", 1);
  {
    // everything the C library sets up lazily and keeps (stdio buffers, directory streams' caches, ...) is set up
    // now, so that it is not taken for a leak of the first case that happens to need it
    static char outbuf[1 << 16];
    setvbuf(stdout, outbuf, _IOFBF, sizeof(outbuf));
    char w1[400], w2[400];
    snprintf(w1, sizeof(w1), "%s/warm", scratch);
    snprintf(w2, sizeof(w2), "%s/warm/tXXXXXX", scratch);
    zix_create_directories(NULL, w1);
    char* r1 = zix_canonical_path(NULL, w1);
    char* r2 = zix_current_path(NULL);
    char* r3 = zix_temp_directory_path(NULL);
    char* r4 = zix_create_temporary_directory(NULL, w2);
    if (r4) {
      rmdir(r4);
    }
    char* r5 = realpath(w1, NULL);
    DIR*  d  = opendir(w1);
    if (d) {
      (void)readdir(d);
      closedir(d);
    }
    snprintf(w2, sizeof(w2), "%s/warm/f", scratch);
    write_file(w2, 10, 3, -1);
    (void)files_equal(w2, w2);
    (void)zix_file_equals(NULL, w2, w1);
    (void)zix_copy_file(NULL, w2, "/dev/full", ZIX_COPY_OPTION_OVERWRITE_EXISTING);
    unlink(w2);
    rmdir(w1);
    free(r5);
    zix_free(NULL, r4);
    zix_free(NULL, r3);
    zix_free(NULL, r2);
    zix_free(NULL, r1);
  }

  char*  line = NULL;
  size_t cap  = 0;
  static char* tok[4096];
  while (vgetline(&line, &cap)) {
    int n = vsplit(line, tok, 4096);
    if (n < 2) {
      puts("?");
      continue;
    }
    VallocMode mode = VALLOC_NONE;
    size_t     k    = 0;
    const int use_default = !strcmp(tok[1], "@D");
    if (!use_default && strcmp(tok[1], "@N") && !valloc_parse_prefix(tok[1], &mode, &k)) {
      puts("?");
      continue;
    }
    begin_case(mode, k);
    A = use_default ? NULL : (ZixAllocator*)&V;
    const char* c = tok[0];
    if (!strcmp(c, "btree")) {
      run_btree(tok + 2, n - 2);
    } else if (!strcmp(c, "hash") && n >= 3) {
      hf_kind = tok[2][0];
      run_hash(tok + 3, n - 3);
    } else if (!strcmp(c, "tree") && n >= 3) {
      run_tree(tok[2][0] == 'd', tok + 3, n - 3);
    } else if (!strcmp(c, "ring") && n >= 3) {
      ZixRing* r = zix_ring_new(A, (uint32_t)strtoul(tok[2], 0, 10));
      printf("res=%s", r ? "obj" : "NULL");
      if (r) {
        printf(" cap=%u", zix_ring_capacity(r));
      }
      zix_ring_free(r);
      report_tail(0);
    } else if ((!strcmp(c, "sv") || !strcmp(c, "pref") || !strcmp(c, "norm") || !strcmp(c, "env")) && n >= 3) {
      char* s = arg_str(tok[2]);
      char* r = !strcmp(c, "sv")     ? zix_string_view_copy(A, zix_substring(s, strlen(s)))
                : !strcmp(c, "pref") ? zix_path_preferred(A, s)
                : !strcmp(c, "norm") ? zix_path_lexically_normal(A, s)
                                     : zix_expand_environment_strings(A, s);
      put_result(r);
      zix_free(A, r);
      free(s);
      report_tail(0);
    } else if ((!strcmp(c, "join") || !strcmp(c, "rel")) && n >= 4) {
      char* a = arg_str(tok[2]);
      char* b = arg_str(tok[3]);
      char* r = !strcmp(c, "join") ? zix_path_join(A, a, b) : zix_path_lexically_relative(A, a ? a : "", b ? b : "");
      put_result(r);
      zix_free(A, r);
      free(a);
      free(b);
      report_tail(0);
    } else if (!strcmp(c, "fs") && n >= 3) {
      run_fs(tok + 2, n - 2);
    } else if (!strcmp(c, "default")) {
      run_default(tok + 2, n - 2);
    } else {
      puts("?");
    }
    end_case();
  }
  free(line);
  char cmd[400];
  snprintf(cmd, sizeof(cmd), "rm -rf '%s'", scratch);
  return system(cmd) ? 4 : 0;
}
