// C15 implementation driver, all inside a fresh mkdtemp directory under /tmp (removed at exit).
//   D <alloc 1|0> <setup> <path>    zix_create_directories; setup = '-' | comma list of d:<rel> (directory),
//                                    f:<rel> (empty regular file), p:<rel> (fifo), l:<rel>=<target> (symbolic link;
//                                    a target starting with '@' is absolute: the case directory + the rest)
//                                    (relative to the case directory <base>/w, which is the cwd);
//                                    path: '~' = empty, a leading '@' = absolute path of the case directory
//   Q <setup> <path>               zix_file_type, zix_symlink_type, zix_file_size on any path over such a setup,
//                                    next to the direct stat/lstat answers (mode or E<errno>)
//   E <a> <b> <rel D|P|H|L> <al1> <al2> <errno0> <script>   zix_file_equals; a, b = bytes | M (missing)
//   T <kind R|D|LR|LD|LX|F|S|C|M> <size>   zix_file_type, zix_symlink_type, zix_file_size, zix_canonical_path
//   R <names> / RL <names>         zix_dir_for_each over a real directory with these entries ('/' suffix:
//                                    subdirectory; %XX escapes), RL: through a symbolic link to it
//   V <ok|fail> <entries>          zix_dir_for_each with scripted opendir/readdir (link-time wrappers): readdir
//                                    returns exactly these names in this order ("." and ".." anywhere, %XX escapes)
#include "vcommon.h"
#include "wrap_io_c14.h"

#include <zix/allocator.h>
#include <zix/filesystem.h>
#include <zix/status.h>

#include <dirent.h>
#include <errno.h>
#include <fcntl.h>
#include <ftw.h>
#include <limits.h>
#include <sys/socket.h>
#include <sys/stat.h>
#include <sys/wait.h>
#include <sys/un.h>
#include <unistd.h>

static const char* const status_names[] = {
  "SUCCESS", "ERROR", "NO_MEM", "NOT_FOUND", "EXISTS", "BAD_ARG", "BAD_PERMS", "REACHED_END",
  "TIMEOUT", "OVERFLOW", "NOT_SUPPORTED", "UNAVAILABLE", "NO_SPACE", "MAX_LINKS"};
static const char* const type_names[] = {"NONE", "REGULAR", "DIRECTORY", "SYMLINK", "BLOCK",
                                         "CHARACTER", "FIFO", "SOCKET", "UNKNOWN"};

static const char*
status_name(const ZixStatus st)
{
  return ((unsigned)st < sizeof(status_names) / sizeof(status_names[0])) ? status_names[st] : "INVALID";
}

static const char*
type_name(const ZixFileType t)
{
  return ((unsigned)t < sizeof(type_names) / sizeof(type_names[0])) ? type_names[t] : "INVALID";
}

static char base[64];
static char casedir[96];

// %XX escapes in case tokens (names with spaces, commas, ...)
static void
unescape_pct(char* s)
{
  char* o = s;
  for (; *s; ++s) {
    if (*s == '%' && vhexval(s[1]) >= 0 && vhexval(s[2]) >= 0) {
      *o++ = (char)(vhexval(s[1]) * 16 + vhexval(s[2]));
      s += 2;
    } else {
      *o++ = *s;
    }
  }
  *o = 0;
}

static void
put_pct(const char* s)
{
  for (; *s; ++s) {
    const unsigned char c = (unsigned char)*s;
    if (c <= 32 || c >= 127 || c == '%' || c == ',' || c == ':' || c == '|') {
      printf("%%%02X", c);
    } else {
      putchar(c);
    }
  }
}

static const char*
mode_type_name(const mode_t m)
{
  return S_ISREG(m)    ? "REGULAR"
         : S_ISDIR(m)  ? "DIRECTORY"
         : S_ISLNK(m)  ? "SYMLINK"
         : S_ISBLK(m)  ? "BLOCK"
         : S_ISCHR(m)  ? "CHARACTER"
         : S_ISFIFO(m) ? "FIFO"
         : S_ISSOCK(m) ? "SOCKET"
                       : "UNKNOWN";
}

// ---- allocator: plain malloc scripted (D cases), aligned scripted + logged (E cases)
typedef struct {
  ZixAllocator base;
  int          malloc_ok;
  int          n_alloc, n_free;
  int          al_fail[2];
  int          al_errno[2];
  int          al_count;
} TrackAlloc;

static void*
ta_malloc(ZixAllocator* a, size_t n)
{
  TrackAlloc* t = (TrackAlloc*)a;
  if (!t->malloc_ok) {
    return NULL;
  }
  ++t->n_alloc;
  return malloc(n);
}
static void* ta_calloc(ZixAllocator* a, size_t n, size_t s) { TrackAlloc* t = (TrackAlloc*)a; ++t->n_alloc; return calloc(n, s); }
static void* ta_realloc(ZixAllocator* a, void* p, size_t n) { (void)a; return realloc(p, n); }
static void
ta_free(ZixAllocator* a, void* p)
{
  TrackAlloc* t = (TrackAlloc*)a;
  if (p) {
    ++t->n_free;
  }
  free(p);
}

static void*
ta_aligned_alloc(ZixAllocator* a, size_t align, size_t size)
{
  TrackAlloc* t = (TrackAlloc*)a;
  const int   i = t->al_count < 2 ? t->al_count : 1;
  ++t->al_count;
  if (t->al_fail[i]) {
    vw_logf("alloc", (long)size, 0);
    if (t->al_errno[i]) {
      errno = t->al_errno[i];
    }
    return NULL;
  }
  void*     p = NULL;
  const int e = errno;
  if (posix_memalign(&p, align, size ? size : 1)) {
    p = NULL;
  }
  errno = e;
  ++t->n_alloc;
  vw_logf("alloc", (long)size, p ? 1 : 0);
  return p;
}

static void
ta_aligned_free(ZixAllocator* a, void* p)
{
  TrackAlloc* t = (TrackAlloc*)a;
  const int   e = errno;
  vw_logf("free", p ? 1 : 0, 0);
  if (p) {
    ++t->n_free;
  }
  free(p);
  errno = e;
}

static TrackAlloc track = {{ta_malloc, ta_calloc, ta_realloc, ta_free, ta_aligned_alloc, ta_aligned_free},
                           1, 0, 0, {0, 0}, {0, 0}, 0};

// ---- helpers
static size_t
parse_bytes(const char* s, unsigned char** out)
{
  if (s[0] == '@') {
    const size_t   len  = strtoul(s + 1, NULL, 10);
    const char*    c    = strchr(s, ':');
    const unsigned seed = c ? (unsigned)strtoul(c + 1, NULL, 10) : 0U;
    // optional ":<pos>^<xor>" flips one byte: @len:seed:pos
    const char*    c2   = c ? strchr(c + 1, ':') : NULL;
    *out                = (unsigned char*)malloc(len ? len : 1);
    for (size_t i = 0; i < len; ++i) {
      (*out)[i] = (unsigned char)((i * 131U + seed * 17U + i / 256U) & 255U);
    }
    if (c2) {
      const size_t pos = strtoul(c2 + 1, NULL, 10);
      if (pos < len) {
        (*out)[pos] ^= 0x55U;
      }
    }
    return len;
  }
  return vunhex(s, out);
}

static int
write_file(const char* path, const unsigned char* p, size_t n)
{
  FILE* f = fopen(path, "wb");
  if (!f) {
    return -1;
  }
  if (n && fwrite(p, 1, n, f) != n) {
    fclose(f);
    return -1;
  }
  return fclose(f);
}

static int
count_fds(void)
{
  int  n = 0;
  DIR* d = opendir("/proc/self/fd");
  if (d) {
    while (readdir(d)) {
      ++n;
    }
    closedir(d);
  }
  return n;
}

static int
rm_cb(const char* p, const struct stat* sb, int flag, struct FTW* ftw)
{
  (void)sb;
  (void)flag;
  (void)ftw;
  return remove(p);
}

static void
rm_rf(const char* path)
{
  nftw(path, rm_cb, 16, FTW_DEPTH | FTW_PHYS);
}

static void
cleanup(void)
{
  if (chdir("/")) {
    return;
  }
  if (base[0]) {
    rm_rf(base);
  }
}

// print a path with the random scratch name normalised to /tmp/S
static void
norm_path(char* out, size_t cap, const char* path)
{
  const size_t bl = strlen(base);
  if (!strncmp(path, base, bl) && (path[bl] == '/' || !path[bl])) {
    snprintf(out, cap, "/tmp/S%s", path + bl);
  } else {
    snprintf(out, cap, "%s", path);
  }
}

static void
stat_hook(const char* path, int ret, const struct stat* sb)
{
  char np[PATH_MAX + 32];
  char buf[PATH_MAX + 64];
  norm_path(np, sizeof(np), path);
  const char* t = ret ? "NONE" : mode_type_name(sb->st_mode);
  snprintf(buf, sizeof(buf), "stat:%s:%s", np[0] ? np : "~", t);
  vw_logs(buf);
}

// lstat is not called by zix_create_directories; when a change makes it so, the trace shows it
int __real_lstat(const char* path, struct stat* sb);
int __real_lstat64(const char* path, struct stat* sb);
static int
do_lstat(int lfs, const char* path, struct stat* sb)
{
  const int r = lfs ? __real_lstat64(path, sb) : __real_lstat(path, sb);
  if (vw_active) {
    const int e = errno;
    char      np[PATH_MAX + 32];
    char      buf[PATH_MAX + 64];
    norm_path(np, sizeof(np), path);
    snprintf(buf, sizeof(buf), "lstat:%s:%s", np[0] ? np : "~", r ? "NONE" : mode_type_name(sb->st_mode));
    vw_logs(buf);
    errno = e;
  }
  return r;
}
int __wrap_lstat(const char* path, struct stat* sb) { return do_lstat(0, path, sb); }
int __wrap_lstat64(const char* path, struct stat* sb) { return do_lstat(1, path, sb); }

// ---- scripted directory streams (V cases): opendir on a real directory (a real descriptor), readdir returns
// the scripted names
static int    ds_active;         // 0: pass through; 1: scripted
static int    ds_fail;           // opendir fails
static char** ds_names;
static size_t ds_n, ds_pos;
static char   ds_log[VW_LOG_SIZE];
static size_t ds_log_len;

static void
ds_logf(const char* what, const char* arg)
{
  if (ds_log_len + strlen(what) + 3 * strlen(arg) + 4 >= sizeof(ds_log)) {
    return;
  }
  if (ds_log_len && what[0] != ':') { // ':' continues the current entry
    ds_log[ds_log_len++] = ' ';
  }
  ds_log_len += (size_t)sprintf(ds_log + ds_log_len, "%s", what);
  for (; *arg; ++arg) {
    const unsigned char c = (unsigned char)*arg;
    if (c <= 32 || c >= 127 || c == '%' || c == ',' || c == ':' || c == '|') {
      ds_log_len += (size_t)sprintf(ds_log + ds_log_len, "%%%02X", c);
    } else {
      ds_log[ds_log_len++] = (char)c;
    }
  }
  ds_log[ds_log_len] = 0;
}

DIR*           __real_opendir(const char* path);
struct dirent* __real_readdir(DIR* d);
struct dirent* __real_readdir64(DIR* d);
int            __real_closedir(DIR* d);

DIR*
__wrap_opendir(const char* path)
{
  if (!ds_active) {
    return __real_opendir(path);
  }
  if (ds_fail) {
    ds_logf("opendir-fail:", path);
    errno = ENOENT;
    return NULL;
  }
  ds_logf("opendir:", path);
  return __real_opendir(path);
}

static struct dirent*
ds_readdir(void)
{
  static struct dirent ent;
  if (ds_pos >= ds_n) {
    ds_logf("readdir-null", "");
    return NULL;
  }
  memset(&ent, 0, sizeof(ent));
  ent.d_ino = 1000 + ds_pos;
  snprintf(ent.d_name, sizeof(ent.d_name), "%s", ds_names[ds_pos++]);
  ds_logf("readdir:", ent.d_name);
  return &ent;
}
struct dirent* __wrap_readdir(DIR* d) { return ds_active ? ds_readdir() : __real_readdir(d); }
struct dirent* __wrap_readdir64(DIR* d) { return ds_active ? ds_readdir() : __real_readdir64(d); }

int
__wrap_closedir(DIR* d)
{
  if (ds_active) {
    ds_logf("closedir", "");
  }
  return __real_closedir(d);
}

int __real_mkdir(const char* path, mode_t mode);
int
__wrap_mkdir(const char* path, mode_t mode)
{
  const int r = __real_mkdir(path, mode);
  if (vw_active) {
    const int e = errno;
    char      np[PATH_MAX + 32];
    char      buf[PATH_MAX + 64];
    norm_path(np, sizeof(np), path);
    snprintf(buf, sizeof(buf), "mkdir:%s:%d", np[0] ? np : "~", r);
    vw_logs(buf);
    errno = e;
  }
  return r;
}

// sorted recursive listing of <base>
static char** tree_items;
static size_t tree_n, tree_cap;
static int
tree_cb(const char* p, const struct stat* sb, int flag, struct FTW* ftw)
{
  (void)ftw;
  (void)flag;
  const size_t bl = strlen(base);
  if (strlen(p) <= bl) {
    return 0;
  }
  if (tree_n == tree_cap) {
    tree_cap   = tree_cap ? tree_cap * 2 : 64;
    tree_items = (char**)realloc(tree_items, tree_cap * sizeof(char*));
  }
  char* s = (char*)malloc(strlen(p) + PATH_MAX + 40);
  if (S_ISLNK(sb->st_mode)) {
    char          target[PATH_MAX];
    char          nt[PATH_MAX + 32];
    const ssize_t n = readlink(p, target, sizeof(target) - 1);
    target[n > 0 ? n : 0] = 0;
    norm_path(nt, sizeof(nt), target);
    sprintf(s, "%s->%s", p + bl + 1, nt);
  } else {
    sprintf(s, "%s%s", p + bl + 1, S_ISDIR(sb->st_mode) ? "/" : S_ISFIFO(sb->st_mode) ? "|" : "");
  }
  tree_items[tree_n++] = s;
  return 0;
}
static int
cmp_str(const void* a, const void* b)
{
  return strcmp(*(char* const*)a, *(char* const*)b);
}
static char*
tree_listing(void)
{
  tree_n = 0;
  nftw(base, tree_cb, 16, FTW_PHYS);
  if (tree_n) {
    qsort(tree_items, tree_n, sizeof(char*), cmp_str);
  }
  size_t len = 2;
  for (size_t i = 0; i < tree_n; ++i) {
    len += strlen(tree_items[i]) + 1;
  }
  char* out = (char*)calloc(len, 1);
  for (size_t i = 0; i < tree_n; ++i) {
    if (i) {
      strcat(out, ",");
    }
    strcat(out, tree_items[i]);
    free(tree_items[i]);
  }
  if (!tree_n) {
    strcpy(out, "-");
  }
  return out;
}

static int
mk_parents_and(const char* rel, int is_dir)
{
  // parents are listed before children by the generator
  char p[256];
  snprintf(p, sizeof(p), "%s/%s", casedir, rel);
  return is_dir ? mkdir(p, 0700) : write_file(p, (const unsigned char*)"", 0);
}

// d:<rel> f:<rel> p:<rel> l:<rel>=<target>, comma separated, parents before children; '-' = nothing
static int
apply_setup(char* setup)
{
  int bad = 0;
  if (!strcmp(setup, "-")) {
    return 0;
  }
  char* save = NULL;
  for (char* t = strtok_r(setup, ",", &save); t; t = strtok_r(NULL, ",", &save)) {
    char p[256];
    if (t[0] == 'l') {
      char* eq = strchr(t, '=');
      char  target[PATH_MAX];
      if (!eq) {
        bad = 1;
        continue;
      }
      *eq = 0;
      snprintf(p, sizeof(p), "%s/%s", casedir, t + 2);
      if (eq[1] == '@') {
        snprintf(target, sizeof(target), "%s%s", casedir, eq + 2);
      } else {
        snprintf(target, sizeof(target), "%s", eq + 1);
      }
      bad |= symlink(target, p);
    } else if (t[0] == 'p') {
      snprintf(p, sizeof(p), "%s/%s", casedir, t + 2);
      bad |= mkfifo(p, 0600);
    } else {
      bad |= mk_parents_and(t + 2, t[0] == 'd');
    }
  }
  return bad;
}

static void
case_path(char* path, size_t cap, const char* tok)
{
  if (!strcmp(tok, "~")) {
    path[0] = 0;
  } else if (tok[0] == '@') {
    snprintf(path, cap, "%s%s", casedir, tok + 1);
  } else {
    snprintf(path, cap, "%s", tok);
  }
}

static void
print_stat_answer(const char* label, int rc, int err, const struct stat* sb)
{
  if (rc) {
    printf("%s=E%d", label, err);
  } else {
    printf("%s=%o", label, (unsigned)(sb->st_mode & S_IFMT));
  }
}

static int
parse_script(char* s)
{
  vw_script_len = 0;
  if (!strcmp(s, "-")) {
    return 0;
  }
  char* save = NULL;
  for (char* t = strtok_r(s, ",", &save); t && vw_script_len < VW_MAX_SCRIPT; t = strtok_r(NULL, ",", &save)) {
    VwOutcome o = {t[0], t[1] ? atoi(t + 1) : 0};
    if (o.kind != 'F' && o.kind != 'S' && o.kind != 'E') {
      return -1;
    }
    vw_script[vw_script_len++] = o;
  }
  return 0;
}

// dir_for_each callback
static char** seen;
static size_t seen_n, seen_cap;
static int visit_logs; // V cases: every call with its arguments, in order
static void
visit(const char* path, const char* name, void* data)
{
  if (visit_logs) {
    char buf[64];
    ds_logf("cb:", path);
    ds_logf(":", name);
    snprintf(buf, sizeof(buf), "%ld", (long)(intptr_t)data);
    ds_logf(":", buf);
  }
  if (seen_n == seen_cap) {
    seen_cap = seen_cap ? seen_cap * 2 : 64;
    seen     = (char**)realloc(seen, seen_cap * sizeof(char*));
  }
  seen[seen_n++] = strdup(name);
}

int
main(void)
{
  strcpy(base, "/tmp/zixc15.XXXXXX");
  if (!mkdtemp(base)) {
    perror("mkdtemp");
    return 2;
  }
  atexit(cleanup);
  snprintf(casedir, sizeof(casedir), "%s/w", base);

  char*  line = NULL;
  size_t cap  = 0;
  char*  tok[16];
  {
    // the cases are read from a duplicate of descriptor 0, so that a case may close descriptor 0 itself
    FILE* const in = fdopen(dup(0), "r");
    if (in) {
      stdin = in;
    }
  }
  while (vgetline(&line, &cap)) {
    alarm(60);
    int n = vsplit(line, tok, 16);
    vw_reset();
    if (chdir("/")) {
      return 2;
    }
    rm_rf(base);
    if (mkdir(base, 0700) || mkdir(casedir, 0700) || chdir(casedir)) {
      puts("bad-scratch");
      continue;
    }
    track.malloc_ok = 1;
    track.n_alloc = track.n_free = track.al_count = 0;
    track.al_fail[0] = track.al_fail[1] = track.al_errno[0] = track.al_errno[1] = 0;

    if (n == 4 && !strcmp(tok[0], "D")) {
      const int bad = apply_setup(tok[2]);
      char      path[PATH_MAX];
      case_path(path, sizeof(path), tok[3]);
      if (bad) {
        puts("bad-case");
        continue;
      }
      track.malloc_ok = atoi(tok[1]);
      vw_stat_hook    = stat_hook;
      const int fds0  = count_fds();
      vw_active       = 1;
      const ZixStatus st = zix_create_directories(&track.base, path);
      vw_active       = 0;
      const int fds1  = count_fds();
      const int leak  = track.n_alloc - track.n_free;
      struct stat sb;
      const int   isdir = path[0] && !stat(path, &sb) && S_ISDIR(sb.st_mode);
      char*       tree1 = tree_listing();
      track.malloc_ok   = 1;
      const ZixStatus again = zix_create_directories(&track.base, path);
      char*           tree2 = tree_listing();
      printf("st= %s isdir= %d again= %s same= %d fds= %d leak= %d || %s tree=%s\n", status_name(st), isdir,
             status_name(again), !strcmp(tree1, tree2), fds1 - fds0, leak, vw_log_len ? vw_log : "-", tree1);
      free(tree1);
      free(tree2);
    } else if (n == 3 && !strcmp(tok[0], "Q")) {
      const int bad = apply_setup(tok[1]);
      char      path[PATH_MAX];
      case_path(path, sizeof(path), tok[2]);
      if (bad) {
        puts("bad-case");
        continue;
      }
      int               leaks = 0;
      const int         f0    = count_fds();
      const ZixFileType t1    = zix_file_type(path);
      leaks += abs(count_fds() - f0);
      const ZixFileType t2 = zix_symlink_type(path);
      leaks += abs(count_fds() - f0);
      const ZixFileOffset sz = zix_file_size(path);
      leaks += abs(count_fds() - f0);
      struct stat sb, lb;
      errno         = 0;
      const int rs  = stat(path, &sb);
      const int es  = errno;
      errno         = 0;
      const int rl  = lstat(path, &lb);
      const int el  = errno;
      printf("type= %s ltype= %s size= ", type_name(t1), type_name(t2));
      if (rs || S_ISREG(sb.st_mode)) {
        printf("%lld", (long long)sz);
      } else {
        fputs(sz == sb.st_size ? "eqstat" : "DIFFERS", stdout);
      }
      printf(" fds= %d leak= %d || ", leaks, track.n_alloc - track.n_free);
      print_stat_answer("stat", rs, es, &sb);
      putchar(' ');
      print_stat_answer("lstat", rl, el, &lb);
      putchar('\n');
    } else if (n == 8 && !strcmp(tok[0], "E")) {
      unsigned char *ab = NULL, *bb = NULL;
      const int      a_missing = !strcmp(tok[1], "M"), b_missing = !strcmp(tok[2], "M");
      const size_t   alen = a_missing ? 0 : parse_bytes(tok[1], &ab);
      const size_t   blen = b_missing ? 0 : parse_bytes(tok[2], &bb);
      const char     rel  = tok[3][0];
      int            bad  = 0;
      if (!a_missing) {
        bad |= write_file("a", ab, alen);
      }
      const char* pb = "b";
      if (rel == 'P') {
        pb = "a";
      } else if (rel == 'H') {
        bad |= link("a", "b");
      } else if (rel == 'L') {
        bad |= symlink("a", "b");
      } else if (!b_missing) {
        bad |= write_file("b", bb, blen);
      }
      bad |= parse_script(tok[7]);
      if (bad) {
        puts("bad-case");
        free(ab);
        free(bb);
        continue;
      }
      vw_ino_collide = (rel == 'C'); // relation C: two different files whose inode numbers collide across devices
      for (int i = 0; i < 2; ++i) {
        track.al_fail[i]  = tok[4 + i][0] == 'N';
        track.al_errno[i] = track.al_fail[i] ? atoi(tok[4 + i] + 1) : 0;
      }
      vw_mode = 1;
      vw_b1 = vw_b2  = VW_KEEP_BLKSIZE;
      if (rel == 'U' && geteuid() == 0) {
        // relation U: the two files are readable by, but not owned by, the caller: the call is made in a child that
        // has given up root (the case directory is the current directory: it only needs search permission)
        fflush(stdout);
        const int   perm_bad = chmod(".", 0755) || (!a_missing && chmod("a", 0644)) || (!b_missing && chmod("b", 0644));
        const pid_t pid      = perm_bad ? -1 : fork();
        if (pid == 0) {
          if (setgid(65534) || setuid(65534)) {
            // identities cannot be changed here (a restricted container): the relation degenerates to D
          }
          const int fds0 = count_fds();
          errno          = atoi(tok[6]);
          vw_active      = 1;
          const bool eq  = zix_file_equals(&track.base, "a", pb);
          vw_active      = 0;
          const int fds1 = count_fds();
          printf("eq= %s fds= %d leak= %d || %s\n", eq ? "true" : "false", fds1 - fds0, track.n_alloc - track.n_free,
                 vw_log_len ? vw_log : "-");
          fflush(stdout);
          _exit(0);
        }
        int wst = 0;
        if (pid < 0 || waitpid(pid, &wst, 0) != pid || !WIFEXITED(wst) || WEXITSTATUS(wst) != 0) {
          puts("bad-case");
        }
        free(ab);
        free(bb);
        continue;
      }
      if (rel == 'Z') {
        close(0); // relation Z: two different files, compared in a process whose descriptor 0 is closed (a daemon)
      }
      const int fds0 = count_fds();
      errno          = atoi(tok[6]);
      vw_active      = 1;
      const bool eq  = zix_file_equals(&track.base, "a", pb);
      vw_active      = 0;
      const int fds1 = count_fds();
      if (rel == 'Z') {
        const int nfd = open("/dev/null", O_RDONLY);
        if (nfd > 0) {
          dup2(nfd, 0);
          close(nfd);
        }
      }
      printf("eq= %s fds= %d leak= %d || %s\n", eq ? "true" : "false", fds1 - fds0, track.n_alloc - track.n_free,
             vw_log_len ? vw_log : "-");
      free(ab);
      free(bb);
    } else if (n == 2 && !strcmp(tok[0], "N")) {
      // N <percent-escaped path>: zix_canonical_path against realpath(3) on a small tree: d/ d/sub/ f l->d lroot->/
      // ldang->nowhere lf->f (the case directory is the current directory)
      int bad = mkdir("d", 0700) || mkdir("d/sub", 0700) || write_file("f", (const unsigned char*)"x", 1) ||
                symlink("d", "l") || symlink("/", "lroot") || symlink("nowhere", "ldang") || symlink("f", "lf");
      if (bad) {
        puts("bad-case");
        continue;
      }
      unescape_pct(tok[1]);
      const char* p     = !strcmp(tok[1], "-") ? "" : tok[1];
      const int   f0    = count_fds();
      char*       canon = zix_canonical_path(&track.base, p);
      const int   leaks = abs(count_fds() - f0);
      char        rp[PATH_MAX];
      char* const real  = realpath(p, rp);
      const int   agree = (!canon && !real) || (canon && real && !strcmp(canon, real));
      printf("canon= %s fds= %d leak= %d\n", agree ? "agrees" : (canon ? "DIFFERS" : "NULL-but-realpath-resolves"), leaks,
             track.n_alloc - track.n_free - (canon ? 1 : 0));
      zix_free(&track.base, canon);
    } else if (n == 3 && !strcmp(tok[0], "T")) {
      const char*  k    = tok[1];
      const size_t size = strtoul(tok[2], NULL, 10);
      const char*  p    = "x";
      int          bad  = 0;
      int          sock = -1;
      if (!strcmp(k, "R") || !strcmp(k, "LR")) {
        unsigned char* b = (unsigned char*)calloc(size ? size : 1, 1);
        bad |= write_file(!strcmp(k, "R") ? "x" : "t", b, size);
        free(b);
      }
      if (!strcmp(k, "D")) {
        bad |= mkdir("x", 0700);
      } else if (!strcmp(k, "LD")) {
        bad |= mkdir("t", 0700);
      }
      if (k[0] == 'L') {
        bad |= symlink("t", "x");
      } else if (!strcmp(k, "F")) {
        bad |= mkfifo("x", 0600);
      } else if (!strcmp(k, "S")) {
        struct sockaddr_un addr;
        memset(&addr, 0, sizeof(addr));
        addr.sun_family = AF_UNIX;
        strcpy(addr.sun_path, "x");
        sock = socket(AF_UNIX, SOCK_STREAM, 0);
        bad |= sock < 0 || bind(sock, (struct sockaddr*)&addr, sizeof(addr));
      } else if (!strcmp(k, "C")) {
        p = "/dev/null";
      }
      if (bad) {
        puts("bad-case");
        continue;
      }
      int       leaks = 0;
      int       f0    = count_fds();
      const ZixFileType t1 = zix_file_type(p);
      leaks += abs(count_fds() - f0);
      const ZixFileType t2 = zix_symlink_type(p);
      leaks += abs(count_fds() - f0);
      const ZixFileOffset sz = zix_file_size(p);
      leaks += abs(count_fds() - f0);
      char* canon = zix_canonical_path(&track.base, p);
      leaks += abs(count_fds() - f0);
      // the direct calls
      struct stat sb, lb;
      const int   rs = stat(p, &sb), rl = lstat(p, &lb);
      char        rp[PATH_MAX];
      char* const real = realpath(p, rp);
      const int   canon_same = (!canon && !real) || (canon && real && !strcmp(canon, real));
      printf("type= %s ltype= %s size= ", type_name(t1), type_name(t2));
      if (rs) {
        printf("%lld", (long long)sz); // must be -1
      } else if (S_ISREG(sb.st_mode)) {
        printf("%lld", (long long)sz);
      } else {
        fputs(sz == sb.st_size ? "eqstat" : "DIFFERS", stdout);
      }
      printf(" canon= %s fds= %d leak= %d || stat=%o lstat=%o\n", canon_same ? (real ? "same" : "null") : "DIFFERS", leaks,
             track.n_alloc - track.n_free - (canon ? 1 : 0), rs ? 0U : (unsigned)(sb.st_mode & S_IFMT),
             rl ? 0U : (unsigned)(lb.st_mode & S_IFMT));
      zix_free(&track.base, canon);
      if (sock >= 0) {
        close(sock);
      }
    } else if (n == 2 && (!strcmp(tok[0], "R") || !strcmp(tok[0], "RL"))) {
      const int via_link = !strcmp(tok[0], "RL");
      int       bad      = mkdir("d", 0700);
      if (via_link) {
        bad |= symlink("d", "ld");
      }
      if (strcmp(tok[1], "-")) {
        char* save = NULL;
        for (char* t = strtok_r(tok[1], ",", &save); t; t = strtok_r(NULL, ",", &save)) {
          char p[600];
          unescape_pct(t);
          const size_t l = strlen(t);
          if (l && t[l - 1] == '/') {
            snprintf(p, sizeof(p), "d/%.*s", (int)(l - 1), t);
            bad |= mkdir(p, 0700);
          } else {
            snprintf(p, sizeof(p), "d/%s", t);
            bad |= write_file(p, (const unsigned char*)"", 0);
          }
        }
      }
      if (bad) {
        puts("bad-case");
        continue;
      }
      seen_n         = 0;
      const int fds0 = count_fds();
      zix_dir_for_each(via_link ? "ld" : "d", NULL, visit);
      const int fds1 = count_fds();
      zix_dir_for_each("missing", NULL, visit); // a missing directory: no visit, no descriptor
      const int fds2 = count_fds();
      if (seen_n) {
        qsort(seen, seen_n, sizeof(char*), cmp_str);
      }
      // direct readdir
      size_t dn = 0, dots = 0, dup = 0, missing = 0;
      DIR*   d  = opendir("d");
      for (struct dirent* e = NULL; d && (e = readdir(d));) {
        if (!strcmp(e->d_name, ".") || !strcmp(e->d_name, "..")) {
          continue;
        }
        ++dn;
        char* key = e->d_name;
        if (!seen_n || !bsearch(&key, seen, seen_n, sizeof(char*), cmp_str)) {
          ++missing;
        }
      }
      if (d) {
        closedir(d);
      }
      for (size_t i = 0; i < seen_n; ++i) {
        dots += !strcmp(seen[i], ".") || !strcmp(seen[i], "..");
        dup += i && !strcmp(seen[i], seen[i - 1]);
      }
      printf("visited= %zu entries= %zu missing= %zu dup= %zu dots= %zu fds= %d ||", seen_n, dn, missing, dup, dots,
             abs(fds1 - fds0) + abs(fds2 - fds1));
      for (size_t i = 0; i < seen_n; ++i) {
        putchar(' ');
        put_pct(seen[i]);
        free(seen[i]);
      }
      puts(seen_n ? "" : " -");
    } else if (n == 3 && !strcmp(tok[0], "V")) {
      int bad = mkdir("d", 0700);
      ds_fail = !strcmp(tok[1], "fail");
      ds_n = ds_pos = 0;
      ds_log_len    = 0;
      ds_log[0]     = 0;
      char*  names[512];
      if (strcmp(tok[2], "-")) {
        char* save = NULL;
        for (char* t = strtok_r(tok[2], ",", &save); t && ds_n < 512; t = strtok_r(NULL, ",", &save)) {
          unescape_pct(t);
          names[ds_n++] = t;
        }
      }
      ds_names = names;
      if (bad) {
        puts("bad-case");
        continue;
      }
      seen_n         = 0;
      visit_logs     = 1;
      const int fds0 = count_fds();
      ds_active      = 1;
      zix_dir_for_each("d", (void*)(intptr_t)7, visit);
      ds_active      = 0;
      const int fds1 = count_fds();
      visit_logs     = 0;
      size_t dots    = 0;
      for (size_t i = 0; i < seen_n; ++i) {
        dots += !strcmp(seen[i], ".") || !strcmp(seen[i], "..");
      }
      printf("visited= %zu dots= %zu fds= %d names= ", seen_n, dots, fds1 - fds0);
      for (size_t i = 0; i < seen_n; ++i) {
        if (i) {
          putchar(',');
        }
        put_pct(seen[i]);
        free(seen[i]);
      }
      printf("%s || %s\n", seen_n ? "" : "-", ds_log_len ? ds_log : "-");
    } else {
      puts("?");
    }
    fflush(stdout);
  }
  free(line);
  free(tree_items);
  free(seen);
  return 0;
}
