// Shared helpers for the zix verification C drivers (line protocol, hex, escaping)
#ifndef VCOMMON_H
#define VCOMMON_H
#include <ctype.h>
#include <stdint.h>
#include <stdio.h>
#include <stdlib.h>
#include <string.h>

static inline int vhexval(int c)
{
  return (c >= '0' && c <= '9') ? c - '0' : (c >= 'a' && c <= 'f') ? c - 'a' + 10 : (c >= 'A' && c <= 'F') ? c - 'A' + 10 : -1;
}

// decode "-" (empty) or hex into an exact-size malloc block (ASan guards both ends); returns length
static inline size_t vunhex(const char* s, unsigned char** out)
{
  if (!strcmp(s, "-")) {
    *out = (unsigned char*)malloc(1); // zero-length logical buffer; 1 byte so the pointer is valid
    return 0;
  }
  size_t n = strlen(s) / 2;
  *out = (unsigned char*)malloc(n ? n : 1);
  for (size_t i = 0; i < n; ++i) {
    (*out)[i] = (unsigned char)(vhexval(s[2 * i]) * 16 + vhexval(s[2 * i + 1]));
  }
  return n;
}

static inline void vputhex(FILE* f, const unsigned char* p, size_t n)
{
  if (!n) {
    fputc('-', f);
  }
  for (size_t i = 0; i < n; ++i) {
    fprintf(f, "%02x", p[i]);
  }
}

// same escaping as OCaml's String.escaped
static inline void vputescaped(FILE* f, const char* s)
{
  for (; *s; ++s) {
    unsigned char c = (unsigned char)*s;
    switch (c) {
    case '"': fputs("\\\"", f); break;
    case '\\': fputs("\\\\", f); break;
    case '\n': fputs("\\n", f); break;
    case '\t': fputs("\\t", f); break;
    case '\r': fputs("\\r", f); break;
    case '\b': fputs("\\b", f); break;
    default:
      if (c >= 32 && c < 127) {
        fputc(c, f);
      } else {
        fprintf(f, "\\%03u", c);
      }
    }
  }
}

// read one line (without newline) into a growing buffer; returns NULL at EOF
static inline char* vgetline(char** buf, size_t* cap)
{
  ssize_t n = getline(buf, cap, stdin);
  if (n < 0) {
    return NULL;
  }
  if (n && (*buf)[n - 1] == '\n') {
    (*buf)[n - 1] = 0;
  }
  return *buf;
}

// split on spaces in place; returns token count
static inline int vsplit(char* line, char** tok, int max)
{
  int n = 0;
  char* save = NULL;
  for (char* t = strtok_r(line, " ", &save); t && n < max; t = strtok_r(NULL, " ", &save)) {
    tok[n++] = t;
  }
  return n;
}
#endif
