// Probes of what the public headers promise the COMPILER about each function (pure / const attributes), built at -O2.
//
// A function declared `pure` must depend only on its arguments and the memory it can read; declared `const`, on its
// arguments alone; a call whose result is unused may then be deleted, and two calls with the same arguments merged.
// Each probe is one function in which the same call appears twice with the same arguments around a modification of
// the object (or a call whose result is ignored appears once), so an attribute that promises more than the function
// keeps lets the optimiser produce a STALE answer (or drop the effect).  The reference answer is obtained through a
// volatile function pointer, which carries no attributes.
//
// usage: purity_probe <group>...   groups: hash tree btree ring thread sem normal join env fs    one line per probe: "<name> ok|STALE"
#include <zix/allocator.h>
#include <zix/btree.h>
#include <zix/environment.h>
#include <zix/filesystem.h>
#include <zix/path.h>
#include <zix/hash.h>
#include <zix/ring.h>
#include <zix/sem.h>
#include <zix/status.h>
#include <zix/thread.h>
#include <zix/tree.h>

#include <stdint.h>
#include <stdio.h>
#include <stdlib.h>
#include <string.h>
#include <time.h>

static int n_stale;

static void report(const char* name, int stale)
{
  printf("%s %s\n", name, stale ? "STALE" : "ok");
  n_stale += stale;
}

// ---------------------------------------------------------------- hash
typedef struct {
  size_t key;
} Rec;

static const void* rec_key(const void* r)
{
  return r;
}

static size_t rec_hash(const void* k)
{
  return ((const Rec*)k)->key;
}

static bool rec_eq(const void* a, const void* b)
{
  return ((const Rec*)a)->key == ((const Rec*)b)->key;
}

static void probe_hash(void)
{
  static Rec r5 = {5}, r6 = {6}, r1 = {1};
  size_t (*volatile v_size)(const ZixHash*)             = zix_hash_size;
  ZixHashIter (*volatile v_begin)(const ZixHash*)       = zix_hash_begin;
  ZixHashIter (*volatile v_end)(const ZixHash*)         = zix_hash_end;
  ZixHashRecord* (*volatile v_get)(const ZixHash*, ZixHashIter) = zix_hash_get;
  ZixHashIter (*volatile v_next)(const ZixHash*, ZixHashIter)   = zix_hash_next;

  ZixHash* h = zix_hash_new(NULL, rec_key, rec_hash, rec_eq);
  zix_hash_insert(h, &r5);
  zix_hash_insert(h, &r6);
  {
    const size_t s1 = zix_hash_size(h);
    zix_hash_insert(h, &r1);
    const size_t s2 = zix_hash_size(h);
    report("zix_hash_size", s2 != v_size(h) || s1 == s2);
  }
  {
    ZixHashRecord*    removed = NULL;
    const ZixHashIter b1      = zix_hash_begin(h);
    const ZixHashIter e1      = zix_hash_end(h);
    ZixHashRecord*    g1      = zix_hash_get(h, b1);
    const ZixHashIter n1      = zix_hash_next(h, b1);
    zix_hash_remove(h, &r1, &removed);                  // the first record goes
    for (size_t k = 100; k < 140; ++k) {                // and the table grows
      Rec* r = (Rec*)malloc(sizeof(Rec));
      r->key = k;
      zix_hash_insert(h, r);
    }
    const ZixHashIter b2 = zix_hash_begin(h);
    const ZixHashIter e2 = zix_hash_end(h);
    ZixHashRecord*    g2 = zix_hash_get(h, b1);
    const ZixHashIter n2 = zix_hash_next(h, b1);
    report("zix_hash_begin", b2 != v_begin(h));
    report("zix_hash_end", e2 != v_end(h) || e2 == e1);
    report("zix_hash_get", g2 != v_get(h, b1));
    report("zix_hash_next", n2 != v_next(h, b1));
    (void)g1;
    (void)n1;
  }
  // records 100.. are leaked on purpose (short-lived process)
}

// ---------------------------------------------------------------- AVL tree
static int int_cmp(const void* a, const void* b, const void* ud)
{
  (void)ud;
  return (*(const int*)a > *(const int*)b) - (*(const int*)a < *(const int*)b);
}

static void probe_tree(void)
{
  static int vals[8] = {10, 20, 30, 5, 25, 40, 1, 50};
  size_t (*volatile v_size)(const ZixTree*)            = zix_tree_size;
  ZixTreeIter* (*volatile v_begin)(ZixTree*)           = zix_tree_begin;
  ZixTreeIter* (*volatile v_rbegin)(ZixTree*)          = zix_tree_rbegin;
  ZixTreeIter* (*volatile v_next)(ZixTreeIter*)        = zix_tree_iter_next;
  ZixTreeIter* (*volatile v_prev)(ZixTreeIter*)        = zix_tree_iter_prev;
  void* (*volatile v_get)(const ZixTreeIter*)          = zix_tree_get;

  ZixTree*     t  = zix_tree_new(NULL, false, int_cmp, NULL, NULL, NULL);
  ZixTreeIter* it = NULL;
  ZixTreeIter* out20 = NULL;
  zix_tree_insert(t, &vals[0], &it);
  zix_tree_insert(t, &vals[1], &out20);
  zix_tree_insert(t, &vals[2], &it);
  ZixTreeIter* const i20 = out20; // a local whose address never escapes: the optimiser knows it does not change

  const size_t s1 = zix_tree_size(t);
  ZixTreeIter* b1 = zix_tree_begin(t);
  ZixTreeIter* r1 = zix_tree_rbegin(t);
  ZixTreeIter* n1 = zix_tree_iter_next(i20);
  ZixTreeIter* p1 = zix_tree_iter_prev(i20);
  zix_tree_insert(t, &vals[3], &it); // 5: new first
  zix_tree_insert(t, &vals[4], &it); // 25: new successor of 20
  zix_tree_insert(t, &vals[5], &it); // 40: new last
  zix_tree_insert(t, &vals[6], &it);
  zix_tree_insert(t, &vals[7], &it);
  int fifteen = 15;
  zix_tree_insert(t, &fifteen, &it); // new predecessor of 20
  const size_t s2 = zix_tree_size(t);
  ZixTreeIter* b2 = zix_tree_begin(t);
  ZixTreeIter* r2 = zix_tree_rbegin(t);
  ZixTreeIter* n2 = zix_tree_iter_next(i20);
  ZixTreeIter* p2 = zix_tree_iter_prev(i20);
  report("zix_tree_size", s2 != v_size(t) || s1 == s2);
  report("zix_tree_begin", b2 != v_begin(t) || b1 == b2);
  report("zix_tree_rbegin", r2 != v_rbegin(t) || r1 == r2);
  report("zix_tree_iter_next", n2 != v_next(i20) || n1 == n2);
  report("zix_tree_iter_prev", p2 != v_prev(i20) || p1 == p2);
  report("zix_tree_get", zix_tree_get(n2) != v_get(n2));
  zix_tree_free(t);
}

// ---------------------------------------------------------------- B-tree
static void probe_btree(void)
{
  static int keys[600];
  size_t (*volatile v_size)(const ZixBTree*)       = zix_btree_size;
  ZixBTreeIter (*volatile v_begin)(const ZixBTree*) = zix_btree_begin;
  void* (*volatile v_get)(ZixBTreeIter)            = zix_btree_get;

  ZixBTree* t = zix_btree_new(NULL, int_cmp, NULL);
  for (int i = 0; i < 600; ++i) {
    keys[i] = i + 100;
  }
  for (int i = 0; i < 300; ++i) {
    zix_btree_insert(t, &keys[i]);
  }
  const size_t       s1 = zix_btree_size(t);
  const ZixBTreeIter b1 = zix_btree_begin(t);
  void* const        g1 = zix_btree_get(b1);
  static int         low = 1;
  zix_btree_insert(t, &low);
  for (int i = 300; i < 600; ++i) {
    zix_btree_insert(t, &keys[i]); // the root leaf splits: the first element moves to another page
  }
  const size_t       s2 = zix_btree_size(t);
  const ZixBTreeIter b2 = zix_btree_begin(t);
  void* const        g2 = zix_btree_get(b2);
  const ZixBTreeIter br = v_begin(t);
  report("zix_btree_size", s2 != v_size(t) || s1 == s2);
  report("zix_btree_begin", memcmp(&b2, &br, sizeof(b2)) != 0);
  report("zix_btree_get", g2 != v_get(b2) || g1 == g2);
  (void)b1;
  {
    // a call whose result is ignored must still happen
    void*        out  = NULL;
    ZixBTreeIter next = zix_btree_end(t);
    zix_btree_remove(t, &low, &out, &next);
    report("zix_btree_remove(effect)", v_size(t) != s2 - 1U);
    zix_btree_clear(t, NULL, NULL);
    report("zix_btree_clear(effect)", v_size(t) != 0U);
  }
  zix_btree_free(t, NULL, NULL);
}

// ---------------------------------------------------------------- ring
static void probe_ring(void)
{
  uint32_t (*volatile v_rs)(const ZixRing*) = zix_ring_read_space;
  uint32_t (*volatile v_ws)(const ZixRing*) = zix_ring_write_space;
  ZixRing* r = zix_ring_new(NULL, 64);
  char     buf[16] = "0123456789abcde";
  const uint32_t rs1 = zix_ring_read_space(r);
  const uint32_t ws1 = zix_ring_write_space(r);
  zix_ring_write(r, buf, 10);
  const uint32_t rs2 = zix_ring_read_space(r);
  const uint32_t ws2 = zix_ring_write_space(r);
  report("zix_ring_read_space", rs2 != v_rs(r) || rs1 == rs2);
  report("zix_ring_write_space", ws2 != v_ws(r) || ws1 == ws2);
  zix_ring_skip(r, 4); // result ignored: the effect must still happen
  report("zix_ring_skip(effect)", v_rs(r) != 6U);
  ZixRingTransaction tx = zix_ring_begin_write(r);
  zix_ring_amend_write(r, &tx, buf, 3);
  zix_ring_commit_write(r, &tx);
  report("zix_ring_commit_write(effect)", v_rs(r) != 9U);
  zix_ring_reset(r);
  report("zix_ring_reset(effect)", v_rs(r) != 0U);
  zix_ring_free(r);
}

// ---------------------------------------------------------------- thread / sem
static volatile int worker_done;

static ZixThreadResult ZIX_THREAD_FUNC worker(void* arg)
{
  (void)arg;
  struct timespec ts = {0, 150000000L};
  nanosleep(&ts, NULL);
  worker_done = 1;
  return ZIX_THREAD_RESULT;
}

static void probe_thread(void)
{
  ZixThread th;
  worker_done = 0;
  if (zix_thread_create(&th, 1U << 20, worker, NULL)) {
    puts("zix_thread_join(effect) skip");
    return;
  }
  const ZixStatus st = zix_thread_join(th); // status stored, never branched on
  (void)st;
  report("zix_thread_join(effect)", !worker_done);
  if (!worker_done) {
    struct timespec ts = {0, 400000000L};
    nanosleep(&ts, NULL); // let the worker finish before the process exits
  }
}

static void probe_sem(void)
{
  ZixSem s;
  if (zix_sem_init(&s, 0)) {
    puts("zix_sem_post(effect) skip");
    return;
  }
  zix_sem_post(&s); // status ignored
  ZixStatus (*volatile v_try)(ZixSem*) = zix_sem_try_wait;
  report("zix_sem_post(effect)", v_try(&s) != ZIX_STATUS_SUCCESS);
  zix_sem_post(&s);
  zix_sem_try_wait(&s); // status ignored: the unit must still be taken
  report("zix_sem_try_wait(effect)", v_try(&s) == ZIX_STATUS_SUCCESS);
  zix_sem_destroy(&s);
}

// ---------------------------------------------------------------- functions that return a fresh block
// Two calls with the same arguments must give two blocks: a declaration that lets the optimiser merge them hands the
// caller one block twice (the second result changes when the first is edited, and both would be freed).
#define FRESH(NAME, CALL)                                   \
  do {                                                      \
    char* const a = (CALL);                                 \
    char* const b = (CALL);                                 \
    int         stale = a && b && a == b;                   \
    if (a && b && a != b && a[0]) {                         \
      const char keep = b[0];                               \
      a[0]            = (char)(a[0] ^ 0x55);                \
      stale           = b[0] != keep;                       \
    }                                                       \
    report(NAME, stale);                                    \
    zix_free(NULL, a);                                      \
    if (b != a) {                                           \
      zix_free(NULL, b);                                    \
    }                                                       \
  } while (0)

static void probe_normal(void)
{
  FRESH("zix_path_lexically_normal", zix_path_lexically_normal(NULL, "/usr/lib/../share/./zix//"));
}

static void probe_join(void)
{
  FRESH("zix_path_join", zix_path_join(NULL, "/usr", "lib"));
  FRESH("zix_path_lexically_relative", zix_path_lexically_relative(NULL, "/a/b/c", "/a/d"));
  FRESH("zix_path_preferred", zix_path_preferred(NULL, "/a/b"));
}

static void probe_env(void)
{
  FRESH("zix_expand_environment_strings", zix_expand_environment_strings(NULL, "x$HOME/y"));
}

static void probe_fs(void)
{
  FRESH("zix_current_path", zix_current_path(NULL));
  FRESH("zix_canonical_path", zix_canonical_path(NULL, "/"));
  FRESH("zix_temp_directory_path", zix_temp_directory_path(NULL));
}

int main(int argc, char** argv)
{
  for (int i = 1; i < argc; ++i) {
    if (!strcmp(argv[i], "hash")) {
      probe_hash();
    } else if (!strcmp(argv[i], "tree")) {
      probe_tree();
    } else if (!strcmp(argv[i], "btree")) {
      probe_btree();
    } else if (!strcmp(argv[i], "ring")) {
      probe_ring();
    } else if (!strcmp(argv[i], "thread")) {
      probe_thread();
    } else if (!strcmp(argv[i], "sem")) {
      probe_sem();
    } else if (!strcmp(argv[i], "normal")) {
      probe_normal();
    } else if (!strcmp(argv[i], "join")) {
      probe_join();
    } else if (!strcmp(argv[i], "env")) {
      probe_env();
    } else if (!strcmp(argv[i], "fs")) {
      probe_fs();
    }
  }
  fflush(stdout);
  return 0;
}
