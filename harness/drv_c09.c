// C09 implementation driver: the real zix bump allocator on request histories.
// case:  <A> <C> <mem:0|1>[n] <op> ...      (see ocaml/drv_c09.ml for the op syntax)
// A flag n after the mem digit ("1n") marks a history reserved for the library's normal build (-DNDEBUG, no
// assertions): it contains aligned_alloc requests whose size is not a multiple of the alignment.  The calls
// are the same; this driver only refuses such a case when it was itself built WITH assertions.
// The buffer address A is chosen by the case: one region is mapped at a fixed address so that every
// address residue (mod 8 and mod any power of two up to the region size) can be produced exactly.
// mem=1: the window [A-16, A+C+16) is dirtied with non-zero bytes, every block obtained is filled
//        with a non-zero pattern, and after every call the window is compared with its snapshot
//        (so any byte the allocator writes is seen, and where).
// mem=0: nominal (possibly huge, at most PTRDIFF_MAX: no C object is larger) capacity, memory is not
//        touched except by small calloc blocks.
#include "vcommon.h"

#include <zix/allocator.h>
#include <zix/bump_allocator.h>

#include <setjmp.h>
#include <sys/mman.h>
#include <unistd.h>

_Static_assert(sizeof(size_t) == 8 && sizeof(uintptr_t) == 8 && sizeof(uintmax_t) == 8, "64-bit model");

#define BASE ((uintptr_t)0x200000000000ULL)
#define REGION ((size_t)(8U << 20))
#define MARGIN 16
#define MAXOPS 4096

static sigjmp_buf abort_jmp;
static int        in_case;

// assert() of glibc ends here: report it as an outcome instead of dying
void __assert_fail(const char* expr, const char* file, unsigned line, const char* func)
{
  (void)expr; (void)file; (void)line; (void)func;
  if (in_case) {
    siglongjmp(abort_jmp, 1);
  }
  fprintf(stderr, "assert outside a case: %s\n", expr);
  _exit(97);
}

typedef struct { int live; char* p; size_t n; } Blk;

static Blk blk[MAXOPS];

static int parse_ptr(const char* s, long* id)
{
  if (!strcmp(s, "N")) {
    *id = -1;
    return 1;
  }
  char* e = NULL;
  *id = strtol(s, &e, 10);
  return *e == 0 && *id >= 0;
}

static int inside(uintptr_t lo, uintptr_t hi, uintptr_t a, size_t n)
{
  return a >= lo && a <= hi && n <= hi - a;
}

typedef struct {
  void*  res;
  int    is_alloc, is_void, skip, aborted, bad, unmapped;
  size_t size;
} Out;

// one call into the allocator; every result goes through *out (memory), so a longjmp out of a
// failed assert() loses nothing
static void __attribute__((noinline))
call_op(ZixBumpAllocator* const b, const int memf, const char k, const char* arg, const char* arg2,
        void* const parg, const long pid, Out* const out)
{
  ZixAllocator* const a = &b->base;
  const uintptr_t rlo = BASE, rhi = BASE + REGION;
  in_case = 1;
  if (sigsetjmp(abort_jmp, 1)) {
    out->aborted = 1;
  } else if (k == 'M' && !arg2) {
    out->size = strtoull(arg, NULL, 10);
    out->is_alloc = 1;
    out->res = zix_malloc(a, out->size);
  } else if (k == 'C' && arg2) {
    const size_t nm = strtoull(arg, NULL, 10), sz = strtoull(arg2, NULL, 10);
    out->size = nm * sz;
    // nominal capacities: never let memset run over unmapped memory (such a case is a generator bug).
    // Where the block would go is asked of the real malloc, whose effect on the public state is undone.
    int would = 0;
    if (!memf && out->size && !(sz && nm > SIZE_MAX / sz)) {
      const size_t t0 = b->top, l0 = b->last;
      void* const  probe = zix_malloc(a, out->size);
      b->top  = t0;
      b->last = l0;
      would = probe && !inside(rlo, rhi, (uintptr_t)probe, out->size);
    }
    if (would) {
      out->unmapped = 1;
    } else {
      out->is_alloc = 2;
      out->res = zix_calloc(a, nm, sz);
    }
  } else if (k == 'A' && arg2) {
    const size_t al = strtoull(arg, NULL, 10);
    out->size = strtoull(arg2, NULL, 10);
    out->is_alloc = 1;
    out->res = zix_aligned_alloc(a, al, out->size);
  } else if (k == 'R' && arg2) {
    out->size = strtoull(arg2, NULL, 10);
    out->res = zix_realloc(a, parg, out->size);
    if (out->res && pid >= 0) {
      blk[pid].p = (char*)out->res;
      blk[pid].n = out->size;
    }
  } else if (k == 'F' && !arg2) {
    out->is_void = 1;
    zix_free(a, parg);
    if (pid >= 0) {
      blk[pid].live = 0;
    }
  } else if (k == 'E' && !arg2) {
    out->is_void = 1;
    zix_aligned_free(a, parg);
    if (pid >= 0) {
      blk[pid].live = 0;
    }
  } else {
    out->bad = 1;
  }
  in_case = 0;
}

int main(void)
{
  char*  line = NULL;
  size_t cap  = 0;
  char** tok  = (char**)malloc(sizeof(char*) * (MAXOPS + 8));
  unsigned char* snap = (unsigned char*)malloc(REGION);
  char* obs = NULL;
  char* str = NULL;

  setvbuf(stdout, NULL, _IOLBF, 0); // a sanitizer stop must not lose the lines already produced
  void* region = mmap((void*)BASE, REGION, PROT_READ | PROT_WRITE,
                      MAP_PRIVATE | MAP_ANONYMOUS | MAP_FIXED_NOREPLACE | MAP_NORESERVE, -1, 0);
  if (region != (void*)BASE) {
    fprintf(stderr, "cannot map the arena at the fixed address\n");
    return 96;
  }

  while (vgetline(&line, &cap)) {
    const int n = vsplit(line, tok, MAXOPS + 8);
    if (n < 3 || n - 3 > MAXOPS) {
      puts("?");
      continue;
    }
    const uintptr_t A    = strtoull(tok[0], NULL, 10);
    const size_t    C    = strtoull(tok[1], NULL, 10);
    const int       memf = tok[2][0] == '1';
    if ((tok[2][0] != '0' && tok[2][0] != '1') || (tok[2][1] && strcmp(tok[2] + 1, "n"))) {
      puts("bad-case");
      continue;
    }
#ifndef NDEBUG
    if (tok[2][1] == 'n') {
      puts("needs-the-NDEBUG-build");
      continue;
    }
#endif
    const uintptr_t rlo = BASE, rhi = BASE + REGION;
    if (A < rlo + 4096 || A >= rhi - 4096 || (memf && (C > rhi - 4096 - A)) || C > (size_t)PTRDIFF_MAX) {
      puts("bad-case");
      continue;
    }
    const uintptr_t wlo = A - MARGIN;                  // window (mem=1)
    const size_t    wn  = memf ? C + 2 * MARGIN : 0;
    if (memf) {
      memset((void*)wlo, 0xA5, wn);
    }
    memset(blk, 0, sizeof(Blk) * (size_t)(n - 3 + 1));

    size_t obs_cap = (size_t)(n + 2) * 48, str_cap = (size_t)(n + 2) * 96;
    obs = (char*)realloc(obs, obs_cap);
    str = (char*)realloc(str, str_cap);
    size_t ol = 0, sl = 0;

    ZixBumpAllocator b = zix_bump_allocator(C, (void*)A);
    sl += (size_t)snprintf(str + sl, str_cap - sl, "i%zu,%zu", b.top, b.last);

    for (int i = 3; i < n; ++i) {
      const long  id  = i - 3;
      char*       t   = tok[i];
      const char  k   = t[0];
      char*       arg = t + 1;
      char*       comma = strchr(arg, ',');
      char*       arg2  = NULL;
      if (comma) {
        *comma = 0;
        arg2   = comma + 1;
      }
      Out  out;
      long pid  = -1;
      void* parg = NULL;
      memset(&out, 0, sizeof out);

      if (k == 'R' || k == 'F' || k == 'E') {
        if (!parse_ptr(arg, &pid) || pid >= MAXOPS) {
          out.bad = 1;
        } else if (pid >= 0) {
          if (!blk[pid].live) {
            out.skip = 1;
          } else {
            parg = blk[pid].p;
          }
        }
      }
      if (memf) {
        memcpy(snap, (void*)wlo, wn);
      }
      if (!out.bad && !out.skip) {
        call_op(&b, memf, k, arg, arg2, parg, pid, &out);
      }
      void* const  res      = out.res;
      const int    is_alloc = out.is_alloc, is_void = out.is_void, skip = out.skip, aborted = out.aborted,
                   bad = out.bad, unmapped = out.unmapped;
      const size_t size     = out.size;

      // ---- observations
      char ms[64] = "-";
      if (memf && !bad && !skip) {
        const unsigned char* now = (const unsigned char*)wlo;
        long first = -1, lastp = -1, cnt = 0;
        for (size_t j = 0; j < wn; ++j) {
          if (now[j] != snap[j]) {
            if (first < 0) {
              first = (long)j;
            }
            lastp = (long)j;
            ++cnt;
          }
        }
        if (cnt && cnt == lastp - first + 1) {
          snprintf(ms, sizeof ms, "%ld+%ld", first - MARGIN, cnt);
        } else if (cnt) {
          snprintf(ms, sizeof ms, "x%ld:%ld:%ld", first - MARGIN, lastp - MARGIN, cnt);
        }
      }
      if (bad) {
        ol += (size_t)snprintf(obs + ol, obs_cap - ol, "%sbad-op", ol ? " " : "");
        break;
      }
      if (unmapped) {
        ol += (size_t)snprintf(obs + ol, obs_cap - ol, "%sUNMAPPED", ol ? " " : "");
        break;
      }
      if (aborted) {
        ol += (size_t)snprintf(obs + ol, obs_cap - ol, "%sABORT", ol ? " " : "");
        sl += (size_t)snprintf(str + sl, str_cap - sl, " %zu,%zu,%s", b.top, b.last, ms);
        break;
      }
      if (skip) {
        ol += (size_t)snprintf(obs + ol, obs_cap - ol, "%sskip", ol ? " " : "");
      } else if (is_void) {
        ol += (size_t)snprintf(obs + ol, obs_cap - ol, "%svoid", ol ? " " : "");
      } else if (!res) {
        ol += (size_t)snprintf(obs + ol, obs_cap - ol, "%sNULL", ol ? " " : "");
      } else {
        const uintptr_t off = (uintptr_t)res - A;
        ol += (size_t)snprintf(obs + ol, obs_cap - ol, "%sp%llu", ol ? " " : "", (unsigned long long)off);
        if (is_alloc) {
          // only touch the block if it really is inside what we own (a wrong pointer is reported by the spec)
          const int safe = memf ? inside(A, A + C, (uintptr_t)res, size) : inside(rlo, rhi, (uintptr_t)res, size);
          if (is_alloc == 2) {
            int zero = 1;
            if (safe) {
              for (size_t j = 0; j < size; ++j) {
                zero &= ((unsigned char*)res)[j] == 0;
              }
            }
            ol += (size_t)snprintf(obs + ol, obs_cap - ol, "z%d", zero);
          }
          if (memf && safe) {
            memset(res, (int)(1 + id % 250), size);
          }
          blk[id].live = 1;
          blk[id].p    = (char*)res;
          blk[id].n    = size;
        }
      }
      sl += (size_t)snprintf(str + sl, str_cap - sl, " %zu,%zu,%s", b.top, b.last, ms);
    }
    fputs(obs && ol ? obs : "", stdout);
    fputs(" || ", stdout);
    fputs(str, stdout);
    fputc('\n', stdout);
  }
  free(line);
  free(tok);
  free(snap);
  free(obs);
  free(str);
  munmap(region, REGION);
  return 0;
}
