// C16 implementation driver: zix_expand_environment_strings on a generated `environ`.
// case:  <env> <alloc> <input>      (see ocaml/drv_c16.ml for the format)
// Every call runs in a worker process with a 2 s alarm; a worker that dies is reported for the
// case it was running (out=HANG for SIGALRM, out=CRASH otherwise) and a new worker carries on.
// Memory: the tracking allocator refuses to go beyond 256 MiB; without sanitizers the worker
// also gets a 256 MiB RLIMIT_AS (ASan needs terabytes of address space, so there the limit is
// ASAN_OPTIONS=max_allocation_size_mb, set by the plug-in).
#include "vcommon.h"

#include <zix/allocator.h>
#include <zix/environment.h>

#include <signal.h>
#include <stdbool.h>
#include <sys/mman.h>
#include <sys/resource.h>
#include <sys/wait.h>
#include <unistd.h>

extern char** environ;

#define MEM_CAP ((size_t)256U << 20U)
#define MAX_LIVE 64
#define MAX_HANGS 5
#define MAX_CRASHES 25

// ---------------------------------------------------------------- tracking allocator
typedef struct {
  ZixAllocator base;
  const char*  script; // T/F answers, then all succeed
  size_t       pos;
  void*        ptr[MAX_LIVE];
  size_t       size[MAX_LIVE];
  long         id[MAX_LIVE];
  int          n_live;
  long         next_id;
  size_t       bytes;
  char*        log;
  size_t       log_len, log_cap;
} Tracker;

static int tfind(Tracker* t, void* p)
{
  for (int i = 0; i < t->n_live; ++i) {
    if (t->ptr[i] == p) {
      return i;
    }
  }
  return -1;
}

static bool tanswer(Tracker* t, size_t extra)
{
  bool ok = true;
  if (t->script[t->pos]) {
    ok = t->script[t->pos++] != 'F';
  }
  return ok && t->bytes + extra <= MEM_CAP && t->n_live < MAX_LIVE;
}

static void idtxt(char* buf, long id)
{
  if (id < 0) {
    strcpy(buf, "-");
  } else {
    sprintf(buf, "%ld", id);
  }
}

static void tdrop(Tracker* t, int i)
{
  t->bytes -= t->size[i];
  --t->n_live;
  t->ptr[i]  = t->ptr[t->n_live];
  t->size[i] = t->size[t->n_live];
  t->id[i]   = t->id[t->n_live];
}

static void* tadd(Tracker* t, void* p, size_t size)
{
  t->ptr[t->n_live]  = p;
  t->size[t->n_live] = size;
  t->id[t->n_live]   = t->next_id++;
  t->bytes += size;
  ++t->n_live;
  return p;
}

static void tevent(Tracker* t, char kind, long old, size_t size, long new_id)
{
  char a[24], c[24], tmp[96];
  idtxt(a, old);
  idtxt(c, new_id);
  if (kind == 'F') {
    snprintf(tmp, sizeof(tmp), "F%s", a);
  } else {
    snprintf(tmp, sizeof(tmp), "%c%s:%zu:%s", kind, a, size, c);
  }
  size_t n    = strlen(tmp);
  size_t need = t->log_len + n + 2;
  if (need > t->log_cap) {
    t->log_cap = need * 2;
    t->log     = (char*)realloc(t->log, t->log_cap);
  }
  if (t->log_len) {
    t->log[t->log_len++] = ',';
  }
  memcpy(t->log + t->log_len, tmp, n + 1);
  t->log_len += n;
}

static void* t_realloc(ZixAllocator* a, void* ptr, size_t size)
{
  Tracker* t   = (Tracker*)a;
  int      i   = ptr ? tfind(t, ptr) : -1;
  long     old = i >= 0 ? t->id[i] : (ptr ? -2 : -1);
  if (!tanswer(t, size)) {
    tevent(t, 'R', old, size, -1);
    return NULL;
  }
  void* p = realloc(ptr, size ? size : 1);
  if (!p) {
    tevent(t, 'R', old, size, -1);
    return NULL;
  }
  if (i >= 0) {
    tdrop(t, i);
  }
  tevent(t, 'R', old, size, t->next_id);
  return tadd(t, p, size);
}

static void* t_malloc(ZixAllocator* a, size_t size)
{
  Tracker* t = (Tracker*)a;
  if (!tanswer(t, size)) {
    tevent(t, 'M', -1, size, -1);
    return NULL;
  }
  void* p = malloc(size ? size : 1);
  tevent(t, 'M', -1, size, t->next_id);
  return tadd(t, p, size);
}

static void* t_calloc(ZixAllocator* a, size_t nmemb, size_t size)
{
  Tracker* t = (Tracker*)a;
  if (!tanswer(t, nmemb * size)) {
    tevent(t, 'C', -1, nmemb * size, -1);
    return NULL;
  }
  void* p = calloc(nmemb ? nmemb : 1, size ? size : 1);
  tevent(t, 'C', -1, nmemb * size, t->next_id);
  return tadd(t, p, nmemb * size);
}

static void t_free(ZixAllocator* a, void* ptr)
{
  Tracker* t = (Tracker*)a;
  int      i = ptr ? tfind(t, ptr) : -1;
  tevent(t, 'F', i >= 0 ? t->id[i] : (ptr ? -2 : -1), 0, 0);
  if (i >= 0) {
    tdrop(t, i);
  }
  free(ptr);
}

static void* t_aligned_alloc(ZixAllocator* a, size_t alignment, size_t size)
{
  Tracker* t = (Tracker*)a;
  void*    p = NULL;
  if (!tanswer(t, size) || posix_memalign(&p, alignment < sizeof(void*) ? sizeof(void*) : alignment, size ? size : 1)) {
    tevent(t, 'A', -1, size, -1);
    return NULL;
  }
  tevent(t, 'A', -1, size, t->next_id);
  return tadd(t, p, size);
}

static void t_aligned_free(ZixAllocator* a, void* ptr) { t_free(a, ptr); }

// ---------------------------------------------------------------- encoding
static size_t decode(const char* s, size_t n, char** out)
{
  char*  b = (char*)malloc(n + 1);
  size_t k = 0;
  for (size_t i = 0; i < n;) {
    if (s[i] == '%' && i + 2 < n && vhexval(s[i + 1]) >= 0 && vhexval(s[i + 2]) >= 0) {
      b[k++] = (char)(vhexval(s[i + 1]) * 16 + vhexval(s[i + 2]));
      i += 3;
    } else {
      b[k++] = s[i++];
    }
  }
  // exact-size block so that ASan sees any read past the terminator
  char* r = (char*)malloc(k + 1);
  memcpy(r, b, k);
  r[k] = 0;
  free(b);
  *out = r;
  return k;
}

static void putenc(FILE* f, const char* s)
{
  for (; *s; ++s) {
    unsigned char c = (unsigned char)*s;
    if (c > 32 && c < 127 && c != '%' && c != ',') {
      fputc(c, f);
    } else {
      fprintf(f, "%%%02X", c);
    }
  }
}

// ---------------------------------------------------------------- one case
static void run_case(char* line)
{
  char* tok[4];
  char* copy = strdup(line);
  int   n    = vsplit(copy, tok, 4);
  if (n != 3 || (strcmp(tok[0], "n") && strncmp(tok[0], "e:", 2)) || (strcmp(tok[1], "d") && strncmp(tok[1], "a:", 2)) ||
      strncmp(tok[2], "s:", 2)) {
    puts("?");
    free(copy);
    return;
  }

  // environment
  char** env   = NULL;
  size_t n_env = 0;
  if (tok[0][0] == 'e') {
    const char* p = tok[0] + 2;
    size_t      cnt = 0;
    for (const char* q = p; *q; ++q) {
      cnt += (*q == ',');
    }
    env = (char**)malloc((cnt + 1) * sizeof(char*)); // exact size: ASan guards the NULL terminator
    while (*p) {
      const char* comma = strchr(p, ',');
      if (!comma) {
        break;
      }
      decode(p, (size_t)(comma - p), &env[n_env++]);
      p = comma + 1;
    }
    env[n_env] = NULL;
  }

  char* input = NULL;
  decode(tok[2] + 2, strlen(tok[2] + 2), &input);

  Tracker t;
  memset(&t, 0, sizeof(t));
  t.base.malloc        = t_malloc;
  t.base.calloc        = t_calloc;
  t.base.realloc       = t_realloc;
  t.base.free          = t_free;
  t.base.aligned_alloc = t_aligned_alloc;
  t.base.aligned_free  = t_aligned_free;
  const bool tracked   = tok[1][0] == 'a';
  t.script             = tracked ? tok[1] + 2 : "";

  char** const saved = environ;
  environ            = env;
  alarm(2);
  char* const out = zix_expand_environment_strings(tracked ? &t.base : NULL, input);
  alarm(0);
  environ = saved;

  if (out) {
    fputs("out=s:", stdout);
    putenc(stdout, out);
  } else {
    fputs("out=NULL", stdout);
  }
  if (tracked) {
    // structural part: the allocator log; the returned block must be the one live block and hold
    // strlen+1 bytes, after NULL nothing may be live
    printf(" || log=%s", t.log ? t.log : "");
    if (out) {
      int i = tfind(&t, out);
      if (i < 0 || t.size[i] != strlen(out) + 1 || t.n_live != 1) {
        fputs(" BAD-BLOCK", stdout);
      }
    } else if (t.n_live) {
      fputs(" LEAK", stdout);
    }
  }
  fputc('\n', stdout);

  if (tracked) {
    if (out) {
      t_free(&t.base, out);
    }
    for (int i = 0; i < t.n_live; ++i) {
      free(t.ptr[i]);
    }
    free(t.log);
  } else {
    free(out);
  }
  free(input);
  for (size_t i = 0; i < n_env; ++i) {
    free(env[i]);
  }
  free(env);
  free(copy);
}

int main(void)
{
  // read all cases
  char** lines = NULL;
  size_t n = 0, cap_lines = 0;
  char*  line = NULL;
  size_t cap  = 0;
  while (vgetline(&line, &cap)) {
    if (n == cap_lines) {
      cap_lines = cap_lines ? cap_lines * 2 : 1024;
      lines     = (char**)realloc(lines, cap_lines * sizeof(char*));
    }
    lines[n++] = strdup(line);
  }
  free(line);

  volatile size_t* done = (volatile size_t*)mmap(NULL, sizeof(size_t), PROT_READ | PROT_WRITE, MAP_SHARED | MAP_ANONYMOUS, -1, 0);
  *done = 0;
  int hangs = 0;
  int crashes = 0;
  while (*done < n) {
    if (hangs >= MAX_HANGS || crashes >= MAX_CRASHES) {
      // a non-terminating or crashing build: do not spend 2 s (or a new worker) on every remaining case
      puts(hangs >= MAX_HANGS ? "out=SKIPPED-after-hangs" : "out=SKIPPED-after-crashes");
      ++*done;
      continue;
    }
    fflush(stdout);
    pid_t pid = fork();
    if (pid < 0) {
      perror("fork");
      return 2;
    }
    if (!pid) {
#if !defined(__SANITIZE_ADDRESS__)
      struct rlimit rl = {MEM_CAP, MEM_CAP};
      setrlimit(RLIMIT_AS, &rl);
#endif
      while (*done < n) {
        run_case(lines[*done]);
        fflush(stdout);
        ++*done;
      }
      exit(0); // not _exit: LeakSanitizer runs at exit
    }
    int status = 0;
    waitpid(pid, &status, 0);
    const bool clean = WIFEXITED(status) && WEXITSTATUS(status) == 0;
    if (*done >= n && !clean) {
      fflush(stdout);
      fprintf(stderr, "worker failed after its last case (leak or sanitizer report at exit)\n");
      return 3;
    }
    if (*done < n && !clean) {
      // the worker died inside case *done
      if (WIFSIGNALED(status) && WTERMSIG(status) == SIGALRM) {
        puts("out=HANG");
        ++hangs;
      } else if (WIFSIGNALED(status)) {
        printf("out=CRASH signal=%d\n", WTERMSIG(status));
        ++crashes;
      } else {
        printf("out=CRASH exit=%d\n", WEXITSTATUS(status));
        ++crashes;
      }
      ++*done;
    }
  }
  for (size_t i = 0; i < n; ++i) {
    free(lines[i]);
  }
  free(lines);
  return 0;
}
