// C17 implementation driver: zix_sem_* from /repo/src/posix/sem_posix.c
//
// Linked with -Wl,--wrap=clock_gettime,--wrap=sem_timedwait,--wrap=sem_wait,--wrap=sem_trywait and
// --wrap=sem_getvalue,--wrap=sem_post,--wrap=sem_init,--wrap=sem_destroy (calls the model does not prescribe:
// recorded as unexpected when made inside a scripted zix wait).
// Scripted cases (E/W/Y/D): the wrappers feed a script of results and a chosen "now", and capture the
// timespec given to sem_timedwait.  Real-kernel cases (I/K/R): the wrappers pass through and only count
// EINTR results per worker thread.
//
//   E <errno>                                   zix_errno_status
//   W <script> | Y <script>                     zix_sem_wait / zix_sem_try_wait over scripted results
//   D <clk> <now_sec> <now_nsec> <s> <ns> <script> [<count>]   zix_sem_timed_wait with scripted clock + results on
//                                               a semaphore whose real count is <count> (default 0)
//   N <errno|0> <count>                         zix_sem_post with an injected sem_post result
//   V <v> <n>                                   real: value v, n posts, then try_wait until refused
//   Z <ms> <every_ms>                           real: timed wait interrupted by a signal every every_ms
//   a line may start with @<n>: errno is set to n before every library call under test
//   Q <ms>                                      real: count 1; a timed waiter is parked just before its first clock /
//                                               blocking call while a competitor takes the unit; it must time out
//   I <init> <progs> <sched>                    lock-step run of real threads on a real semaphore
//   K <init> <posters> <posts> <waiters> <waits> <tryers> <tries>   free-running contention smoke run
//   R <s> <ns> <post_after_ms|->                real timed wait measured with CLOCK_MONOTONIC
//  script: comma separated, 0 = success, n = -1 with errno n, "-" = empty
#ifndef _GNU_SOURCE
#  define _GNU_SOURCE
#endif
#include "vcommon.h"

#include "errno_status.h"
#include <zix/sem.h>
#include <zix/status.h>

#include <errno.h>
#include <pthread.h>
#include <semaphore.h>
#include <signal.h>
#include <stdatomic.h>
#include <sys/syscall.h>
#include <time.h>
#include <unistd.h>

_Static_assert(EPERM == 1 && ENOENT == 2 && ESRCH == 3 && EINTR == 4 && EBADF == 9 && EAGAIN == 11 &&
                 EWOULDBLOCK == 11 && ENOMEM == 12 && EACCES == 13 && EEXIST == 17 && EINVAL == 22 &&
                 ENOSPC == 28 && EMLINK == 31 && EDEADLK == 35 && ENOLCK == 37 && ENOSYS == 38 &&
                 EOVERFLOW == 75 && ENOTSUP == 95 && ETIMEDOUT == 110,
               "errno values differ from coq/SemErrnoModel.v");
_Static_assert(sizeof(time_t) == 8 && sizeof(long) == 8 && sizeof(((struct timespec*)0)->tv_nsec) == 8,
               "time_t / long are modelled as 64-bit signed");

static const char* status_name(ZixStatus st)
{
  static const char* const names[] = {"SUCCESS", "ERROR", "NO_MEM", "NOT_FOUND", "EXISTS", "BAD_ARG",
                                      "BAD_PERMS", "REACHED_END", "TIMEOUT", "OVERFLOW", "NOT_SUPPORTED",
                                      "UNAVAILABLE", "NO_SPACE", "MAX_LINKS"};
  return ((unsigned)st < 14U) ? names[st] : "INVALID";
}

// ------------------------------------------------------------------ wrappers
int __real_clock_gettime(clockid_t, struct timespec*);
int __real_sem_wait(sem_t*);
int __real_sem_trywait(sem_t*);
int __real_sem_timedwait(sem_t*, const struct timespec*);
int __real_sem_getvalue(sem_t*, int*);
int __real_sem_post(sem_t*);
int __real_sem_init(sem_t*, int, unsigned);
int __real_sem_destroy(sem_t*);

typedef struct {
  pthread_t       th;
  int             idx;
  pid_t           tid;
  pthread_mutex_t mu;
  pthread_cond_t  cv_cmd;
  pthread_cond_t  cv_done;
  int             cmd_seq;
  int             done_seq;
  int             quit;
  char            op;
  ZixStatus       st;
  int             retries; // EINTR count of the last completed op
  atomic_int      eintr;   // EINTR results seen by the wrappers in the current op
  atomic_int      sigs;    // signal handler invocations
  atomic_int      in_wait; // inside __real_sem_wait / __real_sem_timedwait
} Worker;

static __thread Worker* self;

static int             script_on;
static int             script[256];
static int             script_len, script_pos, script_exhausted, script_calls;
static int             clock_err, clock_calls, clock_id_seen;
static struct timespec clock_now;
static struct timespec ts_seen;
static int             ts_calls, ts_same;

static char unexpected[128]; // sem_* calls made inside a scripted wait that the model does not prescribe

static void note_unexpected(const char* name)
{
  if (script_on && strlen(unexpected) + strlen(name) + 2 < sizeof(unexpected)) {
    if (unexpected[0]) {
      strcat(unexpected, ",");
    }
    strcat(unexpected, name);
  }
}

int __wrap_sem_getvalue(sem_t* s, int* v)
{
  note_unexpected("getvalue");
  return __real_sem_getvalue(s, v);
}

static int post_expected, post_calls, post_result;

int __wrap_sem_post(sem_t* s)
{
  if (script_on && post_expected) { // N cases: the one call zix_sem_post prescribes, with an injected result
    ++post_calls;
    if (post_result) {
      errno = post_result;
      return -1;
    }
    return 0;
  }
  note_unexpected("post");
  return __real_sem_post(s);
}

int __wrap_sem_init(sem_t* s, int shared, unsigned value)
{
  note_unexpected("init");
  return __real_sem_init(s, shared, value);
}

int __wrap_sem_destroy(sem_t* s)
{
  note_unexpected("destroy");
  return __real_sem_destroy(s);
}

// Q cases: the thread that has `park_me` set stops at its first clock / blocking call until released
static __thread int park_me;
static atomic_int   parked, released;

static void park_point(void)
{
  if (park_me) {
    park_me = 0;
    atomic_store(&parked, 1);
    while (!atomic_load(&released)) {
      struct timespec d = {0, 100000};
      nanosleep(&d, NULL);
    }
  }
}

static int scripted(void)
{
  ++script_calls;
  if (script_pos >= script_len) {
    script_exhausted = 1; // the loop would go on: stop it with an error nobody maps
    errno            = EIO;
    return -1;
  }
  const int e = script[script_pos++];
  if (!e) {
    return 0;
  }
  errno = e;
  return -1;
}

static int note(int r)
{
  if (r && errno == EINTR && self) {
    atomic_fetch_add(&self->eintr, 1);
  }
  return r;
}

int __wrap_clock_gettime(clockid_t id, struct timespec* ts)
{
  if (script_on) {
    ++clock_calls;
    clock_id_seen = (int)id;
    if (clock_err) {
      errno = clock_err;
      return -1;
    }
    *ts = clock_now;
    ts->tv_sec += (time_t)(clock_calls - 1); // the clock moves on: one second per reading
    return 0;
  }
  park_point();
  return __real_clock_gettime(id, ts);
}

int __wrap_sem_wait(sem_t* s)
{
  if (script_on) {
    return scripted();
  }
  park_point();
  if (self) {
    atomic_store(&self->in_wait, 1);
  }
  int r = __real_sem_wait(s);
  int e = errno;
  if (self) {
    atomic_store(&self->in_wait, 0);
  }
  errno = e;
  return note(r);
}

int __wrap_sem_trywait(sem_t* s)
{
  if (script_on) {
    return scripted();
  }
  return note(__real_sem_trywait(s));
}

int __wrap_sem_timedwait(sem_t* s, const struct timespec* ts)
{
  if (script_on) {
    if (!ts_calls) {
      ts_seen = *ts;
      ts_same = 1;
    } else if (ts->tv_sec != ts_seen.tv_sec || ts->tv_nsec != ts_seen.tv_nsec) {
      ts_same = 0;
    }
    ++ts_calls;
    return scripted();
  }
  park_point();
  if (self) {
    atomic_store(&self->in_wait, 1);
  }
  int r = __real_sem_timedwait(s, ts);
  int e = errno;
  if (self) {
    atomic_store(&self->in_wait, 0);
  }
  errno = e;
  return note(r);
}

static void parse_script(const char* s)
{
  script_len = script_pos = script_exhausted = script_calls = 0;
  ts_calls = 0;
  ts_same  = 1;
  clock_calls = 0;
  clock_id_seen = -1;
  unexpected[0] = 0;
  if (!strcmp(s, "-")) {
    return;
  }
  char* copy = strdup(s);
  char* save = NULL;
  for (char* t = strtok_r(copy, ",", &save); t && script_len < 256; t = strtok_r(NULL, ",", &save)) {
    script[script_len++] = atoi(t);
  }
  free(copy);
}

static void msleep_real(long us)
{
  struct timespec d = {us / 1000000, (us % 1000000) * 1000};
  nanosleep(&d, NULL);
}

static double mono_now(void)
{
  struct timespec t;
  __real_clock_gettime(CLOCK_MONOTONIC, &t);
  return (double)t.tv_sec + (double)t.tv_nsec / 1e9;
}

// ------------------------------------------------------------------ errno at entry
// A case line may start with "@<n>": errno is set to n immediately before every library call under test (the
// result must not depend on what an earlier, unrelated call left in errno).
static int entry_errno;

static ZixStatus e_sem_wait(ZixSem* s) { errno = entry_errno; return zix_sem_wait(s); }
static ZixStatus e_sem_try_wait(ZixSem* s) { errno = entry_errno; return zix_sem_try_wait(s); }
static ZixStatus e_sem_post(ZixSem* s) { errno = entry_errno; return zix_sem_post(s); }
static ZixStatus e_sem_timed_wait(ZixSem* s, uint32_t sec, uint32_t ns)
{
  errno = entry_errno;
  return zix_sem_timed_wait(s, sec, ns);
}

// ------------------------------------------------------------------ scripted cases
static void case_loop(char kind, const char* scr)
{
  ZixSem sem;
  zix_sem_init(&sem, 0);
  parse_script(scr);
  script_on         = 1;
  const ZixStatus st = (kind == 'W') ? e_sem_wait(&sem) : e_sem_try_wait(&sem);
  script_on         = 0;
  if (script_exhausted) {
    printf("blocked || calls=%d unexp=%s\n", script_calls - 1, unexpected[0] ? unexpected : "-");
  } else {
    printf("st=%s || calls=%d unexp=%s\n", status_name(st), script_calls, unexpected[0] ? unexpected : "-");
  }
  zix_sem_destroy(&sem);
}

static void case_deadline(char** tok, int n)
{
  ZixSem sem;
  zix_sem_init(&sem, n >= 8 ? (unsigned)strtoul(tok[7], NULL, 10) : 0U);
  clock_err         = atoi(tok[1]);
  clock_now.tv_sec  = (time_t)strtoll(tok[2], NULL, 10);
  clock_now.tv_nsec = (long)strtoll(tok[3], NULL, 10);
  const uint32_t s  = (uint32_t)strtoul(tok[4], NULL, 10);
  const uint32_t ns = (uint32_t)strtoul(tok[5], NULL, 10);
  parse_script(tok[6]);
  script_on          = 1;
  const ZixStatus st = e_sem_timed_wait(&sem, s, ns);
  script_on          = 0;
  if (script_exhausted) {
    fputs("blocked", stdout);
  } else {
    printf("st=%s", status_name(st));
  }
  if (ts_calls) {
    // dl = what the FIRST sem_timedwait call got; same = every later call of this wait got that very deadline
    printf(" dl=%lld.%lld same=%d", (long long)ts_seen.tv_sec, (long long)ts_seen.tv_nsec, ts_same);
  } else {
    fputs(" dl=- same=-", stdout);
  }
  printf(" || calls=%d clk=%d/%d unexp=%s\n", script_exhausted ? script_calls - 1 : script_calls, clock_calls,
         clock_id_seen, unexpected[0] ? unexpected : "-");
  zix_sem_destroy(&sem);
}

// ------------------------------------------------------------------ real threads
static ZixSem g_sem;

static void on_sigusr1(int sig)
{
  (void)sig;
  if (self) {
    atomic_fetch_add(&self->sigs, 1);
  }
}

static void install_handler(void)
{
  struct sigaction sa;
  memset(&sa, 0, sizeof(sa));
  sa.sa_handler = on_sigusr1; // no SA_RESTART: sleeping sem_wait returns EINTR
  sigemptyset(&sa.sa_mask);
  sigaction(SIGUSR1, &sa, NULL);
}

static ZixStatus do_op(char op)
{
  switch (op) {
  case 'P': return e_sem_post(&g_sem);
  case 'W': return e_sem_wait(&g_sem);
  case 'Y': return e_sem_try_wait(&g_sem);
  case 'T': return e_sem_timed_wait(&g_sem, 20U, 0U);
  case 't': return e_sem_timed_wait(&g_sem, 0U, 30000000U);
  default: return ZIX_STATUS_BAD_ARG;
  }
}

static void* worker_main(void* arg)
{
  Worker* w = (Worker*)arg;
  self      = w;
  pthread_mutex_lock(&w->mu);
  w->tid = (pid_t)syscall(SYS_gettid);
  pthread_cond_signal(&w->cv_done);
  int handled = 0;
  for (;;) {
    while (w->cmd_seq == handled && !w->quit) {
      pthread_cond_wait(&w->cv_cmd, &w->mu);
    }
    if (w->cmd_seq == handled && w->quit) {
      break;
    }
    handled       = w->cmd_seq;
    const char op = w->op;
    pthread_mutex_unlock(&w->mu);
    atomic_store(&w->eintr, 0);
    const ZixStatus st = do_op(op);
    pthread_mutex_lock(&w->mu);
    w->st       = st;
    w->retries  = atomic_load(&w->eintr);
    w->done_seq = handled;
    pthread_cond_signal(&w->cv_done);
  }
  pthread_mutex_unlock(&w->mu);
  return NULL;
}

static char thread_state(pid_t tid)
{
  char path[64];
  snprintf(path, sizeof(path), "/proc/self/task/%d/stat", (int)tid);
  FILE* f = fopen(path, "r");
  if (!f) {
    return '?';
  }
  char buf[256];
  size_t n = fread(buf, 1, sizeof(buf) - 1, f);
  fclose(f);
  buf[n]  = 0;
  char* p = strrchr(buf, ')');
  return (p && p[1] == ' ') ? p[2] : '?';
}

static int is_done(Worker* w)
{
  pthread_mutex_lock(&w->mu);
  const int d = (w->done_seq == w->cmd_seq);
  pthread_mutex_unlock(&w->mu);
  return d;
}

static int asleep_in_sem(Worker* w)
{
  return atomic_load(&w->in_wait) && thread_state(w->tid) == 'S';
}

// returns 1 = completed, 0 = confirmed asleep inside the semaphore wait, -1 = watchdog
static int settle(Worker* w, int wait_for_done_only)
{
  const double t0   = mono_now();
  int          seen = 0;
  for (;;) {
    if (is_done(w)) {
      return 1;
    }
    if (!wait_for_done_only) {
      if (asleep_in_sem(w)) {
        if (++seen >= 3) {
          return is_done(w) ? 1 : 0;
        }
      } else {
        seen = 0;
      }
    }
    if (mono_now() - t0 > 8.0) {
      return -1;
    }
    msleep_real(150);
  }
}

static void command(Worker* w, char op)
{
  pthread_mutex_lock(&w->mu);
  w->op = op;
  ++w->cmd_seq;
  pthread_cond_signal(&w->cv_cmd);
  pthread_mutex_unlock(&w->mu);
}

#define MAXW 8

static void case_lockstep(char** tok)
{
  const unsigned init = (unsigned)strtoul(tok[1], NULL, 10);
  Worker         w[MAXW];
  char*          prog[MAXW];
  size_t         pc[MAXW];
  int            busy[MAXW];
  char           retr[MAXW][256];
  int            n = 0;
  char*          save = NULL;
  char*          progs = strdup(tok[2]);
  for (char* p = strtok_r(progs, "/", &save); p && n < MAXW; p = strtok_r(NULL, "/", &save)) {
    prog[n] = p;
    ++n;
  }
  zix_sem_init(&g_sem, init);
  install_handler();
  for (int i = 0; i < n; ++i) {
    memset(&w[i], 0, sizeof(Worker));
    w[i].idx = i;
    pc[i] = 0;
    busy[i] = 0;
    retr[i][0] = 0;
    if (!strcmp(prog[i], "-")) {
      prog[i] = (char*)"";
    }
    pthread_mutex_init(&w[i].mu, NULL);
    pthread_cond_init(&w[i].cv_cmd, NULL);
    pthread_cond_init(&w[i].cv_done, NULL);
    pthread_mutex_lock(&w[i].mu);
    pthread_create(&w[i].th, NULL, worker_main, &w[i]);
    while (!w[i].tid) {
      pthread_cond_wait(&w[i].cv_done, &w[i].mu);
    }
    pthread_mutex_unlock(&w[i].mu);
  }
  int   hung  = 0;
  char* sched = strdup(tok[3]);
  save        = NULL;
  int first   = 1;
  for (char* c = strtok_r(sched, ",", &save); c && !hung; c = strtok_r(NULL, ",", &save)) {
    const char kind = c[0];
    const int  i    = atoi(c + 1);
    if (!first) {
      fputc(' ', stdout);
    }
    first = 0;
    if (i < 0 || i >= n || !strcmp(c, "-")) {
      printf("%d:?", i);
      continue;
    }
    if (kind == 's') {
      const int before = atomic_load(&w[i].sigs);
      if (busy[i]) {
        // deliver until exactly one sleeping call has returned EINTR
        const int e0 = atomic_load(&w[i].eintr);
        int       tries = 0;
        while (atomic_load(&w[i].eintr) == e0 && tries < 200 && !is_done(&w[i])) {
          const int s0 = atomic_load(&w[i].sigs);
          pthread_kill(w[i].th, SIGUSR1);
          const double t0 = mono_now();
          while (atomic_load(&w[i].sigs) == s0 && mono_now() - t0 < 2.0) {
            msleep_real(50);
          }
          const double t1 = mono_now();
          while (atomic_load(&w[i].eintr) == e0 && mono_now() - t1 < 0.01 && !is_done(&w[i])) {
            msleep_real(50);
          }
          ++tries;
        }
        if (!is_done(&w[i])) {
          settle(&w[i], 0); // back asleep in the retried call
        }
      } else {
        pthread_kill(w[i].th, SIGUSR1);
        const double t0 = mono_now();
        while (atomic_load(&w[i].sigs) == before && mono_now() - t0 < 2.0) {
          msleep_real(50);
        }
      }
      printf("%d:sig", i);
      continue;
    }
    // r / x
    char op = 0;
    if (!busy[i]) {
      op = prog[i][pc[i]];
      if (!op) {
        printf("%d:-", i);
        continue;
      }
      command(&w[i], op);
      busy[i] = 1;
    } else {
      op = prog[i][pc[i]];
    }
    const int r = settle(&w[i], kind == 'x');
    const char shown = (op == 't') ? 'T' : op;
    if (r == 1) {
      pthread_mutex_lock(&w[i].mu);
      printf("%d:%c=%s", i, shown, status_name(w[i].st));
      snprintf(retr[i] + strlen(retr[i]), sizeof(retr[i]) - strlen(retr[i]), "%s%d", retr[i][0] ? "." : "",
               w[i].retries);
      pthread_mutex_unlock(&w[i].mu);
      busy[i] = 0;
      ++pc[i];
    } else if (r == 0) {
      printf("%d:%c=sleep", i, shown);
    } else {
      printf("%d:%c=hung", i, shown);
      hung = 1;
    }
  }
  int value = -1;
  sem_getvalue(&g_sem.sem, &value);
  printf(" count=%d || retries=", value);
  for (int i = 0; i < n; ++i) {
    printf("%s%s", i ? "/" : "", retr[i][0] ? retr[i] : "-");
  }
  fputc('\n', stdout);
  // release anybody still asleep, stop the workers
  for (int i = 0; i < n; ++i) {
    int guard = 0;
    while (busy[i] && !is_done(&w[i]) && guard++ < 1000) {
      e_sem_post(&g_sem);
      msleep_real(200);
    }
    pthread_mutex_lock(&w[i].mu);
    w[i].quit = 1;
    pthread_cond_signal(&w[i].cv_cmd);
    pthread_mutex_unlock(&w[i].mu);
    pthread_join(w[i].th, NULL);
    pthread_mutex_destroy(&w[i].mu);
    pthread_cond_destroy(&w[i].cv_cmd);
    pthread_cond_destroy(&w[i].cv_done);
  }
  zix_sem_destroy(&g_sem);
  free(progs);
  free(sched);
}

// ------------------------------------------------------------------ free-running smoke run
typedef struct {
  char       role; // 'p' poster, 'w' waiter, 'z' timed waiter, 'y' tryer
  int        count;
  int        succ;
  int        errs;
  Worker     me;
  pthread_t  th;
  atomic_int finished;
} Smoke;

static atomic_long g_shadow;
static atomic_int  g_neg;

static void took_one(void)
{
  if (atomic_fetch_sub(&g_shadow, 1) - 1 < 0) {
    atomic_store(&g_neg, 1);
  }
}

static void* smoke_main(void* arg)
{
  Smoke* s = (Smoke*)arg;
  self     = &s->me;
  for (int k = 0; k < s->count; ++k) {
    ZixStatus st = ZIX_STATUS_SUCCESS;
    switch (s->role) {
    case 'p':
      atomic_fetch_add(&g_shadow, 1); // before the post
      st = e_sem_post(&g_sem);
      s->errs += (st != ZIX_STATUS_SUCCESS);
      break;
    case 'w':
    case 'z':
      st = (s->role == 'w') ? e_sem_wait(&g_sem) : e_sem_timed_wait(&g_sem, 30U, 3000000000U);
      if (st == ZIX_STATUS_SUCCESS) {
        took_one(); // after the successful wait
        ++s->succ;
      } else {
        ++s->errs;
      }
      break;
    default:
      st = e_sem_try_wait(&g_sem);
      if (st == ZIX_STATUS_SUCCESS) {
        took_one();
        atomic_fetch_add(&g_shadow, 1);
        s->errs += (e_sem_post(&g_sem) != ZIX_STATUS_SUCCESS); // hand the unit back
      } else if (st != ZIX_STATUS_UNAVAILABLE) {
        ++s->errs;
      }
    }
  }
  atomic_store(&s->finished, 1);
  return NULL;
}

static void case_smoke(char** tok)
{
  const unsigned init = (unsigned)strtoul(tok[1], NULL, 10);
  const int      np = atoi(tok[2]), posts = atoi(tok[3]), nw = atoi(tok[4]), waits = atoi(tok[5]);
  const int      ny = atoi(tok[6]), tries = atoi(tok[7]);
  const int      n  = np + nw + ny;
  Smoke*         s  = (Smoke*)calloc((size_t)n, sizeof(Smoke));
  zix_sem_init(&g_sem, init);
  install_handler();
  atomic_store(&g_shadow, (long)init);
  atomic_store(&g_neg, 0);
  for (int i = 0; i < n; ++i) {
    s[i].role  = (i < nw) ? ((i % 2) ? 'z' : 'w') : (i < nw + np) ? 'p' : 'y';
    s[i].count = (i < nw) ? waits : (i < nw + np) ? posts : tries;
  }
  alarm(60);
  for (int i = 0; i < n; ++i) {
    pthread_create(&s[i].th, NULL, smoke_main, &s[i]);
  }
  // signals arrive at the waiters for as long as they run
  for (int live = 1; live;) {
    live = 0;
    for (int i = 0; i < nw; ++i) {
      if (!atomic_load(&s[i].finished)) {
        live = 1;
        pthread_kill(s[i].th, SIGUSR1);
      }
    }
    msleep_real(100);
  }
  int succ = 0, errs = 0;
  for (int i = 0; i < n; ++i) {
    pthread_join(s[i].th, NULL);
    succ += s[i].succ;
    errs += s[i].errs;
  }
  alarm(0);
  int value = -1;
  sem_getvalue(&g_sem.sem, &value);
  printf("succ=%d left=%d neg=%d errs=%d\n", succ, value, atomic_load(&g_neg), errs);
  zix_sem_destroy(&g_sem);
  free(s);
}

// ------------------------------------------------------------------ real timeout
typedef struct {
  int delay_ms;
} Poster;

static void* poster_main(void* arg)
{
  msleep_real(1000L * ((Poster*)arg)->delay_ms);
  e_sem_post(&g_sem);
  return NULL;
}

static void case_real_timeout(char** tok)
{
  const uint32_t s  = (uint32_t)strtoul(tok[1], NULL, 10);
  const uint32_t ns = (uint32_t)strtoul(tok[2], NULL, 10);
  Poster         p  = {strcmp(tok[3], "-") ? atoi(tok[3]) : -1};
  pthread_t      th;
  zix_sem_init(&g_sem, 0);
  alarm(30);
  if (p.delay_ms >= 0) {
    pthread_create(&th, NULL, poster_main, &p);
  }
  const double    t0 = mono_now();
  const ZixStatus st = e_sem_timed_wait(&g_sem, s, ns);
  const double    dt = mono_now() - t0;
  if (p.delay_ms >= 0) {
    pthread_join(th, NULL);
  }
  alarm(0);
  const double want = (double)s + (double)ns / 1e9;
  // a time-out must not come before the requested time (0.1% + 0.2 ms allowed for clock skew between
  // CLOCK_REALTIME, which the deadline uses, and CLOCK_MONOTONIC, which measures)
  const int early = (st == ZIX_STATUS_TIMEOUT) && (dt < want * 0.999 - 0.0002);
  const int late  = dt > want + 5.0;
  printf("st=%s early=%d late=%d\n", status_name(st), early, late);
  zix_sem_destroy(&g_sem);
}

// ------------------------------------------------------------------ competitor takes the unit first
typedef struct {
  uint32_t   ns;
  ZixStatus  st;
  double     elapsed;
  atomic_int done;
} Parked;

static void* parked_waiter(void* arg)
{
  Parked* p = (Parked*)arg;
  park_me   = 1; // stop at the first clock / blocking call made on behalf of the timed wait
  const double t0 = mono_now();
  p->st      = e_sem_timed_wait(&g_sem, 0U, p->ns);
  p->elapsed = mono_now() - t0;
  park_me    = 0;
  atomic_store(&p->done, 1);
  return NULL;
}

static void case_parked(char** tok)
{
  const int ms = atoi(tok[1]);
  Parked    p;
  pthread_t th;
  memset(&p, 0, sizeof(p));
  p.ns = (uint32_t)ms * 1000000U;
  zix_sem_init(&g_sem, 1);
  atomic_store(&parked, 0);
  atomic_store(&released, 0);
  alarm(30);
  pthread_create(&th, NULL, parked_waiter, &p);
  const double t0 = mono_now();
  while (!atomic_load(&parked) && !atomic_load(&p.done) && mono_now() - t0 < 5.0) {
    msleep_real(100);
  }
  // the waiter has seen whatever it wanted to see; now the competitor takes the only unit
  const ZixStatus ts = e_sem_try_wait(&g_sem);
  const double    t1 = mono_now();
  atomic_store(&released, 1);
  // no unit is available at the moment of the blocking call: TIMEOUT is due ms after now (generous slack)
  const double limit = (double)ms / 1000.0 + 2.0;
  while (!atomic_load(&p.done) && mono_now() - t1 < limit) {
    msleep_real(500);
  }
  if (atomic_load(&p.done)) {
    printf("st=%s try=%s late=0\n", status_name(p.st), status_name(ts));
  } else {
    printf("st=HANG try=%s late=1\n", status_name(ts));
    e_sem_post(&g_sem); // let the thread go
  }
  pthread_join(th, NULL);
  alarm(0);
  atomic_store(&released, 0);
  zix_sem_destroy(&g_sem);
}

// ------------------------------------------------------------------ post
static void case_post_scripted(char** tok)
{
  ZixSem sem;
  zix_sem_init(&sem, (unsigned)strtoul(tok[2], NULL, 10));
  parse_script("-");
  post_result   = atoi(tok[1]);
  post_calls    = 0;
  post_expected = 1;
  script_on     = 1;
  const ZixStatus st = e_sem_post(&sem);
  script_on     = 0;
  post_expected = 0;
  printf("st=%s || posts=%d unexp=%s\n", status_name(st), post_calls, unexpected[0] ? unexpected : "-");
  zix_sem_destroy(&sem);
}

// initial value v, n posts, then try_wait until refused: nothing may be lost however far the producer is ahead
static void case_post_volume(char** tok)
{
  const unsigned v = (unsigned)strtoul(tok[1], NULL, 10);
  const long     n = atol(tok[2]);
  ZixSem         sem;
  zix_sem_init(&sem, v);
  long bad_posts = 0;
  for (long i = 0; i < n; ++i) {
    bad_posts += (e_sem_post(&sem) != ZIX_STATUS_SUCCESS);
  }
  long      taken = 0;
  ZixStatus st    = ZIX_STATUS_SUCCESS;
  while (taken <= (long)v + n + 8 && (st = e_sem_try_wait(&sem)) == ZIX_STATUS_SUCCESS) {
    ++taken;
  }
  printf("bad_posts=%ld taken=%ld then=%s\n", bad_posts, taken, status_name(st));
  zix_sem_destroy(&sem);
}

// ------------------------------------------------------------------ a timed wait that keeps being interrupted
static void* interrupted_waiter(void* arg)
{
  Parked* p       = (Parked*)arg;
  const double t0 = mono_now();
  p->st           = e_sem_timed_wait(&g_sem, 0U, p->ns);
  p->elapsed      = mono_now() - t0;
  atomic_store(&p->done, 1);
  return NULL;
}

static void case_interrupted_timeout(char** tok)
{
  const int ms = atoi(tok[1]), every_ms = atoi(tok[2]);
  Parked    p;
  pthread_t th;
  memset(&p, 0, sizeof(p));
  p.ns = (uint32_t)ms * 1000000U;
  zix_sem_init(&g_sem, 0);
  install_handler();
  alarm(30);
  pthread_create(&th, NULL, interrupted_waiter, &p);
  const double t0    = mono_now();
  const double limit = (double)ms / 1000.0 + 1.5; // the ORIGINAL deadline plus generous slack
  int          sent  = 0;
  while (!atomic_load(&p.done) && mono_now() - t0 < limit) {
    msleep_real(1000L * every_ms);
    if (!atomic_load(&p.done)) {
      pthread_kill(th, SIGUSR1);
      ++sent;
    }
  }
  const int late = !atomic_load(&p.done);
  if (late) {
    zix_sem_post(&g_sem); // stop interrupting; let it go
  }
  pthread_join(th, NULL);
  alarm(0);
  const double want  = (double)ms / 1000.0;
  const int    early = !late && p.st == ZIX_STATUS_TIMEOUT && p.elapsed < want * 0.999 - 0.0002;
  printf("st=%s early=%d late=%d\n", late ? "HANG" : status_name(p.st), early, late);
  (void)sent;
  zix_sem_destroy(&g_sem);
}

int main(void)
{
  char*  line = NULL;
  size_t cap  = 0;
  char*  tok[10];
  setvbuf(stdout, NULL, _IOLBF, 0);
  while (vgetline(&line, &cap)) {
    int n = vsplit(line, tok, 10);
    entry_errno = 0;
    if (n > 0 && tok[0][0] == '@') {
      entry_errno = atoi(tok[0] + 1);
      --n;
      memmove(tok, tok + 1, (size_t)n * sizeof(tok[0]));
    }
    if (n == 2 && !strcmp(tok[0], "E")) {
      printf("st=%s\n", status_name(zix_errno_status(atoi(tok[1]))));
    } else if (n == 2 && (!strcmp(tok[0], "W") || !strcmp(tok[0], "Y"))) {
      case_loop(tok[0][0], tok[1]);
    } else if ((n == 7 || n == 8) && !strcmp(tok[0], "D")) {
      case_deadline(tok, n);
    } else if (n == 2 && !strcmp(tok[0], "Q")) {
      case_parked(tok);
    } else if (n == 3 && !strcmp(tok[0], "N")) {
      case_post_scripted(tok);
    } else if (n == 3 && !strcmp(tok[0], "V")) {
      case_post_volume(tok);
    } else if (n == 3 && !strcmp(tok[0], "Z")) {
      case_interrupted_timeout(tok);
    } else if (n == 4 && !strcmp(tok[0], "I")) {
      case_lockstep(tok);
    } else if (n == 8 && !strcmp(tok[0], "K")) {
      case_smoke(tok);
    } else if (n == 4 && !strcmp(tok[0], "R")) {
      case_real_timeout(tok);
    } else {
      puts("?");
    }
  }
  free(line);
  return 0;
}
