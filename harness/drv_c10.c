// C10 implementation driver: path decomposition views and queries of zix/path.h.
// cases:  P <hex>  (path bytes; placed in an exact-size heap block so ASan sees any read outside
//                   the NUL-terminated input)      N  (NULL: queries only, as path.h allows)
// line:   rn= rd= rp= rel= par= fn= st= ex= q=<10 bits> in=<8 bits> || rn=<off+len|static|ext+len> ...
// rd/rp/par are compared as PATHS: printed with every separator run collapsed to one '/'.
#include "vcommon.h"

#include <zix/path.h>
#include <zix/string_view.h>

#include <stdbool.h>

typedef ZixStringView (*ViewFunc)(const char*);
typedef bool (*QueryFunc)(const char*);

static const ViewFunc view_funcs[8] = {zix_path_root_name,     zix_path_root_directory,
                                       zix_path_root_path,     zix_path_relative_path,
                                       zix_path_parent_path,   zix_path_filename,
                                       zix_path_stem,          zix_path_extension};
static const char* const view_names[8] = {"rn", "rd", "rp", "rel", "par", "fn", "st", "ex"};
static const bool        as_path[8]    = {false, true, true, false, true, false, false, false};

static const QueryFunc query_funcs[10] = {zix_path_has_root_path,      zix_path_has_root_name,
                                          zix_path_has_root_directory, zix_path_has_relative_path,
                                          zix_path_has_parent_path,    zix_path_has_filename,
                                          zix_path_has_stem,           zix_path_has_extension,
                                          zix_path_is_absolute,        zix_path_is_relative};

static void put_queries(const char* path)
{
  fputs("q=", stdout);
  for (int i = 0; i < 10; ++i) {
    fputc(query_funcs[i](path) ? '1' : '0', stdout);
  }
}

// is the view inside [path, path+len]?
static bool inside(const char* path, size_t len, ZixStringView v)
{
  return v.data >= path && v.data <= path + len && v.length <= (size_t)(path + len - v.data);
}

int main(void)
{
  char*  line = NULL;
  size_t cap  = 0;
  char*  tok[4];
  static char outbuf[1 << 16];
  setvbuf(stdout, outbuf, _IOLBF, sizeof(outbuf)); // every completed line survives a sanitizer abort
  while (vgetline(&line, &cap)) {
    int n = vsplit(line, tok, 4);
    if (n == 1 && !strcmp(tok[0], "N")) {
      put_queries(NULL);
      fputc('\n', stdout);
    } else if (n == 2 && !strcmp(tok[0], "P")) {
      const size_t len  = !strcmp(tok[1], "-") ? 0U : strlen(tok[1]) / 2U;
      char* const  path = (char*)malloc(len + 1U); // exact size: bytes + NUL
      for (size_t i = 0; i < len; ++i) {
        path[i] = (char)(vhexval(tok[1][2 * i]) * 16 + vhexval(tok[1][2 * i + 1]));
      }
      path[len] = '\0';

      ZixStringView v[8];
      for (int i = 0; i < 8; ++i) {
        v[i] = view_funcs[i](path);
      }
      for (int i = 0; i < 8; ++i) {
        printf("%s=", view_names[i]);
        if (v[i].length == 0) {
          fputc('-', stdout);
        } else if (!inside(path, len, v[i])) {
          fputs("BAD", stdout); // not dereferenced
        } else if (!as_path[i]) {
          vputhex(stdout, (const unsigned char*)v[i].data, v[i].length);
        } else {
          for (size_t k = 0; k < v[i].length; ++k) {
            if (!(v[i].data[k] == '/' && k > 0 && v[i].data[k - 1] == '/')) {
              printf("%02x", (unsigned char)v[i].data[k]);
            }
          }
        }
        fputc(' ', stdout);
      }
      put_queries(path);
      fputs(" in=", stdout);
      for (int i = 0; i < 8; ++i) {
        fputc((v[i].length == 0 || inside(path, len, v[i])) ? '1' : '0', stdout);
      }
      fputs(" ||", stdout);
      for (int i = 0; i < 8; ++i) {
        if (inside(path, len, v[i])) {
          printf(" %s=%zu+%zu", view_names[i], (size_t)(v[i].data - path), v[i].length);
        } else if (v[i].length == 0) {
          printf(" %s=static", view_names[i]);
        } else {
          printf(" %s=ext+%zu", view_names[i], v[i].length);
        }
      }
      fputc('\n', stdout);
      free(path);
    } else {
      puts("?");
    }
  }
  free(line);
  return 0;
}
