// C10 implementation driver: path decomposition views and queries of zix/path.h.
// cases:  P <hex>        path bytes, placed in an exact-size heap block so ASan sees any read outside
//                        the NUL-terminated input
//         N              NULL: queries only, as path.h allows
//         Q <hex1> <hex2>  "same pointer, rewritten buffer": for every function f of path.h, inside ONE C
//                        function: r1 = f(buf); the buffer is overwritten in place with the second string by
//                        plain memcpy; r2 = f(buf).  Built with -O2, this shows a declaration that promises
//                        more than the function keeps (e.g. __attribute__((const)) on a function that reads
//                        the string: the compiler then merges the two calls and r2 answers for string 1).
// record: rn= rd= rp= rel= par= fn= st= ex= q=<10 bits> in=<8 bits> || rn=<off+len|static|ext+len> ...
// rd/rp/par are compared as PATHS: printed with every separator run collapsed to one '/'.
// P prints one record, Q prints the record of the first calls (string 1) followed by the record of the
// second calls (string 2): `obs1 obs2 || struct1 struct2`.
#include "vcommon.h"

#include <zix/path.h>
#include <zix/string_view.h>

#include "index_range.h" // /repo/src: the internal {begin,end} index pairs every scanner computes

#include <stdbool.h>

// The theorems are about unbounded indices; the tie to the code needs every index the code stores to be a
// full size_t (64-bit here).  A narrower field would make strings of 4 GiB and more wrap silently.
#ifndef C10_NO_LAYOUT_ASSERT
_Static_assert(sizeof(size_t) == 8, "C10 layout: the model assumes a 64-bit size_t");
_Static_assert(sizeof(((ZixIndexRange*)0)->begin) == sizeof(size_t) &&
                 sizeof(((ZixIndexRange*)0)->end) == sizeof(size_t),
               "C10 layout: ZixIndexRange.begin/end are narrower than size_t");
_Static_assert(sizeof(((ZixStringView*)0)->length) == sizeof(size_t) &&
                 sizeof(((ZixStringView*)0)->data) == sizeof(char*),
               "C10 layout: ZixStringView.length is narrower than size_t");
_Static_assert((__typeof__(((ZixIndexRange*)0)->begin))-1 > 0 &&
                 (__typeof__(((ZixStringView*)0)->length))-1 > 0,
               "C10 layout: an index field became signed");
#endif

typedef ZixStringView (*ViewFunc)(const char*);
typedef bool (*QueryFunc)(const char*);

static const ViewFunc view_funcs[8] = {zix_path_root_name,     zix_path_root_directory,
                                       zix_path_root_path,     zix_path_relative_path,
                                       zix_path_parent_path,   zix_path_filename,
                                       zix_path_stem,          zix_path_extension};
static const char* const view_names[8] = {"rn", "rd", "rp", "rel", "par", "fn", "st", "ex"};
static const bool        as_path[8]    = {false, true, true, false, true, false, false, false};

static const QueryFunc query_funcs[10] = {zix_path_has_root_path,      zix_path_has_root_name,
                                          zix_path_has_root_directory, zix_path_has_relative_path,
                                          zix_path_has_parent_path,    zix_path_has_filename,
                                          zix_path_has_stem,           zix_path_has_extension,
                                          zix_path_is_absolute,        zix_path_is_relative};

// is the view inside [base, base+len]?
static bool inside(const char* base, size_t len, ZixStringView v)
{
  return v.data >= base && v.data <= base + len && v.length <= (size_t)(base + len - v.data);
}

// `base` is the pointer that was passed to the functions, `content` holds the len bytes it pointed to then
static void put_obs(const char* base, const char* content, size_t len, const ZixStringView v[8], const bool q[10])
{
  for (int i = 0; i < 8; ++i) {
    printf("%s=", view_names[i]);
    if (v[i].length == 0) {
      fputc('-', stdout);
    } else if (!inside(base, len, v[i])) {
      fputs("BAD", stdout); // not dereferenced
    } else {
      const char* const text = content + (v[i].data - base);
      if (!as_path[i]) {
        vputhex(stdout, (const unsigned char*)text, v[i].length);
      } else {
#ifdef C10_WIN
        // Windows configuration: '\\' separates too; every separator is printed as '/', runs collapsed
        for (size_t k = 0; k < v[i].length; ++k) {
          const bool sep  = text[k] == '/' || text[k] == '\\';
          const bool psep = k > 0 && (text[k - 1] == '/' || text[k - 1] == '\\');
          if (!(sep && psep)) {
            printf("%02x", sep ? (unsigned)'/' : (unsigned)(unsigned char)text[k]);
          }
        }
#else
        for (size_t k = 0; k < v[i].length; ++k) {
          if (!(text[k] == '/' && k > 0 && text[k - 1] == '/')) {
            printf("%02x", (unsigned char)text[k]);
          }
        }
#endif
      }
    }
    fputc(' ', stdout);
  }
  fputs("q=", stdout);
  for (int i = 0; i < 10; ++i) {
    fputc(q[i] ? '1' : '0', stdout);
  }
  fputs(" in=", stdout);
  for (int i = 0; i < 8; ++i) {
    fputc((v[i].length == 0 || inside(base, len, v[i])) ? '1' : '0', stdout);
  }
}

static void put_struct(const char* base, size_t len, const ZixStringView v[8])
{
  for (int i = 0; i < 8; ++i) {
    if (inside(base, len, v[i])) {
      printf(" %s=%zu+%zu", view_names[i], (size_t)(v[i].data - base), v[i].length);
    } else if (v[i].length == 0) {
      printf(" %s=static", view_names[i]);
    } else {
      printf(" %s=ext+%zu", view_names[i], v[i].length);
    }
  }
}

static size_t unhex_into(const char* hex, char** out, size_t min_size)
{
  const size_t len = !strcmp(hex, "-") ? 0U : strlen(hex) / 2U;
  char* const  s   = (char*)malloc((len + 1U > min_size) ? len + 1U : min_size);
  for (size_t i = 0; i < len; ++i) {
    s[i] = (char)(vhexval(hex[2 * i]) * 16 + vhexval(hex[2 * i + 1]));
  }
  s[len] = '\0';
  *out   = s;
  return len;
}

// ---- the rewritten-buffer probes: direct calls (so the declared attributes apply), both calls and the
// ---- overwrite in one function, nothing in between but memcpy into the buffer
typedef struct {
  ZixStringView first;
  ZixStringView second;
} ViewPair;

typedef struct {
  bool first;
  bool second;
} BoolPair;

#define VIEW_PROBE(fn)                                                                          \
  static __attribute__((noinline)) ViewPair probe_##fn(                                         \
    char* buf, const char* s1, size_t l1, const char* s2, size_t l2)                            \
  {                                                                                             \
    ViewPair r;                                                                                 \
    memcpy(buf, s1, l1 + 1U);                                                                   \
    r.first = fn(buf);                                                                          \
    memcpy(buf, s2, l2 + 1U);                                                                   \
    r.second = fn(buf);                                                                         \
    return r;                                                                                   \
  }

#define BOOL_PROBE(fn)                                                                          \
  static __attribute__((noinline)) BoolPair probe_##fn(                                         \
    char* buf, const char* s1, size_t l1, const char* s2, size_t l2)                            \
  {                                                                                             \
    BoolPair r;                                                                                 \
    memcpy(buf, s1, l1 + 1U);                                                                   \
    r.first = fn(buf);                                                                          \
    memcpy(buf, s2, l2 + 1U);                                                                   \
    r.second = fn(buf);                                                                         \
    return r;                                                                                   \
  }

VIEW_PROBE(zix_path_root_name)
VIEW_PROBE(zix_path_root_directory)
VIEW_PROBE(zix_path_root_path)
VIEW_PROBE(zix_path_relative_path)
VIEW_PROBE(zix_path_parent_path)
VIEW_PROBE(zix_path_filename)
VIEW_PROBE(zix_path_stem)
VIEW_PROBE(zix_path_extension)
BOOL_PROBE(zix_path_has_root_path)
BOOL_PROBE(zix_path_has_root_name)
BOOL_PROBE(zix_path_has_root_directory)
BOOL_PROBE(zix_path_has_relative_path)
BOOL_PROBE(zix_path_has_parent_path)
BOOL_PROBE(zix_path_has_filename)
BOOL_PROBE(zix_path_has_stem)
BOOL_PROBE(zix_path_has_extension)
BOOL_PROBE(zix_path_is_absolute)
BOOL_PROBE(zix_path_is_relative)

typedef ViewPair (*ViewProbe)(char*, const char*, size_t, const char*, size_t);
typedef BoolPair (*BoolProbe)(char*, const char*, size_t, const char*, size_t);

static const ViewProbe view_probes[8] = {
  probe_zix_path_root_name,     probe_zix_path_root_directory, probe_zix_path_root_path,
  probe_zix_path_relative_path, probe_zix_path_parent_path,    probe_zix_path_filename,
  probe_zix_path_stem,          probe_zix_path_extension};
static const BoolProbe bool_probes[10] = {
  probe_zix_path_has_root_path,      probe_zix_path_has_root_name,     probe_zix_path_has_root_directory,
  probe_zix_path_has_relative_path,  probe_zix_path_has_parent_path,   probe_zix_path_has_filename,
  probe_zix_path_has_stem,           probe_zix_path_has_extension,     probe_zix_path_is_absolute,
  probe_zix_path_is_relative};

int main(void)
{
  char*  line = NULL;
  size_t cap  = 0;
  char*  tok[4];
  static char outbuf[1 << 16];
  setvbuf(stdout, outbuf, _IOLBF, sizeof(outbuf)); // every completed line survives a sanitizer abort
  while (vgetline(&line, &cap)) {
    int n = vsplit(line, tok, 4);
    if (n == 1 && !strcmp(tok[0], "N")) {
      fputs("q=", stdout);
      for (int i = 0; i < 10; ++i) {
        fputc(query_funcs[i](NULL) ? '1' : '0', stdout);
      }
      fputc('\n', stdout);
    } else if (n == 2 && !strcmp(tok[0], "P")) {
      char*        path = NULL;
      const size_t len  = unhex_into(tok[1], &path, 0U); // exact size: bytes + NUL
      ZixStringView v[8];
      bool          q[10];
      for (int i = 0; i < 8; ++i) {
        v[i] = view_funcs[i](path);
      }
      for (int i = 0; i < 10; ++i) {
        q[i] = query_funcs[i](path);
      }
      put_obs(path, path, len, v, q);
      fputs(" ||", stdout);
      put_struct(path, len, v);
      fputc('\n', stdout);
      free(path);
    } else if (n == 3 && !strcmp(tok[0], "Q")) {
      char*        s1 = NULL;
      char*        s2 = NULL;
      const size_t l1 = unhex_into(tok[1], &s1, 0U);
      const size_t l2 = unhex_into(tok[2], &s2, 0U);
      char* const  buf = (char*)malloc(((l1 > l2) ? l1 : l2) + 1U);
      ZixStringView v1[8], v2[8];
      bool          q1[10], q2[10];
      for (int i = 0; i < 8; ++i) {
        const ViewPair r = view_probes[i](buf, s1, l1, s2, l2);
        v1[i] = r.first;
        v2[i] = r.second;
      }
      for (int i = 0; i < 10; ++i) {
        const BoolPair r = bool_probes[i](buf, s1, l1, s2, l2);
        q1[i] = r.first;
        q2[i] = r.second;
      }
      put_obs(buf, s1, l1, v1, q1); // the first calls saw string 1 at buf
      fputc(' ', stdout);
      put_obs(buf, s2, l2, v2, q2); // the second calls saw string 2 at buf
      fputs(" ||", stdout);
      put_struct(buf, l1, v1);
      put_struct(buf, l2, v2);
      fputc('\n', stdout);
      free(buf);
      free(s1);
      free(s2);
    } else {
      puts("?");
    }
  }
  free(line);
  return 0;
}
