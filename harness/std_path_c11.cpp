// libstdc++ oracle for C11: hex path per line -> hex of std::filesystem::path(p).lexically_normal()
#include <cstdio>
#include <filesystem>
#include <iostream>
#include <string>

static int hv(int c) { return (c >= '0' && c <= '9') ? c - '0' : (c | 32) - 'a' + 10; }

int main()
{
  std::string line;
  while (std::getline(std::cin, line)) {
    std::string s;
    if (line != "-") {
      for (size_t i = 0; i + 1 < line.size(); i += 2) {
        s.push_back((char)(hv(line[i]) * 16 + hv(line[i + 1])));
      }
    }
    const std::string n = std::filesystem::path(s).lexically_normal().string();
    if (n.empty()) {
      std::puts("-");
    } else {
      for (unsigned char c : n) {
        std::printf("%02x", c);
      }
      std::puts("");
    }
  }
  return 0;
}
