// C04: a replacement for the ThreadSanitizer runtime.  ring.c is compiled with
// `clang -fsanitize=thread -c`; every shared access it makes then calls out to the
// functions below (and memcpy, renamed to verif_memcpy with objcopy).  Two modes:
//
//  TRACE  accesses are performed for real and logged; the driver compares the log with
//         the access program the Coq model prescribes for the same state and call.
//  SCHED  writer and reader are coroutines; at every shared access the scheduler decides
//         who runs; an atomic load of the peer's head may return any entry of its store
//         history at or after the thread's view (stale values); a plain buffer read returns
//         the newest byte whose publishing release store the reader has acquired (so a
//         relaxed/missing release or acquire really delivers stale bytes); unsynchronised
//         conflicting plain accesses set the race flag.
//
// Not compiled with any sanitizer.
#include "vtsan.h"

#include <stdlib.h>
#include <string.h>
#include <ucontext.h>

enum { M_OFF, M_TRACE, M_SCHED };
static int mode = M_OFF;

// [L_buf, L_buf_alloc) is the allocated buffer; [L_buf, L_buf_end) is the window in which an access counts as a
// buffer access (the ring's logical size plus slack, so that an unmasked or unallocated index is seen too)
static uintptr_t L_ring, L_ring_end, L_wh, L_rh, L_buf, L_buf_end, L_buf_alloc;
static int       oob_flag;
#define OOB_SLACK 64

void vt_layout(void* ring, size_t ring_size, void* wh, void* rh, void* buf, size_t buf_alloc, size_t buf_logical)
{
  L_ring      = (uintptr_t)ring;
  L_ring_end  = L_ring + ring_size;
  L_wh        = (uintptr_t)wh;
  L_rh        = (uintptr_t)rh;
  L_buf       = (uintptr_t)buf;
  L_buf_alloc = L_buf + buf_alloc;
  L_buf_end   = L_buf + (buf_alloc > buf_logical ? buf_alloc : buf_logical) + OOB_SLACK;
  oob_flag    = 0;
}

int vt_oob(void)
{
  int f    = oob_flag;
  oob_flag = 0;
  return f;
}

static inline int allocated(uintptr_t a) { return a >= L_buf && a < L_buf_alloc; }

static const char* mo_name(int mo)
{
  static const char* n[] = {"rlx", "con", "acq", "rel", "acqrel", "sc"};
  return (mo >= 0 && mo <= 5) ? n[mo] : "mo?";
}

// does [a, a+n) touch a head / the buffer?
static int head_of(uintptr_t a, size_t n)
{
  if (a < L_wh + 4 && a + n > L_wh) return 'W';
  if (a < L_rh + 4 && a + n > L_rh) return 'R';
  return 0;
}
static int in_buf(uintptr_t a, size_t n)
{
  if (!(n && a < L_buf_end && a + n > L_buf)) return 0;
  if (a < L_buf || a + n > L_buf_alloc) oob_flag = 1;
  return 1;
}

// ============================================================== TRACE mode
typedef struct {
  char     kind; // 'L' atomic load, 'S' atomic store, 'l' plain load of a head, 's' plain store of a head,
                 // 'r' buffer read, 'w' buffer write, 'X' other atomic operation
  char     head;
  int      mo;
  uint32_t val;
  long     off, len;
  int      lazy; // value(s) to be fetched from memory after the access happened
  unsigned char* bytes;
  const char*    name;
} Ev;
static Ev*  evs;
static long nev, capev;

static Ev* ev_new(char kind)
{
  if (nev == capev) {
    capev = capev ? capev * 2 : 64;
    evs   = (Ev*)realloc(evs, (size_t)capev * sizeof(Ev));
  }
  Ev* e = &evs[nev++];
  memset(e, 0, sizeof(*e));
  e->kind = kind;
  return e;
}

static void resolve_lazy(void)
{
  for (long i = 0; i < nev; ++i) {
    Ev* e = &evs[i];
    if (!e->lazy) continue;
    e->lazy = 0;
    if (e->kind == 's') {
      e->val = *(volatile uint32_t*)(e->head == 'W' ? L_wh : L_rh);
    } else if (e->kind == 'w') {
      e->bytes = (unsigned char*)calloc((size_t)e->len + 1, 1);
      for (long k = 0; k < e->len; ++k)
        if (allocated(L_buf + (uintptr_t)(e->off + k))) e->bytes[k] = *(unsigned char*)(L_buf + (uintptr_t)(e->off + k));
    }
  }
}

static void buf_ev(char kind, uintptr_t a, size_t n, const void* data, int lazy)
{
  // clip to the buffer
  uintptr_t lo = a < L_buf ? L_buf : a, hi = a + n > L_buf_end ? L_buf_end : a + n;
  Ev* e  = ev_new(kind);
  e->off = (long)(lo - L_buf);
  e->len = (long)(hi - lo);
  e->lazy = lazy;
  if (!lazy) { // data = the other (user) side of a memcpy, or the buffer itself for a plain read
    e->bytes = (unsigned char*)calloc((size_t)e->len + 1, 1);
    for (long k = 0; k < e->len; ++k) {
      uintptr_t src = (uintptr_t)data + (lo - a) + (uintptr_t)k;
      if (src >= L_buf && src < L_buf_end && !allocated(src)) continue; // unallocated buffer byte: not readable
      e->bytes[k] = *(const unsigned char*)src;
    }
  }
}

static void trace_plain(uintptr_t a, size_t n, int is_write)
{
  resolve_lazy();
  int h = head_of(a, n);
  if (h) {
    Ev* e   = ev_new(is_write ? 's' : 'l');
    e->head = (char)h;
    if (is_write) e->lazy = 1; else e->val = *(volatile uint32_t*)(h == 'W' ? L_wh : L_rh);
  } else if (in_buf(a, n)) {
    if (is_write) buf_ev('w', a, n, NULL, 1); else buf_ev('r', a, n, (const void*)a, 0);
  }
}

void vt_off(void) { mode = M_OFF; }

void vt_trace_begin(void)
{
  for (long i = 0; i < nev; ++i) free(evs[i].bytes);
  nev  = 0;
  mode = M_TRACE;
}

void vt_trace_end(FILE* out)
{
  resolve_lazy();
  mode = M_OFF;
  // canonical form: zero-length buffer accesses dropped; adjacent ascending buffer accesses of the
  // same kind merged into maximal runs
  int first = 1;
  for (long i = 0; i < nev; ++i) {
    Ev* e = &evs[i];
    if ((e->kind == 'r' || e->kind == 'w') && e->len == 0) continue;
    fputs(first ? "" : " ", out);
    first = 0;
    switch (e->kind) {
    case 'L': fprintf(out, "L%c/%s=%u", e->head, mo_name(e->mo), e->val); break;
    case 'S': fprintf(out, "S%c/%s=%u", e->head, mo_name(e->mo), e->val); break;
    case 'l': fprintf(out, "l%c=%u", e->head, e->val); break;
    case 's': fprintf(out, "s%c=%u", e->head, e->val); break;
    case 'X': fprintf(out, "X%c/%s/%s", e->head ? e->head : '-', e->name, mo_name(e->mo)); break;
    default: {
      fprintf(out, "%c@%ld:", e->kind, e->off);
      long end = e->off + e->len;
      for (long k = 0; k < e->len; ++k) fprintf(out, "%02x", e->bytes[k]);
      while (i + 1 < nev && evs[i + 1].kind == e->kind && (evs[i + 1].len == 0 || evs[i + 1].off == end)) {
        Ev* f = &evs[++i];
        for (long k = 0; k < f->len; ++k) fprintf(out, "%02x", f->bytes[k]);
        end += f->len;
      }
    }
    }
  }
  if (first) fputs("-", out);
}

// ============================================================== SCHED mode
#define MAXH 4096
#define MAXV 16
typedef struct { uint32_t val; int rel; } HEnt;
typedef struct { unsigned char val; int wep; } Ver;
typedef struct { Ver v[MAXV]; int n; int rep; } Cell;

static HEnt   hist[2][MAXH]; // 0 = write_head (stored by thread 0), 1 = read_head (stored by thread 1)
static int    nh[2];
static int    view[2], sync_[2]; // thread t's view / synchronised index into hist[1-t]
static Cell*  cells;
static long   ncells;
static VtRun* R;
static int    cur = -1; // running coroutine
static int    done[2];
static ucontext_t ctx_main, ctx_t[2];
static char*  stacks[2];
static long   now_, call_left[2];
static int    chi;
static struct { uintptr_t a; size_t n; } pend[2][8];
static int    npend[2];
#define STEP_LIMIT 200000

static void fail_race(const char* what, long x)
{
  if (!R->race && !R->overrun) snprintf(R->why, sizeof(R->why), "race: %s %ld (thread %d, step %ld)", what, x, cur, now_);
  R->race = 1;
}

static int choose(int n)
{
  int c = 0;
  if (n <= 1) return 0;
  if (chi < R->nchoices) c = ((R->choices[chi] % n) + n) % n;
  if (R->ntaken < R->cap) {
    R->taken[R->ntaken] = c;
    R->alts[R->ntaken]  = n;
  }
  R->ntaken++;
  chi++;
  return c;
}

// plain stores whose value was not known at the call-out are folded in at the thread's next point
static void flush_pending(int t)
{
  for (int i = 0; i < npend[t]; ++i) {
    uintptr_t a = pend[t][i].a;
    size_t    n = pend[t][i].n;
    int       h = head_of(a, n);
    if (h) {
      int hi = h == 'W' ? 0 : 1;
      uint32_t v = *(volatile uint32_t*)(hi == 0 ? L_wh : L_rh);
      if (nh[hi] < MAXH) { hist[hi][nh[hi]].val = v; hist[hi][nh[hi]].rel = 0; nh[hi]++; }
    } else {
      for (size_t k = 0; k < n; ++k) {
        uintptr_t b = a + k;
        if (b < L_buf || b >= L_buf_end) continue;
        Cell* c = &cells[b - L_buf];
        if (c->n < MAXV && allocated(b)) { c->v[c->n].val = *(unsigned char*)b; c->v[c->n].wep = nh[0]; c->n++; }
      }
    }
  }
  npend[t] = 0;
}

// a scheduling point: give the scheduler the chance to run the other thread first
static void point(void)
{
  int t = cur;
  flush_pending(t);
  now_++;
  R->steps++;
  if (--call_left[t] < 0 || now_ > STEP_LIMIT) {
    if (!R->overrun && !R->race)
      snprintf(R->why, sizeof(R->why), "thread %d: call exceeds its access bound (not wait-free) at step %ld", t, now_);
    R->overrun = 1;
  }
  swapcontext(&ctx_t[t], &ctx_main);
}

void vt_call_begin(long bound)
{
  if (mode == M_SCHED && cur >= 0) { flush_pending(cur); call_left[cur] = bound; }
}
long vt_now(void) { return now_; }

static int relidx(int h, int j)
{
  while (j > 0 && !hist[h][j].rel) --j;
  return j;
}

static uint32_t sched_load(uintptr_t a, int mo, int atomic)
{
  int t = cur, h = (a == L_wh) ? 0 : 1;
  point();
  if (h == t) return hist[h][nh[h] - 1].val; // own head: own stores are visible
  if (!atomic) fail_race("plain load of the peer's head", h);
  int n = nh[h] - view[t];
  int k = choose(n); // 0 = newest
  int j = nh[h] - 1 - k;
  view[t] = j;
  if (atomic && (mo == 1 || mo == 2 || mo == 4 || mo == 5)) {
    int s = relidx(h, j);
    if (s > sync_[t]) sync_[t] = s;
  }
  return hist[h][j].val;
}

static void sched_store(uintptr_t a, uint32_t v, int mo)
{
  int t = cur, h = (a == L_wh) ? 0 : 1;
  point();
  if (h != t) fail_race("store to the peer's head", h);
  if (nh[h] < MAXH) {
    hist[h][nh[h]].val = v;
    hist[h][nh[h]].rel = (mo == 3 || mo == 4 || mo == 5);
    nh[h]++;
  }
  *(volatile uint32_t*)a = v;
}

static unsigned char sched_buf_read(long cell)
{
  int t = cur;
  point();
  Cell* c = &cells[cell];
  if (!allocated(L_buf + (uintptr_t)cell)) fail_race("OOB: read outside the allocated buffer, offset", cell);
  if (t == 0) { // the writer reading back its own buffer: newest
    return c->n ? c->v[c->n - 1].val : 0;
  }
  c->rep = nh[1];
  int i  = c->n - 1;
  while (i >= 0 && c->v[i].wep > sync_[1]) --i;
  if (i != c->n - 1) fail_race("read of a cell written without happens-before, cell", cell);
  return i >= 0 ? c->v[i].val : 0xA5; // never-published cell: junk
}

static void sched_buf_write(long cell, unsigned char v)
{
  int t = cur;
  point();
  Cell* c = &cells[cell];
  if (!allocated(L_buf + (uintptr_t)cell)) fail_race("OOB: write outside the allocated buffer, offset", cell);
  if (t != 0) fail_race("reader writes the buffer, cell", cell);
  if (c->rep > sync_[0]) fail_race("write of a cell whose last read is not ordered before it, cell", cell);
  if (c->n == MAXV) { memmove(c->v, c->v + 1, sizeof(Ver) * (MAXV - 1)); c->n--; }
  c->v[c->n].val = v;
  c->v[c->n].wep = nh[0];
  c->n++;
  if (allocated(L_buf + (uintptr_t)cell)) *(unsigned char*)(L_buf + cell) = v;
}

static VtFn fns[2];
static void* args[2];
static void tramp(int t)
{
  fns[t](args[t]);
  flush_pending(t);
  done[t] = 1;
  swapcontext(&ctx_t[t], &ctx_main);
}

void vt_sched_run(VtFn writer, void* warg, VtFn reader, void* rarg, VtRun* run)
{
  R = run;
  R->ntaken = 0; R->race = 0; R->overrun = 0; R->steps = 0; R->why[0] = 0;
  chi = 0; now_ = 0;
  ncells = (long)(L_buf_end - L_buf);
  cells  = (Cell*)calloc((size_t)ncells, sizeof(Cell));
  for (int h = 0; h < 2; ++h) {
    nh[h] = 1;
    hist[h][0].val = *(volatile uint32_t*)(h == 0 ? L_wh : L_rh);
    hist[h][0].rel = 1;
    view[h] = 0; sync_[h] = 0; done[h] = 0; npend[h] = 0; call_left[h] = STEP_LIMIT;
  }
  fns[0] = writer; args[0] = warg; fns[1] = reader; args[1] = rarg;
  for (int t = 0; t < 2; ++t) {
    if (!stacks[t]) stacks[t] = (char*)malloc(256 * 1024);
    getcontext(&ctx_t[t]);
    ctx_t[t].uc_stack.ss_sp   = stacks[t];
    ctx_t[t].uc_stack.ss_size = 256 * 1024;
    ctx_t[t].uc_link          = &ctx_main;
    makecontext(&ctx_t[t], (void (*)(void))tramp, 1, t);
  }
  mode = M_SCHED;
  while (!(done[0] && done[1]) && !R->overrun) {
    int t;
    if (done[0]) t = 1;
    else if (done[1]) t = 0;
    else t = choose(2);
    cur = t;
    swapcontext(&ctx_main, &ctx_t[t]);
  }
  cur  = -1;
  mode = M_OFF;
  free(cells);
  cells = NULL;
}

// ============================================================== the call-outs
void __tsan_init(void) {}
void __tsan_func_entry(void* pc) { (void)pc; }
void __tsan_func_exit(void) {}

static void plain(uintptr_t a, size_t n, int is_write)
{
  if (mode == M_TRACE) { trace_plain(a, n, is_write); return; }
  if (mode != M_SCHED || cur < 0) return;
  int h = head_of(a, n);
  if (h) {
    int hi = h == 'W' ? 0 : 1;
    if (!is_write) {
      // the real load follows the call-out: stage the value the model of memory delivers
      uint32_t v = sched_load(hi == 0 ? L_wh : L_rh, 0, 0);
      *(volatile uint32_t*)(hi == 0 ? L_wh : L_rh) = v;
    } else {
      point();
      fail_race("plain store to a head", hi);
      if (npend[cur] < 8) { pend[cur][npend[cur]].a = a; pend[cur][npend[cur]].n = n; npend[cur]++; }
    }
  } else if (in_buf(a, n)) {
    for (size_t k = 0; k < n; ++k) {
      uintptr_t b = a + k;
      if (b < L_buf || b >= L_buf_end) continue;
      if (!is_write) {
        unsigned char v = sched_buf_read((long)(b - L_buf));
        if (allocated(b)) *(unsigned char*)b = v;
      } else {
        point();
        Cell* c = &cells[b - L_buf];
        if (!allocated(b)) fail_race("OOB: write outside the allocated buffer, offset", (long)(b - L_buf));
        if (cur != 0) fail_race("reader writes the buffer, cell", (long)(b - L_buf));
        if (c->rep > sync_[0]) fail_race("write of a cell whose last read is not ordered before it, cell", (long)(b - L_buf));
      }
    }
    if (is_write && npend[cur] < 8) { pend[cur][npend[cur]].a = a; pend[cur][npend[cur]].n = n; npend[cur]++; }
  }
}

#define RW(N) \
  void __tsan_read##N(void* a) { plain((uintptr_t)a, N, 0); } \
  void __tsan_write##N(void* a) { plain((uintptr_t)a, N, 1); } \
  void __tsan_unaligned_read##N(void* a) { plain((uintptr_t)a, N, 0); } \
  void __tsan_unaligned_write##N(void* a) { plain((uintptr_t)a, N, 1); }
RW(1) RW(2) RW(4) RW(8) RW(16)
void __tsan_read_range(void* a, unsigned long n) { plain((uintptr_t)a, n, 0); }
void __tsan_write_range(void* a, unsigned long n) { plain((uintptr_t)a, n, 1); }
void __tsan_vptr_update(void** a, void* b) { (void)a; (void)b; }
void __tsan_vptr_read(void** a) { (void)a; }

uint32_t __tsan_atomic32_load(const volatile uint32_t* p, int mo)
{
  uintptr_t a = (uintptr_t)p;
  int       h = (a == L_wh) ? 'W' : (a == L_rh) ? 'R' : 0;
  if (mode == M_TRACE && h) {
    resolve_lazy();
    Ev* e = ev_new('L');
    e->head = (char)h; e->mo = mo; e->val = *p;
    return e->val;
  }
  if (mode == M_SCHED && cur >= 0 && h) return sched_load(a, mo, 1);
  return *p;
}

void __tsan_atomic32_store(volatile uint32_t* p, uint32_t v, int mo)
{
  uintptr_t a = (uintptr_t)p;
  int       h = (a == L_wh) ? 'W' : (a == L_rh) ? 'R' : 0;
  if (mode == M_TRACE && h) {
    resolve_lazy();
    Ev* e = ev_new('S');
    e->head = (char)h; e->mo = mo; e->val = v;
  }
  if (mode == M_SCHED && cur >= 0 && h) { sched_store(a, v, mo); return; }
  *p = v;
}

// other atomic operations: ring.c does not use them today; if a change introduces one it is
// logged (trace mismatch) and, in schedule mode, treated as a sequentially consistent access
static void other(const char* name, uintptr_t a, int mo)
{
  if (mode == M_TRACE) {
    resolve_lazy();
    Ev* e = ev_new('X');
    e->head = (char)((a == L_wh) ? 'W' : (a == L_rh) ? 'R' : 0);
    e->name = name; e->mo = mo;
  }
}
uint32_t __tsan_atomic32_exchange(volatile uint32_t* p, uint32_t v, int mo)
{
  other("xchg", (uintptr_t)p, mo);
  if (mode == M_SCHED && cur >= 0 && head_of((uintptr_t)p, 4)) {
    uint32_t o = sched_load((uintptr_t)p, 5, 1);
    sched_store((uintptr_t)p, v, 5);
    return o;
  }
  uint32_t o = *p; *p = v; return o;
}
uint32_t __tsan_atomic32_fetch_add(volatile uint32_t* p, uint32_t v, int mo)
{
  other("fetch_add", (uintptr_t)p, mo);
  if (mode == M_SCHED && cur >= 0 && head_of((uintptr_t)p, 4)) {
    uint32_t o = sched_load((uintptr_t)p, 5, 1);
    sched_store((uintptr_t)p, o + v, 5);
    return o;
  }
  uint32_t o = *p; *p = o + v; return o;
}
int __tsan_atomic32_compare_exchange_strong(volatile uint32_t* p, uint32_t* exp, uint32_t v, int mo, int fmo)
{
  (void)fmo;
  other("cas", (uintptr_t)p, mo);
  if (*p == *exp) { *p = v; return 1; }
  *exp = *p;
  return 0;
}
int __tsan_atomic32_compare_exchange_weak(volatile uint32_t* p, uint32_t* exp, uint32_t v, int mo, int fmo)
{
  return __tsan_atomic32_compare_exchange_strong(p, exp, v, mo, fmo);
}
void __tsan_atomic_thread_fence(int mo) { other("fence", 0, mo); }
void __tsan_atomic_signal_fence(int mo) { other("sigfence", 0, mo); }

// memcpy of ring.c (renamed by objcopy): one side may be the ring buffer
void* verif_memcpy(void* dst, const void* src, size_t n)
{
  uintptr_t d = (uintptr_t)dst, s = (uintptr_t)src;
  if (mode == M_TRACE) {
    resolve_lazy();
    if (head_of(d, n) || head_of(s, n)) { // a head copied wholesale: report as plain accesses
      if (head_of(s, n)) trace_plain(s, n, 0);
      if (head_of(d, n)) trace_plain(d, n, 1);
    }
    int sb = in_buf(s, n), db = in_buf(d, n);
    for (size_t k = 0; k < n; ++k) { // bytes outside the allocation are not copied (reported through vt_oob)
      uintptr_t sa = s + k, da = d + k;
      if ((sa >= L_buf && sa < L_buf_end && !allocated(sa)) || (da >= L_buf && da < L_buf_end && !allocated(da))) continue;
      *(unsigned char*)da = *(const unsigned char*)sa;
    }
    if (sb) buf_ev('r', s, n, dst, 0); // values as delivered to the caller
    if (db) buf_ev('w', d, n, src, 0); // values as supplied by the caller
    return dst;
  }
  if (mode == M_SCHED && cur >= 0 && (in_buf(d, n) || in_buf(s, n))) {
    for (size_t k = 0; k < n; ++k) {
      unsigned char b;
      uintptr_t     sa = s + k, da = d + k;
      if (sa >= L_buf && sa < L_buf_end) b = sched_buf_read((long)(sa - L_buf));
      else b = *(const unsigned char*)sa;
      if (da >= L_buf && da < L_buf_end) sched_buf_write((long)(da - L_buf), b);
      else *(unsigned char*)da = b;
    }
    return dst;
  }
  if (L_buf && (in_buf(d, n) || in_buf(s, n))) { // no mode active (setup, drain): still never touch unallocated bytes
    for (size_t k = 0; k < n; ++k) {
      uintptr_t sa = s + k, da = d + k;
      if ((sa >= L_buf && sa < L_buf_end && !allocated(sa)) || (da >= L_buf && da < L_buf_end && !allocated(da))) continue;
      *(unsigned char*)da = *(const unsigned char*)sa;
    }
    return dst;
  }
  return memcpy(dst, src, n);
}
void* verif_memmove(void* dst, const void* src, size_t n) { return verif_memcpy(dst, src, n); }
void* __tsan_memcpy(void* dst, const void* src, size_t n) { return verif_memcpy(dst, src, n); }
void* __tsan_memmove(void* dst, const void* src, size_t n) { return verif_memcpy(dst, src, n); }
void* __tsan_memset(void* dst, int c, size_t n) { return memset(dst, c, n); }
