// C12 oracle: libstdc++'s std::filesystem::path as the executable meaning of "the C++17 model".
// Reads the same case lines as drv_c12 and prints, per case, the line the Coq spec (S line) must equal.
// Used only to validate coq/PathJoinSpec.v; never stands in for a theorem.
#include <cstdio>
#include <filesystem>
#include <iostream>
#include <sstream>
#include <string>
#include <vector>

namespace fs = std::filesystem;

static std::string unhex(const std::string& h)
{
  if (h == "-" || h == "N") { // NULL stands for the empty path
    return "";
  }
  std::string s;
  for (size_t i = 0; i + 1 < h.size(); i += 2) {
    s.push_back((char)std::stoi(h.substr(i, 2), nullptr, 16));
  }
  return s;
}

static std::string hex(const std::string& s)
{
  if (s.empty()) {
    return "-";
  }
  static const char* d = "0123456789abcdef";
  std::string        r;
  for (unsigned char c : s) {
    r.push_back(d[c >> 4]);
    r.push_back(d[c & 15]);
  }
  return r;
}

// root flag and the elements after the root directory, as libstdc++'s iterator yields them
static std::string canon(const fs::path& p)
{
  std::string r    = p.has_root_directory() ? "1:" : "0:";
  bool        first = true;
  bool        skip  = p.has_root_directory();
  for (const auto& e : p) {
    if (skip) { // the root-directory element
      skip = false;
      continue;
    }
    if (!first) {
      r += ",";
    }
    first = false;
    r += hex(e.native());
  }
  return r;
}

int main()
{
  std::string line;
  while (std::getline(std::cin, line)) {
    std::istringstream       is(line);
    std::vector<std::string> t;
    for (std::string w; is >> w;) {
      t.push_back(w);
    }
    if (t.size() == 3 && t[0] == "J") {
      fs::path a(unhex(t[1]));
      fs::path b(unhex(t[2]));
      std::cout << "join=" << hex((a / b).native()) << "\n";
    } else if (t.size() == 3 && t[0] == "R") {
      fs::path p(unhex(t[1]));
      fs::path b(unhex(t[2]));
      fs::path r = p.lexically_relative(b);
      if (r.empty()) {
        std::cout << "rel=NULL\n";
      } else {
        std::cout << "rel=" << canon(r) << "\n";
      }
    } else if (t.size() == 2 && t[0] == "P") {
      fs::path p(unhex(t[1]));
      p.make_preferred();
      std::cout << "pref=" << hex(p.native()) << "\n";
    } else if (t.size() == 2 && t[0] == "I") {
      std::cout << "iter\n";
    } else {
      std::cout << "?\n";
    }
  }
  return 0;
}
