// Tracking, fault-injecting ZixAllocator shared by the C drivers (C07/C08 and any component).
//
// * Every block handed out is carved from a real malloc block with a header in front, so a block
//   that the library releases through the DEFAULT allocator (free(ptr) on an interior pointer) is
//   reported by ASan ("attempting free on address which was not malloc()-ed"), and a libc pointer
//   handed to this allocator's free is caught by the header magic check.
// * Requests are counted over the whole case; a fault script makes request k fail once (single)
//   or every request from k on fail (persistent).  A "request" is one call of malloc, calloc,
//   realloc (any), or aligned_alloc.
// * Mismatched release (aligned_free of a plain block or vice versa), double free and foreign
//   pointers are recorded in valloc_errors(); valloc_outstanding() counts live blocks.
#ifndef VALLOC_H
#define VALLOC_H

#include <zix/allocator.h>

#include <errno.h>
#include <stdint.h>
#include <stdio.h>
#include <stdlib.h>
#include <string.h>

typedef enum { VALLOC_NONE, VALLOC_SINGLE, VALLOC_PERSISTENT } VallocMode;

typedef struct {
  uint64_t magic;   // VALLOC_MAGIC_PLAIN / VALLOC_MAGIC_ALIGNED / VALLOC_MAGIC_DEAD
  size_t   size;    // requested size
  size_t   serial;  // request number that created it
  void*    base;    // what to hand to free()
} VallocHeader;

#define VALLOC_MAGIC_PLAIN 0x5A49585F504C4131ULL
#define VALLOC_MAGIC_ALIGNED 0x5A49585F414C4731ULL
#define VALLOC_MAGIC_DEAD 0x5A49585F44454144ULL

typedef struct {
  ZixAllocator base; // must be first
  VallocMode   mode;
  size_t       fail_at;
  size_t       requests;    // requests seen so far (failed ones included)
  size_t       failed;      // requests refused by the script
  size_t       outstanding; // live blocks
  size_t       bytes;       // live requested bytes
  size_t       errors;      // protocol errors
  char         first_error[160];
  size_t       n_alloc_events;
  size_t       n_free_events;
  FILE*        trace;       // optional event trace (A<serial>:<kind>:<size> / F<serial>:<kind>)
} Valloc;

static inline void valloc_error(Valloc* v, const char* what)
{
  if (!v->errors++) {
    snprintf(v->first_error, sizeof(v->first_error), "%s", what);
  }
}

static inline int valloc_should_fail(Valloc* v)
{
  const size_t n = v->requests++;
  const int    f = (v->mode == VALLOC_SINGLE && n == v->fail_at) || (v->mode == VALLOC_PERSISTENT && n >= v->fail_at);
  if (f) {
    ++v->failed;
    errno = ENOMEM; // what malloc()-based allocators leave behind
  }
  return f;
}

static inline void* valloc_new_block(Valloc* v, size_t alignment, size_t size, uint64_t magic)
{
  // layout: [malloc base ... padding ... | header | user block]
  const size_t hdr   = sizeof(VallocHeader);
  const size_t align = alignment < 16 ? 16 : alignment;
  char*        base  = (char*)malloc(size + hdr + align);
  if (!base) {
    return NULL;
  }
  uintptr_t user = ((uintptr_t)base + hdr + align - 1) & ~(uintptr_t)(align - 1);
  VallocHeader* h = (VallocHeader*)(user - hdr);
  h->magic  = magic;
  h->size   = size;
  h->serial = v->requests - 1;
  h->base   = base;
  ++v->outstanding;
  v->bytes += size;
  ++v->n_alloc_events;
  if (v->trace) {
    fprintf(v->trace, "A%zu:%c:%zu ", h->serial, magic == VALLOC_MAGIC_ALIGNED ? 'a' : 'p', size);
  }
  if (size <= (1U << 22)) {
    memset((void*)user, 0xA5, size); // dirty memory: calloc must really clear (huge blocks are left untouched)
  }
  return (void*)user;
}

static inline VallocHeader* valloc_header(Valloc* v, void* ptr, uint64_t want, const char* who)
{
  VallocHeader* h = (VallocHeader*)((char*)ptr - sizeof(VallocHeader));
  if (h->magic == VALLOC_MAGIC_DEAD) {
    valloc_error(v, "double free");
    return NULL;
  }
  if (h->magic != VALLOC_MAGIC_PLAIN && h->magic != VALLOC_MAGIC_ALIGNED) {
    valloc_error(v, "foreign pointer released through the caller's allocator");
    return NULL;
  }
  if (h->magic != want) {
    char msg[120];
    snprintf(msg, sizeof(msg), "%s of a block obtained from the other entry (aligned/plain mismatch)", who);
    valloc_error(v, msg);
  }
  return h;
}

static inline void valloc_release(Valloc* v, VallocHeader* h)
{
  --v->outstanding;
  v->bytes -= h->size;
  ++v->n_free_events;
  if (v->trace) {
    fprintf(v->trace, "F%zu:%c ", h->serial, h->magic == VALLOC_MAGIC_ALIGNED ? 'a' : 'p');
  }
  void* base = h->base;
  h->magic   = VALLOC_MAGIC_DEAD;
  free(base); // ASan poisons it: any later touch is a use-after-free report
}

static inline void* valloc_malloc(ZixAllocator* a, size_t size)
{
  Valloc* v = (Valloc*)a;
  return valloc_should_fail(v) ? NULL : valloc_new_block(v, 0, size, VALLOC_MAGIC_PLAIN);
}

static inline void* valloc_calloc(ZixAllocator* a, size_t nmemb, size_t size)
{
  Valloc* v = (Valloc*)a;
  if (valloc_should_fail(v)) {
    return NULL;
  }
  void* p = valloc_new_block(v, 0, nmemb * size, VALLOC_MAGIC_PLAIN);
  if (p) {
    memset(p, 0, nmemb * size);
  }
  return p;
}

static inline void* valloc_realloc(ZixAllocator* a, void* ptr, size_t size)
{
  Valloc* v = (Valloc*)a;
  if (valloc_should_fail(v)) {
    return NULL; // original block stays valid, as for realloc()
  }
  if (!ptr) {
    return valloc_new_block(v, 0, size, VALLOC_MAGIC_PLAIN);
  }
  VallocHeader* h = valloc_header(v, ptr, VALLOC_MAGIC_PLAIN, "realloc");
  if (!h) {
    return NULL;
  }
  void* n = valloc_new_block(v, 0, size, VALLOC_MAGIC_PLAIN); // always moves: stale pointers are caught
  if (n) {
    memcpy(n, ptr, h->size < size ? h->size : size);
    valloc_release(v, h);
  }
  return n;
}

static inline void valloc_free(ZixAllocator* a, void* ptr)
{
  Valloc* v = (Valloc*)a;
  if (ptr) {
    VallocHeader* h = valloc_header(v, ptr, VALLOC_MAGIC_PLAIN, "free");
    if (h) {
      valloc_release(v, h);
    }
  }
}

static inline void* valloc_aligned_alloc(ZixAllocator* a, size_t alignment, size_t size)
{
  Valloc* v = (Valloc*)a;
  return valloc_should_fail(v) ? NULL : valloc_new_block(v, alignment, size, VALLOC_MAGIC_ALIGNED);
}

static inline void valloc_aligned_free(ZixAllocator* a, void* ptr)
{
  Valloc* v = (Valloc*)a;
  if (ptr) {
    VallocHeader* h = valloc_header(v, ptr, VALLOC_MAGIC_ALIGNED, "aligned_free");
    if (h) {
      valloc_release(v, h);
    }
  }
}

static inline void valloc_init(Valloc* v, VallocMode mode, size_t fail_at)
{
  memset(v, 0, sizeof(*v));
  v->base.malloc        = valloc_malloc;
  v->base.calloc        = valloc_calloc;
  v->base.realloc       = valloc_realloc;
  v->base.free          = valloc_free;
  v->base.aligned_alloc = valloc_aligned_alloc;
  v->base.aligned_free  = valloc_aligned_free;
  v->mode               = mode;
  v->fail_at            = fail_at;
}

// change the script without resetting the counters (e.g. "memory is available again")
static inline void valloc_script(Valloc* v, VallocMode mode, size_t fail_at)
{
  v->mode    = mode;
  v->fail_at = fail_at;
}

// parse "@F<k>" / "@P<k>" ; returns 1 if tok was a fault prefix
static inline int valloc_parse_prefix(const char* tok, VallocMode* mode, size_t* k)
{
  if (tok[0] == '@' && (tok[1] == 'F' || tok[1] == 'P')) {
    *mode = tok[1] == 'F' ? VALLOC_SINGLE : VALLOC_PERSISTENT;
    *k    = strtoul(tok + 2, NULL, 10);
    return 1;
  }
  return 0;
}

#endif
