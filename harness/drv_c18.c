// C18 implementation driver: zix_thread_create / zix_thread_join from /repo/src/posix/thread_posix.c
//
// Linked with -Wl,--wrap=pthread_create,--wrap=pthread_attr_setstacksize,--wrap=pthread_attr_init,
//                  --wrap=pthread_attr_destroy,--wrap=pthread_join
//   S <size> <r_init> <r_set> <r_create>    scripted: the five pthread calls are replaced by a fake that records
//                                           the call sequence and returns the given results; r_create may be a
//                                           comma list: result of the 1st, 2nd, ... pthread_create call (the last
//                                           one repeats)
//   I <sizeA> <sizeB>                       scripted, two creators interleaved: a second zix_thread_create(sizeB) runs
//                                           to completion between the first call's pthread_attr_setstacksize and
//                                           its pthread_create (a schedule two concurrent creators can produce);
//                                           each thread must get its own requested stack
//   J <r_join>                              scripted pthread_join result
//   T <size> <n> <delay_us> <f|r>           real: n concurrent threads with the requested stack size, joined
//                                           forwards or in reverse; the wrappers pass through and record
//   a line may start with @<n>: errno is set to n before every library call under test
//   U <size>                                real, outcome left open (sizes the platform may refuse)
#ifndef _GNU_SOURCE
#  define _GNU_SOURCE
#endif
#include "vcommon.h"

#include <zix/status.h>
#include <zix/thread.h>

#include <errno.h>
#include <limits.h>
#include <pthread.h>
#include <stdatomic.h>
#include <time.h>
#include <unistd.h>

_Static_assert(EPERM == 1 && EAGAIN == 11 && ENOMEM == 12 && EINVAL == 22 && EDEADLK == 35 && ESRCH == 3,
               "errno values differ from coq/SemErrnoModel.v");

#define FAKE_DEFAULT_STACK 8388608UL

static const char* status_name(ZixStatus st)
{
  static const char* const names[] = {"SUCCESS", "ERROR", "NO_MEM", "NOT_FOUND", "EXISTS", "BAD_ARG",
                                      "BAD_PERMS", "REACHED_END", "TIMEOUT", "OVERFLOW", "NOT_SUPPORTED",
                                      "UNAVAILABLE", "NO_SPACE", "MAX_LINKS"};
  return ((unsigned)st < 14U) ? names[st] : "INVALID";
}

int __real_pthread_create(pthread_t*, const pthread_attr_t*, void* (*)(void*), void*);
int __real_pthread_attr_init(pthread_attr_t*);
int __real_pthread_attr_setstacksize(pthread_attr_t*, size_t);
int __real_pthread_attr_destroy(pthread_attr_t*);
int __real_pthread_join(pthread_t, void**);

// ------------------------------------------------------------------ recording
static pthread_t main_thread;
static int       fake;      // scripted mode: no real calls
static int       recording; // record calls made by the main thread
static char      calls[1024];
static int       r_init, r_set, r_join;
static int       r_creates[8];
static int       n_creates, create_calls;

#define MAXATTR 8
static const void* attr_ptr[MAXATTR];
static size_t      attr_stack[MAXATTR];
static int         n_attr;
static int         fake_started;
static size_t      captured_size; // size given to the real pthread_attr_setstacksize (pass-through mode)
static int         captured_sets;
static size_t      fake_stack;
static size_t      fake_stacks[8]; // stack carried by the attributes of the 1st, 2nd, ... successful fake create
static size_t      nest_size;      // I cases: size of the creator to run inside the first setstacksize
static ZixStatus   nest_status;

static void* (*expected_fn)(void*);
static void*     expected_arg;
static pthread_t expected_thread;

static int on_main(void)
{
  return pthread_equal(pthread_self(), main_thread);
}

static int attr_id(const void* p)
{
  for (int i = 0; i < n_attr; ++i) {
    if (attr_ptr[i] == p) {
      return i;
    }
  }
  if (n_attr < MAXATTR) {
    attr_ptr[n_attr]   = p;
    attr_stack[n_attr] = FAKE_DEFAULT_STACK; // as ThreadModel.attr_lookup's default
    return n_attr++;
  }
  return MAXATTR - 1;
}

static void rec(const char* fmt, ...) __attribute__((format(printf, 1, 2)));
#include <stdarg.h>
static void rec(const char* fmt, ...)
{
  const size_t len = strlen(calls);
  va_list      ap;
  va_start(ap, fmt);
  if (len) {
    snprintf(calls + len, sizeof(calls) - len, " ");
  }
  vsnprintf(calls + strlen(calls), sizeof(calls) - strlen(calls), fmt, ap);
  va_end(ap);
}

static void reset_rec(void)
{
  calls[0] = 0;
  n_attr   = 0;
}

int __wrap_pthread_attr_init(pthread_attr_t* a)
{
  if (fake) {
    const int id = attr_id(a);
    rec("init(a%d)", id);
    if (!r_init) {
      attr_stack[id] = FAKE_DEFAULT_STACK;
    }
    return r_init;
  }
  if (recording && on_main()) {
    rec("init(a%d)", attr_id(a));
  }
  return __real_pthread_attr_init(a);
}

int __wrap_pthread_attr_setstacksize(pthread_attr_t* a, size_t size)
{
  if (fake) {
    const int id = attr_id(a);
    rec("set(a%d,%zu)", id, size);
    if (!r_set) {
      attr_stack[id] = size;
    }
    if (nest_size) {
      // the other creator's whole call happens now
      static int   dummy2;
      ZixThread    th2;
      const size_t n = nest_size;
      nest_size      = 0;
      nest_status    = zix_thread_create(&th2, n, expected_fn, expected_arg);
      (void)dummy2;
    }
    return r_set; // pthread functions return the error number; errno is left as it was
  }
  if (recording && on_main()) {
    rec("set(a%d,%zu)", attr_id(a), size);
    captured_size = size;
    ++captured_sets;
  }
  return __real_pthread_attr_setstacksize(a, size);
}

static void rec_create(const pthread_attr_t* a, void* (*fn)(void*), void* arg)
{
  char abuf[16];
  if (a) {
    snprintf(abuf, sizeof(abuf), "a%d", attr_id(a));
  } else {
    snprintf(abuf, sizeof(abuf), "null");
  }
  rec("create(%s,%s,%s)", abuf, fn == expected_fn ? "f" : "f?", arg == expected_arg ? "arg" : "arg?");
}

static pthread_t fake_threads[8];
static int       n_fake_threads;

static void reap_fake_threads(void)
{
  while (n_fake_threads > 0) {
    __real_pthread_join(fake_threads[--n_fake_threads], NULL);
  }
}

int __wrap_pthread_create(pthread_t* t, const pthread_attr_t* a, void* (*fn)(void*), void* arg)
{
  if (fake) {
    rec_create(a, fn, arg);
    const int r = r_creates[create_calls < n_creates ? create_calls : n_creates - 1];
    ++create_calls;
    if (r) {
      // like glibc, which stores the handle before the thread is cloned: after a failure *t holds a value that means
      // nothing (POSIX: its contents are undefined then)
      memset(t, 0x5A, sizeof(*t));
    }
    if (!r) {
      ++fake_started;
      fake_stack = a ? attr_stack[attr_id(a)] : FAKE_DEFAULT_STACK; // the stack THIS call's attributes carry
      if (fake_started <= 8) {
        fake_stacks[fake_started - 1] = fake_stack;
      }
      // the thread IS started (with default attributes: the size the caller asked for may be absurd), so that a
      // start-up handshake between creator and thread completes; reap_fake_threads() joins it when the case ends
      *t = pthread_self();
      if (n_fake_threads < 8 && !__real_pthread_create(&fake_threads[n_fake_threads], NULL, fn, arg)) {
        *t = fake_threads[n_fake_threads++];
      }
    }
    return r;
  }
  if (recording && on_main()) {
    rec_create(a, fn, arg);
  }
  return __real_pthread_create(t, a, fn, arg);
}

// A thread of the library that posts a semaphore (a start-up handshake with its creator, say) is held up right
// after the post: whatever it still reads from its creator's frame afterwards is read late.
#include <semaphore.h>
int __real_sem_post(sem_t*);
int __wrap_sem_post(sem_t* s)
{
  const int r = __real_sem_post(s);
  if (!on_main()) {
    const int       e = errno;
    struct timespec d = {0, 20000000};
    nanosleep(&d, NULL);
    errno = e;
  }
  return r;
}

// the creator's frames below the call are overwritten as soon as zix_thread_create has returned
static void __attribute__((noinline)) clobber_stack(void)
{
  volatile unsigned char junk[16384];
  for (size_t i = 0; i < sizeof(junk); ++i) {
    junk[i] = 0xA5U;
  }
}

int __wrap_pthread_attr_destroy(pthread_attr_t* a)
{
  if (fake) {
    rec("destroy(a%d)", attr_id(a));
    return 0;
  }
  if (recording && on_main()) {
    rec("destroy(a%d)", attr_id(a));
  }
  return __real_pthread_attr_destroy(a);
}

int __wrap_pthread_join(pthread_t t, void** ret)
{
  if (fake) {
    rec("join(%s,%s)", pthread_equal(t, expected_thread) ? "t" : "t?", ret ? "ptr" : "null");
    return r_join;
  }
  return __real_pthread_join(t, ret);
}

// ------------------------------------------------------------------ errno at entry
// A case line may start with "@<n>": errno is set to n immediately before every library call under test.
static int entry_errno;

static ZixStatus e_thread_create(ZixThread* t, size_t size, ZixThreadFunc f, void* arg)
{
  errno = entry_errno;
  return zix_thread_create(t, size, f, arg);
}

static ZixStatus e_thread_join(ZixThread t)
{
  errno = entry_errno;
  return zix_thread_join(t);
}

// ------------------------------------------------------------------ scripted cases
static void* never_run(void* arg)
{
  (void)arg;
  return ZIX_THREAD_RESULT;
}

static void case_scripted(char** tok)
{
  const size_t size = (size_t)strtoull(tok[1], NULL, 10);
  int          dummy = 0;
  ZixThread    th;
  r_init   = atoi(tok[2]);
  r_set    = atoi(tok[3]);
  n_creates = create_calls = 0;
  {
    char* copy = strdup(tok[4]);
    char* save = NULL;
    for (char* t = strtok_r(copy, ",", &save); t && n_creates < 8; t = strtok_r(NULL, ",", &save)) {
      r_creates[n_creates++] = atoi(t);
    }
    free(copy);
    if (!n_creates) {
      r_creates[n_creates++] = 0;
    }
  }
  reset_rec();
  fake_started = 0;
  fake_stack   = 0;
  expected_fn  = never_run;
  expected_arg = &dummy;
  fake         = 1;
  const ZixStatus st = e_thread_create(&th, size, never_run, &dummy);
  fake         = 0;
  reap_fake_threads();
  printf("st=%s started=%d", status_name(st), fake_started);
  if (fake_started) {
    printf(" stack_ge=%d || %s stack=%zu\n", fake_stack >= size, calls, fake_stack);
  } else {
    printf(" stack_ge=- || %s stack=-\n", calls);
  }
}

static void case_interleaved(char** tok)
{
  const size_t size_a = (size_t)strtoull(tok[1], NULL, 10);
  const size_t size_b = (size_t)strtoull(tok[2], NULL, 10);
  int          dummy  = 0;
  ZixThread    th;
  r_init = r_set = 0;
  n_creates = 1;
  create_calls = 0;
  r_creates[0] = 0;
  reset_rec();
  fake_started = 0;
  expected_fn  = never_run;
  expected_arg = &dummy;
  nest_size    = size_b;
  nest_status  = ZIX_STATUS_ERROR;
  fake         = 1;
  const ZixStatus st = e_thread_create(&th, size_a, never_run, &dummy);
  fake         = 0;
  nest_size    = 0;
  reap_fake_threads();
  // the inner creator's pthread_create comes first, the outer one second
  printf("st=%s/%s started=%d", status_name(st), status_name(nest_status), fake_started);
  if (fake_started == 2) {
    printf(" stack_ge=%d/%d || %s stack=%zu/%zu\n", fake_stacks[1] >= size_a, fake_stacks[0] >= size_b, calls,
           fake_stacks[1], fake_stacks[0]);
  } else {
    printf(" stack_ge=- || %s stack=-\n", calls);
  }
}

static void case_join(char** tok)
{
  r_join = atoi(tok[1]);
  reset_rec();
  expected_thread = pthread_self();
  fake            = 1;
  const ZixStatus st = e_thread_join(expected_thread);
  fake            = 0;
  printf("st=%s || %s\n", status_name(st), calls);
}

// ------------------------------------------------------------------ real threads
#define NVALS 8
#define MARGIN (64UL * 1024UL)

typedef struct {
  ZixThread              th;
  ZixStatus              st;
  size_t                 requested;
  long                   delay_us;
  int                    idx;
  atomic_int             calls;
  void*                  seen_arg;
  int                    stack_ge;
  int                    depth_ok;
  size_t                 real_size;
  volatile unsigned long vals[NVALS]; // plain memory written by the thread, read after join
} Slot;

static unsigned long pattern(int idx, int k)
{
  return 0x9E3779B97F4A7C15UL * (unsigned long)(idx + 1) + (unsigned long)k * 0x10001UL;
}

__attribute__((noinline, no_sanitize_address)) static int touch_down(volatile char* target)
{
  volatile char buf[1024];
  buf[0]    = 1;
  buf[1023] = 1;
  if ((volatile char*)buf > target) {
    return touch_down(target) + buf[0];
  }
  return buf[1023];
}

static void* thread_fn(void* arg)
{
  Slot* s = (Slot*)arg;
  atomic_fetch_add(&s->calls, 1);
  s->seen_arg = arg;
  pthread_attr_t a;
  void*          addr  = NULL;
  size_t         size  = 0;
  if (!pthread_getattr_np(pthread_self(), &a)) {
    pthread_attr_getstack(&a, &addr, &size);
    __real_pthread_attr_destroy(&a);
  }
  s->real_size = size;
  // glibc aligns the top of the stack: for a size that is not a page multiple the extent it reports can be a
  // few bytes below the request, so the comparison is with the request rounded down to a page
  s->stack_ge  = size >= (s->requested & ~(size_t)4095);
  if (s->stack_ge && s->requested > MARGIN) {
    // use the requested amount of stack (minus a margin for TLS, guard and the start routine's frames)
    volatile char* top    = (volatile char*)addr + size;
    volatile char* target = top - s->requested + MARGIN;
    s->depth_ok           = touch_down(target) > 0;
  } else {
    s->depth_ok = s->stack_ge;
  }
  if (s->delay_us > 0) {
    struct timespec d = {s->delay_us / 1000000, (s->delay_us % 1000000) * 1000};
    nanosleep(&d, NULL);
  }
  for (int k = 0; k < NVALS; ++k) {
    s->vals[k] = pattern(s->idx, k);
  }
  return ZIX_THREAD_RESULT;
}

static void run_real(size_t size, int n, long delay_us, int reverse, int open_outcome)
{
  Slot* slots = (Slot*)calloc((size_t)n, sizeof(Slot));
  char  want[256];
  int   created = 0, seq = 1, set_ge = 1;
  ZixStatus first_err = ZIX_STATUS_SUCCESS;
  alarm(120);
  snprintf(want, sizeof(want), "init(a0) set(a0,%zu) create(a0,f,arg) destroy(a0)", size);
  for (int i = 0; i < n; ++i) {
    slots[i].idx       = i;
    slots[i].requested = size;
    slots[i].delay_us  = delay_us * (i % 4);
    reset_rec();
    expected_fn  = thread_fn;
    expected_arg = &slots[i];
    captured_sets = 0;
    captured_size = 0;
    recording    = 1;
    slots[i].st  = e_thread_create(&slots[i].th, size, thread_fn, &slots[i]);
    recording    = 0;
    clobber_stack();
    seq          = seq && !strcmp(calls, want);
    // the attribute object must have been given at least the requested size
    set_ge       = set_ge && captured_sets == 1 && captured_size >= size;
    if (slots[i].st == ZIX_STATUS_SUCCESS) {
      ++created;
    } else if (first_err == ZIX_STATUS_SUCCESS) {
      first_err = slots[i].st;
    }
  }
  int once = 1, arg = 1, stack_ge = 1, depth = 1, visible = 1, never_ran = 1;
  ZixStatus joined = ZIX_STATUS_SUCCESS;
  for (int k = 0; k < n; ++k) {
    const int i = reverse ? n - 1 - k : k;
    if (slots[i].st != ZIX_STATUS_SUCCESS) {
      continue;
    }
    const ZixStatus js = e_thread_join(slots[i].th);
    if (js != ZIX_STATUS_SUCCESS) {
      joined = js;
    }
    // everything the thread wrote must be visible now
    for (int v = 0; v < NVALS; ++v) {
      visible = visible && slots[i].vals[v] == pattern(i, v);
    }
    once     = once && atomic_load(&slots[i].calls) == 1;
    arg      = arg && slots[i].seen_arg == &slots[i];
    stack_ge = stack_ge && slots[i].stack_ge;
    depth    = depth && slots[i].depth_ok;
  }
  {
    struct timespec d = {0, 2000000};
    nanosleep(&d, NULL); // a wrongly started thread would have run by now
  }
  for (int i = 0; i < n; ++i) {
    if (slots[i].st != ZIX_STATUS_SUCCESS) {
      never_ran = never_ran && atomic_load(&slots[i].calls) == 0;
    }
  }
  alarm(0);
  if (open_outcome) {
    const int ok = once && arg && stack_ge && depth && visible && never_ran && joined == ZIX_STATUS_SUCCESS;
    printf("consistent=%d set_ge=%d || seq=%d\n", ok, set_ge, seq);
  } else {
    printf("st=%s created=%d once=%d arg=%d set_ge=%d stack_ge=%d depth=%d visible=%d joined=%s || seq=%d\n",
           status_name(first_err), created, once, arg, set_ge, stack_ge, depth, visible, status_name(joined), seq);
  }
  free(slots);
}

int main(void)
{
  char*  line = NULL;
  size_t cap  = 0;
  char*  tok[8];
  main_thread = pthread_self();
  if ((long)PTHREAD_STACK_MIN != 16384L) { // ThreadModel.STACK_MIN (a sysconf value in recent glibc)
    fprintf(stderr, "PTHREAD_STACK_MIN differs from the model\n");
    return 3;
  }
  setvbuf(stdout, NULL, _IOLBF, 0);
  while (vgetline(&line, &cap)) {
    int n = vsplit(line, tok, 8);
    entry_errno = 0;
    alarm(20); // no call of a scripted case may wait for anything (the real-thread cases set their own limit)
    if (n > 0 && tok[0][0] == '@') {
      entry_errno = atoi(tok[0] + 1);
      --n;
      memmove(tok, tok + 1, (size_t)n * sizeof(tok[0]));
    }
    if (n == 3 && !strcmp(tok[0], "I")) {
      case_interleaved(tok);
    } else if (n == 5 && !strcmp(tok[0], "S")) {
      case_scripted(tok);
    } else if (n == 2 && !strcmp(tok[0], "J")) {
      case_join(tok);
    } else if (n == 5 && !strcmp(tok[0], "T")) {
      run_real((size_t)strtoull(tok[1], NULL, 10), atoi(tok[2]), atol(tok[3]), tok[4][0] == 'r', 0);
    } else if (n == 2 && !strcmp(tok[0], "U")) {
      run_real((size_t)strtoull(tok[1], NULL, 10), 1, 0, 0, 1);
    } else {
      puts("?");
    }
  }
  free(line);
  return 0;
}
