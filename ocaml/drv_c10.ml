(* C10 model driver.  cases:
     P <hex>   a path string (hex bytes, "-" = empty)   -> the 8 decomposition views + 10 queries
     N         the NULL pointer                          -> the 10 queries
     Q <hex1> <hex2>  the same buffer holding first string 1 then string 2: the record of each
   line:  rn= rd= rp= rel= par= fn= st= ex= q=<bits> in=<bits> || rn=<view> ... ex=<view>
   rn/rel/fn/st/ex are texts (hex); rd/rp/par are PATHS, printed canonically: "/" if there is a root
   directory, then the elements joined by "/" (hex).  The M line's canonical form is the extracted
   spec function as_path applied to the model's view text. *)
module String = Stdlib.String
module List = Stdlib.List
module Array = Stdlib.Array
module Char = Stdlib.Char
module Printf = Stdlib.Printf
open Zutil
open PathDecModel

let hex (l : BinNums.coq_Z list) = hex_of_bytes (List.map int_of_z l)

let canon ((root, elems) : bool * BinNums.coq_Z list list) =
  let sep = z_of_int 47 in
  let rec join = function [] -> [] | [e] -> e | e :: r -> e @ (sep :: join r) in
  hex ((if root then [sep] else []) @ join elems)

let bits l = String.concat "" (List.map (fun b -> if b then "1" else "0") l)

let show_res f = function Ok a -> f a | Oob -> "OOB" | NoFuel -> "NOFUEL"

let view_str = function
  | StaticEmpty -> "static"
  | InInput (o, l) -> Printf.sprintf "%d+%d" (int_of_z o) (int_of_z l)

let in_bit len = function
  | Ok StaticEmpty -> "1"
  | Ok (InInput (o, l)) ->
    let o = int_of_z o and l = int_of_z l in
    if l = 0 || (l > 0 && o >= 0 && o + l <= len) then "1" else "0"
  | _ -> "0"

(* one record for a string: (model observable, model structural, spec observable) *)
let record (s : BinNums.coq_Z list) =
  let len = List.length s in
  let views = [ zix_path_root_name s; zix_path_root_directory s; zix_path_root_path s;
                zix_path_relative_path s; zix_path_parent_path s; zix_path_filename s;
                zix_path_stem s; zix_path_extension s ] in
  let text v = show_res (fun v -> hex (view_text s v)) v in
  let path v = show_res (fun v -> canon (PathDecSpec.as_path (view_text s v))) v in
  let names = ["rn"; "rd"; "rp"; "rel"; "par"; "fn"; "st"; "ex"] in
  let kinds = [text; path; path; text; path; text; text; text] in
  let obs = List.map2 (fun (n, k) v -> n ^ "=" ^ k v) (List.combine names kinds) views in
  let q = show_res bits (zix_queries (Some s)) in
  let inb = String.concat "" (List.map (in_bit len) views) in
  let st = List.map2 (fun n v -> n ^ "=" ^ show_res view_str v) names views in
  let m_obs = Printf.sprintf "%s q=%s in=%s" (String.concat " " obs) q inb in
  let m_st = String.concat " " st in
  let open PathDecSpec in
  let s_obs = Printf.sprintf "rn=%s rd=%s rp=%s rel=%s par=%s fn=%s st=%s ex=%s q=%s in=11111111"
      (hex (std_root_name s)) (canon (as_path (std_root_directory s))) (canon (as_path (std_root_path s)))
      (hex (std_relative_path s)) (canon (std_parent_path s)) (hex (std_filename s))
      (hex (std_stem s)) (hex (std_extension s)) (bits (std_queries s)) in
  (m_obs, m_st, s_obs)

(* W <hex>: the Windows configuration (path.c built with -D_WIN32).  No model of those branches exists: the M line
   is "=" (spec only).  Paths are printed with every separator as '/', runs collapsed (as the driver prints them). *)
let win_record (s : BinNums.coq_Z list) =
  let open PathWinSpec in
  let is_sep c = let c = int_of_z c in c = 47 || c = 92 in
  let sl = z_of_int 47 in
  let rec collapse prev = function
    | [] -> []
    | c :: t -> if is_sep c then (if prev then collapse true t else sl :: collapse true t) else c :: collapse false t in
  let rec join = function [] -> [] | [e] -> e | e :: r -> e @ (sl :: join r) in
  let pth ((rn, rd), elems) = hex (collapse false (rn @ (if rd then [sl] else []) @ join elems)) in
  let rn = win_root_name s and rd = win_has_root_directory s in
  Printf.sprintf "rn=%s rd=%s rp=%s rel=%s par=%s fn=%s st=%s ex=%s q=%s in=11111111"
    (hex rn) (if rd then "2f" else "-") (pth ((rn, rd), [])) (hex (win_relative_path s))
    (pth (win_parent_path s)) (hex (win_filename s)) (hex (win_stem s)) (hex (win_extension s))
    (bits (win_queries s))

let () =
  iter_lines (fun line ->
    match split_ws line with
    | ["W"; h] ->
      Printf.printf "M =\nS %s\n" (win_record (List.map z_of_int (bytes_of_hex h)))
    | ["P"; h] ->
      let (mo, ms, so) = record (List.map z_of_int (bytes_of_hex h)) in
      Printf.printf "M %s || %s\nS %s\n" mo ms so
    | ["Q"; h1; h2] ->
      (* same pointer, buffer rewritten between the calls: each call must answer for the string it sees *)
      let (mo1, ms1, so1) = record (List.map z_of_int (bytes_of_hex h1)) in
      let (mo2, ms2, so2) = record (List.map z_of_int (bytes_of_hex h2)) in
      Printf.printf "M %s %s || %s %s\nS %s %s\n" mo1 mo2 ms1 ms2 so1 so2
    | ["N"] ->
      (* NULL stands for the empty path *)
      Printf.printf "M q=%s\nS q=%s\n" (show_res bits (zix_queries None)) (bits (PathDecSpec.std_queries []))
    | _ -> Printf.printf "M ?\nS ?\n")
