(* C17 model driver (see harness/drv_c17.c for the case syntax).
   M lines: extracted SemModel (wrappers over scripts / over the ideal semaphore).
   S lines: the property evaluated directly — plain integer arithmetic for the deadline, first
   non-EINTR result for the loops, extracted SemSpec (a natural number) for the interleavings. *)
module String = Stdlib.String
module List = Stdlib.List
module Array = Stdlib.Array
module Char = Stdlib.Char
module Printf = Stdlib.Printf
open Zutil

let names = [| "SUCCESS"; "ERROR"; "NO_MEM"; "NOT_FOUND"; "EXISTS"; "BAD_ARG"; "BAD_PERMS"; "REACHED_END";
               "TIMEOUT"; "OVERFLOW"; "NOT_SUPPORTED"; "UNAVAILABLE"; "NO_SPACE"; "MAX_LINKS" |]
let sname s = names.(int_of_z (SemErrnoModel.status_code s))

let kres_of_int n = if n = 0 then SemErrnoModel.KOk else SemErrnoModel.KErr (z_of_int n)
let script_of s = if s = "-" then [] else List.map int_of_string (String.split_on_char ',' s)

(* spec status of a scripted loop: what the property fixes about it *)
let spec_status ints =
  match List.filter (fun e -> e <> 4) ints with
  | [] -> None
  | 0 :: _ -> Some "SUCCESS"
  | 11 :: _ -> Some "UNAVAILABLE"
  | 110 :: _ -> Some "TIMEOUT"
  | _ -> Some "*"

let show_outcome = function
  | SemModel.Returned (s, k) -> Printf.sprintf "st=%s" (sname s), int_of_nat k
  | SemModel.StillWaiting k -> "blocked", int_of_nat k

let op_of_char = function
  | 'P' -> SemModel.OPost | 'W' -> SemModel.OWait | 'Y' -> SemModel.OTry | _ -> SemModel.OTimed
let char_of_op = function
  | SemModel.OPost -> 'P' | SemModel.OWait -> 'W' | SemModel.OTry -> 'Y' | SemModel.OTimed -> 'T'
let sop_of_char = function
  | 'P' -> SemSpec.SPost | 'W' -> SemSpec.SWait | 'Y' -> SemSpec.STry | _ -> SemSpec.STimed
let char_of_sop = function
  | SemSpec.SPost -> 'P' | SemSpec.SWait -> 'W' | SemSpec.STry -> 'Y' | SemSpec.STimed -> 'T'
let sres_name = function
  | SemSpec.RSuccess -> "SUCCESS" | SemSpec.RUnavailable -> "UNAVAILABLE" | SemSpec.RTimeout -> "TIMEOUT"
  | SemSpec.ROther -> "OTHER"

let chars s = List.init (String.length s) (String.get s)
let progs_of s = List.map (fun p -> if p = "-" then [] else chars p) (String.split_on_char '/' s)

let lockstep init progs sched =
  (* model *)
  let st = ref (SemModel.init_sys (nat_of_int init) (List.map (List.map op_of_char) progs)) in
  let toks = ref [] in
  List.iter (fun c ->
    let i = int_of_string (String.sub c 1 (String.length c - 1)) in
    let th s = List.nth_opt s.SemModel.s_threads i in
    match c.[0] with
    | 's' -> st := SemModel.step (SemModel.Sig (nat_of_int i)) !st;
             toks := Printf.sprintf "%d:sig" i :: !toks
    | k ->
      (match th !st with
       | None -> toks := Printf.sprintf "%d:?" i :: !toks
       | Some t0 ->
         let ch = if k = 'x' then SemModel.Expire (nat_of_int i) else SemModel.Run (nat_of_int i) in
         st := SemModel.step ch !st;
         (match t0.SemModel.t_todo with
          | [] -> toks := Printf.sprintf "%d:-" i :: !toks
          | o :: _ ->
            let t1 = match th !st with Some t -> t | None -> t0 in
            if List.length t1.SemModel.t_log > List.length t0.SemModel.t_log then
              let ((_, s), _) = List.nth t1.SemModel.t_log (List.length t1.SemModel.t_log - 1) in
              toks := Printf.sprintf "%d:%c=%s" i (char_of_op o) (sname s) :: !toks
            else toks := Printf.sprintf "%d:%c=sleep" i (char_of_op o) :: !toks))) sched;
  let retries = String.concat "/" (List.map (fun t ->
    match t.SemModel.t_log with
    | [] -> "-"
    | l -> String.concat "." (List.map (fun (_, r) -> string_of_int (int_of_nat r)) l)) !st.SemModel.s_threads) in
  let m = Printf.sprintf "%s count=%d || retries=%s" (String.concat " " (List.rev !toks))
      (int_of_nat !st.SemModel.s_count) retries in
  (* spec *)
  let sp = ref (SemSpec.spec_init (nat_of_int init) (List.map (List.map sop_of_char) progs)) in
  let stoks = ref [] in
  List.iter (fun c ->
    let i = int_of_string (String.sub c 1 (String.length c - 1)) in
    let th s = List.nth_opt s.SemSpec.sp_threads i in
    match c.[0] with
    | 's' -> stoks := Printf.sprintf "%d:sig" i :: !stoks
    | k ->
      (match th !sp with
       | None -> stoks := Printf.sprintf "%d:?" i :: !stoks
       | Some t0 ->
         sp := SemSpec.spec_step (SemSpec.SRun (nat_of_int i, k = 'x')) !sp;
         (match t0.SemSpec.st_todo with
          | [] -> stoks := Printf.sprintf "%d:-" i :: !stoks
          | o :: _ ->
            let t1 = match th !sp with Some t -> t | None -> t0 in
            if List.length t1.SemSpec.st_done > List.length t0.SemSpec.st_done then
              let (_, r) = List.nth t1.SemSpec.st_done (List.length t1.SemSpec.st_done - 1) in
              stoks := Printf.sprintf "%d:%c=%s" i (char_of_sop o) (sres_name r) :: !stoks
            else stoks := Printf.sprintf "%d:%c=sleep" i (char_of_sop o) :: !stoks))) sched;
  let s = Printf.sprintf "%s count=%d" (String.concat " " (List.rev !stoks)) (int_of_nat !sp.SemSpec.sp_count) in
  (m, s)

(* free-running smoke run: the model under a round-robin schedule until nobody can move *)
let smoke init np posts nw waits ny tries =
  let rep n x = List.init n (fun _ -> x) in
  let progs =
    List.init nw (fun i -> rep waits (if i mod 2 = 1 then SemModel.OTimed else SemModel.OWait))
    @ List.init np (fun _ -> rep posts SemModel.OPost) in
  (* tryers hand back what they take: they do not change the totals and are left out of the model run *)
  ignore ny; ignore tries;
  let n = List.length progs in
  let st = ref (SemModel.init_sys (nat_of_int init) progs) in
  let total = nw * waits + np * posts in
  for _ = 1 to total + 1 do
    for i = 0 to n - 1 do st := SemModel.step (SemModel.Run (nat_of_int i)) !st done
  done;
  let stuck = List.exists (fun t -> t.SemModel.t_todo <> []) !st.SemModel.s_threads in
  Printf.sprintf "succ=%d left=%d neg=0 errs=0%s" (int_of_nat (SemModel.takes !st))
    (int_of_nat !st.SemModel.s_count) (if stuck then " stuck" else "")

let () =
  iter_lines (fun line ->
    (* a leading @<n> sets errno before the calls under test: neither model nor spec depends on it *)
    let toks = match split_ws line with
      | t :: rest when String.length t > 0 && t.[0] = '@' -> rest
      | l -> l in
    match toks with
    | ["E"; n] ->
      let e = int_of_string n in
      let m = sname (SemErrnoModel.errno_status (z_of_int e)) in
      let s = match e with 0 -> "st=SUCCESS" | 11 -> "st=UNAVAILABLE" | 110 -> "st=TIMEOUT" | _ -> "*" in
      Printf.printf "M st=%s\nS %s\n" m s
    | [("W" | "Y") as k; scr] ->
      let ints = script_of scr in
      let script = List.map kres_of_int ints in
      let out = if k = "W" then SemModel.wait_model script else SemModel.try_wait_model script in
      let (txt, calls) = show_outcome out in
      let s = match spec_status ints with None -> "blocked" | Some "*" -> "*" | Some x -> "st=" ^ x in
      Printf.printf "M %s || calls=%d unexp=-\nS %s\n" txt calls s
    | "D" :: clk :: now_s :: now_ns :: s :: ns :: scr :: _ ->
      (* an optional last field is the real count of the semaphore: the prescribed calls do not depend on it *)
      let ints = script_of scr in
      let script = List.map kres_of_int ints in
      let (out, dl) = SemModel.timed_wait_model (kres_of_int (int_of_string clk))
          (z_of_string now_s) (z_of_string now_ns) (z_of_string s) (z_of_string ns) script in
      let (txt, calls) = show_outcome out in
      let dltxt = match dl with
        | None -> "-" | Some (a, b) -> Printf.sprintf "%s.%s" (string_of_z a) (string_of_z b) in
      (* spec: plain arithmetic (all values fit OCaml's 63-bit int for the generated ranges) *)
      let sst, sdl =
        if int_of_string clk <> 0 then "*", "-"
        else begin
          let total = int_of_string now_ns + int_of_string ns in
          let sec = int_of_string now_s + int_of_string s + total / 1_000_000_000 in
          (match spec_status ints with None -> "blocked" | Some "*" -> "*" | Some x -> "st=" ^ x),
          Printf.sprintf "%d.%d" sec (total mod 1_000_000_000)
        end in
      (* every sem_timedwait call of one wait gets the same deadline, computed from the first clock reading
         (model: eintr_retried; spec: TIMEOUT is due at the ORIGINAL deadline however often the wait is interrupted) *)
      let same = if dl = None then "-" else "1" in
      Printf.printf "M %s dl=%s same=%s || calls=%d clk=1/0 unexp=-\nS %s dl=%s same=%s\n" txt dltxt same calls sst sdl same
    | ["I"; init; progs; sched] ->
      let (m, s) = lockstep (int_of_string init) (progs_of progs) (String.split_on_char ',' sched) in
      Printf.printf "M %s\nS %s\n" m s
    | ["K"; init; np; posts; nw; waits; ny; tries] ->
      let i = int_of_string in
      let m = smoke (i init) (i np) (i posts) (i nw) (i waits) (i ny) (i tries) in
      let w = i nw * i waits and p = i np * i posts in
      let s = if w <= i init + p then Printf.sprintf "succ=%d left=%d neg=0 errs=0" w (i init + p - w) else "*" in
      Printf.printf "M %s\nS %s\n" m s
    | ["N"; r; _] ->
      let st = sname (SemModel.post_model (kres_of_int (int_of_string r))) in
      Printf.printf "M st=%s || posts=1 unexp=-\nS %s\n" st (if int_of_string r = 0 then "st=SUCCESS" else "*")
    | ["V"; v; n] ->
      (* the wrappers over the ideal semaphore, one call at a time (no logs: a million operations) *)
      let v = int_of_string v and n = int_of_string n in
      let rec mk acc k = if k = 0 then acc else mk (Datatypes.S acc) (k - 1) in
      let count = ref (mk Datatypes.O v) and bad = ref 0 in
      for _ = 1 to n do
        match SemModel.kernel_call SemModel.OPost !count false with
        | Some (c, r) ->
          count := c;
          (match SemModel.wrapper SemModel.OPost r with
           | SemModel.Ret s when sname s = "SUCCESS" -> () | _ -> incr bad)
        | None -> incr bad
      done;
      let taken = ref 0 and last = ref "none" and go = ref true in
      while !go do
        match SemModel.kernel_call SemModel.OTry !count false with
        | Some (c, r) ->
          count := c;
          (match SemModel.wrapper SemModel.OTry r with
           | SemModel.Ret s -> last := sname s; if !last = "SUCCESS" then incr taken else go := false
           | SemModel.Again -> ())
        | None -> go := false
      done;
      Printf.printf "M bad_posts=%d taken=%d then=%s\nS bad_posts=0 taken=%d then=UNAVAILABLE\n" !bad !taken !last (v + n)
    | ["Z"; _; _] ->
      (* sleeping timed waiter, signalled again and again, then its deadline passes *)
      let open SemModel in
      let st = run [Run O; Sig O; Sig O; Sig O; Expire O] (init_sys O [[OTimed]]) in
      let res = match (List.hd st.s_threads).t_log with ((_, s), _) :: _ -> sname s | [] -> "none" in
      Printf.printf "M st=%s early=0 late=0\nS st=TIMEOUT early=0 late=0\n" res
    | ["Q"; _] ->
      (* the competitor's try_wait takes the only unit, then the timed wait expires on a zero count *)
      let open SemModel in
      let st = run [Run (S O); Expire O] (init_sys (S O) [[OTimed]; [OTry]]) in
      let res i = match (List.nth st.s_threads i).t_log with ((_, s), _) :: _ -> sname s | [] -> "none" in
      let sp = SemSpec.spec_run [SemSpec.SRun (S O, false); SemSpec.SRun (O, true)]
          (SemSpec.spec_init (S O) [[SemSpec.STimed]; [SemSpec.STry]]) in
      let sres i = match (List.nth sp.SemSpec.sp_threads i).SemSpec.st_done with
        | (_, r) :: _ -> sres_name r | [] -> "none" in
      Printf.printf "M st=%s try=%s late=0\nS st=%s try=%s late=0\n" (res 0) (res 1) (sres 0) (sres 1)
    | ["R"; _; _; post] ->
      let open SemModel in
      let st =
        if post = "-" then run [Expire O] (init_sys O [[OTimed]])
        else run [Run O; Run (S O); Run O; Expire O] (init_sys O [[OTimed]; [OPost]]) in
      let res = match (List.hd st.s_threads).t_log with
        | ((_, s), _) :: _ -> sname s | [] -> "none" in
      Printf.printf "M st=%s early=0 late=0\nS st=%s early=0 *\n" res (if post = "-" then "TIMEOUT" else "SUCCESS")
    | _ -> Printf.printf "M ?\nS ?\n")
