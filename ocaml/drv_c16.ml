(* C16 model driver.  case:  <env> <alloc> <input>
     env   = n (environ == NULL) | e:<entry>,<entry>,...   (every entry followed by ',')
     alloc = d (NULL allocator = default) | a:<T|F>*        (answers of the tracking allocator, then all succeed)
     input = s:<bytes>
   bytes are percent-encoded (33..126 except '%' and ',' literal).
   output: out=s:<bytes> | out=NULL | out=HANG | out=BADREAD   [ || log=<events> ]  *)
module String = Stdlib.String
module List = Stdlib.List
module Array = Stdlib.Array
module Char = Stdlib.Char
module Printf = Stdlib.Printf
module Buffer = Stdlib.Buffer
open Zutil

let dec (s : string) : int list =
  let n = String.length s in
  let rec go i acc =
    if i >= n then List.rev acc
    else if s.[i] = '%' && i + 2 <= n - 1 then
      go (i + 3) (int_of_string ("0x" ^ String.sub s (i + 1) 2) :: acc)
    else go (i + 1) (Char.code s.[i] :: acc) in
  go 0 []

let enc (l : int list) : string =
  let b = Buffer.create 16 in
  List.iter (fun c ->
    if c > 32 && c < 127 && c <> 37 && c <> 44 then Buffer.add_char b (Char.chr c)
    else Buffer.add_string b (Printf.sprintf "%%%02X" c)) l;
  Buffer.contents b

let after_prefix p s =
  let lp = String.length p in
  if String.length s >= lp && String.sub s 0 lp = p then Some (String.sub s lp (String.length s - lp)) else None

let zl l = List.map z_of_int l
let il l = List.map int_of_z l

let parse_env t =
  if t = "n" then None
  else match after_prefix "e:" t with
    | None -> failwith "env"
    | Some body ->
      let parts = String.split_on_char ',' body in
      (* every entry is followed by ',', so the last part is the empty remainder *)
      let parts = match List.rev parts with _ :: r -> List.rev r | [] -> [] in
      Some (List.map (fun p -> zl (dec p)) parts)

let idstr = function None -> "-" | Some n -> string_of_int (int_of_nat n)

let show_log log =
  String.concat "," (List.map (function
    | EnvModel.ARealloc (o, sz, n) -> Printf.sprintf "R%s:%d:%s" (idstr o) (int_of_nat sz) (idstr n)
    | EnvModel.AFree p -> Printf.sprintf "F%s" (idstr p)) log)

let () =
  iter_lines (fun line ->
    match split_ws line with
    | [et; at; st] ->
      (try
        let env = parse_env et in
        let input = match after_prefix "s:" st with Some b -> zl (dec b) | None -> failwith "input" in
        let (tracked, oracle) =
          if at = "d" then (false, [])
          else match after_prefix "a:" at with
            | Some b -> (true, List.init (String.length b) (fun i -> b.[i] <> 'F'))
            | None -> failwith "alloc" in
        let m = match EnvModel.expand_run env input oracle with
          | EnvModel.Ok a ->
            let o = match EnvModel.result a with Some d -> "out=s:" ^ enc (il d) | None -> "out=NULL" in
            if tracked then o ^ " || log=" ^ show_log (EnvModel.s_log a) else o
          | EnvModel.OutOfFuel -> "out=HANG"
          | EnvModel.BadRead -> "out=BADREAD" in
        let s =
          if List.mem false oracle then
            (* under allocation failure C16 leaves open WHETHER a string is returned (that is C07), but a string
               that is returned is "the input with each reference replaced": NULL or the expansion, nothing else *)
            (match EnvSpec.spec_expand env input with
             | Some d -> "out=NULL|s:" ^ enc (il d)
             | None -> "*")
          else match EnvSpec.spec_expand env input with
            | Some d -> "out=s:" ^ enc (il d)
            | None -> "*" in
        Printf.printf "M %s\nS %s\n" m s
      with Failure _ -> Printf.printf "M ?\nS ?\n")
    | _ -> Printf.printf "M ?\nS ?\n")
