(* C07/C08 oracle + model driver (extracted FaultSpec / AllocModel).  Input lines:
     T <dup 0|1> <op:report ...>      tolerant container spec from the empty container
                                      e.g.  T 0 i5:SUCCESS r5:NO_MEM=5 f3:NOT_FOUND c:SUCCESS
                                      -> "T OK <k,k,...>" | "T FAIL <index of the first disallowed report>"
     L <event ...>                    log_ok on an allocator trace (A<id>:<p|a> / F<id>:<p|a>) -> "L OK" | "L FAIL"
     G <fn> <oracle bits> [args]      model trace of a fixed-pattern function -> "G <events>" *)
module String = Stdlib.String
module List = Stdlib.List
module Array = Stdlib.Array
module Char = Stdlib.Char
module Printf = Stdlib.Printf
open Zutil
open FaultSpec

let status_of = function
  | "SUCCESS" -> Success | "EXISTS" -> Exists | "NOT_FOUND" -> NotFound | "NO_MEM" -> NoMem | _ -> OtherStatus

let parse_pair tok =
  (* i5:SUCCESS=5 *)
  let i = String.index tok ':' in
  let o = String.sub tok 0 i and r = String.sub tok (i + 1) (String.length tok - i - 1) in
  let op = match o.[0] with
    | 'i' -> Ins (z_of_int (int_of_string (String.sub o 1 (String.length o - 1))))
    | 'r' -> Rem (z_of_int (int_of_string (String.sub o 1 (String.length o - 1))))
    | 'f' -> Find (z_of_int (int_of_string (String.sub o 1 (String.length o - 1))))
    | _ -> Clear in
  let st, out = match String.index_opt r '=' with
    | Some j -> String.sub r 0 j, Some (z_of_int (int_of_string (String.sub r (j + 1) (String.length r - j - 1))))
    | None -> r, None in
  op, { r_status = status_of st; r_out = out }

let kind_of c = if c = 'a' then Aligned else Plain
let parse_event tok =
  (* A3:p  or A3:p:64 (size ignored) or F3:p *)
  let parts = String.split_on_char ':' tok in
  let hd = List.hd parts in
  let id = nat_of_int (int_of_string (String.sub hd 1 (String.length hd - 1))) in
  let k = kind_of (List.nth parts 1).[0] in
  if hd.[0] = 'A' then EAlloc (Caller, k, id) else EFree (Caller, k, id)

let show_event = function
  | EAlloc (_, k, id) -> Printf.sprintf "A%d:%c" (int_of_nat id) (match k with Plain -> 'p' | Aligned -> 'a')
  | EFree (_, k, id) -> Printf.sprintf "F%d:%c" (int_of_nat id) (match k with Plain -> 'p' | Aligned -> 'a')

let show_log l = if l = [] then "-" else String.concat " " (List.map show_event l)

let oracle_of bits = List.init (String.length bits) (fun i -> bits.[i] = '1')

let () =
  iter_lines (fun line ->
    match split_ws line with
    | "T" :: dup :: pairs ->
      let prs = List.map parse_pair pairs in
      (* run step by step to report the index of the first disallowed report *)
      let rec go s i = function
        | [] -> Printf.printf "T OK %s\n" (if s = [] then "-" else String.concat "," (List.map (fun z -> string_of_int (int_of_z z)) s))
        | (o, r) :: rest ->
          (match tol_run (dup = "1") s [o] [r] with
           | Some s' -> go s' (i + 1) rest
           | None -> Printf.printf "T FAIL %d\n" i) in
      go [] 0 prs
    | "L" :: evs ->
      let evs = List.filter (fun e -> e <> "-") evs in
      Printf.printf "L %s\n" (if log_ok (List.map parse_event evs) [] then "OK" else "FAIL")
    | "D" :: reqs ->
      (* default allocator: requests m<size> c<n>x<size> r<blk>:<size> f<blk> a<al>:<size> F<blk> -> libc calls *)
      let num s = z_of_int (int_of_string s) in
      let after c s = let i = String.index s c in String.sub s (i + 1) (String.length s - i - 1) in
      let before c s = let i = String.index s c in String.sub s 1 (i - 1) in
      let rest s = String.sub s 1 (String.length s - 1) in
      let parse r = match r.[0] with
        | 'm' -> Some (AllocModel.DMalloc (num (rest r)))
        | 'c' -> Some (AllocModel.DCalloc (num (before 'x' r), num (after 'x' r)))
        | 'r' -> Some (AllocModel.DRealloc (nat_of_int (int_of_string (before ':' r)), num (after ':' r)))
        | 'f' -> Some (AllocModel.DFree (nat_of_int (int_of_string (rest r))))
        | 'a' -> Some (AllocModel.DAlignedAlloc (num (before ':' r), num (after ':' r)))
        | 'F' -> Some (AllocModel.DAlignedFree (nat_of_int (int_of_string (rest r))))
        | _ -> None in
      let rs = List.filter_map parse reqs in
      let show = function
        | AllocModel.LMalloc n -> Printf.sprintf "malloc(%s)" (string_of_z n)
        | AllocModel.LCalloc (n, s) -> Printf.sprintf "calloc(%s;%s)" (string_of_z n) (string_of_z s)
        | AllocModel.LRealloc (b, n) -> Printf.sprintf "realloc(#%d;%s)" (int_of_nat b) (string_of_z n)
        | AllocModel.LFree b -> Printf.sprintf "free(#%d)" (int_of_nat b)
        | AllocModel.LPosixMemalign (a, n) -> Printf.sprintf "posix_memalign(%s;%s)" (string_of_z a) (string_of_z n) in
      let tr = List.map show (AllocModel.default_trace rs) in
      Printf.printf "D %s\n" (if tr = [] then "-" else String.concat "," tr)
    | "G" :: fn :: bits :: args ->
      let s0 = AllocModel.ast0 (oracle_of (if bits = "-" then "" else bits)) in
      let l = match fn with
        | "ring" -> (match AllocModel.ring_new s0 with
            | (Some rb, s) -> AllocModel.log (AllocModel.ring_free rb s)
            | (None, s) -> AllocModel.log s)
        | "one" -> let (r, s) = AllocModel.one_block s0 in AllocModel.log (AllocModel.caller_free r s)
        | "mkdirs" -> let (_, s) = AllocModel.create_directories s0 in AllocModel.log s
        | "chain" -> let n = int_of_string (List.hd args) in
          let (r, s) = AllocModel.realloc_chain (nat_of_int n) None s0 in AllocModel.log (AllocModel.caller_free r s)
        | "copyblk" -> AllocModel.log (AllocModel.copy_file_block s0)
        | "equals" -> AllocModel.log (AllocModel.file_equals_blocks s0)
        | "tree" ->
          let ops = List.map (fun a -> if a = "i" then AllocModel.TIns
                                else AllocModel.TRem (nat_of_int (int_of_string (String.sub a 1 (String.length a - 1))))) args in
          AllocModel.tree_life (oracle_of (if bits = "-" then "" else bits)) ops
        | _ -> [] in
      Printf.printf "G %s\n" (show_log l)
    | _ -> print_endline "?")
