(* C19 model driver (see harness/drv_c19.c for the case syntax).
   M lines: extracted LockModel (wrapper over the ideal flock).  S lines: extracted LockSpec (option owner). *)
module String = Stdlib.String
module List = Stdlib.List
module Array = Stdlib.Array
module Char = Stdlib.Char
module Printf = Stdlib.Printf
open Zutil

let names = [| "SUCCESS"; "ERROR"; "NO_MEM"; "NOT_FOUND"; "EXISTS"; "BAD_ARG"; "BAD_PERMS"; "REACHED_END";
               "TIMEOUT"; "OVERFLOW"; "NOT_SUPPORTED"; "UNAVAILABLE"; "NO_SPACE"; "MAX_LINKS" |]
let sname s = names.(int_of_z (SemErrnoModel.status_code s))

let flag_names f =
  let l = List.filter_map (fun (b, n) -> if f land b <> 0 then Some n else None)
      [ (1, "SH"); (2, "EX"); (8, "UN"); (4, "NB") ] in
  if l = [] then "0" else String.concat "|" l

let lop_of_char = function
  | 't' -> Some (LockModel.LLock LockModel.TRY) | 'b' -> Some (LockModel.LLock LockModel.BLOCK)
  | 'u' -> Some (LockModel.LUnlock LockModel.TRY) | 'v' -> Some (LockModel.LUnlock LockModel.BLOCK)
  | 'c' -> Some LockModel.LClose | 'o' -> Some LockModel.LOpen | _ -> None
let xop_of_char = function
  | 't' -> Some LockSpec.XTry | 'b' -> Some LockSpec.XBlock | 'u' | 'v' -> Some LockSpec.XUnlock
  | 'c' -> Some LockSpec.XClose | 'o' -> Some LockSpec.XOpen | _ -> None
let flags_of_lop = function
  | LockModel.LLock m -> Some (int_of_z (LockModel.lock_flags m))
  | LockModel.LUnlock m -> Some (int_of_z (LockModel.unlock_flags m))
  | _ -> None
let xres_name = function
  | LockSpec.XSuccess -> "SUCCESS" | LockSpec.XUnavailable -> "UNAVAILABLE" | LockSpec.XOther -> "OTHER"

let parse_tok c = (int_of_string (String.sub c 0 (String.length c - 1)), c.[String.length c - 1])

(* every handle has at most one operation outstanding: the token that starts it puts it in h_todo *)
let lockstep n sched =
  let toks = List.map parse_tok sched in
  let set_nth l i x = List.mapi (fun j y -> if j = i then x else y) l in
  (* model *)
  let st = ref (LockModel.linit (List.init n (fun _ -> []))) in
  let out = ref [] and flags = ref [] and maxocc = ref 0 in
  List.iter (fun (i, c) ->
    match List.nth_opt !st.LockModel.l_handles i with
    | None -> out := Printf.sprintf "%d:?" i :: !out
    | Some h0 ->
      let waiting = h0.LockModel.h_waiting in
      if c = 'r' && not waiting then out := Printf.sprintf "%d:r=idle" i :: !out
      else if c <> 'r' && c <> 's' && waiting then out := Printf.sprintf "%d:%c=busy" i c :: !out
      else if c = 'w' then out := Printf.sprintf "%d:w=SUCCESS" i :: !out   (* writing to the file is not a lock operation *)
      else begin
        (match lop_of_char c with
         | Some o ->
           st := { !st with LockModel.l_handles =
                              set_nth !st.LockModel.l_handles i { h0 with LockModel.h_todo = [o] } }
         | None -> ());
        let ch = if c = 's' then LockModel.LSig (nat_of_int i) else LockModel.LRun (nat_of_int i) in
        st := LockModel.lstep ch !st;
        let h1 = List.nth !st.LockModel.l_handles i in
        let l0 = List.length h0.LockModel.h_log and l1 = List.length h1.LockModel.h_log in
        if l1 > l0 then begin
          let (o, s) = List.nth h1.LockModel.h_log (l1 - 1) in
          out := Printf.sprintf "%d:%c=%s" i c (sname s) :: !out;
          (match flags_of_lop o with Some f -> flags := string_of_int f :: !flags | None -> ())
        end else if c = 's' then out := Printf.sprintf "%d:s" i :: !out
        else out := Printf.sprintf "%d:%c=sleep" i c :: !out
      end;
      let occ = List.length (List.filter (fun x -> x.LockModel.h_believes) !st.LockModel.l_handles) in
      if occ > !maxocc then maxocc := occ) toks;
  let m = Printf.sprintf "%s maxocc=%d viol=%d slow=0 free=%d || flags=%s unexpected=0" (String.concat " " (List.rev !out))
      !maxocc (if !maxocc > 1 then 1 else 0) (if !st.LockModel.l_holder = None then 1 else 0)
      (if !flags = [] then "-" else String.concat "," (List.rev !flags)) in
  (* spec *)
  let sp = ref (LockSpec.spec_lock_init (List.init n (fun _ -> []))) in
  let sout = ref [] in
  List.iter (fun (i, c) ->
    match List.nth_opt !sp.LockSpec.x_handles i with
    | None -> sout := Printf.sprintf "%d:?" i :: !sout
    | Some h0 ->
      let waiting = h0.LockSpec.x_waiting in
      if c = 'r' && not waiting then sout := Printf.sprintf "%d:r=idle" i :: !sout
      else if c <> 'r' && c <> 's' && waiting then sout := Printf.sprintf "%d:%c=busy" i c :: !sout
      else if c = 'w' then sout := Printf.sprintf "%d:w=SUCCESS" i :: !sout
      else begin
        (match xop_of_char c with
         | Some o ->
           sp := { !sp with LockSpec.x_handles =
                              set_nth !sp.LockSpec.x_handles i { h0 with LockSpec.x_todo = [o] } }
         | None -> ());
        let ch = if c = 's' then LockSpec.XInterrupt (nat_of_int i) else LockSpec.XRun (nat_of_int i) in
        sp := LockSpec.spec_lock_step ch !sp;
        let h1 = List.nth !sp.LockSpec.x_handles i in
        let l0 = List.length h0.LockSpec.x_done and l1 = List.length h1.LockSpec.x_done in
        if l1 > l0 then begin
          let (_, r) = List.nth h1.LockSpec.x_done (l1 - 1) in
          (* an abandoned wait: the property only says it must not be reported as success *)
          sout := (if r = LockSpec.XOther then "*" else Printf.sprintf "%d:%c=%s" i c (xres_name r)) :: !sout
        end else if c = 's' then sout := Printf.sprintf "%d:s" i :: !sout
        else sout := Printf.sprintf "%d:%c=sleep" i c :: !sout
      end) toks;
  let s = Printf.sprintf "%s * viol=0 slow=0 free=%d" (String.concat " " (List.rev !sout))
      (if !sp.LockSpec.x_owner = None then 1 else 0) in
  (m, s)

let () =
  iter_lines (fun line ->
    (* a leading @<n> sets errno before the calls under test: neither model nor spec depends on it *)
    let toks = match split_ws line with
      | t :: rest when String.length t > 0 && t.[0] = '@' -> rest
      | l -> l in
    match toks with
    | ["F"; op; mode; rc; e; _] ->   (* the open mode of the FILE plays no role in the prescribed call *)
      let m = if mode = "B" then LockModel.BLOCK else LockModel.TRY in
      let flags = int_of_z (if op = "L" then LockModel.lock_flags m else LockModel.unlock_flags m) in
      let r = if int_of_string rc = 0 then SemErrnoModel.KOk else SemErrnoModel.KErr (z_of_int (int_of_string e)) in
      let st = sname (LockModel.file_lock_status r) in
      let s =
        if int_of_string rc = 0 then "st=SUCCESS"
        else if op = "L" && mode = "T" && int_of_string e = 11 then "st=UNAVAILABLE"
        else "*" in
      (* nb: no flock request made for a TRY call may sleep (LockModel.lock_flags TRY carries LOCK_NB:
         Properties_C19.lock_flags_prescribed), whatever the kernel answered *)
      Printf.printf "M st=%s nb=ok || calls=1 flock(fd,%s)\nS %s nb=ok\n" st (flag_names flags) s
    | ["P"; kinds; sched] ->
      let (m, s) = lockstep (String.length kinds / 2) (String.split_on_char ',' sched) in
      Printf.printf "M %s\nS %s\n" m s
    | _ -> Printf.printf "M ?\nS ?\n")
