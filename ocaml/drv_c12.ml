(* C12 model driver.  cases (strings in hex, "-" = empty, "N" = NULL where allowed):
     J <a> <b>      zix_path_join
     R <path> <base> zix_path_lexically_relative
     P <path>       zix_path_preferred
     I <path>       element iterator trace (zix_path_begin / zix_path_next)
   output per case:  M <observable> || <structural>   and   S <spec> *)
module String = Stdlib.String
module List = Stdlib.List
module Array = Stdlib.Array
module Char = Stdlib.Char
module Printf = Stdlib.Printf
module Buffer = Stdlib.Buffer
open Zutil

let str_of_hex h = List.map z_of_int (bytes_of_hex h)
let hex_of_str s = hex_of_bytes (List.map int_of_z s)
let arg h = if h = "N" then None else Some (str_of_hex h)

let canon (root, elems) =
  (if root then "1:" else "0:") ^ String.concat "," (List.map hex_of_str elems)

let cell_hex c = let v = int_of_z c in if v = 256 then "??" else Printf.sprintf "%02x" v

let structural (b : PathJoinModel.buf) =
  Printf.sprintf "alloc=%s%d block=%s" (if b.PathJoinModel.b_kind then "c" else "m")
    (int_of_z b.PathJoinModel.b_size)
    (String.concat "" (List.map cell_hex b.PathJoinModel.b_cells))

let err = function
  | PathJoinModel.OOB -> "OOB" | PathJoinModel.OOBW -> "OOBW" | PathJoinModel.NoFuel -> "NOFUEL"
  | PathJoinModel.Ok _ -> "?"

let state_name = function
  | PathJoinModel.ROOT_NAME -> "N" | PathJoinModel.ROOT_DIRECTORY -> "D"
  | PathJoinModel.FILE_NAME -> "F" | PathJoinModel.PEND -> "E"

let () =
  iter_lines (fun line ->
    match split_ws line with
    | ["J"; a; b] ->
      let a = arg a and b = arg b in
      let m = match PathJoinModel.zix_path_join a b with
        | PathJoinModel.Ok buf -> Printf.sprintf "join=%s || %s" (hex_of_str (PathJoinModel.buf_text buf)) (structural buf)
        | e -> "join=" ^ err e in
      Printf.printf "M %s\nS join=%s\n" m (hex_of_str (PathJoinSpec.std_join_opt a b))
    | ["R"; p; b] ->
      let p = str_of_hex p and b = str_of_hex b in
      let m = match PathJoinModel.zix_path_lexically_relative p b with
        | PathJoinModel.Ok None -> "rel=NULL || alloc=none"
        | PathJoinModel.Ok (Some buf) ->
          let t = PathJoinModel.buf_text buf in
          Printf.sprintf "rel=%s || text=%s %s" (canon (PathJoinSpec.path_of t)) (hex_of_str t) (structural buf)
        | e -> "rel=" ^ err e in
      let s = match PathJoinSpec.std_relative p b with
        | None -> "rel=NULL"
        | Some es -> "rel=" ^ canon (false, es) in
      Printf.printf "M %s\nS %s\n" m s
    | ["P"; p] ->
      let p = str_of_hex p in
      let m = match PathJoinModel.zix_path_preferred p with
        | PathJoinModel.Ok buf -> Printf.sprintf "pref=%s || %s" (hex_of_str (PathJoinModel.buf_text buf)) (structural buf)
        | e -> "pref=" ^ err e in
      Printf.printf "M %s\nS pref=%s\n" m (hex_of_str (PathJoinSpec.std_preferred p))
    | ["I"; p] ->
      let p = str_of_hex p in
      let b = Buffer.create 64 in
      let show (it : PathJoinModel.iter) =
        let (x, y) = it.PathJoinModel.it_range in
        Buffer.add_string b (Printf.sprintf "%s%d-%d" (state_name it.PathJoinModel.it_state) (int_of_z x) (int_of_z y)) in
      let rec go n r =
        match r with
        | PathJoinModel.Ok it ->
          if Buffer.length b > 0 then Buffer.add_char b ',';
          show it;
          if it.PathJoinModel.it_state = PathJoinModel.PEND || n = 0 then ()
          else go (n - 1) (PathJoinModel.path_next p it)
        | e -> Buffer.add_string b ("," ^ err e) in
      go (List.length p + 3) (PathJoinModel.path_begin p);
      (* the element iterator is internal: the property says nothing about it (structural only) *)
      Printf.printf "M iter || %s\nS iter\n" (Buffer.contents b)
    | _ -> Printf.printf "M ?\nS ?\n")
