(* C03 model driver.  case line:  <hf> <keyoff> <failscript> <op> ...   (see harness/drv_c03.c)
   prints  M <obs tokens> roles=ok || <structural tokens>   from the extracted model (HashModel.step)
   and     S <obs tokens> roles=ok                           from the extracted map spec (HashSpec);
   S is '*' when the fail script contains a failure: the map spec then allows SUCCESS or NO_MEM and
   the check follows the implementation's answers (tools/props/c03.py l1_extra). *)
module String = Stdlib.String
module List = Stdlib.List
module Array = Stdlib.Array
module Char = Stdlib.Char
module Printf = Stdlib.Printf
module Buffer = Stdlib.Buffer
open Zutil
open HashSpec
open HashModel
open HashAllocModel

let st_name = function SUCCESS -> "SUCCESS" | EXISTS -> "EXISTS" | NO_MEM -> "NO_MEM" | NOT_FOUND -> "NOT_FOUND"

let id_of (r : coq_rec) = string_of_int (int_of_z (snd r))
let opt_id nullname = function Some r -> id_of r | None -> nullname

let kref_s = function KOfRec r -> "K" ^ id_of r | KArg _ -> "A"
let ev_s = function
  | EvKeyOf r -> "k(R" ^ id_of r ^ ")"
  | EvHash k -> "h(" ^ kref_s k ^ ")"
  | EvEqual (a, b) -> "e(" ^ kref_s a ^ "," ^ kref_s b ^ ")"
let log_s lg = "[" ^ String.concat ";" (List.map ev_s lg) ^ "]"

let parse_op (t : string) =
  let c = t.[0] in
  let rest = String.sub t 1 (String.length t - 1) in
  let key_id () =
    match String.split_on_char '.' rest with
    | [k; i] -> (z_of_string k, z_of_int (int_of_string i))
    | _ -> failwith "bad op" in
  match c with
  | 'I' -> (c, OInsert (key_id ()))
  | 'A' -> (c, OInsertAt (key_id ()))
  | 'P' -> (c, OPlan (z_of_string rest))
  | 'Q' -> (c, OPlanPre (z_of_string rest))
  | 'F' -> (c, OFind (z_of_string rest))
  | 'G' -> (c, OFindRec (z_of_string rest))
  | 'R' -> (c, ORemove (z_of_string rest))
  | 'X' -> (c, ORemove (z_of_string rest))   (* remove called with the key object and the out-parameter aliased *)
  | 'E' -> (c, OErase (z_of_string rest))
  | 'Z' -> (c, OSize)
  | 'T' -> (c, OIter)
  | _ -> failwith "bad op"

let sorted_ids (l : coq_rec list) =
  let ids = List.sort compare (List.map (fun r -> int_of_z (snd r)) l) in
  if ids = [] then "-" else String.concat "," (List.map string_of_int ids)

(* ---- model line: the instrumented model (HashAllocModel.astep; erasing the block ids gives HashModel.step,
   Properties_C08_hash.hash_alloc_erasure_step); the allocator events are printed in harness/valloc.h's format,
   sizes recomputed here: 64 bytes for the table struct, 16 bytes per slot *)
let model_line hf (from_new : bool) script ops =
  let obs = Buffer.create 256 and str = Buffer.create 256 in
  let add b s = (if Buffer.length b > 0 then Buffer.add_char b ' '); Buffer.add_string b s in
  let roles = ref true in
  let mem = ref [] in           (* printed allocator events, reversed *)
  let seen = ref 0 in           (* events of the log already printed *)
  let flush_mem (a : AllocModel.ast) (slots : BinNums.coq_Z) =
    let l = a.AllocModel.log in
    List.iteri (fun i e ->
        if i >= !seen then
          match e with
          | FaultSpec.EAlloc (_, _, id) ->
            let id = int_of_nat id in
            let size = if id = 0 then 64 else 16 * int_of_z slots in
            mem := Printf.sprintf "A%d:p:%d" id size :: !mem
          | FaultSpec.EFree (_, _, id) -> mem := Printf.sprintf "F%d:p" (int_of_nat id) :: !mem) l;
    seen := List.length l in
  let mem_token () = "mem=" ^ (if !mem = [] then "-" else String.concat "," (List.rev !mem)) in
  let rec go (rs : arstate) (a : AllocModel.ast) = function
    | [] ->
      add obs (if !roles then "roles=ok" else "roles=BAD");
      let a' = afree (fst rs) a in
      flush_mem a' Z0;
      add str (mem_token ())
    | (c, op) :: rest ->
      let cs = String.make 1 c in
      let st0 = (fst rs).a_st in
      let ((x, lg), a') = astep hf rs op a in
      (match x with
       | OutOfFuel -> add obs (cs ^ "=HANG")
       | Undef -> add obs (cs ^ "=UNDEF")
       | Ret (res, rs') ->
         flush_mem a' (fst rs').a_st.h_n;
         if not (roles_okb st0 op lg) then roles := false;
         (match res with
          | RStatus s -> add obs (cs ^ "=" ^ st_name s); add str (log_s lg)
          | RSkipped -> add obs (cs ^ "=skip"); add str "-"
          | RPlan (_, idx, at) ->
            add obs (cs ^ "=" ^ opt_id "null" at);
            add str (string_of_z idx ^ log_s lg)
          | RFind (it, r) ->
            add obs (cs ^ "=" ^ (match it with None -> "end" | Some _ -> opt_id "null" r));
            add str ((match it with None -> string_of_z st0.h_n | Some i -> string_of_z i) ^ log_s lg)
          | RRec r -> add obs (cs ^ "=" ^ opt_id "null" r); add str (log_s lg)
          | RRemoved (s, r) ->
            add obs (cs ^ "=" ^ st_name s ^ ":" ^ opt_id "null" r);
            (* E prints the iterator found first; R does not expose it *)
            if c = 'E' then begin
              let (fi, _) = find hf st0 (match op with OErase k -> k | _ -> Z0) in
              add str ((match fi with Ret i -> string_of_z i | _ -> "?") ^ log_s lg)
            end else add str (log_s lg)
          | RSize z -> add obs (cs ^ "=" ^ string_of_z z); add str "-"
          | RIter l ->
            let recs = List.filter_map snd l in
            let nulls = List.length l - List.length recs in
            let ids = List.sort compare (List.map (fun r -> int_of_z (snd r)) recs) in
            let toks = List.init nulls (fun _ -> "null") @ List.map string_of_int ids in
            add obs (cs ^ "=" ^ (if toks = [] then "-" else String.concat "," toks));
            add str (if l = [] then "-" else
                       String.concat "," (List.map (fun (i, r) -> string_of_z i ^ ":" ^ opt_id "null" r) l)));
         go rs' a' rest) in
  let oracle = if from_new then script else true :: true :: script in
  (match anew (AllocModel.ast0 oracle) with
   | (None, a) -> flush_mem a (z_of_int 4); add obs "new-failed"; add str (mem_token ())
   | (Some h, a) -> flush_mem a (z_of_int 4); go (h, None) a ops);
  Buffer.contents obs ^ " || " ^ Buffer.contents str

(* ---- spec line: the association-list map of HashSpec.v, no allocation failures *)
let spec_line ops =
  let obs = Buffer.create 256 in
  let add s = (if Buffer.length obs > 0 then Buffer.add_char obs ' '); Buffer.add_string obs s in
  let m = ref [] and pend = ref None in
  let insert cs r =
    let (s, m') = spec_insert r !m in
    m := m'; (if s = SUCCESS then pend := None);
    add (cs ^ "=" ^ st_name s) in
  List.iter (fun (c, op) ->
      let cs = String.make 1 c in
      match op with
      | OInsert r -> insert cs r
      | OPlan k | OPlanPre k -> pend := Some k; add (cs ^ "=" ^ opt_id "null" (spec_find k !m))
      | OInsertAt r ->
        (match !pend with
         | Some k when k = fst r -> insert cs r
         | _ -> add (cs ^ "=skip"))
      | OFind k -> add (cs ^ "=" ^ opt_id "end" (spec_find k !m))
      | OFindRec k -> add (cs ^ "=" ^ opt_id "null" (spec_find k !m))
      | ORemove k | OErase k ->
        let (r, m') = spec_remove k !m in
        m := m';
        (match r with
         | Some r -> pend := None; add (cs ^ "=SUCCESS:" ^ id_of r)
         | None -> add (cs ^ "=NOT_FOUND:null"))
      | OSize -> add (cs ^ "=" ^ string_of_z (spec_size !m))
      | OIter -> add (cs ^ "=" ^ sorted_ids !m)) ops;
  add "roles=ok";
  Buffer.contents obs

let () =
  iter_lines (fun line ->
      match split_ws line with
      | hfname :: _off :: script :: ops ->
        (try
           let hf = match hfname with
             | "const" -> hf_const | "id" -> hf_id | "mod4" -> hf_mod4 | "mult" -> hf_mult
             | "special" -> hf_special | _ -> failwith "bad hf" in
           let from_new = String.length script > 0 && script.[0] = 'n' in
           let script = if from_new then String.sub script 1 (String.length script - 1) else script in
           let o = if script = "-" then [] else List.init (String.length script) (fun i -> script.[i] <> '0') in
           let ops = List.map parse_op ops in
           let has_fail = List.exists (fun b -> not b) o in
           Printf.printf "M %s\nS %s\n" (model_line hf from_new o ops) (if has_fail then "*" else spec_line ops)
         with Failure _ | Invalid_argument _ -> Printf.printf "M bad-case\nS *\n")
      | _ -> Printf.printf "M bad-case\nS *\n")
