(* C11 model driver.  A case is the path string in hex ("-" = empty string).
   default mode : per case   M root=<b> elems=<e,..> nf=<b> || t=<hex>
                             S root=<b> elems=<e,..> nf=true
                  (M = faithful model of zix_path_lexically_normal, S = std_normal of the spec)
   canon        : per line (hex of a result string) the observable part  root= elems= nf=
                  computed with the extracted spec functions (used on the implementation's output)
   spec         : per case the hex text of std_normal (compared with libstdc++) *)
module String = Stdlib.String
module List = Stdlib.List
module Array = Stdlib.Array
module Char = Stdlib.Char
module Printf = Stdlib.Printf
open Zutil

let bytes_of_case h = List.map z_of_int (bytes_of_hex h)
let hex_of_zs l = hex_of_bytes (List.map int_of_z l)

let obs (t : BinNums.coq_Z list) =
  let es = PathNormSpec.elems t in
  let e s = if s = [] then "_" else hex_of_zs s in
  Printf.sprintf "root=%b elems=%s nf=%b" (PathNormSpec.has_root t)
    (if es = [] then "-" else String.concat "," (List.map e es))
    (PathNormSpec.is_normal_form t)

let () =
  let mode = if Array.length Sys.argv > 1 then Sys.argv.(1) else "run" in
  iter_lines (fun line ->
    let line = String.trim line in
    match mode with
    | "canon" ->
      if line = "NULL" || String.length line = 0 || line.[0] = 'C' then print_endline line
      else print_endline (obs (bytes_of_case line))
    | "spec" -> print_endline (hex_of_zs (PathNormSpec.std_normal (bytes_of_case line)))
    | _ ->
      let s = bytes_of_case line in
      (match PathNormModel.zix_normal_full s with
       | Some (_, t) -> Printf.printf "M %s || t=%s\n" (obs t) (hex_of_zs t)
       | None -> print_endline "M OUT-OF-FUEL");
      let sp = PathNormSpec.std_normal s in
      Printf.printf "S %s\n" (obs sp))
