(* C05 model driver.  cases:
     H <size> <op> ...   one history on a ring created with zix_ring_new(size)
        ops: w:<hex> write | r:<n> read | p:<n> peek | s:<n> skip | z reset | b begin_write |
             a:<hex> amend_write | c commit_write          (<hex> is "-" for no bytes)
        output: cap=<capacity> then per op <ret>:<bytes delivered>:<read_space>/<write_space>/<capacity>
                then drain=<all stored bytes, read at the end>
     K <size>            capacity of a new ring only (large sizes)
   M line: the extracted model of ring.c.  S line: the byte-queue spec; "*" where the property
   does not say (misuse of the transaction API, sizes outside 1..2^31). *)
module String = Stdlib.String
module List = Stdlib.List
module Array = Stdlib.Array
module Char = Stdlib.Char
module Printf = Stdlib.Printf
module Buffer = Stdlib.Buffer
open Zutil

let zs = string_of_z
let hexz l = hex_of_bytes (List.map int_of_z l)
let unhexz s = List.map z_of_int (bytes_of_hex s)

(* the op alphabet of the Coq model, plus two calls the correspondence also exercises:
   W:<n> / A:<n>  a write / amend of n bytes, n >= the buffer size, answered through RingHuge.huge_step and
                  RingHuge.spec_huge_step (Properties_C05_huge.v: equal to ring_step / spec_step for every source
                  of that length);
   m              zix_ring_mlock: RingHuge.ring_mlock, the identity on the modelled state (the status it returns
                  depends on the platform's RLIMIT_MEMLOCK and is not compared) *)
type xop = Op of RingSpec.op | Huge of bool * BinNums.coq_Z | Mlock

let parse_op tok : xop option =
  let arg () = String.sub tok 2 (String.length tok - 2) in
  let op o = Some (Op o) in
  if tok = "z" then op RingSpec.OReset
  else if tok = "b" then op RingSpec.OBegin
  else if tok = "c" then op RingSpec.OCommit
  else if tok = "m" then Some Mlock
  else if String.length tok >= 3 && tok.[1] = ':' then
    (match tok.[0] with
     | 'w' -> op (RingSpec.OWrite (unhexz (arg ())))
     | 'a' -> op (RingSpec.OAmend (unhexz (arg ())))
     | 'r' -> op (RingSpec.ORead (z_of_string (arg ())))
     | 'p' -> op (RingSpec.OPeek (z_of_string (arg ())))
     | 's' -> op (RingSpec.OSkip (z_of_string (arg ())))
     | 'W' | 'A' ->
       let n = z_of_string (arg ()) in
       if BinInt.Z.ltb (z_of_int 0) n && BinInt.Z.ltb n (z_of_string "4294967296")
       then Some (Huge (tok.[0] = 'A', n)) else None
     | _ -> None)
  else None

let junk = z_of_int 0xA5  (* the C driver's allocator fills fresh blocks with this byte *)

let status_name z = match int_of_z z with 0 -> "ok" | 2 -> "nomem" | n -> "st" ^ string_of_int n

let ret_string (o : xop) ret =
  match o with
  | Mlock | Op RingSpec.OReset | Op RingSpec.OBegin -> "."
  | Huge (true, _) | Op (RingSpec.OAmend _) | Op RingSpec.OCommit -> status_name ret
  | _ -> zs ret

let model_line size ops =
  let b = Buffer.create 256 in
  let st = ref (RingModel.ring_init size (fun _ -> junk)) in
  let spaces rg = Printf.sprintf "%s/%s/%s" (zs (RingModel.ring_read_space rg))
      (zs (RingModel.ring_write_space rg)) (zs (RingModel.ring_capacity rg)) in
  Buffer.add_string b ("cap=" ^ zs (RingModel.ring_capacity (fst !st)));
  List.iter (fun o ->
      let (st', (ret, data)) =
        match o with
        | Huge (amend, n) ->
          (* theorem huge_request_model applies only to n >= buffer size *)
          if BinInt.Z.leb (RingModel.size (fst !st)) n then RingHuge.huge_step !st amend
          else failwith "huge request smaller than the buffer"
        | Mlock -> RingHuge.ring_mlock !st
        | Op o -> RingModel.ring_step !st o in
      st := st';
      Buffer.add_string b (Printf.sprintf " %s:%s:%s" (ret_string o ret) (hexz data) (spaces (fst st'))))
    ops;
  let rg = fst !st in
  let (_, d) = RingModel.ring_peek rg (RingModel.ring_read_space rg) in
  Buffer.add_string b (" drain=" ^ hexz d);
  Buffer.contents b

(* the spec line.  Beyond spec_step = None, two situations are left open ("*") because the
   property text does not decide them:
   - an amend that does not fit the room the transaction got at begin but would fit the space
     freed by reads since then;
   - a commit after an amend of the same transaction failed (the header forbids it). *)
let spec_line size ops =
  let in_range = BinInt.Z.leb (z_of_int 1) size && BinInt.Z.leb size (z_of_string "2147483648") in
  if not in_range then "*" else begin
    let cap = RingSpec.spec_capacity size in
    let b = Buffer.create 256 in
    Buffer.add_string b ("cap=" ^ zs cap);
    let st = ref RingSpec.spec_init in
    let open_ = ref false in      (* the rest of the history is unconstrained *)
    let tx_failed = ref false in
    List.iter (fun o ->
        if not !open_ then begin
          (match o with
           | Op RingSpec.OBegin -> tx_failed := false
           | Op RingSpec.OCommit -> if !tx_failed then open_ := true
           | Huge (true, _) -> tx_failed := true
           | Op (RingSpec.OAmend src) ->
             (match !st.RingSpec.stx with
              | Some (p, room) ->
                let total = BinInt.Z.add (RingSpec.len p) (RingSpec.len src) in
                let free_now = BinInt.Z.sub cap (RingSpec.len !st.RingSpec.sq) in
                if BinInt.Z.ltb room total then begin
                  tx_failed := true;
                  if BinInt.Z.leb total free_now then open_ := true
                end
              | None -> ())
           | _ -> ())
        end;
        if not !open_ then
          (match (match o with
                  | Huge (amend, n) ->
                    if BinInt.Z.ltb cap n then RingHuge.spec_huge_step !st amend
                    else failwith "huge request not above the capacity"
                  | Mlock -> Some (!st, (z_of_int 0, []))      (* the property: the stored bytes are untouched *)
                  | Op o -> RingSpec.spec_step cap !st o) with
           | None -> open_ := true
           | Some (st', (ret, data)) ->
             st := st';
             let n = RingSpec.len st'.RingSpec.sq in
             Buffer.add_string b (Printf.sprintf " %s:%s:%s/%s/%s" (ret_string o ret) (hexz data)
                                    (zs n) (zs (BinInt.Z.sub cap n)) (zs cap)));
        if !open_ then Buffer.add_string b " *")
      ops;
    Buffer.add_string b (if !open_ then " *" else " drain=" ^ hexz !st.RingSpec.sq);
    Buffer.contents b
  end

let () =
  iter_lines (fun line ->
      match split_ws line with
      | "H" :: size :: toks ->
        let ops = List.map parse_op toks in
        if List.mem None ops then Printf.printf "M ?\nS ?\n"
        else begin
          let ops = List.map (function Some o -> o | None -> assert false) ops in
          let size = z_of_string size in
          (try Printf.printf "M %s\nS %s\n" (model_line size ops) (spec_line size ops)
           with Failure _ -> Printf.printf "M ?\nS ?\n")
        end
      | ["K"; size] ->
        let size = z_of_string size in
        let m = RingModel.u32 (BinInt.Z.sub (RingModel.next_power_of_two size) (z_of_int 1)) in
        let in_range = BinInt.Z.leb (z_of_int 1) size && BinInt.Z.leb size (z_of_string "2147483648") in
        Printf.printf "M cap=%s\nS %s\n" (zs m)
          (if in_range then "cap=" ^ zs (RingSpec.spec_capacity size) else "*")
      | _ -> Printf.printf "M ?\nS ?\n")
