(* C13 model driver.  One case per line:
     <fn> <seed> <hex|-> <off> <kind> <arg>
   fn   : d32 d64 dn (general variants)  a32 a64 an (aligned variants)
   off  : offset of the buffer from an 8-aligned address (0..7)
   kind : -  (arg ignored)          plain digest
          A <off2>                  same bytes at another offset          -> "rel same" demanded
          S <seed2>                 another seed                          -> "rel diff" demanded
          B <idx>:<hex>             bytes idx*w.. replaced by <hex> (one block or the tail, other content)
                                                                           -> "rel diff" demanded
          Z <j>                     j zero bytes appended                  -> "rel diff" demanded when the
                                    extension stays inside one block (known finding C13-J4: see below)
   output: h=<decimal digest>[ rel same|diff]
   M line: the code-shaped model (DigestModel) run on a memory in which the buffer sits at address
           4096+off and every other address reads 0xAA.
   S line: the reference transcription (DigestSpec.fasthash64 / murmur3_32) of the byte list. *)
module String = Stdlib.String
module List = Stdlib.List
module Array = Stdlib.Array
module Char = Stdlib.Char
module Printf = Stdlib.Printf
open Zutil

let zl l = List.map z_of_int l
let base off = z_of_int (4096 + off)
let junk = z_of_int 0xAA

let word fn = match fn with "d32" | "a32" -> 4 | _ -> 8
let aligned fn = match fn with "a32" | "a64" | "an" -> true | _ -> false

exception Bad

(* decimal string of an unsigned value below 2^bits (no sign, no leading zeros beyond "0") *)
let check_seed w s =
  let bound = if w = 4 then "4294967295" else "18446744073709551615" in
  let ok = s <> "" && String.for_all (fun c -> c >= '0' && c <= '9') s
           && (String.length s < String.length bound
               || (String.length s = String.length bound && String.compare s bound <= 0)) in
  if not ok then raise Bad

(* code-shaped model *)
let model fn seed bytes off =
  let n = List.length bytes in
  let len = z_of_int n in
  let mem () = DigestModel.mem_of junk (base off) (zl bytes) in
  match fn with
  | "d64" -> DigestModel.digest64_at (mem ()) seed (base off) len
  | "d32" -> DigestModel.digest32_at (mem ()) seed (base off) len
  | "dn" -> DigestModel.digest_at (mem ()) seed (base off) len
  | "a64" | "an" | "a32" ->
    let w = word fn in
    if n mod w <> 0 || off mod w <> 0 then raise Bad;
    let ws = DigestModel.words_of_bytes (nat_of_int w) (nat_of_int (n / w)) (zl bytes) in
    (match fn with
     | "a64" -> DigestModel.digest64_aligned seed ws
     | "an" -> DigestModel.digest_aligned seed ws
     | _ -> DigestModel.digest32_aligned seed ws)
  | _ -> raise Bad

(* reference *)
let spec fn seed bytes =
  match fn with
  | "d32" | "a32" -> DigestSpec.murmur3_32 seed (zl bytes)
  | _ -> DigestSpec.fasthash64 seed (zl bytes)

let rec replace l pos r = (* replace |r| elements of l starting at pos *)
  match l, r with
  | _, [] -> l
  | [], _ -> raise Bad
  | x :: t, y :: r' -> if pos = 0 then y :: replace t 0 r' else x :: replace t (pos - 1) r

let () =
  iter_lines (fun line ->
    try
      match split_ws line with
      | [fn; seed_s; hex; off_s; kind; arg] ->
        let bytes = bytes_of_hex hex in
        let n = List.length bytes in
        let off = int_of_string off_s in
        let w = word fn in
        if off < 0 || off > 7 then raise Bad;
        check_seed w seed_s;
        let seed = z_of_string seed_s in
        let m1 = model fn seed bytes off and s1 = spec fn seed bytes in
        let second, demanded =
          match kind with
          | "-" -> None, ""
          | "A" -> let off2 = int_of_string arg in
            if off2 < 0 || off2 > 7 then raise Bad;
            Some (seed, bytes, off2), "same"
          | "S" -> if arg = seed_s then raise Bad;
            check_seed w arg;
            if z_of_string arg = seed then raise Bad;
            Some (z_of_string arg, bytes, off), "diff"
          | "B" ->
            (match String.split_on_char ':' arg with
             | [idx; bh] ->
               let idx = int_of_string idx and nb = bytes_of_hex bh in
               let pos = idx * w in
               let ln = List.length nb in
               (* a full block, or exactly the tail *)
               if pos < 0 || pos >= n || ln = 0 then raise Bad;
               if not (ln = w && pos + w <= n || (pos + ln = n && ln < w)) then raise Bad;
               let b2 = replace bytes pos nb in
               if b2 = bytes then raise Bad;
               Some (seed, b2, off), "diff"
             | _ -> raise Bad)
          | "Z" -> let j = int_of_string arg in
            if j <= 0 || j > 64 || aligned fn then raise Bad;
            (* the property text: zero-extension within a block always changes the result.  Proved:
               length_sensitive32, length_sensitive64, length_sensitive64_boundary_partial; the remaining
               class (64-bit, n mod 8 = 0, j = 4) is demanded too -- the one known collision there is the
               recorded finding C13-J4 (length_sensitive64_boundary_refuted).  Extensions that cross a
               block boundary are outside the property: nothing demanded. *)
            let same_block = n / w = (n + j) / w in
            Some (seed, bytes @ List.init j (fun _ -> 0), off), (if same_block then "diff" else "*")
          | _ -> raise Bad in
        (match second with
         | None -> Printf.printf "M h=%s\nS h=%s\n" (string_of_z m1) (string_of_z s1)
         | Some (sd2, b2, off2) ->
           let m2 = model fn sd2 b2 off2 in
           Printf.printf "M h=%s rel %s\nS h=%s rel %s\n" (string_of_z m1)
             (if m1 = m2 then "same" else "diff") (string_of_z s1) demanded)
      | _ -> raise Bad
    with Bad | Failure _ | Invalid_argument _ -> Printf.printf "M bad-case\nS bad-case\n")
