(* C15 model driver; case formats: see harness/drv_c15.c *)
module String = Stdlib.String
module List = Stdlib.List
module Array = Stdlib.Array
module Char = Stdlib.Char
module Printf = Stdlib.Printf
open Zutil
open CopySpec
open FsSpec

let zl l = List.map z_of_int l
let il l = List.map int_of_z l
let bytes_of_string s = List.init (String.length s) (fun i -> Char.code s.[i])
let string_of_bytes l = String.concat "" (List.map (fun c -> String.make 1 (Char.chr c)) l)
let zs s = zl (bytes_of_string s)
let sz l = string_of_bytes (il l)

let parse_bytes (s : string) : int list =
  if String.length s > 0 && s.[0] = '@' then begin
    match String.split_on_char ':' (String.sub s 1 (String.length s - 1)) with
    | l :: seed :: rest ->
      let len = int_of_string l and seed = int_of_string seed in
      let b = List.init len (fun i -> (i * 131 + seed * 17 + i / 256) land 255) in
      (match rest with
       | [pos] -> let p = int_of_string pos in List.mapi (fun i x -> if i = p then x lxor 0x55 else x) b
       | _ -> b)
    | _ -> []
  end else bytes_of_hex s

let parse_script (s : string) : outcome list =
  if s = "-" then [] else
  List.map (fun t ->
    let v = if String.length t > 1 then int_of_string (String.sub t 1 (String.length t - 1)) else 0 in
    match t.[0] with
    | 'S' -> Short (nat_of_int v)
    | 'E' -> Err (pos_of_int (max v 1))
    | _ -> Full) (String.split_on_char ',' s)

let status_name = function
  | SUCCESS -> "SUCCESS" | ERROR -> "ERROR" | NO_MEM -> "NO_MEM" | NOT_FOUND -> "NOT_FOUND"
  | EXISTS -> "EXISTS" | BAD_ARG -> "BAD_ARG" | BAD_PERMS -> "BAD_PERMS" | REACHED_END -> "REACHED_END"
  | TIMEOUT -> "TIMEOUT" | OVERFLOW -> "OVERFLOW" | NOT_SUPPORTED -> "NOT_SUPPORTED"
  | UNAVAILABLE -> "UNAVAILABLE" | NO_SPACE -> "NO_SPACE" | MAX_LINKS -> "MAX_LINKS"
  | OUT_OF_FUEL -> "OUT_OF_FUEL"

let type_name = function
  | FT_NONE -> "NONE" | FT_REGULAR -> "REGULAR" | FT_DIRECTORY -> "DIRECTORY" | FT_SYMLINK -> "SYMLINK"
  | FT_BLOCK -> "BLOCK" | FT_CHARACTER -> "CHARACTER" | FT_FIFO -> "FIFO" | FT_SOCKET -> "SOCKET"
  | FT_UNKNOWN -> "UNKNOWN"

let call_name = function
  | KOpen -> "open" | KFstat -> "fstat" | KStat -> "stat" | KCfr -> "cfr" | KRead -> "read"
  | KWrite -> "write" | KFdatasync -> "fdatasync" | KClose -> "close" | KFadvise -> "fadvise"
  | KAlloc -> "alloc" | KFree -> "free"

let base_loc = [zs "tmp"; zs "S"]
let cwd = base_loc @ [zs "w"]
let loc_of_rel (rel : string) = cwd @ List.map zs (List.filter (fun x -> x <> "") (String.split_on_char '/' rel))

let tree (fs : (BinNums.coq_Z list list * kind) list) : string =
  let items = List.filter_map (fun (l, k) ->
      match l with
      | a :: b :: rest when sz a = "tmp" && sz b = "S" && rest <> [] ->
        Some (String.concat "/" (List.map sz rest) ^ (match k with KDir -> "/" | KFile -> ""))
      | _ -> None) fs in
  match List.sort compare items with [] -> "-" | l -> String.concat "," l

let show_path p = match sz p with "" -> "~" | s -> s

(* ---- the file system with symbolic links (FsLinkSpec / FsLinkModel) ---- *)
open FsLinkSpec
let max_links = nat_of_int 40                       (* Linux MAXSYMLINKS *)
let perms (_ : BinNums.coq_Z list list) = z_of_int 0o755   (* any function: the theorems hold for every one *)

let unescape_pct (s : string) : string =
  let b = Buffer.create (String.length s) in
  let hex c = match c with '0'..'9' -> Char.code c - 48 | 'a'..'f' -> Char.code c - 87 | 'A'..'F' -> Char.code c - 55 | _ -> -1 in
  let n = String.length s in
  let i = ref 0 in
  while !i < n do
    if s.[!i] = '%' && !i + 2 < n + 0 && hex s.[!i + 1] >= 0 && hex s.[!i + 2] >= 0 then begin
      Buffer.add_char b (Char.chr (hex s.[!i + 1] * 16 + hex s.[!i + 2])); i := !i + 3
    end else begin Buffer.add_char b s.[!i]; incr i end
  done;
  Buffer.contents b

let escape_pct (s : string) : string =
  String.concat "" (List.map (fun c ->
      let k = Char.code c in
      if k <= 32 || k >= 127 || c = '%' || c = ',' || c = ':' || c = '|' then Printf.sprintf "%%%02X" k
      else String.make 1 c) (List.init (String.length s) (String.get s)))

let abs_case_dir = "/tmp/S/w"
let link_setup (setup : string) : (BinNums.coq_Z list list * node) list =
  let entries = if setup = "-" then [] else String.split_on_char ',' setup in
  let base_dirs = [(List.filteri (fun i _ -> i < 1) base_loc, NDir); (base_loc, NDir); (cwd, NDir)] in
  base_dirs @ List.filter_map (fun e ->
      let body = String.sub e 2 (String.length e - 2) in
      match e.[0] with
      | 'd' -> Some (loc_of_rel body, NDir)
      | 'f' -> Some (loc_of_rel body, NFile [])
      | 'p' -> Some (loc_of_rel body, NFifo)
      | 'l' -> (match String.index_opt body '=' with
          | Some i ->
            let rel = String.sub body 0 i and t = String.sub body (i + 1) (String.length body - i - 1) in
            let t = if String.length t > 0 && t.[0] = '@' then abs_case_dir ^ String.sub t 1 (String.length t - 1) else t in
            Some (loc_of_rel rel, NLink (zs t))
          | None -> None)
      | _ -> None) entries

let case_path (path : string) =
  if path = "~" then [] else if path.[0] = '@' then zs (abs_case_dir ^ String.sub path 1 (String.length path - 1))
  else zs path

let ltree (fs : (BinNums.coq_Z list list * node) list) : string =
  let items = List.filter_map (fun (l, k) ->
      match l with
      | a :: b :: rest when sz a = "tmp" && sz b = "S" && rest <> [] ->
        Some (String.concat "/" (List.map sz rest) ^
              (match k with NDir -> "/" | NLink t -> "->" ^ sz t | NFifo -> "|" | _ -> ""))
      | _ -> None) fs in
  match List.sort compare items with [] -> "-" | l -> String.concat "," l

let show_trace tr = match tr with [] -> "-" | _ -> String.concat " " (List.map (function
    | FsModel.EvStat (q, t) -> Printf.sprintf "stat:%s:%s" (show_path q) (type_name t)
    | FsModel.EvMkdir (q, rc) -> Printf.sprintf "mkdir:%s:%d" (show_path q) (int_of_z rc)) tr)

let show_res = function
  | RErr e -> Printf.sprintf "E%d" (int_of_z e)
  | RAt (_, n, _) -> Printf.sprintf "%o" (int_of_z (fmt_of_node n))

let fmt_of_kind = function
  | "R" -> (Some 0o100000, Some 0o100000) | "D" -> (Some 0o040000, Some 0o040000)
  | "LR" -> (Some 0o100000, Some 0o120000) | "LD" -> (Some 0o040000, Some 0o120000)
  | "LX" -> (None, Some 0o120000) | "F" -> (Some 0o010000, Some 0o010000)
  | "S" -> (Some 0o140000, Some 0o140000) | "C" -> (Some 0o020000, Some 0o020000)
  | _ -> (None, None)

let () =
  iter_lines (fun line ->
    match split_ws line with
    | ["D"; al; setup; path] ->
      (* everything from the model over the file system with symbolic links; for a setup without links and fifos the
         model over the link-free file system (Properties_C15.v) is run too and must give the same line *)
      let entries = if setup = "-" then [] else String.split_on_char ',' setup in
      let plain_only = List.for_all (fun e -> e.[0] = 'd' || e.[0] = 'f') entries in
      let fs0 = link_setup setup in
      let p = case_path path in
      let alloc_ok = (al = "1") in
      let ((st, fs1), tr) = FsLinkModel.create_directories_l perms max_links alloc_ok fs0 cwd p in
      let isdir = names_directory_lb max_links fs1 cwd p in
      let ((again, fs2), tr2) = FsLinkModel.create_directories_l perms max_links true fs1 cwd p in
      let fds = int_of_z (FsLinkModel.fd_balance (List.map FsLinkModel.sys_of_fsev (tr @ tr2))) in
      let line = Printf.sprintf "st= %s isdir= %d again= %s same= %d fds= %d leak= 0 || %s tree=%s" (status_name st)
          (if isdir then 1 else 0) (status_name again) (if ltree fs1 = ltree fs2 then 1 else 0) fds
          (show_trace tr) (ltree fs1) in
      let agree =
        if not plain_only then true else begin
          let plain = List.map (fun e ->
              (loc_of_rel (String.sub e 2 (String.length e - 2)), if e.[0] = 'd' then KDir else KFile)) entries in
          let ofs0 = [(List.filteri (fun i _ -> i < 1) base_loc, KDir); (base_loc, KDir); (cwd, KDir)] @ plain in
          let ((ost, ofs1), otr) = FsModel.create_directories alloc_ok ofs0 cwd p in
          let oisdir = names_directoryb ofs1 cwd p in
          let ((oagain, ofs2), _) = FsModel.create_directories true ofs1 cwd p in
          let oline = Printf.sprintf "st= %s isdir= %d again= %s same= %d fds= 0 leak= 0 || %s tree=%s" (status_name ost)
              (if oisdir then 1 else 0) (status_name oagain) (if tree ofs1 = tree ofs2 then 1 else 0)
              (show_trace otr) (tree ofs1) in
          oline = line
        end in
      Printf.printf "M %s%s\n" line (if agree then "" else " MODELS-DISAGREE");
      (* spec: mkdir -p over the components *)
      let (r, _) = lmkdirs_spec max_links fs0 cwd p in
      let (s_st, s_dir) =
        if not alloc_ok then ("*", "*")
        else if p = [] then ("*", "0")
        else match r with LOk (_, _) -> ("SUCCESS", "1") | LBlocked -> ("*", "0") in
      Printf.printf "S st= %s isdir= %s again= * same= * fds= 0 leak= 0\n" s_st s_dir
    | ["Q"; setup; path] ->
      let fs0 = link_setup setup in
      let p = case_path path in
      let st = stat_l max_links fs0 cwd p and lst = lstat_l max_links fs0 cwd p in
      let size = match st with
        | RErr _ | RAt (_, NFile _, _) -> string_of_z (FsLinkModel.file_size_l (fun _ -> z_of_int (-2)) max_links fs0 cwd p)
        | _ -> "eqstat" in
      Printf.printf "M type= %s ltype= %s size= %s fds= 0 leak= 0 || stat=%s lstat=%s\n"
        (type_name (FsLinkModel.file_type_l perms max_links fs0 cwd p))
        (type_name (FsLinkModel.symlink_type_l perms max_links fs0 cwd p)) size (show_res st) (show_res lst);
      Printf.printf "S type= %s ltype= %s size= %s fds= 0 leak= 0\n" (type_name (kind_of_res st))
        (type_name (kind_of_res lst))
        (match st with RErr _ -> "-1" | RAt (_, NFile b, _) -> string_of_int (List.length b) | _ -> "eqstat")
    | ["E"; a; b; rel; al1; al2; e0; script] ->
      let fa = if a = "M" then None else Some (z_of_int 1, zl (parse_bytes a)) in
      let fb = match rel with
        | "H" | "L" -> fa
        | _ -> if b = "M" then None else Some (z_of_int 2, zl (parse_bytes b)) in
      let alloc s = if s.[0] = 'A' then CopyModel.AOk
        else CopyModel.AFail (z_of_int (int_of_string (String.sub s 1 (String.length s - 1)))) in
      let scr = parse_script script in
      let (eq, w) = FsModel.file_equals (rel = "P") fa fb (nat_of_int 4096) (alloc al1) (alloc al2)
          (z_of_int (int_of_string e0)) scr in
      let trace = match FsModel.e_trace w with [] -> "-" | t -> String.concat " " (List.rev_map (fun ((c, a), r) ->
          Printf.sprintf "%s:%d:%d" (call_name c) (int_of_z a) (int_of_z r)) t) in
      Printf.printf "M eq= %b fds= %d leak= 0 || %s\n" eq (int_of_nat (FsModel.e_open w)) trace;
      let s_eq =
        if rel = "P" then (if fa = None then "*" else "true")
        else match fa, fb with
          | Some (_, x), Some (_, y) ->
            (* without faults: true exactly when the bytes are identical; with read/close errors or short reads the
               answer may be false, but never true for different bytes (a read that returns 0 before the end of the
               file - S0 - is a truncated file, not constrained) *)
            let eq = FsModel.list_eqb x y in
            if scr = [] then string_of_bool eq
            else if (not eq) && not (List.exists (function Short n -> int_of_nat n = 0 | _ -> false) scr) then "false"
            else "*"
          | _, _ -> "false" in
      Printf.printf "S eq= %s fds= 0 leak= 0\n" s_eq
    | ["T"; k; size] ->
      (* the abstract file system of the case: x is the node (or a link to t), /dev/null for C *)
      let n = int_of_string size in
      let here rel = cwd @ [zs rel] in
      let base_dirs = [(List.filteri (fun i _ -> i < 1) base_loc, NDir); (base_loc, NDir); (cwd, NDir)] in
      let content = List.init n (fun _ -> z_of_int 0) in
      let (fs0, p) = match k with
        | "R" -> (base_dirs @ [(here "x", NFile content)], "x")
        | "D" -> (base_dirs @ [(here "x", NDir)], "x")
        | "LR" -> (base_dirs @ [(here "t", NFile content); (here "x", NLink (zs "t"))], "x")
        | "LD" -> (base_dirs @ [(here "t", NDir); (here "x", NLink (zs "t"))], "x")
        | "LX" -> (base_dirs @ [(here "x", NLink (zs "t"))], "x")
        | "F" -> (base_dirs @ [(here "x", NFifo)], "x")
        | "S" -> (base_dirs @ [(here "x", NSock)], "x")
        | "C" -> (base_dirs @ [([zs "dev"], NDir); ([zs "dev"; zs "null"], NChr)], "/dev/null")
        | _ -> (base_dirs, "x") in
      let p = zs p in
      let st = stat_l max_links fs0 cwd p and lst = lstat_l max_links fs0 cwd p in
      let o r = match r with RErr _ -> 0 | RAt (_, nd, _) -> int_of_z (fmt_of_node nd) in
      let sizes = match st with
        | RErr _ | RAt (_, NFile _, _) -> string_of_z (FsLinkModel.file_size_l (fun _ -> z_of_int (-2)) max_links fs0 cwd p)
        | _ -> "eqstat" in
      let canon = match st with RErr _ -> "null" | _ -> "same" in
      Printf.printf "M type= %s ltype= %s size= %s canon= %s fds= %d leak= 0 || stat=%o lstat=%o\n"
        (type_name (FsLinkModel.file_type_l perms max_links fs0 cwd p))
        (type_name (FsLinkModel.symlink_type_l perms max_links fs0 cwd p)) sizes canon
        (int_of_z (FsLinkModel.fd_balance (FsLinkModel.file_type_calls @ FsLinkModel.symlink_type_calls @ FsLinkModel.file_size_calls)))
        (o st) (o lst);
      (* spec: the S_IFMT table on what stat / lstat report (hand-written table of the kinds) *)
      let (sst, slst) = fmt_of_kind k in
      let sty m = match m with None -> "NONE" | Some v -> type_name (type_of_mode_spec (z_of_int v)) in
      Printf.printf "S type= %s ltype= %s size= %s canon= %s fds= 0 leak= 0\n" (sty sst) (sty slst)
        (match sst with None -> "-1" | Some 0o100000 -> size | Some _ -> "eqstat") canon
    | [("R" | "RL") as kind; names] ->
      (* a real directory: the abstract file system has d/ with these names (and ld -> d); the kernel's order is not
         known to the model, both sides print the visited names sorted *)
      let raw = if names = "-" then [] else List.map unescape_pct (String.split_on_char ',' names) in
      let ents = List.map (fun s -> if String.length s > 0 && s.[String.length s - 1] = '/'
                            then (String.sub s 0 (String.length s - 1), NDir) else (s, NFile [])) raw in
      let base_dirs = [(List.filteri (fun i _ -> i < 1) base_loc, NDir); (base_loc, NDir); (cwd, NDir)] in
      let d = cwd @ [zs "d"] in
      let fs0 = base_dirs @ [(d, NDir)] @ (if kind = "RL" then [(cwd @ [zs "ld"], NLink (zs "d"))] else [])
                @ List.map (fun (nm, nd) -> (d @ [zs nm], nd)) ents in
      let order l = List.rev l in                    (* some order; "." and ".." end up last *)
      let path = zs (if kind = "RL" then "ld" else "d") in
      let dir = FsLinkModel.opendir_l order max_links fs0 cwd path in
      let st1 = FsLinkModel.dir_for_each path (z_of_int 0) dir FsLinkModel.d_init in
      let st2 = FsLinkModel.dir_for_each (zs "missing") (z_of_int 0)
          (FsLinkModel.opendir_l order max_links fs0 cwd (zs "missing")) st1 in
      let visited = List.sort compare (List.map (fun ((_, nm), _) -> sz nm) (FsLinkModel.d_log st2)) in
      let entries = List.sort_uniq compare (List.map sz (children fs0 d)) in
      let missing = List.length (List.filter (fun e -> not (List.mem e visited)) entries) in
      let rec dups = function a :: (b :: _ as t) -> (if a = b then 1 else 0) + dups t | _ -> 0 in
      let dots = List.length (List.filter (fun e -> e = "." || e = "..") visited) in
      Printf.printf "M visited= %d entries= %d missing= %d dup= %d dots= %d fds= %d ||%s\n" (List.length visited)
        (List.length entries) missing (dups visited) dots (int_of_nat (FsLinkModel.d_open st2))
        (if visited = [] then " -" else String.concat "" (List.map (fun s -> " " ^ escape_pct s) visited));
      let n = List.length (List.sort_uniq compare (List.map fst ents)) in
      Printf.printf "S visited= %d entries= %d missing= 0 dup= 0 dots= 0 fds= 0\n" n n
    | ["V"; how; names] ->
      (* scripted readdir: the same entry list, in the same order, goes to the model *)
      let ents = if names = "-" then [] else List.map unescape_pct (String.split_on_char ',' names) in
      let dir = if how = "fail" then None else Some (List.map zs ents) in
      let st = FsLinkModel.dir_for_each (zs "d") (z_of_int 7) dir FsLinkModel.d_init in
      let log = FsLinkModel.d_log st in
      let visited = List.map (fun ((_, nm), _) -> sz nm) log in
      let dots = List.length (List.filter (fun e -> e = "." || e = "..") visited) in
      let calls = List.map (function
          | FsLinkModel.DOpendir (q, true) -> "opendir:" ^ escape_pct (sz q)
          | FsLinkModel.DOpendir (q, false) -> "opendir-fail:" ^ escape_pct (sz q)
          | FsLinkModel.DReaddir (Some e) -> "readdir:" ^ escape_pct (sz e)
          | FsLinkModel.DReaddir None -> "readdir-null"
          | FsLinkModel.DCallback (q, nm, dt) ->
            Printf.sprintf "cb:%s:%s:%d" (escape_pct (sz q)) (escape_pct (sz nm)) (int_of_z dt)
          | FsLinkModel.DClosedir -> "closedir") (FsLinkModel.d_calls st) in
      let names_tok l = if l = [] then "-" else String.concat "," (List.map escape_pct l) in
      Printf.printf "M visited= %d dots= %d fds= %d names= %s || %s\n" (List.length visited) dots
        (int_of_nat (FsLinkModel.d_open st)) (names_tok visited) (String.concat " " calls);
      let want = if how = "fail" then [] else List.filter (fun e -> e <> "." && e <> "..") ents in
      Printf.printf "S visited= %d dots= 0 fds= 0 names= %s\n" (List.length want) (names_tok want)
    | _ -> Printf.printf "M ?\nS ?\n")
