(* C15 model driver; case formats: see harness/drv_c15.c *)
module String = Stdlib.String
module List = Stdlib.List
module Array = Stdlib.Array
module Char = Stdlib.Char
module Printf = Stdlib.Printf
open Zutil
open CopySpec
open FsSpec

let zl l = List.map z_of_int l
let il l = List.map int_of_z l
let bytes_of_string s = List.init (String.length s) (fun i -> Char.code s.[i])
let string_of_bytes l = String.concat "" (List.map (fun c -> String.make 1 (Char.chr c)) l)
let zs s = zl (bytes_of_string s)
let sz l = string_of_bytes (il l)

let parse_bytes (s : string) : int list =
  if String.length s > 0 && s.[0] = '@' then begin
    match String.split_on_char ':' (String.sub s 1 (String.length s - 1)) with
    | l :: seed :: rest ->
      let len = int_of_string l and seed = int_of_string seed in
      let b = List.init len (fun i -> (i * 131 + seed * 17 + i / 256) land 255) in
      (match rest with
       | [pos] -> let p = int_of_string pos in List.mapi (fun i x -> if i = p then x lxor 0x55 else x) b
       | _ -> b)
    | _ -> []
  end else bytes_of_hex s

let parse_script (s : string) : outcome list =
  if s = "-" then [] else
  List.map (fun t ->
    let v = if String.length t > 1 then int_of_string (String.sub t 1 (String.length t - 1)) else 0 in
    match t.[0] with
    | 'S' -> Short (nat_of_int v)
    | 'E' -> Err (pos_of_int (max v 1))
    | _ -> Full) (String.split_on_char ',' s)

let status_name = function
  | SUCCESS -> "SUCCESS" | ERROR -> "ERROR" | NO_MEM -> "NO_MEM" | NOT_FOUND -> "NOT_FOUND"
  | EXISTS -> "EXISTS" | BAD_ARG -> "BAD_ARG" | BAD_PERMS -> "BAD_PERMS" | REACHED_END -> "REACHED_END"
  | TIMEOUT -> "TIMEOUT" | OVERFLOW -> "OVERFLOW" | NOT_SUPPORTED -> "NOT_SUPPORTED"
  | UNAVAILABLE -> "UNAVAILABLE" | NO_SPACE -> "NO_SPACE" | MAX_LINKS -> "MAX_LINKS"
  | OUT_OF_FUEL -> "OUT_OF_FUEL"

let type_name = function
  | FT_NONE -> "NONE" | FT_REGULAR -> "REGULAR" | FT_DIRECTORY -> "DIRECTORY" | FT_SYMLINK -> "SYMLINK"
  | FT_BLOCK -> "BLOCK" | FT_CHARACTER -> "CHARACTER" | FT_FIFO -> "FIFO" | FT_SOCKET -> "SOCKET"
  | FT_UNKNOWN -> "UNKNOWN"

let call_name = function
  | KOpen -> "open" | KFstat -> "fstat" | KStat -> "stat" | KCfr -> "cfr" | KRead -> "read"
  | KWrite -> "write" | KFdatasync -> "fdatasync" | KClose -> "close" | KFadvise -> "fadvise"
  | KAlloc -> "alloc" | KFree -> "free"

let base_loc = [zs "tmp"; zs "S"]
let cwd = base_loc @ [zs "w"]
let loc_of_rel (rel : string) = cwd @ List.map zs (List.filter (fun x -> x <> "") (String.split_on_char '/' rel))

let tree (fs : (BinNums.coq_Z list list * kind) list) : string =
  let items = List.filter_map (fun (l, k) ->
      match l with
      | a :: b :: rest when sz a = "tmp" && sz b = "S" && rest <> [] ->
        Some (String.concat "/" (List.map sz rest) ^ (match k with KDir -> "/" | KFile -> ""))
      | _ -> None) fs in
  match List.sort compare items with [] -> "-" | l -> String.concat "," l

let show_path p = match sz p with "" -> "~" | s -> s

let fmt_of_kind = function
  | "R" -> (Some 0o100000, Some 0o100000) | "D" -> (Some 0o040000, Some 0o040000)
  | "LR" -> (Some 0o100000, Some 0o120000) | "LD" -> (Some 0o040000, Some 0o120000)
  | "LX" -> (None, Some 0o120000) | "F" -> (Some 0o010000, Some 0o010000)
  | "S" -> (Some 0o140000, Some 0o140000) | "C" -> (Some 0o020000, Some 0o020000)
  | _ -> (None, None)

let () =
  iter_lines (fun line ->
    match split_ws line with
    | ["D"; al; setup; path] ->
      (* symbolic links are not in the proved abstract file system: for the observable part of such cases a link
         to an existing directory counts as a directory, any other link (to a file, dangling) as a file *)
      let entries = if setup = "-" then [] else String.split_on_char ',' setup in
      let has_links = List.exists (fun e -> e.[0] = 'l') entries in
      let plain = List.filter_map (fun e -> if e.[0] = 'l' then None else
          Some (loc_of_rel (String.sub e 2 (String.length e - 2)), if e.[0] = 'd' then KDir else KFile)) entries in
      let links = List.fold_left (fun acc e -> if e.[0] <> 'l' then acc else
          match String.split_on_char '=' (String.sub e 2 (String.length e - 2)) with
          | [rel; target] ->
            let l = loc_of_rel rel in
            let parent = List.filteri (fun i _ -> i < List.length l - 1) l in
            let tl = parent @ [zs target] in
            let k = (match List.assoc_opt tl (plain @ acc) with Some KDir -> KDir | _ -> KFile) in
            acc @ [(l, k)]
          | _ -> acc) [] entries in
      let fs0 = [(List.filteri (fun i _ -> i < 1) base_loc, KDir); (base_loc, KDir); (cwd, KDir)] @ plain @ links in
      let p = if path = "~" then [] else if path.[0] = '@' then zs ("/tmp/S/w" ^ String.sub path 1 (String.length path - 1))
        else zs path in
      let alloc_ok = (al = "1") in
      let ((st, fs1), tr) = FsModel.create_directories alloc_ok fs0 cwd p in
      let isdir = names_directoryb fs1 cwd p in
      let ((again, fs2), _) = FsModel.create_directories true fs1 cwd p in
      let trace = match tr with [] -> "-" | _ -> String.concat " " (List.map (function
          | FsModel.EvStat (q, t) -> Printf.sprintf "stat:%s:%s" (show_path q) (type_name t)
          | FsModel.EvMkdir (q, rc) -> Printf.sprintf "mkdir:%s:%d" (show_path q) (int_of_z rc)) tr) in
      Printf.printf "M st= %s isdir= %d again= %s same= %d fds= 0 leak= 0 || %s tree=%s\n" (status_name st)
        (if isdir then 1 else 0) (status_name again) (if tree fs1 = tree fs2 then 1 else 0)
        (if has_links then "symlinks" else trace) (if has_links then "-" else tree fs1);
      (* spec: mkdir -p over the components *)
      let (r, _) = mkdirs_spec fs0 cwd p in
      let (s_st, s_dir) =
        if not alloc_ok || has_links then ("*", "*")
        else if p = [] then ("*", "0")
        else match r with MkOk _ -> ("SUCCESS", "1") | MkBlocked -> ("*", "0") in
      Printf.printf "S st= %s isdir= %s again= * same= * fds= 0 leak= 0\n" s_st s_dir
    | ["E"; a; b; rel; al1; al2; e0; script] ->
      let fa = if a = "M" then None else Some (z_of_int 1, zl (parse_bytes a)) in
      let fb = match rel with
        | "H" | "L" -> fa
        | _ -> if b = "M" then None else Some (z_of_int 2, zl (parse_bytes b)) in
      let alloc s = if s.[0] = 'A' then CopyModel.AOk
        else CopyModel.AFail (z_of_int (int_of_string (String.sub s 1 (String.length s - 1)))) in
      let scr = parse_script script in
      let (eq, w) = FsModel.file_equals (rel = "P") fa fb (nat_of_int 4096) (alloc al1) (alloc al2)
          (z_of_int (int_of_string e0)) scr in
      let trace = match FsModel.e_trace w with [] -> "-" | t -> String.concat " " (List.rev_map (fun ((c, a), r) ->
          Printf.sprintf "%s:%d:%d" (call_name c) (int_of_z a) (int_of_z r)) t) in
      Printf.printf "M eq= %b fds= %d leak= 0 || %s\n" eq (int_of_nat (FsModel.e_open w)) trace;
      let s_eq =
        if rel = "P" then (if fa = None then "*" else "true")
        else match fa, fb with
          | Some (_, x), Some (_, y) -> if scr = [] then string_of_bool (FsModel.list_eqb x y) else "*"
          | _, _ -> "false" in
      Printf.printf "S eq= %s fds= 0 leak= 0\n" s_eq
    | ["T"; k; size] ->
      let (st, lst) = fmt_of_kind k in
      let ty m = type_name (FsModel.file_type_of (Option.map z_of_int m)) in
      let sty m = match m with None -> "NONE" | Some v -> type_name (type_of_mode_spec (z_of_int v)) in
      let sizes = match st with
        | None -> string_of_z (FsModel.file_size_of None)
        | Some 0o100000 -> string_of_z (FsModel.file_size_of (Some (z_of_int (int_of_string size))))
        | Some _ -> "eqstat" in
      let canon = if st = None then "null" else "same" in
      let o m = match m with None -> 0 | Some v -> v in
      Printf.printf "M type= %s ltype= %s size= %s canon= %s fds= 0 leak= 0 || stat=%o lstat=%o\n"
        (ty st) (ty lst) sizes canon (o st) (o lst);
      Printf.printf "S type= %s ltype= %s size= %s canon= %s fds= 0 leak= 0\n" (sty st) (sty lst)
        (match st with None -> "-1" | Some 0o100000 -> size | Some _ -> "eqstat") canon
    | ["R"; names] ->
      let l = if names = "-" then [] else
          List.map (fun s -> if String.length s > 0 && s.[String.length s - 1] = '/'
                     then String.sub s 0 (String.length s - 1) else s) (String.split_on_char ',' names) in
      let l = List.sort_uniq compare l in
      let n = List.length l in
      Printf.printf "M visited= %d entries= %d missing= 0 dup= 0 dots= 0 fds= 0 ||%s\n" n n
        (if l = [] then " -" else String.concat "" (List.map (fun s -> " " ^ s) l));
      Printf.printf "S visited= %d entries= %d missing= 0 dup= 0 dots= 0 fds= 0\n" n n
    | _ -> Printf.printf "M ?\nS ?\n")
