(* C01/C02 model driver (one driver serves both properties; C02 cases carry the flag '2').
   case line:  <page> <flags> <op> ...     flags: '-' or letters: v (verbose), 2 (C02 spec tokens), n (no spec line:
   bulk cases, the list spec is quadratic)
   ops: see harness/drv_c01.c.   Prints "M <model line>" and "S <spec line>" per case.
   The S line comes from the sorted-list spec (BTreeSpec) only. *)
module String = Stdlib.String
module List = Stdlib.List
module Array = Stdlib.Array
module Char = Stdlib.Char
module Printf = Stdlib.Printf
module Buffer = Stdlib.Buffer
open Zutil

type elt = int * int (* key, tag *)

let rank ((k, _) : elt) = z_of_int k
let dflt : elt = (0, -999)
let max_height = 6 (* ZIX_BTREE_MAX_HEIGHT (public header default) *)

(* ---- sequences: hash or full list, as in the C driver ---- *)
let verbose = ref false

type seq = { mutable h : int; mutable n : int; mutable items : int list }

let seq_new () = { h = 17; n = 0; items = [] }
let seq_add s x =
  s.h <- (s.h * 1000003 + (x + 1000)) mod 2147483647;
  s.n <- s.n + 1;
  if !verbose then s.items <- x :: s.items
let seq_str s =
  if !verbose then (if s.items = [] then "-" else String.concat "," (List.rev_map string_of_int s.items))
  else string_of_int s.h
let seq_of l = let s = seq_new () in List.iter (seq_add s) l; s

let stname = function
  | BTreeSpec.SUCCESS -> "SUCCESS" | BTreeSpec.NO_MEM -> "NO_MEM" | BTreeSpec.NOT_FOUND -> "NOT_FOUND"
  | BTreeSpec.EXISTS -> "EXISTS" | BTreeSpec.REACHED_END -> "REACHED_END" | BTreeSpec.OVERFLOW -> "OVERFLOW"
  | BTreeSpec.OUT_OF_FUEL -> "OUT_OF_FUEL"

let iter_str = function
  | BTreeModel.IEnd -> "end"
  | BTreeModel.IAt p ->
    let p = List.map int_of_nat p in
    Printf.sprintf "%d@%s" (List.length p - 1) (String.concat "." (List.map string_of_int p))

let compare_int (a : int) (b : int) : Datatypes.comparison =
  if a < b then Datatypes.Lt else if a > b then Datatypes.Gt else Datatypes.Eq

let () =
  iter_lines (fun line ->
    match split_ws line with
    | [page; "cfg"] ->
      let page = int_of_string page in
      let l = (page - 8) / 8 - 1 in
      let s = Printf.sprintf "cfg page=%d L=%d I=%d H=%d" page l (l / 2) max_height in
      Printf.printf "M %s\nS %s\n" s s
    | page :: flags :: ops ->
      let page = int_of_string page in
      let lv = (page - 8) / 8 - 1 in
      let iv = lv / 2 in
      let ln = nat_of_int lv and inn = nat_of_int iv and hn = nat_of_int max_height in
      verbose := String.contains flags 'v';
      let c02 = String.contains flags '2' in
      let nospec = String.contains flags 'n' in (* bulk cases: model only, spec line '*' *)
      let mo = Buffer.create 256 and ms = Buffer.create 256 and so = Buffer.create 256 in
      let t = ref (BTreeModel.empty_tree : elt BTreeModel.tree) in
      let oracle = ref [] in
      let spec = ref ([] : elt list) in
      let slen = ref 0 in
      let has_oracle = ref false in
      let crashed = ref false in
      (* case flag 'a': the instrumented model (BTreeAllocModel) runs alongside and its allocator events since the
         previous op are printed as a structural token "t:A<serial>:a:<size>,F<serial>:a,..." *)
      let tracing = String.contains flags 'a' in
      let bits a = List.init (String.length a) (fun i -> a.[i] = '1') in
      let (ops, new_oracle) = match ops with
        | o :: rest when String.length o > 0 && o.[0] = 'N' ->
          has_oracle := true; (rest, bits (String.sub o 1 (String.length o - 1)))
        | _ -> (ops, []) in
      let (at0, ast0) = BTreeAllocModel.anew_op (AllocModel.ast0 new_oracle) in
      let ast = ref ast0 in
      let atr = ref (match at0 with Some a -> a
                                  | None -> { BTreeAllocModel.a_self = O; a_root = BTreeAllocModel.adnode; a_size = BinNums.Z0 }) in
      let put_trace () =
        if tracing then begin
          let ev = List.map (function
              | FaultSpec.EAlloc (_, k, id) ->
                Printf.sprintf "A%d:%s:%d" (int_of_nat id) (match k with FaultSpec.Aligned -> "a" | FaultSpec.Plain -> "p") page
              | FaultSpec.EFree (_, k, id) ->
                Printf.sprintf "F%d:%s" (int_of_nat id) (match k with FaultSpec.Aligned -> "a" | FaultSpec.Plain -> "p"))
              !ast.AllocModel.log in
          Printf.bprintf ms "t:%s " (if ev = [] then "-" else String.concat "," ev);
          ast := { !ast with AllocModel.log = [] }
        end in
      let run_instrumented op arg =
        match op.[0] with
        | 'i' | 'I' ->
          let e = Scanf.sscanf arg "%d.%d" (fun a b -> (a, b)) in
          let (((_, t'), s'), _) = BTreeAllocModel.ainsert_op rank dflt ln inn hn !ast !atr e in
          atr := t'; ast := s'
        | 'r' ->
          let ((((_, _), t'), s'), _) = BTreeAllocModel.aremove_op rank dflt ln inn !ast !atr (int_of_string arg, -1) in
          atr := t'; ast := s'
        | 'c' | 'C' ->
          let (t', s') = BTreeAllocModel.aclear_op !ast !atr in
          atr := t'; ast := s'
        | 'O' -> ast := { !ast with AllocModel.oracle = bits arg }
        | _ -> () in
      if at0 = None then begin
        put_trace ();
        Printf.printf "M NO-TREE live=0 || %s\nS *\n" (Buffer.contents ms)
      end else
      let tag_or_end r it = match it with
        | BTreeModel.IEnd -> "end"
        | _ -> string_of_int (snd (BTreeModel.iter_get dflt r it)) in
      let opt_tag_or_end = function None -> "end" | Some (_, tg) -> string_of_int tg in
      let log_str lg = let s = seq_of (List.map snd lg) in Printf.sprintf "%d.%s" s.n (seq_str s) in
      let nth_iter idx =
        let it = ref (BTreeModel.btree_begin !t) in
        for _ = 1 to idx do
          if not (BTreeModel.iter_is_end !it) then it := snd (BTreeModel.iter_increment !t.BTreeModel.root !it)
        done;
        !it in
      let destroyed mark lg remaining =
        let tags = List.map snd lg in
        let sorted = List.sort compare tags in
        Printf.bprintf mo "%s:%d:%s:%d " mark (List.length tags) (seq_str (seq_of sorted)) remaining;
        Printf.bprintf ms "%s " (seq_str (seq_of tags));
        let stags = List.sort compare (List.map snd !spec) in
        Printf.bprintf so "%s:%d:%s:%d " mark (List.length stags) (seq_str (seq_of stags))
          (if mark = "F" then List.length !spec else 0) in
      begin
        put_trace ();
        List.iter (fun op ->
          let arg = String.sub op 1 (String.length op - 1) in
          (if tracing then run_instrumented op arg);
          (match op.[0] with
          | 'i' | 'I' ->
            let (k, tg) = Scanf.sscanf arg "%d.%d" (fun a b -> (a, b)) in
            let e = (k, tg) in
            let (((st, t'), o'), lg) = BTreeModel.insert rank dflt ln inn hn !oracle !t e in
            t := t'; oracle := o';
            Printf.bprintf mo "i:%s:%d " (stname st) (int_of_z (BTreeModel.btree_size t'));
            Printf.bprintf ms "%s " (log_str lg);
            let (sst, s') = if nospec then (st, []) else BTreeSpec.set_insert rank !spec e in
            spec := s';
            if sst = BTreeSpec.SUCCESS then incr slen;
            Printf.bprintf so "i:%s:%d " (stname sst) !slen
          | 'r' ->
            let k = int_of_string arg in
            let e = (k, -1) in
            let ((((st, out), t'), it), lg) = BTreeModel.remove rank dflt ln inn !t e in
            t := t';
            Printf.bprintf mo "r:%s:%s:%d n%s " (stname st)
              (match out with Some (_, tg) when st = BTreeSpec.SUCCESS -> string_of_int tg | _ -> "-")
              (int_of_z (BTreeModel.btree_size t'))
              (if st = BTreeSpec.SUCCESS then tag_or_end t'.BTreeModel.root it else "na");
            (if st = BTreeSpec.SUCCESS then begin
               let other = match it with
                 | BTreeModel.IEnd -> BTreeModel.IEnd
                 | _ -> let ((_, fi), _) = BTreeModel.find rank dflt t' (BTreeModel.iter_get dflt t'.BTreeModel.root it) in fi in
               Printf.bprintf mo "q%d " (if BTreeModel.iter_equals it other && BTreeModel.iter_equals other it then 1 else 0)
             end else Printf.bprintf mo "qna ");
            Printf.bprintf ms "%s/%s " (iter_str it) (log_str lg);
            let ((sst, sout), s') = if nospec then ((st, None), []) else BTreeSpec.set_remove rank !spec (z_of_int k) in
            spec := s';
            if sst = BTreeSpec.SUCCESS then decr slen;
            Printf.bprintf so "r:%s:%s:%d %s " (stname sst)
              (match sout with Some (_, tg) -> string_of_int tg | None -> "-")
              !slen
              (if sst <> BTreeSpec.SUCCESS then "nna"
               else if c02 then "n" ^ opt_tag_or_end (BTreeSpec.set_succ rank s' (z_of_int k)) else "*");
            Printf.bprintf so "%s " (if sst <> BTreeSpec.SUCCESS then "qna" else if c02 then "q1" else "*")
          | 'f' ->
            let k = int_of_string arg in
            let ((st, it), lg) = BTreeModel.find rank dflt !t (k, -1) in
            Printf.bprintf mo "f:%s:%s k%d " (stname st)
              (if st = BTreeSpec.SUCCESS then tag_or_end !t.BTreeModel.root it else "-") (List.length lg);
            Printf.bprintf ms "%s/%s " (iter_str it) (seq_str (seq_of (List.map snd lg)));
            (match BTreeSpec.set_find rank !spec (z_of_int k) with
             | Some (_, tg) -> Printf.bprintf so "f:SUCCESS:%d * " tg
             | None -> Printf.bprintf so "f:NOT_FOUND:- * ")
          | 'c' ->
            let (t', lg) = BTreeModel.clear !t true in
            t := t';
            destroyed "c" lg 0;
            spec := []; slen := 0
          | 'C' ->
            let (t', _) = BTreeModel.clear !t false in
            t := t'; spec := []; slen := 0;
            Printf.bprintf mo "C:0 "; Printf.bprintf ms "- "; Printf.bprintf so "C:0 "
          | 'w' ->
            if int_of_nat (BTreeModel.height !t.BTreeModel.root) > max_height then crashed := true;
            let tags = seq_new () and shape = seq_new () in
            let depth = ref 0 and count = ref 0 in
            let it = ref (BTreeModel.btree_begin !t) in
            while not (BTreeModel.iter_is_end !it) do
              let (_, tg) = BTreeModel.iter_get dflt !t.BTreeModel.root !it in
              let p = (match !it with BTreeModel.IAt p -> List.map int_of_nat p | _ -> []) in
              let level = List.length p - 1 in
              seq_add tags tg; seq_add shape tg; seq_add shape level; List.iter (seq_add shape) p;
              if level + 1 > !depth then depth := level + 1;
              incr count;
              it := snd (BTreeModel.iter_increment !t.BTreeModel.root !it)
            done;
            Printf.bprintf mo "w:%d:%d:%s d%d " (int_of_z (BTreeModel.btree_size !t)) !count (seq_str tags) !depth;
            Printf.bprintf ms "%s " (seq_str shape);
            let n = List.length !spec in
            Printf.bprintf so "w:%d:%d:%s * " n n (seq_str (seq_of (List.map snd !spec)))
          | 'O' ->
            oracle := List.init (String.length arg) (fun i -> arg.[i] = '1');
            has_oracle := true;
            Printf.bprintf mo "O "; Printf.bprintf ms "- "; Printf.bprintf so "O "
          | 'b' | 'p' ->
            let k = int_of_string arg in
            let ck = if op.[0] = 'b' then (fun ((x, _) : elt) -> compare_int x k)
                     else (fun ((x, _) : elt) -> compare_int (x asr 4) (k asr 4)) in
            let (it, lg) = BTreeModel.lower_bound dflt !t ck in
            Printf.bprintf mo "%c:SUCCESS:%s " op.[0] (tag_or_end !t.BTreeModel.root it);
            Printf.bprintf ms "%s/%s " (iter_str it) (log_str lg);
            Printf.bprintf so "%c:SUCCESS:%s " op.[0] (opt_tag_or_end (BTreeSpec.set_lower_bound ck !spec))
          | 's' ->
            let k = int_of_string arg in
            let ck = (fun ((x, _) : elt) -> compare_int x k) in
            let (it0, _) = BTreeModel.lower_bound dflt !t ck in
            let tags = seq_new () in
            let it = ref it0 and last = ref BTreeSpec.SUCCESS in
            while not (BTreeModel.iter_is_end !it) do
              seq_add tags (snd (BTreeModel.iter_get dflt !t.BTreeModel.root !it));
              let (st, it') = BTreeModel.iter_increment !t.BTreeModel.root !it in
              last := st; it := it'
            done;
            Printf.bprintf mo "s:%d:%s:%s " tags.n (seq_str tags) (if tags.n > 0 then stname !last else "-");
            Printf.bprintf ms "- ";
            let suffix = List.filter (fun ((x, _) : elt) -> x >= k) !spec in
            let st = seq_of (List.map snd suffix) in
            Printf.bprintf so "s:%d:%s:%s " st.n (seq_str st) (if st.n > 0 then "REACHED_END" else "-")
          | 'e' ->
            let n = int_of_z (BTreeModel.btree_size !t) in
            let np = if n <= 8 then n else 8 in
            let idxs = List.init np (fun j -> if n <= 8 then j else j * (n - 1) / 7) in
            let its = List.map nth_iter idxs in
            let extra = [BTreeModel.btree_begin !t; BTreeModel.IEnd; nth_iter n] in
            let finds = if n > 0 then
                List.map (fun it ->
                    let e = BTreeModel.iter_get dflt !t.BTreeModel.root it in
                    let ((_, fi), _) = BTreeModel.find rank dflt !t e in fi)
                  [List.nth its 0; List.nth its (np - 1)]
              else [] in
            let all = its @ extra @ finds in
            Printf.bprintf mo "e:";
            List.iter (fun a -> List.iter (fun b ->
                Buffer.add_char mo (if BTreeModel.iter_equals a b then '1' else '0')) all) all;
            Buffer.add_char mo ' ';
            Printf.bprintf ms "- ";
            (* spec: positions in the listing; -1 = end *)
            let sn = List.length !spec in
            let snp = if sn <= 8 then sn else 8 in
            let sidx = List.init snp (fun j -> if sn <= 8 then j else j * (sn - 1) / 7) in
            let pos = sidx @ [(if sn > 0 then 0 else -1); -1; -1]
                      @ (if sn > 0 then [List.nth sidx 0; List.nth sidx (snp - 1)] else []) in
            Printf.bprintf so "e:";
            List.iter (fun a -> List.iter (fun b -> Buffer.add_char so (if a = b then '1' else '0')) pos) pos;
            Buffer.add_char so ' '
          | _ ->
            Printf.bprintf mo "?%s " op; Printf.bprintf ms "? "; Printf.bprintf so "?%s " op);
          put_trace ()) ops;
        let remaining = int_of_z (BTreeModel.btree_size !t) in
        let (_, lg) = BTreeModel.clear !t true in
        destroyed "F" lg remaining;
        (if tracing then ast := BTreeAllocModel.afree_op !ast !atr);
        put_trace ();
        (* the spec's remaining size *)
        Printf.bprintf mo "ud=ok roles=ok live=0 stored=0";
        Printf.bprintf so "ud=ok roles=ok * stored=0";
        (* a walk that needs a frame at level >= ZIX_BTREE_MAX_HEIGHT: assertion / out-of-bounds write in the code *)
        if !crashed then Printf.printf "M CRASH\n"
        else Printf.printf "M %s || %s\n" (Buffer.contents mo) (Buffer.contents ms);
        if !has_oracle || nospec then Printf.printf "S *\n" else Printf.printf "S %s\n" (Buffer.contents so)
      end
    | _ -> Printf.printf "M ?\nS ?\n")
