(* Coq `string` (extracted inductive over ascii = 8 bools) <-> OCaml string *)
open Ascii
open String

let char_of_ascii (Ascii (b0, b1, b2, b3, b4, b5, b6, b7)) =
  let b x i = if x then 1 lsl i else 0 in
  Stdlib.Char.chr (b b0 0 + b b1 1 + b b2 2 + b b3 3 + b b4 4 + b b5 5 + b b6 6 + b b7 7)

let rec to_ocaml = function
  | EmptyString -> ""
  | String (a, s) -> Stdlib.String.make 1 (char_of_ascii a) ^ to_ocaml s
