(* C09 model driver.  One case per line:
     <A> <C> <mem:0|1>[n] <op> ... [## <implementation's observable tokens>]
   flag n (e.g. "1n"): NDEBUG semantics - the library's normal build, assertions compiled out: the M line
     comes from BumpNdebug.bump_run_nd (aligned_alloc without the size assertion) and the S/T lines from
     BumpNdebug.spec_check_nd (which also judges aligned_alloc requests whose size is not a multiple of the
     alignment, and everything after them)
   ops: M<n>  C<nmemb>,<size>  R<id|N>,<n>  F<id|N>  A<alignment>,<n>  E<id|N>     (id = index of the allocating op)
   M line: the extracted model (BumpSpec.bump_run over BumpModel) : responses || states and memory writes
   S line: verdict of the extracted SPEC checker (BumpSpec.spec_check) on the implementation's own
           observations: echoes them when accepted, REJECT@k otherwise (model output when no ## part)
   T line: verdict of the spec checker on the model's trace (run-time test of theorem bump_safe) *)
module String = Stdlib.String
module List = Stdlib.List
module Array = Stdlib.Array
module Char = Stdlib.Char
module Printf = Stdlib.Printf
open Zutil
open BumpSpec
open BumpNdebug

let zs = z_of_string
let two64 = zs "18446744073709551616"
let umod z = BinInt.Z.modulo z two64

let parse_ptr s = if s = "N" then PNull else PBlk (nat_of_int (int_of_string s))

let parse_op (t : string) : request =
  let body = String.sub t 1 (String.length t - 1) in
  let parts = String.split_on_char ',' body in
  match t.[0], parts with
  | 'M', [n] -> Malloc (zs n)
  | 'C', [a; b] -> Calloc (zs a, zs b)
  | 'R', [p; n] -> Realloc (parse_ptr p, zs n)
  | 'F', [p] -> Free (parse_ptr p)
  | 'A', [al; n] -> AlignedAlloc (zs al, zs n)
  | 'E', [p] -> AlignedFree (parse_ptr p)
  | _ -> failwith "bad op"

let is_calloc = function Calloc _ -> true | _ -> false

let resp_token (r : request) (o : resp) (z : bool) =
  match o with
  | OPtr off -> "p" ^ string_of_z (umod off) ^ (if is_calloc r then (if z then "z1" else "z0") else "")
  | ONull -> "NULL"
  | OVoid -> "void"
  | OAbort -> "ABORT"
  | OSkip -> "skip"

(* implementation token -> (response, zero flag) *)
let parse_resp (t : string) : resp * bool =
  if t = "NULL" then (ONull, true)
  else if t = "void" then (OVoid, true)
  else if t = "ABORT" then (OAbort, true)
  else if t = "skip" then (OSkip, true)
  else if String.length t > 1 && t.[0] = 'p' then begin
    let body = String.sub t 1 (String.length t - 1) in
    match String.index_opt body 'z' with
    | Some i -> (OPtr (zs (String.sub body 0 i)), String.sub body i (String.length body - i) = "z1")
    | None -> (OPtr (zs body), true)
  end else failwith "bad resp"

(* "<case> ## <obs>" -> (case, Some obs) *)
let split_marker (line : string) =
  let n = String.length line in
  let rec go i =
    if i + 1 >= n then None
    else if line.[i] = '#' && line.[i + 1] = '#' then Some i else go (i + 1) in
  match go 0 with
  | Some i -> (String.sub line 0 i, Some (String.sub line (i + 2) (n - i - 2)))
  | None -> (line, None)

let rec zip a b = match a, b with x :: a', y :: b' -> (x, y) :: zip a' b' | _ -> []

let verdict nd a c tr =
  if nd then begin
    if spec_check_nd a c tr then None
    else match spec_first_reject_nd a c O (spec_init a) tr with
      | Some k -> Some (int_of_nat k)
      | None -> Some (-1)
  end else
  if spec_check a c tr then None
  else match spec_first_reject a c O (spec_init a) tr with
    | Some k -> Some (int_of_nat k)
    | None -> Some (-1)

(* bytes of the window [A-16, A+C+16) that differ between two memories *)
let diff_token a c (m0 : BumpModel.mem) (m1 : BumpModel.mem) =
  if m0 == m1 then "-" else begin
    let ci = int_of_z c in
    let first = ref max_int and lastp = ref min_int and cnt = ref 0 in
    for i = -16 to ci + 15 do
      let addr = BinInt.Z.add a (z_of_int i) in
      if int_of_z (m0 addr) <> int_of_z (m1 addr) then begin
        incr cnt; if i < !first then first := i; if i > !lastp then lastp := i
      end
    done;
    if !cnt = 0 then "-"
    else if !cnt = !lastp - !first + 1 then Printf.sprintf "%d+%d" !first !cnt
    else Printf.sprintf "x%d:%d:%d" !first !lastp !cnt
  end

let () =
  let dirty = z_of_int 165 in
  iter_lines (fun line ->
    try
      let case, implobs = split_marker line in
      match split_ws case with
      | a :: c :: memtok :: ops when String.length memtok >= 1 ->
        let a = zs a and c = zs c in
        let memflag = String.sub memtok 0 1 in
        let nd = String.contains memtok 'n' in
        let reqs = List.map parse_op ops in
        let run = (if nd then bump_run_nd else bump_run) a c (fun _ -> dirty) reqs in
        let obs = List.map (fun e -> resp_token e.e_req e.e_resp e.e_zero) run in
        let init = BumpModel.bump_init a in
        let st_tok (s : BumpModel.state) = string_of_z s.BumpModel.top ^ "," ^ string_of_z s.BumpModel.last in
        let structs = List.map (fun e ->
            st_tok e.e_st ^ "," ^ (if memflag = "1" then diff_token a c e.e_mpre e.e_mpost else "-")) run in
        let mobs = String.concat " " obs in
        Printf.printf "M %s || %s\n" mobs (String.concat " " (("i" ^ st_tok init) :: structs));
        let mtrace = trace_of run in
        (match implobs with
         | None -> Printf.printf "S %s\n" mobs
         | Some o ->
           (try
              let toks = split_ws o in
              let rs = List.map parse_resp toks in
              if List.length rs > List.length reqs then Printf.printf "S REJECT too-many-responses\n"
              else begin
                let tr = List.map (fun (r, (o, z)) -> ((r, o), z)) (zip reqs rs) in
                (* a run may only be shorter than the history if it ended in ABORT *)
                let short_ok = List.length rs = List.length reqs ||
                               (rs <> [] && fst (List.nth rs (List.length rs - 1)) = OAbort) in
                match verdict nd a c tr with
                | None when short_ok -> Printf.printf "S %s\n" (String.concat " " toks)
                | None -> Printf.printf "S REJECT truncated\n"
                | Some k -> Printf.printf "S REJECT@%d\n" k
              end
            with _ -> Printf.printf "S REJECT unparsable\n"));
        (match verdict nd a c mtrace with
         | None -> Printf.printf "T ok\n"
         | Some k -> Printf.printf "T REJECT@%d\n" k)
      | _ -> Printf.printf "M ?\nS ?\nT ?\n"
    with _ -> Printf.printf "M ?\nS ?\nT ?\n")
