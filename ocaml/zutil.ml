(* conversions between OCaml values and the extracted Coq numerals / strings (parsing, printing only) *)
module String = Stdlib.String
module List = Stdlib.List
module Array = Stdlib.Array
module Char = Stdlib.Char
module Printf = Stdlib.Printf
open BinNums
open Datatypes

let rec pos_of_int (n : int) : positive =
  if n = 1 then Coq_xH
  else if n land 1 = 0 then Coq_xO (pos_of_int (n lsr 1))
  else Coq_xI (pos_of_int (n lsr 1))

let z_of_int (n : int) : coq_Z =
  if n = 0 then Z0 else if n > 0 then Zpos (pos_of_int n) else Zneg (pos_of_int (-n))

let rec int_of_pos = function
  | Coq_xH -> 1
  | Coq_xO p -> 2 * int_of_pos p
  | Coq_xI p -> 2 * int_of_pos p + 1

let int_of_z = function Z0 -> 0 | Zpos p -> int_of_pos p | Zneg p -> - (int_of_pos p)

(* decimal strings of arbitrary size <-> Z, via a simple base-10^? bignum on positive *)
let z_of_string (s : string) : coq_Z =
  (* Horner in Coq arithmetic would need BinInt; do it on bits with an int list bignum *)
  let neg = String.length s > 0 && s.[0] = '-' in
  let digits = if neg then String.sub s 1 (String.length s - 1) else s in
  (* repeated division by 2 of a decimal digit array *)
  let d = Array.init (String.length digits) (fun i -> Char.code digits.[i] - 48) in
  let is_zero () = Array.for_all (fun x -> x = 0) d in
  let div2 () =
    let carry = ref 0 in
    Array.iteri (fun i x -> let v = !carry * 10 + x in d.(i) <- v / 2; carry := v mod 2) d;
    !carry in
  let bits = ref [] in
  while not (is_zero ()) do bits := div2 () :: !bits done;
  (* bits: most significant first *)
  match !bits with
  | [] -> Z0
  | _ :: rest ->
    let p = List.fold_left (fun acc b -> if b = 1 then Coq_xI acc else Coq_xO acc) Coq_xH rest in
    if neg then Zneg p else Zpos p

let string_of_z (z : coq_Z) : string =
  let rec bits p acc = match p with
    | Coq_xH -> 1 :: acc
    | Coq_xO q -> bits q (0 :: acc)
    | Coq_xI q -> bits q (1 :: acc) in
  let to_dec p =
    let bs = bits p [] in (* msb first *)
    let d = ref [0] in (* little-endian decimal digits *)
    List.iter (fun b ->
      let carry = ref b in
      d := List.map (fun x -> let v = 2 * x + !carry in carry := v / 10; v mod 10) !d;
      if !carry > 0 then d := !d @ [!carry]) bs;
    String.concat "" (List.rev_map string_of_int !d) in
  match z with Z0 -> "0" | Zpos p -> to_dec p | Zneg p -> "-" ^ to_dec p

let rec nat_of_int n = if n <= 0 then O else S (nat_of_int (n - 1))
let rec int_of_nat = function O -> 0 | S n -> 1 + int_of_nat n

let split_ws s = List.filter (fun x -> x <> "") (String.split_on_char ' ' s)

let hex_of_bytes (l : int list) =
  if l = [] then "-" else String.concat "" (List.map (Printf.sprintf "%02x") l)

let bytes_of_hex (s : string) : int list =
  if s = "-" then [] else
  List.init (String.length s / 2) (fun i -> int_of_string ("0x" ^ String.sub s (2 * i) 2))

let iter_lines f =
  try while true do f (input_line stdin) done with End_of_file -> ()
