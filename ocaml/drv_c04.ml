(* C04 model driver.
     T <k>[/<req>] <r> <w> <op>...   the access trace the model prescribes for the ops run one after the other
                             (solo schedule, newest values) on a ring brought to heads (r, w) through the model's
                             own write/read calls;  M = results || trace,  S = results of a plain byte queue
     X ...                   schedule-search cases: M = S = "ok" (the oracle runs in the C driver)

   W<n> / A<n> with n >= N = 2^k (anything up to 2^32-1): the source cannot be materialised as a list, so the model
   program is built with a stand-in source of exactly N bytes.  Justified by Properties_C04_huge.v, theorem
   ring_overlong_calls_irrelevant (with ring_overlong_programs): two writer programs that differ only in the
   sources of calls whose sources both have >= N bytes give, on every schedule, the same access trace, the same
   results and the same memory.  The spec side (byte queue of capacity N-1) refuses such a call outright.
   R<n> / P<n> / K<n> with n up to 2^32-1 need nothing special: the model's RRead/RPeek/RSkip take the size as a
   number (OCaml ints are 63-bit), and the byte queue never holds that many bytes, so the spec side refuses. *)
module String = Stdlib.String
module List = Stdlib.List
module Array = Stdlib.Array
module Char = Stdlib.Char
module Printf = Stdlib.Printf
module Buffer = Stdlib.Buffer
open Zutil
open RingConcModel

let zi = z_of_int and iz = int_of_z
let hexs l = String.concat "" (List.map (fun z -> Printf.sprintf "%02x" (iz z land 255)) l)
let hex_or_dash l = if l = [] then "-" else hexs l

let datactr = ref 0
let fill n = List.init n (fun _ -> let j = !datactr in incr datactr; zi ((j * 13 + 5) land 255))

let hname = function HW -> "W" | HR -> "R"

(* canonical trace: maximal ascending runs of buffer cells *)
let print_trace (evs : ev list) : string =
  let b = Buffer.create 256 in
  let first = ref true in
  let sep () = if !first then first := false else Buffer.add_char b ' ' in
  let rec go = function
    | [] -> ()
    | EvAcq (h, v) :: t -> sep (); Buffer.add_string b (Printf.sprintf "L%s/acq=%d" (hname h) (iz v)); go t
    | EvOwn (h, v) :: t -> sep (); Buffer.add_string b (Printf.sprintf "l%s=%d" (hname h) (iz v)); go t
    | EvSto (h, rel, v) :: t ->
      sep (); Buffer.add_string b (Printf.sprintf "S%s/%s=%d" (hname h) (if rel then "rel" else "rlx") (iz v)); go t
    | EvWr (c, v) :: t ->
      sep (); Buffer.add_string b (Printf.sprintf "w@%d:%02x" (iz c) (iz v land 255));
      let rec run next = function
        | EvWr (c', v') :: t' when iz c' = next -> Buffer.add_string b (Printf.sprintf "%02x" (iz v' land 255)); run (next + 1) t'
        | rest -> rest in
      go (run (iz c + 1) t)
    | EvRd (c, v) :: t ->
      sep (); Buffer.add_string b (Printf.sprintf "r@%d:%02x" (iz c) (iz v land 255));
      let rec run next = function
        | EvRd (c', v') :: t' when iz c' = next -> Buffer.add_string b (Printf.sprintf "%02x" (iz v' land 255)); run (next + 1) t'
        | rest -> rest in
      go (run (iz c + 1) t) in
  go evs;
  if !first then "-" else Buffer.contents b

type op = { o : char; n : int }
let parse_op s = { o = s.[0]; n = if String.length s > 1 then int_of_string (String.sub s 1 (String.length s - 1)) else 0 }
let is_writer_op o = match o.o with 'W' | 'B' | 'A' | 'C' | 'S' -> true | _ -> false

let trace_case k r0 w0 (ops : op list) =
  let cfg = faithful (zi k) in
  let nn = 1 lsl k in
  let d = (w0 - r0) land (nn - 1) in
  datactr := 0;
  (* data of the case's calls, in call order; an over-long call (n >= N) gets the N-byte stand-in (theorem
     ring_overlong_calls_irrelevant) and does not advance the data counter (the C driver does the same) *)
  let overlong o = (o.o = 'W' || o.o = 'A') && o.n >= nn in
  let wdata = List.map (fun o ->
      if overlong o then List.init nn (fun _ -> zi 0x5A)
      else if o.o = 'W' || o.o = 'A' then fill o.n else []) ops in
  let case_w = List.filter_map (fun (o, dat) ->
      match o.o with
      | 'W' -> Some (WWrite dat) | 'B' -> Some WBegin | 'A' -> Some (WAmend dat)
      | 'C' -> Some WCommit | 'S' -> Some WSpace | _ -> None) (List.combine ops wdata) in
  let case_r = List.filter_map (fun o ->
      match o.o with
      | 'R' -> Some (RRead (zi o.n)) | 'P' -> Some (RPeek (zi o.n)) | 'K' -> Some (RSkip (zi o.n))
      | 's' -> Some RSpace | _ -> None) ops in
  let setup_w = (if r0 > 0 then [WWrite (List.init r0 (fun _ -> zi 0xEE))] else [])
                @ (if d > 0 then [WWrite (List.init d (fun i -> zi (((r0 + i) * 7 + 1) land 255)))] else []) in
  let setup_r = if r0 > 0 then [RRead (zi r0)] else [] in
  let wp = wprog_of_list (setup_w @ case_w) and rp = rprog_of_list (setup_r @ case_r) in
  let st = ref (init cfg) in
  let guard = ref 0 in
  let do_w () =
    let n0 = List.length (!st).sw.wresl in
    while List.length (!st).sw.wresl = n0 && !guard < 10_000_000 do incr guard; st := step cfg wp rp !st (true, O) done;
    List.hd (!st).sw.wresl in
  let do_r () =
    let n0 = List.length (!st).sr.rresl in
    while List.length (!st).sr.rresl = n0 && !guard < 10_000_000 do incr guard; st := step cfg wp rp !st (false, O) done;
    List.hd (!st).sr.rresl in
  if r0 > 0 then (ignore (do_w ()); ignore (do_r ()));
  if d > 0 then ignore (do_w ());
  let t0 = List.length (!st).trace in
  let res = List.map (fun o ->
      if is_writer_op o then
        (match do_w () with
         | WrWrote n -> Printf.sprintf "w=%d" (iz n)
         | WrBegun -> "b"
         | WrAmend ok -> if ok then "a=0" else "a=2"
         | WrCommitted -> "c=0"
         | WrSpace n -> Printf.sprintf "ws=%d" (iz n)
         | WrMisuse -> "misuse")
      else
        (match do_r () with
         | RrRead (n, bs) -> Printf.sprintf "r=%d:%s" (iz n) (hex_or_dash bs)
         | RrPeek (n, bs) -> Printf.sprintf "p=%d:%s" (iz n) (hex_or_dash bs)
         | RrSkip n -> Printf.sprintf "k=%d" (iz n)
         | RrSpace n -> Printf.sprintf "rs=%d" (iz n))) ops in
  let tr = List.rev (!st).trace in
  let rec drop n l = if n = 0 then l else drop (n - 1) (List.tl l) in
  let m = String.concat " " res ^ " || " ^ print_trace (drop t0 tr) in
  (* spec: a byte queue of capacity N-1 with a pending transaction *)
  let q = ref (List.init d (fun i -> ((r0 + i) * 7 + 1) land 255)) in
  let cap = nn - 1 in
  let pend = ref [] and intx = ref false in
  let take n l = List.filteri (fun i _ -> i < n) l and dropn n l = List.filteri (fun i _ -> i >= n) l in
  let hx l = if l = [] then "-" else String.concat "" (List.map (Printf.sprintf "%02x") l) in
  let s = List.map (fun (o, dat) ->
      let dat = List.map iz dat in
      match o.o with
      | 'W' when overlong o -> intx := false; pend := []; "w=0"     (* more than the queue can ever hold: refused *)
      | 'A' when overlong o -> "a=2"
      | 'W' -> intx := false; pend := [];
        if o.n <= cap - List.length !q then (q := !q @ dat; Printf.sprintf "w=%d" o.n) else "w=0"
      | 'B' -> intx := true; pend := []; "b"
      | 'A' -> if o.n <= cap - List.length !q - List.length !pend then (pend := !pend @ dat; "a=0") else "a=2"
      | 'C' -> q := !q @ !pend; pend := []; intx := false; "c=0"
      | 'S' -> if !intx then "*" else Printf.sprintf "ws=%d" (cap - List.length !q)
      | 's' -> Printf.sprintf "rs=%d" (List.length !q)
      | 'R' -> if o.n <= List.length !q then (let b = take o.n !q in q := dropn o.n !q; Printf.sprintf "r=%d:%s" o.n (hx b)) else "r=0:-"
      | 'P' -> if o.n <= List.length !q then Printf.sprintf "p=%d:%s" o.n (hx (take o.n !q)) else "p=0:-"
      | 'K' -> if o.n <= List.length !q then (q := dropn o.n !q; Printf.sprintf "k=%d" o.n) else "k=0"
      | _ -> "?") (List.combine ops wdata) in
  Printf.printf "M %s\nS %s\n" m (String.concat " " s)

let () =
  iter_lines (fun line ->
    match split_ws line with
    | "T" :: k :: r :: w :: ops ->
      (* "k" or "k/requested size": the model only knows the rounded size 2^k *)
      let k = List.hd (String.split_on_char '/' k) in
      trace_case (int_of_string k) (int_of_string r) (int_of_string w) (List.map parse_op ops)
    | "X" :: _ -> Printf.printf "M ok\nS ok\n"
    | _ -> Printf.printf "M ?\nS ?\n")
