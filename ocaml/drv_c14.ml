(* C14 model driver.  case:
     K <skind R|D|O|M> <src bytes> <dstate N|F|P|H|L|D> <dst bytes> <opt 0|1> <b1> <b2> <alloc A|N<e>> <errno0> <script>
   bytes: '-' | hex | @len:seed;  script: '-' | comma separated F / S<k> / E<errno> *)
module String = Stdlib.String
module List = Stdlib.List
module Array = Stdlib.Array
module Char = Stdlib.Char
module Printf = Stdlib.Printf
open Zutil
open CopySpec

let parse_bytes (s : string) : int list =
  if String.length s > 0 && s.[0] = '@' then begin
    match String.split_on_char ':' (String.sub s 1 (String.length s - 1)) with
    | [l; seed] ->
      let len = int_of_string l and seed = int_of_string seed in
      List.init len (fun i -> (i * 131 + seed * 17 + i / 256) land 255)
    | _ -> []
  end else bytes_of_hex s

let digest (l : int list) : string =
  let h = List.fold_left (fun h b -> ((h lxor b) * 16777619) land 0xFFFFFFFF) 2166136261 l in
  Printf.sprintf "b%d:%08x" (List.length l) h

let parse_script (s : string) : outcome list =
  if s = "-" then [] else
  List.map (fun t ->
    let v = if String.length t > 1 then int_of_string (String.sub t 1 (String.length t - 1)) else 0 in
    match t.[0] with
    | 'S' -> Short (nat_of_int v)
    | 'E' -> Err (pos_of_int (max v 1))
    | _ -> Full) (String.split_on_char ',' s)

let status_name = function
  | SUCCESS -> "SUCCESS" | ERROR -> "ERROR" | NO_MEM -> "NO_MEM" | NOT_FOUND -> "NOT_FOUND"
  | EXISTS -> "EXISTS" | BAD_ARG -> "BAD_ARG" | BAD_PERMS -> "BAD_PERMS" | REACHED_END -> "REACHED_END"
  | TIMEOUT -> "TIMEOUT" | OVERFLOW -> "OVERFLOW" | NOT_SUPPORTED -> "NOT_SUPPORTED"
  | UNAVAILABLE -> "UNAVAILABLE" | NO_SPACE -> "NO_SPACE" | MAX_LINKS -> "MAX_LINKS"
  | OUT_OF_FUEL -> "OUT_OF_FUEL"

let call_name = function
  | KOpen -> "open" | KFstat -> "fstat" | KStat -> "stat" | KCfr -> "cfr" | KRead -> "read"
  | KWrite -> "write" | KFdatasync -> "fdatasync" | KClose -> "close" | KFadvise -> "fadvise"
  | KAlloc -> "alloc" | KFree -> "free"

let zl l = List.map z_of_int l
let il l = List.map int_of_z l

let dst_repr (w : world) : string =
  match w_dst w with
  | DAbsent -> "absent"
  | DDir -> "D"
  | DFile b -> "F:" ^ digest (il b)
  | DAlias -> "F:" ^ digest (il (w_src w))

let () =
  iter_lines (fun line ->
    match split_ws line with
    | ["K"; sk; sb; ds; db; opt; b1; b2; al; e0; script] ->
      let skind = (match sk with "R" -> SReg | "D" -> SDir | "O" -> SOther | _ -> SMissing) in
      let src = if skind = SReg then parse_bytes sb else [] in
      let dst = (match ds with
        | "N" -> DAbsent | "F" -> DFile (zl (parse_bytes db)) | "D" -> DDir | _ -> DAlias) in
      let overwrite = (opt = "1") in
      let alloc = if al.[0] = 'A' then CopyModel.AOk
        else CopyModel.AFail (z_of_int (int_of_string (String.sub al 1 (String.length al - 1)))) in
      let scr = parse_script script in
      let w0 = CopyModel.world0 skind (zl src) dst (z_of_int (int_of_string e0)) scr in
      let (st, w) = CopyModel.zix_copy_file w0 overwrite (z_of_int (int_of_string b1))
          (z_of_int (int_of_string b2)) alloc in
      let trace = String.concat " " (List.rev_map (fun ((c, a), r) ->
          Printf.sprintf "%s:%d:%d" (call_name c) (int_of_z a) (int_of_z r)) (w_trace w)) in
      let src_repr w = if skind = SReg then digest (il (w_src w)) else "-" in
      Printf.printf "M st= %s dst= %s src= %s fds= %d || %s\n" (status_name st) (dst_repr w) (src_repr w)
        (List.length (w_fds w)) trace;
      (* spec: what the property text fixes *)
      let (est, dreq) = copy_spec skind dst overwrite (benignb (src = []) scr) in
      let s_st = (match est with Some s -> status_name s | None -> "*") in
      let s_dst = (match dreq with
        | DstUntouched -> dst_repr w0
        | _ -> "*") in
      let s_src = if dst = DAlias && overwrite && stat_faultedb scr then "*" else src_repr w0 in
      Printf.printf "S st= %s dst= %s src= %s fds= 0\n" s_st s_dst s_src
    | _ -> Printf.printf "M ?\nS ?\n")
