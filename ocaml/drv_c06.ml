(* C06 model driver (ZixTree).  One case per line:
     d0|d1 <op> <op> ...       d1 = duplicates allowed
   ops:  i<key>  insert (key, tag = serial number of the insert call = identity of the element)
         I<key>  the same with the node allocation failing
         r<id>   remove the element with that identity through the iterator held since its insertion
         f<key>  find
         g<id>   dereference the held iterator      n<id>/p<id>  iter_next / iter_prev of the held iterator
         w       walk begin..end and rbegin..rend    D  paths to every node (steered find)
   After the last op: walk, paths, zix_tree_free.
   Output: "M <observable tokens> || <structural tokens>", "S <observable tokens by the spec>",
           "X <rotations of the case: i|r + codes per call, comma separated>" (statistics only). *)
module String = Stdlib.String
module List = Stdlib.List
module Array = Stdlib.Array
module Char = Stdlib.Char
module Printf = Stdlib.Printf
module Buffer = Stdlib.Buffer
open Zutil

let rank (e : AvlSpec.elt) = fst e
let zi = z_of_int
let iz = int_of_z
let dots l = String.concat "." (List.map string_of_int l)
let status_name = function
  | AvlSpec.SUCCESS -> "OK" | AvlSpec.EXISTS -> "EXISTS" | AvlSpec.NO_MEM -> "NOMEM"
  | AvlSpec.NOT_FOUND -> "NOTFOUND" | AvlSpec.BAD_ARG -> "BADARG"
let opt_id = function Some z -> string_of_int (iz z) | None -> "-"
let sorted_ints l = List.sort compare l

let () =
  iter_lines (fun line ->
    match split_ws line with
    | [] -> Printf.printf "M ?\nS ?\n"
    | pol :: ops ->
      let dup = (pol = "d1") in
      let st = ref AvlModel.init in
      let sp = ref (([], Z0) : AvlSpec.sstate) in
      let mo = Buffer.create 256 and ms = Buffer.create 256 and so = Buffer.create 256 in
      let rots = ref [] in
      let add b s = if Buffer.length b > 0 then Buffer.add_char b ' '; Buffer.add_string b s in
      let key_of_id_model id =
        match AvlModel.lookup (zi id) !st.AvlModel.root with Some (_, (k, _)) -> iz k | None -> -1 in
      let msize () = iz !st.AvlModel.size in
      let ssize () = iz (AvlSpec.sp_size !sp) in
      let walk_tokens () =
        let root = !st.AvlModel.root in
        let f = List.map iz (AvlModel.walk_fwd root) and b = List.map iz (AvlModel.walk_bwd root) in
        add mo (Printf.sprintf "w:%s/%s/%s/%s" (dots (List.map key_of_id_model f)) (dots (List.map key_of_id_model b))
                  (dots (sorted_ints f)) (dots (sorted_ints b)));
        add ms (Printf.sprintf "W%s/%s" (dots f) (dots b));
        let l = fst !sp in
        let ks = List.map (fun (_, (k, _)) -> iz k) l and is = List.map (fun (i, _) -> iz i) l in
        add so (Printf.sprintf "w:%s/%s/%s/%s" (dots ks) (dots (List.rev ks)) (dots (sorted_ints is)) (dots (sorted_ints is))) in
      let dump_tokens () =
        let root = !st.AvlModel.root in
        let ps = List.map (fun id ->
          match AvlModel.path_to id root with
          | Some p -> Printf.sprintf "%d=%s" (iz id) (dots (List.map iz p))
          | None -> Printf.sprintf "%d=?" (iz id)) (AvlModel.walk_fwd root) in
        add mo (Printf.sprintf "D:h%d/%d" (iz (AvlModel.height root)) (msize ())); add so "*";
        add ms ("D" ^ String.concat ";" ps) in
      List.iter (fun tok ->
        let c = tok.[0] in
        let arg () = int_of_string (String.sub tok 1 (String.length tok - 1)) in
        match c with
        | 'i' | 'I' ->
          let k = arg () in
          let o = if c = 'I' then [false] else [] in
          let id = !st.AvlModel.nextid in
          let x = (zi k, id) in
          let lg = AvlModel.ins_log rank dup x !st.AvlModel.root in
          let ((((s, it), st'), _), rc) = AvlModel.insert rank dup x o !st in
          st := st'; if rc <> [] then rots := !rots @ ["i" ^ dots (List.map iz rc)];
          add mo (Printf.sprintf "i:%s:%s:s%d" (status_name s) (opt_id it) (msize ()));
          add ms ("c" ^ dots (List.map iz lg));
          let (((s2, it2), sp'), _) = AvlSpec.sp_insert rank dup x o !sp in
          sp := sp';
          add so (Printf.sprintf "i:%s:%s:s%d" (status_name s2) (opt_id it2) (ssize ()))
        | 'r' ->
          let id = arg () in
          (match AvlModel.lookup (zi id) !st.AvlModel.root with
           | None -> add mo "r:skip"; add ms "-"
           | Some _ ->
             let cls = match AvlModel.node_class (zi id) !st.AvlModel.root with Some c -> iz c | None -> -1 in
             let is_root = (match !st.AvlModel.root with AvlModel.N (i, _, _, _, _) -> iz i = id | AvlModel.E -> false) in
             let (((s, st'), dl), rc) = AvlModel.remove (zi id) !st in
             st := st'; if rc <> [] then rots := !rots @ ["r" ^ dots (List.map iz rc)];
             add mo (Printf.sprintf "r:%s:%s:s%d" (status_name s)
                       (String.concat "," (List.map (fun (i, _) -> Printf.sprintf "d%d@ok" (iz i)) dl)) (msize ()));
             add ms (Printf.sprintf "k%d%s" cls (if is_root then "R" else "")));
          (match AvlSpec.slookup (zi id) (fst !sp) with
           | None -> add so "r:skip"
           | Some _ ->
             let ((s, sp'), dl) = AvlSpec.sp_remove (zi id) !sp in
             sp := sp';
             add so (Printf.sprintf "r:%s:%s:s%d" (status_name s)
                       (String.concat "," (List.map (fun (i, _) -> Printf.sprintf "d%d@ok" (iz i)) dl)) (ssize ())))
        | 'f' ->
          let k = arg () in
          let x = (zi k, zi (-1)) in
          let ((s, it), lg) = AvlModel.tfind rank x !st in
          (match it with
           | Some (i, (k', _)) ->
             add mo (Printf.sprintf "f:%s:%d:s%d" (status_name s) (iz k') (msize ()));
             add ms (Printf.sprintf "%d:c%s" (iz i) (dots (List.map iz lg)))
           | None ->
             add mo (Printf.sprintf "f:%s:-:s%d" (status_name s) (msize ()));
             add ms (Printf.sprintf "-:c%s" (dots (List.map iz lg))));
          add mo (Printf.sprintf "fc%d/%d" (List.length lg) (msize ())); add ms "-";
          (match AvlSpec.sfind rank x (fst !sp) with
           | Some (_, (k', _)) -> add so (Printf.sprintf "f:OK:%d:s%d" (iz k') (ssize ()))
           | None -> add so (Printf.sprintf "f:NOTFOUND:-:s%d" (ssize ())));
          add so "*"
        | 'g' ->
          let id = arg () in
          (match AvlModel.lookup (zi id) !st.AvlModel.root with
           | Some (i, (k, _)) -> add mo (Printf.sprintf "g:%d.%d" (iz k) (iz i))
           | None -> add mo "g:skip");
          add ms "-";
          (match AvlSpec.slookup (zi id) (fst !sp) with
           | Some (i, (k, _)) -> add so (Printf.sprintf "g:%d.%d" (iz k) (iz i))
           | None -> add so "g:skip")
        | 'n' | 'p' ->
          let id = arg () in
          (match AvlModel.lookup (zi id) !st.AvlModel.root with
           | Some _ ->
             let r = if c = 'n' then AvlModel.tnext (zi id) !st.AvlModel.root else AvlModel.tprev (zi id) !st.AvlModel.root in
             add mo (Printf.sprintf "%c:ok" c); add ms (opt_id r)
           | None -> add mo (Printf.sprintf "%c:skip" c); add ms "-");
          (match AvlSpec.slookup (zi id) (fst !sp) with
           | Some _ -> add so (Printf.sprintf "%c:ok" c)
           | None -> add so (Printf.sprintf "%c:skip" c))
        | 'w' -> walk_tokens ()
        | 'D' -> dump_tokens ()
        | _ -> add mo "?"; add ms "?"; add so "?") ops;
      walk_tokens ();
      dump_tokens ();
      let fl = List.map (fun (i, _) -> iz i) (AvlModel.free_log !st.AvlModel.root) in
      add mo (Printf.sprintf "end:s%d:free=%s:ud=ok" (msize ()) (dots (sorted_ints fl)));
      add ms ("F" ^ dots fl);
      let sl = List.map (fun (i, _) -> iz i) (fst !sp) in
      add so (Printf.sprintf "end:s%d:free=%s:ud=ok" (ssize ()) (dots (sorted_ints sl)));
      Printf.printf "M %s || %s\nS %s\nX %s\n" (Buffer.contents mo) (Buffer.contents ms) (Buffer.contents so)
        (String.concat "," !rots))
