(* C06 model driver (ZixTree).  One case per line:
     d0|d1[z] <op> <op> ...    d1 = duplicates allowed; z = the C driver stores the first live key-0 element as the NULL
                               pointer (elements are opaque void*; nothing changes for the models)
   ops:  i<key>  insert (key, tag = serial number of the insert call = identity of the element)
         I<key>  the same with the node allocation failing
         r<id>   remove the element with that identity through the iterator held since its insertion
         f<key>  find
         g<id>   dereference the held iterator      n<id>/p<id>  iter_next / iter_prev of the held iterator
         w       walk begin..end and rbegin..rend    D  paths to every node (steered find)
   After the last op: walk, paths, zix_tree_free.
   Output: "M <observable tokens> || <structural tokens>", "S <observable tokens by the spec>",
           "X <rotations of the case: i|r + codes per call, comma separated>" (statistics only).

   Two models run side by side on every case: the functional tree (AvlModel.state) and the pointer-level
   heap (AvlHeapModel.hstate: nodes with parent/left/right links, the statement-by-statement transcription
   of tree.c).  Everything about iteration is computed FROM THE HEAP MODEL: the n<id>/p<id> structural
   tokens (h_iter_next/h_iter_prev), the walks (h_walk_fwd/h_walk_bwd) and the parent-link sweep
       L<id>next.<id>next...../<id>prev.<id>prev....        written  L0>1.1>2.2>-/0>-.1>0.2>1
   emitted after every executed insert/remove (any status; not after r:skip) while the tree has at most
   [sweep_limit] nodes: for every live node in ascending id order the node reached by one iter_next
   (before the '/') and one iter_prev (after it) from the iterator HELD since the node's insertion; '-' =
   end/rend.  Whatever both models compute (statuses, iterators, size, rotation and comparison logs, walks,
   next/prev of every node, the D paths: path_to by descent = h_path_up by climbing parent links, the whole
   shape node by node in the sweep) is compared; a disagreement adds the structural token HEAPDIFF:<what>,
   which the C line never contains.  A fuelled loop of the heap model running dry prints FUEL. *)
module String = Stdlib.String
module List = Stdlib.List
module Array = Stdlib.Array
module Char = Stdlib.Char
module Printf = Stdlib.Printf
module Buffer = Stdlib.Buffer
open Zutil

let rank (e : AvlSpec.elt) = fst e
let zi = z_of_int
let iz = int_of_z
let dots l = String.concat "." (List.map string_of_int l)
let status_name = function
  | AvlSpec.SUCCESS -> "OK" | AvlSpec.EXISTS -> "EXISTS" | AvlSpec.NO_MEM -> "NOMEM"
  | AvlSpec.NOT_FOUND -> "NOTFOUND" | AvlSpec.BAD_ARG -> "BADARG"
let opt_id = function Some z -> string_of_int (iz z) | None -> "-"
let sorted_ints l = List.sort compare l
let sweep_limit = 24      (* the same constant as SWEEP_LIMIT in harness/drv_c06.c *)
let step_name = function
  | AvlHeapModel.Fuel -> "FUEL" | AvlHeapModel.At None -> "-" | AvlHeapModel.At (Some z) -> string_of_int (iz z)
let walk_name = function Some l -> dots (List.map iz l) | None -> "FUEL"

let tid = function AvlModel.E -> None | AvlModel.N (i, _, _, _, _) -> Some i

(* the heap holds exactly the nodes of the functional tree with the same fields, and every parent link
   points to the node one level up *)
let rec same_shape h par t =
  match t with
  | AvlModel.E -> true
  | AvlModel.N (i, d, b, l, r) ->
    (match AvlHeapModel.hget h i with
     | None -> false
     | Some n ->
       n.AvlHeapModel.ndata = d && n.AvlHeapModel.nbal = b && n.AvlHeapModel.npar = par
       && n.AvlHeapModel.nleft = tid l && n.AvlHeapModel.nright = tid r
       && same_shape h (Some i) l && same_shape h (Some i) r)

let () =
  iter_lines (fun line ->
    match split_ws line with
    | [] -> Printf.printf "M ?\nS ?\n"
    | pol :: ops ->
      let dup = (String.length pol >= 2 && pol.[0] = 'd' && pol.[1] = '1') in   (* d0|d1, optional suffix z = NULL-element mode of the C driver (elements are abstract here) *)
      let st = ref AvlModel.init in
      let hs = ref AvlHeapModel.hinit in
      let sp = ref (([], Z0) : AvlSpec.sstate) in
      let mo = Buffer.create 256 and ms = Buffer.create 256 and so = Buffer.create 256 in
      let rots = ref [] in
      let add b s = if Buffer.length b > 0 then Buffer.add_char b ' '; Buffer.add_string b s in
      let diff what = add ms ("HEAPDIFF:" ^ what) in
      let key_of_id_model id =
        match AvlModel.lookup (zi id) !st.AvlModel.root with Some (_, (k, _)) -> iz k | None -> -1 in
      let msize () = iz !st.AvlModel.size in
      let ssize () = iz (AvlSpec.sp_size !sp) in
      (* container fields of the two models *)
      let check_state () =
        if !hs.AvlHeapModel.hsize <> !st.AvlModel.size then diff "size";
        if !hs.AvlHeapModel.hnextid <> !st.AvlModel.nextid then diff "nextid";
        if !hs.AvlHeapModel.hroot <> tid !st.AvlModel.root then diff "root" in
      (* the parent-link sweep: next and prev of every live node, from the heap model *)
      let sweep () =
        let h = !hs in
        if iz h.AvlHeapModel.hsize <= sweep_limit then begin
          let root = !st.AvlModel.root in
          let live = List.sort_uniq compare (List.map (fun (i, _) -> iz i) h.AvlHeapModel.hp) in
          let nx = List.map (fun i -> (i, AvlHeapModel.h_iter_next h (zi i))) live
          and pv = List.map (fun i -> (i, AvlHeapModel.h_iter_prev h (zi i))) live in
          let show l = String.concat "." (List.map (fun (i, r) -> Printf.sprintf "%d>%s" i (step_name r)) l) in
          add ms (Printf.sprintf "L%s/%s" (show nx) (show pv));
          if live <> sorted_ints (List.map iz (AvlModel.ids root)) then diff "sweep-live";
          if List.exists (fun (i, r) -> r <> AvlHeapModel.At (AvlModel.tnext (zi i) root)) nx then diff "sweep-next";
          if List.exists (fun (i, r) -> r <> AvlHeapModel.At (AvlModel.tprev (zi i) root)) pv then diff "sweep-prev";
          if not (same_shape h.AvlHeapModel.hp None root && List.length h.AvlHeapModel.hp = List.length live)
          then diff "sweep-shape"
        end in
      let walk_tokens () =
        let root = !st.AvlModel.root in
        let hf = AvlHeapModel.h_walk_fwd !hs and hb = AvlHeapModel.h_walk_bwd !hs in
        if hf <> Some (AvlModel.walk_fwd root) then diff "walk-fwd";
        if hb <> Some (AvlModel.walk_bwd root) then diff "walk-bwd";
        let ids = function Some l -> List.map iz l | None -> [] in
        let f = ids hf and b = ids hb in
        add mo (Printf.sprintf "w:%s/%s/%s/%s" (dots (List.map key_of_id_model f)) (dots (List.map key_of_id_model b))
                  (dots (sorted_ints f)) (dots (sorted_ints b)));
        add ms (Printf.sprintf "W%s/%s" (walk_name hf) (walk_name hb));
        let l = fst !sp in
        let ks = List.map (fun (_, (k, _)) -> iz k) l and is = List.map (fun (i, _) -> iz i) l in
        add so (Printf.sprintf "w:%s/%s/%s/%s" (dots ks) (dots (List.rev ks)) (dots (sorted_ints is)) (dots (sorted_ints is))) in
      let dump_tokens () =
        let root = !st.AvlModel.root in
        let h = !hs in
        let bad = ref false in
        let ps = List.map (fun id ->
          let p = AvlModel.path_to id root in
          (* the same path, obtained by climbing the parent links of the heap model *)
          if AvlHeapModel.h_path_up (AvlHeapModel.fuel_of h) h.AvlHeapModel.hp id [] <> p then bad := true;
          match p with
          | Some p -> Printf.sprintf "%d=%s" (iz id) (dots (List.map iz p))
          | None -> Printf.sprintf "%d=?" (iz id)) (AvlModel.walk_fwd root) in
        add mo (Printf.sprintf "D:h%d/%d" (iz (AvlModel.height root)) (msize ())); add so "*";
        add ms ("D" ^ String.concat ";" ps);
        if !bad then diff "path" in
      List.iter (fun tok ->
        let c = tok.[0] in
        let arg () = int_of_string (String.sub tok 1 (String.length tok - 1)) in
        match c with
        | 'i' | 'I' ->
          let k = arg () in
          let o = if c = 'I' then [false] else [] in
          let id = !st.AvlModel.nextid in
          let x = (zi k, id) in
          let lg = AvlModel.ins_log rank dup x !st.AvlModel.root in
          let ((((s, it), st'), o'), rc) = AvlModel.insert rank dup x o !st in
          st := st'; if rc <> [] then rots := !rots @ ["i" ^ dots (List.map iz rc)];
          add mo (Printf.sprintf "i:%s:%s:s%d" (status_name s) (opt_id it) (msize ()));
          add ms ("c" ^ dots (List.map iz lg));
          (match AvlHeapModel.h_insert rank dup x o !hs with
           | None -> diff "insert-fuel"
           | Some (((((hs_, hit), h'), ho'), hrc), hlg) ->
             hs := h';
             if hs_ <> s then diff "insert-status";
             if hit <> it then diff "insert-iter";
             if ho' <> o' then diff "insert-oracle";
             if hrc <> rc then diff "insert-rot";
             if hlg <> lg then diff "insert-cmplog");
          check_state ();
          sweep ();
          let (((s2, it2), sp'), _) = AvlSpec.sp_insert rank dup x o !sp in
          sp := sp';
          add so (Printf.sprintf "i:%s:%s:s%d" (status_name s2) (opt_id it2) (ssize ()))
        | 'r' ->
          let id = arg () in
          let hl = AvlHeapModel.h_lookup !hs (zi id) in
          let fl = AvlModel.lookup (zi id) !st.AvlModel.root in
          (match hl with
           | None -> add mo "r:skip"; add ms "-"; if fl <> hl then diff "lookup"
           | Some _ ->
             let cls = match AvlModel.node_class (zi id) !st.AvlModel.root with Some c -> iz c | None -> -1 in
             let is_root = (match !st.AvlModel.root with AvlModel.N (i, _, _, _, _) -> iz i = id | AvlModel.E -> false) in
             let (((s, st'), dl), rc) = AvlModel.remove (zi id) !st in
             st := st'; if rc <> [] then rots := !rots @ ["r" ^ dots (List.map iz rc)];
             add mo (Printf.sprintf "r:%s:%s:s%d" (status_name s)
                       (String.concat "," (List.map (fun (i, _) -> Printf.sprintf "d%d@ok" (iz i)) dl)) (msize ()));
             add ms (Printf.sprintf "k%d%s" cls (if is_root then "R" else ""));
             if fl <> hl then diff "lookup";
             let h = !hs in
             let hcls = (if AvlHeapModel.left h.AvlHeapModel.hp (zi id) = None then 0 else 1)
                        + (if AvlHeapModel.right h.AvlHeapModel.hp (zi id) = None then 0 else 1) in
             if hcls <> cls || (h.AvlHeapModel.hroot = Some (zi id)) <> is_root then diff "remove-class";
             (match AvlHeapModel.h_remove (zi id) h with
              | None -> diff "remove-fuel"
              | Some ((h', hdl), hrc) ->
                hs := h';
                if s <> AvlSpec.SUCCESS then diff "remove-status";
                if hdl <> dl then diff "remove-destroy";
                if hrc <> rc then diff "remove-rot");
             check_state ();
             sweep ());
          (match AvlSpec.slookup (zi id) (fst !sp) with
           | None -> add so "r:skip"
           | Some _ ->
             let ((s, sp'), dl) = AvlSpec.sp_remove (zi id) !sp in
             sp := sp';
             add so (Printf.sprintf "r:%s:%s:s%d" (status_name s)
                       (String.concat "," (List.map (fun (i, _) -> Printf.sprintf "d%d@ok" (iz i)) dl)) (ssize ())))
        | 'f' ->
          let k = arg () in
          let x = (zi k, zi (-1)) in
          let ((s, it), lg) = AvlModel.tfind rank x !st in
          (match it with
           | Some (i, (k', _)) ->
             add mo (Printf.sprintf "f:%s:%d:s%d" (status_name s) (iz k') (msize ()));
             add ms (Printf.sprintf "%d:c%s" (iz i) (dots (List.map iz lg)))
           | None ->
             add mo (Printf.sprintf "f:%s:-:s%d" (status_name s) (msize ()));
             add ms (Printf.sprintf "-:c%s" (dots (List.map iz lg))));
          add mo (Printf.sprintf "fc%d/%d" (List.length lg) (msize ())); add ms "-";
          (match AvlHeapModel.h_tfind rank x !hs with
           | None -> diff "find-fuel"
           | Some ((hs_, hit), hlg) ->
             if hs_ <> s then diff "find-status";
             if hit <> it then diff "find-iter";
             if hlg <> lg then diff "find-cmplog");
          (match AvlSpec.sfind rank x (fst !sp) with
           | Some (_, (k', _)) -> add so (Printf.sprintf "f:OK:%d:s%d" (iz k') (ssize ()))
           | None -> add so (Printf.sprintf "f:NOTFOUND:-:s%d" (ssize ())));
          add so "*"
        | 'g' ->
          let id = arg () in
          let fl = AvlModel.lookup (zi id) !st.AvlModel.root in
          (match fl with
           | Some (i, (k, _)) -> add mo (Printf.sprintf "g:%d.%d" (iz k) (iz i))
           | None -> add mo "g:skip");
          add ms "-";
          if AvlHeapModel.h_lookup !hs (zi id) <> fl then diff "get";
          (match AvlSpec.slookup (zi id) (fst !sp) with
           | Some (i, (k, _)) -> add so (Printf.sprintf "g:%d.%d" (iz k) (iz i))
           | None -> add so "g:skip")
        | 'n' | 'p' ->
          let id = arg () in
          let fl = AvlModel.lookup (zi id) !st.AvlModel.root in
          let hl = AvlHeapModel.h_lookup !hs (zi id) in
          (match hl with
           | Some _ ->
             (* one step through the links of the heap model from the held iterator *)
             let r = if c = 'n' then AvlHeapModel.h_iter_next !hs (zi id) else AvlHeapModel.h_iter_prev !hs (zi id) in
             let fr = if c = 'n' then AvlModel.tnext (zi id) !st.AvlModel.root else AvlModel.tprev (zi id) !st.AvlModel.root in
             add mo (Printf.sprintf "%c:ok" c); add ms (step_name r);
             if r <> AvlHeapModel.At fr then diff (if c = 'n' then "next" else "prev")
           | None -> add mo (Printf.sprintf "%c:skip" c); add ms "-");
          if fl <> hl then diff "lookup";
          (match AvlSpec.slookup (zi id) (fst !sp) with
           | Some _ -> add so (Printf.sprintf "%c:ok" c)
           | None -> add so (Printf.sprintf "%c:skip" c))
        | 'w' -> walk_tokens ()
        | 'D' -> dump_tokens ()
        | _ -> add mo "?"; add ms "?"; add so "?") ops;
      walk_tokens ();
      dump_tokens ();
      let fl = List.map (fun (i, _) -> iz i) (AvlModel.free_log !st.AvlModel.root) in
      add mo (Printf.sprintf "end:s%d:free=%s:ud=ok" (msize ()) (dots (sorted_ints fl)));
      add ms ("F" ^ dots fl);
      let sl = List.map (fun (i, _) -> iz i) (fst !sp) in
      add so (Printf.sprintf "end:s%d:free=%s:ud=ok" (ssize ()) (dots (sorted_ints sl)));
      Printf.printf "M %s || %s\nS %s\nX %s\n" (Buffer.contents mo) (Buffer.contents ms) (Buffer.contents so)
        (String.concat "," !rots))
