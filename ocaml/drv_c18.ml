(* C18 model driver (see harness/drv_c18.c for the case syntax).
   M lines: extracted ThreadModel (glue over the explicit pthread environment).
   S lines: the property read directly: SUCCESS iff the thread was started, started exactly once
   with the given argument on a stack at least as large as requested; join SUCCESS iff joined. *)
module String = Stdlib.String
module List = Stdlib.List
module Array = Stdlib.Array
module Char = Stdlib.Char
module Printf = Stdlib.Printf
open Zutil

let names = [| "SUCCESS"; "ERROR"; "NO_MEM"; "NOT_FOUND"; "EXISTS"; "BAD_ARG"; "BAD_PERMS"; "REACHED_END";
               "TIMEOUT"; "OVERFLOW"; "NOT_SUPPORTED"; "UNAVAILABLE"; "NO_SPACE"; "MAX_LINKS" |]
let sname s = names.(int_of_z (SemErrnoModel.status_code s))
let fake_default = 8388608
let fn_id = z_of_int 7 and arg_id = z_of_int 9

let show_call = function
  | ThreadModel.CAttrInit a -> Printf.sprintf "init(a%d)" (int_of_nat a)
  | ThreadModel.CSetStack (a, s) -> Printf.sprintf "set(a%d,%s)" (int_of_nat a) (string_of_z s)
  | ThreadModel.CCreate (a, f, x) ->
    Printf.sprintf "create(%s,%s,%s)"
      (match a with Some a -> Printf.sprintf "a%d" (int_of_nat a) | None -> "null")
      (if f = fn_id then "f" else "f?") (if x = arg_id then "arg" else "arg?")
  | ThreadModel.CAttrDestroy a -> Printf.sprintf "destroy(a%d)" (int_of_nat a)
  | ThreadModel.CJoin (_, null) -> Printf.sprintf "join(t,%s)" (if null then "null" else "ptr")

let create size ri rs rc =
  let sc = { ThreadModel.r_init = z_of_int ri; r_set = z_of_int rs; r_create = z_of_int rc } in
  ThreadModel.thread_create_model sc (z_of_string size) fn_id arg_id (ThreadModel.new_env (z_of_int fake_default))

(* the ideal life cycle for n threads writing 8 values each: all bodies run, then all joins *)
let lifecycle n reverse =
  let bodies = List.init n (fun i -> List.init 8 (fun k -> (z_of_int k, z_of_int (i * 100 + k)))) in
  let order = List.init n (fun k -> if reverse then n - 1 - k else k) in
  let steps = List.concat (List.init 10 (fun _ -> List.init n (fun i -> ThreadModel.IStep (nat_of_int i)))) in
  (* joins are also attempted too early (they sleep), then again after the bodies *)
  let joins = List.map (fun i -> ThreadModel.IJoin (nat_of_int i)) order in
  let st = ThreadModel.irun (joins @ steps @ joins) (ThreadModel.iinit bodies) in
  let js = st.ThreadModel.i_joins in
  let visible = List.for_all (fun j ->
      ThreadModel.writes_of j.ThreadModel.j_thread j.ThreadModel.j_mem
      = List.nth bodies (int_of_nat j.ThreadModel.j_thread)) js in
  let all_ok = List.for_all (fun j -> sname j.ThreadModel.j_status = "SUCCESS") js in
  (List.length js = n, visible, all_ok)

let () =
  iter_lines (fun line ->
    (* a leading @<n> sets errno before the calls under test: neither model nor spec depends on it *)
    let toks = match split_ws line with
      | t :: rest when String.length t > 0 && t.[0] = '@' -> rest
      | l -> l in
    match toks with
    | ["S"; size; ri; rs; rcs] ->
      (* the model makes ONE pthread_create call: only the first scripted result is ever consumed *)
      let rcl = List.map int_of_string (String.split_on_char ',' rcs) in
      let rc = string_of_int (List.hd rcl) in
      let (st, env) = create size (int_of_string ri) (int_of_string rs) (int_of_string rc) in
      let started = env.ThreadModel.e_started in
      let calls = String.concat " " (List.map show_call env.ThreadModel.e_calls) in
      let ge, stack = match started with
        | [t] -> (if BinInt.Z.ltb t.ThreadModel.th_stack (z_of_string size) then "0" else "1"),
                 string_of_z t.ThreadModel.th_stack
        | _ -> "-", "-" in
      Printf.printf "M st=%s started=%d stack_ge=%s || %s stack=%s\n" (sname st) (List.length started) ge calls stack;
      (* spec: with one possible outcome of thread creation the line is fixed; when a later attempt could succeed
         the property leaves both "reported failure, nothing started" and "SUCCESS with one thread on a large
         enough stack" open (checked by the plug-in's l1_extra) *)
      if int_of_string rc = 0 then Printf.printf "S st=SUCCESS started=1 stack_ge=1\n"
      else if List.exists (fun r -> r = 0) rcl then Printf.printf "S * * *\n"
      else Printf.printf "S * started=0 stack_ge=-\n"
    | ["J"; r] ->
      let (st, env) = ThreadModel.thread_join_model (z_of_int 1) (z_of_int (int_of_string r))
          (ThreadModel.new_env (z_of_int fake_default)) in
      Printf.printf "M st=%s || %s\nS %s\n" (sname st)
        (String.concat " " (List.map show_call env.ThreadModel.e_calls))
        (if int_of_string r = 0 then "st=SUCCESS" else "*")
    | ["T"; size; n; _; order] ->
      let n = int_of_string n in
      let rs = int_of_z (ThreadModel.glibc_setstack_result (z_of_string size)) in
      let (st, env) = create size 0 rs 0 in
      let ge = List.for_all (fun t -> int_of_z t.ThreadModel.th_stack >= int_of_string size) env.ThreadModel.e_started in
      let (all_joined, visible, ok) = lifecycle n (order = "r") in
      let b x = if x then 1 else 0 in
      (* the size the model hands to pthread_attr_setstacksize *)
      let set_ge = List.exists (function
          | ThreadModel.CSetStack (_, s) -> int_of_z s >= int_of_string size | _ -> false) env.ThreadModel.e_calls in
      Printf.printf "M st=%s created=%d once=%d arg=1 set_ge=%d stack_ge=%d depth=%d visible=%d joined=%s || seq=1\n"
        (sname st) (n * List.length env.ThreadModel.e_started) (b (List.length env.ThreadModel.e_started = 1))
        (b set_ge) (b ge) (b ge) (b visible) (if all_joined && ok then "SUCCESS" else "ERROR");
      Printf.printf "S st=SUCCESS created=%d once=1 arg=1 set_ge=1 stack_ge=1 depth=1 visible=1 joined=SUCCESS\n" n
    | ["U"; size] ->
      let (_, env) = create size 0 0 0 in
      let set_ge = List.exists (function
          | ThreadModel.CSetStack (_, s) -> int_of_z s >= int_of_string size | _ -> false) env.ThreadModel.e_calls in
      Printf.printf "M consistent=1 set_ge=%d || seq=1\nS consistent=1 set_ge=1\n" (if set_ge then 1 else 0)
    | _ -> Printf.printf "M ?\nS ?\n")
