(* C20 model driver.  cases:
     E <int>                         -> zix_strerror
     V <hexmem> <o1> <l1> <o2> <l2>  -> string_view equals / copy of view 1 *)
module String = Stdlib.String
module List = Stdlib.List
module Array = Stdlib.Array
module Char = Stdlib.Char
module Printf = Stdlib.Printf
open Zutil

let () =
  let defined = List.map int_of_z (StatusModel.defined_values StatusTable.enum_table) in
  iter_lines (fun line ->
    match split_ws line with
    | ["E"; n] ->
      let v = int_of_string n in
      let m = Zstring.to_ocaml (StatusModel.strerror StatusTable.enum_table StatusTable.switch_table
                                  StatusTable.default_msg (z_of_int v)) in
      (* spec: the header's description for a defined status, the generic message otherwise *)
      let s =
        if List.mem v defined then
          let (_, d) = List.find (fun ((_, v'), _) -> int_of_z v' = v) StatusTable.enum_table in
          Zstring.to_ocaml d
        else "Unknown error" in
      Printf.printf "M msg=%s\nS msg=%s\n" (String.escaped m) (String.escaped s)
    | ["V"; hex; o1; l1; o2; l2] ->
      let mem = List.map z_of_int (bytes_of_hex hex) in
      let mk o l = { StatusModel.v_off = nat_of_int (int_of_string o); StatusModel.v_len = nat_of_int (int_of_string l) } in
      let a = mk o1 l1 and b = mk o2 l2 in
      let eq = StatusModel.sv_equals mem a b in
      let cp = match StatusModel.sv_copy true mem a with
        | Some c -> hex_of_bytes (List.map int_of_z c) | None -> "NULL" in
      (* spec: equal iff same length and same bytes; copy = bytes ++ [0] *)
      let sl v = List.map int_of_z (StatusModel.slice mem v) in
      let seq = (sl a = sl b) in
      let scp = hex_of_bytes (sl a @ [0]) in
      Printf.printf "M eq=%b copy=%s\nS eq=%b copy=%s\n" eq cp seq scp
    | ["W"; hex1; hex2; o1; l1; o2; l2] ->
      let mk o l = { StatusModel.v_off = nat_of_int (int_of_string o); StatusModel.v_len = nat_of_int (int_of_string l) } in
      let a = mk o1 l1 and b = mk o2 l2 in
      let run hex =
        let mem = List.map z_of_int (bytes_of_hex hex) in
        let sl v = List.map int_of_z (StatusModel.slice mem v) in
        StatusModel.sv_equals mem a b, (sl a = sl b) in
      let (m1, s1) = run hex1 and (m2, s2) = run hex2 in
      Printf.printf "M eq1=%b eq2=%b\nS eq1=%b eq2=%b\n" m1 m2 s1 s2
    | _ -> Printf.printf "M ?\nS ?\n")
