# /verif top-level: `make setup` builds the Coq development (full .vo build), extracts the models
# and builds the OCaml model drivers.  Everything offline.
SHELL := /bin/sh
.PHONY: setup coq models clean manifest

setup: coq models

coq:
	python3 tools/translate_status.py || true
	python3 tools/translate_errno.py || true
	python3 tools/translate_leaf.py || true
	python3 tools/mkcoqproject.py
	cd coq && timeout 3000 $(MAKE) -j16 -k || echo "WARNING: some Coq files failed to build (the affected checks will report it)"

models:
	tools/build_models.sh

manifest:
	python3 tools/mkmanifest.py

clean:
	-cd coq && [ -f Makefile ] && $(MAKE) clean
	rm -rf ocaml/build .work coq/Makefile coq/Makefile.conf
