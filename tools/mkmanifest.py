#!/usr/bin/env python3
"""Assemble MANIFEST.json from props/<id>.json fragments (one per property; a fragment with
"not_applicable": "<reason>" lists the property as not claimed) and validate it."""
import glob
import json
import os
import sys

V = os.path.dirname(os.path.dirname(os.path.abspath(__file__)))
ids = [json.loads(l)["id"] for l in open(os.path.join(V, "properties.jsonl"))]
checks, na = [], []
for pid in ids:
    fp = os.path.join(V, "props", pid + ".json")
    if not os.path.exists(fp):
        na.append({"property_id": pid, "reason": "check not built yet (work in progress; see DESIGN.md section 5)"})
        continue
    fr = json.load(open(fp))
    if "not_applicable" in fr:
        na.append({"property_id": pid, "reason": fr["not_applicable"]})
        continue
    c = {
        "property_id": pid,
        "quick_cmd": "python3 tools/check.py %s --tier quick" % pid,
        "thorough_cmd": "python3 tools/check.py %s --tier thorough" % pid,
        "evidence_file": "/verif/evidence/%s.json" % pid,
        "replay_cmd_template": "python3 tools/check.py %s --replay {path}" % pid,
        "engine": "coq-proof+correspondence",
    }
    c.update(fr)
    checks.append(c)
hooks = json.load(open(os.path.join(V, "props", "hooks.json")))
m = {
    "version": 1,
    "setup_cmd": "make -C /verif setup",
    "hooks": hooks,
    "engines": [{
        "name": "coq-proof+correspondence", "path": "tools/check.py",
        "serves_properties": [c["property_id"] for c in checks],
        "kind_free_text": "Coq 8.16 theorems about executable Gallina models (coq/), models extracted to OCaml and run "
                          "against C drivers compiled from /repo's working tree on the same generated inputs "
                          "(correspondence), spec oracle + shrinking search when a proof or the correspondence breaks"}],
    "checks": checks,
    "not_applicable": na,
    "notes": "See DESIGN.md. Every check: proof step (coqc, Print Assumptions) + build of /repo working tree with "
             "ASan/UBSan + model/impl/spec differential run + known-findings handling (known_findings.json).",
}
json.dump(m, open(os.path.join(V, "MANIFEST.json"), "w"), indent=1)

# known_findings.json: `findings` assembled from props/<ID>.findings.json fragments (development time only;
# the file is committed and never written by a check)
kf_path = os.path.join(V, "known_findings.json")
kf = json.load(open(kf_path))
found = []
for fp in sorted(glob.glob(os.path.join(V, "props", "*.findings.json"))):
    for f in json.load(open(fp)):
        for k in ("id", "property", "status", "what"):
            assert k in f, (fp, k)
        found.append(f)
kf["findings"] = found
json.dump(kf, open(kf_path, "w"), indent=1)
try:
    sys.path.insert(0, "/opt/veriftools/pyvenv/lib/python3.11/site-packages")
    import jsonschema
    jsonschema.validate(m, json.load(open("/root/.vp/MANIFEST.schema.json")))
    print("MANIFEST.json valid: %d checks, %d not claimed" % (len(checks), len(na)))
except ImportError:
    print("MANIFEST.json written (jsonschema not available to validate)")
