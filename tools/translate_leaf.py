#!/usr/bin/env python3
"""Regenerate coq/gen/Leaf.v and coq/gen/Constants.v from the C sources of zix ($ZIX_REPO or /repo).

Leaf.v      one Gallina `Definition leaf_<fn>` (over Z / bool, C semantics written out) per small, pure, loop-free C
            function -- and per selected straight-line fragment of a larger function -- read from clang's AST
            (`clang -fsyntax-only -Xclang -ast-dump=json`, same -I/-D flags as the checks' builds plus -DNDEBUG, so
            assert() is not translated), plus `leaf_<fn>_dom`, the domain the C parameter types give.
Constants.v the numeric constants the hand-written models depend on (AST initialisers, array bounds, macros evaluated
            by small compiled probes that #include the .c file).

Both files are divided into one Coq `Module` per component (Ring, Digest, Bump, Hash, BTree, Env, Path, Copy, Sem).
coq/Properties_leaf_<component>.v proves, on the whole domain, that each generated definition equals the function /
constant the models use; the checks re-run this tool and re-check those proofs on every run, so a change of a leaf
function or constant breaks a proof obligation at once, whatever the test generators do.

The fragment (anything else is REFUSED: the item is left out of the generated file, a line
`translate_leaf: REFUSED <Module>.<name>: <why>` goes to stderr and the exit status is 2):
  * types: _Bool, and the integer types of LP64 (checked by _Static_asserts given to clang); values are mathematical
    integers (Z), _Bool values and the results of comparisons / && / || / ! are Coq bools (Z.b2z where C uses them as
    numbers);
  * + - * << ~ and unary minus at an UNSIGNED type of width w (the type clang computed after the usual arithmetic
    conversions) are reduced `mod 2 ^ w`; / and % at an unsigned type are Z.div / Z.modulo (C: undefined for a zero
    divisor; here whatever Z gives); >> & | ^ at an unsigned type are Z.shiftr / Z.land / Z.lor / Z.lxor (shift
    amounts >= w are undefined in C; here whatever Z gives);  arithmetic at a SIGNED type is refused (overflow is
    undefined) -- signed values may only be compared, converted and selected;
  * integral conversions: to unsigned `mod 2 ^ w` (omitted when the source range fits), to signed only when the source
    range fits; sizeof(T) for scalar T;
  * comparisons, ?:, &&, ||, ! as if-then-else / andb / orb / negb;
  * statements: declarations with initialiser, `x = e`, `x op= e`, `++x`/`x++`/`--x`/`x--` on locals and value
    parameters (a sequence of `let`s re-binding the same name), `if` (both continuations are translated), `return e`
    last on every path; `(void)0` (a disabled assert) is skipped; no loops, switch, goto, address-of, arrays, nested
    assignments or calls other than to functions that are themselves translated;
  * every distinct struct field read `p->f` / `s.f` through a parameter becomes a parameter `p_f` of the definition,
    in the position of `p`, in order of first read; a pointer/struct parameter that is only passed on to another
    translated function is replaced by the fields that function reads; file-scope `const` variables with an
    initialiser are inlined;
  * a fragment (an initialiser, an `if` condition, a run of statements) becomes a function of the locals it reads.
"""
import hashlib
import json
import os
import re
import subprocess
import sys
import tempfile
from concurrent.futures import ThreadPoolExecutor

HERE = os.path.dirname(os.path.abspath(__file__))
sys.path.insert(0, HERE)
import vlib  # noqa: E402

REPO = os.environ.get("ZIX_REPO", "/repo")
GEN = os.environ.get("LEAF_GEN_DIR") or os.path.join(vlib.COQ, "gen")   # LEAF_GEN_DIR: scratch output while developing
LEAF_V = os.path.join(GEN, "Leaf.v")
CONST_V = os.path.join(GEN, "Constants.v")
STAMP = os.path.join(GEN, ".leaf.stamp")
BTREE_PAGES = [64, 128, 256, 4096]


class Refuse(Exception):
    pass


# ------------------------------------------------------------------------------------------------ C types (LP64)
INT_TYPES = {
    "char": (True, 8), "signed char": (True, 8), "unsigned char": (False, 8),
    "short": (True, 16), "unsigned short": (False, 16),
    "int": (True, 32), "unsigned int": (False, 32),
    "long": (True, 64), "unsigned long": (False, 64),
    "long long": (True, 64), "unsigned long long": (False, 64),
}
PLATFORM_ASSERTS = """
_Static_assert(sizeof(char) == 1 && (char)-1 < 0 && sizeof(short) == 2 && sizeof(int) == 4, "");
_Static_assert(sizeof(long) == 8 && sizeof(long long) == 8 && sizeof(void*) == 8, "");
_Static_assert((unsigned char)-1 == 255 && (unsigned)-1 == 4294967295U && (unsigned long)-1 == 18446744073709551615UL, "");
"""


class Ty:
    def __init__(self, kind, signed=False, width=0, name=""):
        self.kind, self.signed, self.width, self.name = kind, signed, width, name   # kind: int | bool | ptr | other

    def fits_in(self, other):
        """every value of self is a value of other (both int)"""
        if self.signed == other.signed:
            return self.width <= other.width
        return (not self.signed) and self.width < other.width

    def dom(self, v):
        if self.kind != "int":
            return None
        if self.signed:
            return "- 2 ^ %d <= %s < 2 ^ %d" % (self.width - 1, v, self.width - 1)
        return "0 <= %s < 2 ^ %d" % (v, self.width)


def strip_quals(q):
    q = re.sub(r"\b(const|volatile|restrict)\b", "", q)
    return re.sub(r"\s+", " ", q).strip()


def ctype(t):
    q = strip_quals(t.get("desugaredQualType", t["qualType"]))
    if q in ("_Bool", "bool"):          # clang prints _Bool as `bool` when <stdbool.h>'s macro is visible
        return Ty("bool", name="_Bool")
    if q in INT_TYPES:
        return Ty("int", INT_TYPES[q][0], INT_TYPES[q][1], q)
    if q.endswith("*"):
        return Ty("ptr", name=q)
    return Ty("other", name=q)


def sizeof_type(t):
    ty = ctype(t)
    if ty.kind == "int":
        return ty.width // 8
    if ty.kind == "bool":
        return 1
    if ty.kind == "ptr":
        return 8
    raise Refuse("sizeof(%s): not a scalar type" % ty.name)


# ------------------------------------------------------------------------------------------------ clang
def clang_ast(relpath, extra_defs=()):
    """top-level declarations of the translation unit, as clang's JSON"""
    src = os.path.join(REPO, relpath)
    if not os.path.exists(src):
        raise Refuse("%s does not exist" % relpath)
    with tempfile.NamedTemporaryFile("w", suffix=".h", delete=False) as f:
        f.write(PLATFORM_ASSERTS)
        asserts = f.name
    try:
        cmd = (["clang", "-std=gnu11", "-fsyntax-only", "-w"] + vlib.REPO_DEFS + ["-DNDEBUG"] + list(extra_defs) +
               ["-I" + os.path.join(REPO, "include"), "-I" + os.path.join(REPO, "src"), "-include", asserts,
                "-Xclang", "-ast-dump=json", src])
        p = subprocess.run(cmd, capture_output=True, text=True, timeout=120)
    finally:
        os.unlink(asserts)
    if p.returncode != 0:
        raise Refuse("clang cannot parse %s: %s" % (relpath, p.stderr.strip()[:300]))
    return json.loads(p.stdout).get("inner", [])


def walk(n):
    if isinstance(n, dict) and n:
        yield n
        for c in n.get("inner", []):
            yield from walk(c)


def strip_parens(e):
    while e.get("kind") in ("ParenExpr", "ConstantExpr") and e.get("inner"):
        e = e["inner"][0]
    return e


def strip_casts(e):
    while True:
        e = strip_parens(e)
        if e.get("kind") in ("ImplicitCastExpr", "CStyleCastExpr") and e.get("inner"):
            e = e["inner"][0]
        else:
            return e


# ------------------------------------------------------------------------------------------------ translation
def comment_safe(s):
    return s.replace("*)", "* )").replace("(*", "( *")


def par(s):
    return s if re.fullmatch(r"[A-Za-z0-9_'.]+", s) else "(" + s + ")"


def wrap(t, w):
    return "%s mod 2 ^ %d" % (par(t), w)


class Leaf:
    """a translated function: name, Coq parameters [(name, Ty)], fields read per pointer parameter, result kind"""
    def __init__(self, name):
        self.name = name
        self.params = []          # [(coq name, Ty)]
        self.c_params = []        # [(c name, Ty, [field coq names])] in C order
        self.ret_bool = False
        self.body = ""
        self.comment = ""


class Tr:
    def __init__(self, unit, known):
        self.unit = unit              # top-level decls of the TU (for file-scope constants)
        self.known = known            # name -> Leaf already translated (same TU)
        self.vars = {}                # decl id -> (coq name, Ty)
        self.names = set()            # Coq names in use
        self.fields = {}              # (base decl id) -> ordered {field: (coq name, Ty)}
        self.base_of = {}             # decl id -> C name of pointer/struct parameters and free aggregate variables
        self.free = None              # fragment mode (not None): variables of the enclosing function may be read
        self.enclosing = None         # fragment mode: the enclosing function
        self.order = []               # parameter order bookkeeping: ("var", id) | ("field", id, field)

    # ---- variables
    def declare(self, decl):
        name, ty = decl["name"], ctype(decl["type"])
        if name in self.names:
            raise Refuse("declaration of '%s' shadows another variable" % name)
        self.names.add(name)
        self.vars[decl["id"]] = (name, ty)
        return name, ty

    def var_ref(self, e):
        rd = e["referencedDecl"]
        did = rd["id"]
        if did in self.vars:
            name, ty = self.vars[did]
            if ty.kind not in ("int", "bool"):
                raise Refuse("use of '%s' of type %s as a value" % (name, ty.name))
            return ("B" if ty.kind == "bool" else "Z"), name
        if rd["kind"] == "EnumConstantDecl":
            raise Refuse("enumeration constant %s" % rd["name"])
        if rd["kind"] in ("VarDecl", "ParmVarDecl"):
            g = next((d for d in self.unit if d.get("id") == did and d.get("kind") == "VarDecl"), None)
            if g is not None:                       # file-scope variable: only constants with an initialiser
                q = g["type"].get("desugaredQualType", g["type"]["qualType"])
                if "const" not in q.split() or not g.get("inner"):
                    raise Refuse("reads the non-constant file-scope variable '%s'" % g["name"])
                k, t = Tr(self.unit, self.known).expr([x for x in g["inner"] if "Attr" not in x.get("kind", "")][0])
                return k, "(* %s *) %s" % (g["name"], t)
            if self.free is not None:               # fragment: a local of the enclosing function becomes a parameter
                d = next((n for n in walk(self.enclosing) if n.get("id") == did and n.get("kind") == "VarDecl"), None)
                if d is not None and d.get("storageClass") == "static":      # static const local: a constant
                    q = d["type"].get("desugaredQualType", d["type"]["qualType"])
                    init = [x for x in d.get("inner", []) if "Attr" not in x.get("kind", "")]
                    if "const" not in q.split() or not init:
                        raise Refuse("reads the non-constant static variable '%s'" % d["name"])
                    k, t = Tr(self.unit, self.known).expr(init[0])
                    return k, "(* %s *) %s" % (d["name"], t)
                ty = ctype(rd["type"])
                if ty.kind not in ("int", "bool"):
                    raise Refuse("fragment uses '%s' of type %s as a value" % (rd["name"], ty.name))
                if rd["name"] in self.names:
                    raise Refuse("two variables named '%s'" % rd["name"])
                self.names.add(rd["name"])
                self.vars[did] = (rd["name"], ty)
                self.order.append(("var", did))
                return ("B" if ty.kind == "bool" else "Z"), rd["name"]
        raise Refuse("reference to %s '%s'" % (rd["kind"], rd.get("name")))

    def aggregate_base(self, e):
        """e denotes a pointer / struct parameter (or, in a fragment, any such variable): its decl id"""
        e = strip_casts(e)
        if e.get("kind") != "DeclRefExpr" or e["referencedDecl"]["kind"] not in ("ParmVarDecl", "VarDecl"):
            raise Refuse("field access / pointer argument that is not a plain parameter")
        did = e["referencedDecl"]["id"]
        if did not in self.base_of:
            if self.free is None:
                raise Refuse("field access through '%s', which is not a parameter" % e["referencedDecl"]["name"])
            ty = ctype(e["referencedDecl"]["type"])
            if ty.kind not in ("ptr", "other"):
                raise Refuse("field access through scalar '%s'" % e["referencedDecl"]["name"])
            self.base_of[did] = e["referencedDecl"]["name"]
            self.order.append(("agg", did))
        return did

    def field(self, did, fname, ty):
        fs = self.fields.setdefault(did, {})
        if fname not in fs:
            if ty.kind not in ("int", "bool"):
                raise Refuse("field %s->%s of type %s read as a value" % (self.base_of[did], fname, ty.name))
            cname = "%s_%s" % (self.base_of[did], fname)
            if cname in self.names:
                raise Refuse("name clash on %s" % cname)
            self.names.add(cname)
            fs[fname] = (cname, ty)
        return fs[fname]

    # ---- expressions: return (kind, term) with kind "Z" or "B"
    def asZ(self, kt):
        return kt[1] if kt[0] == "Z" else "Z.b2z %s" % par(kt[1])

    def asB(self, kt):
        return kt[1] if kt[0] == "B" else "negb (%s =? 0)" % par(kt[1])

    def expr(self, e):
        k = e.get("kind")
        if k == "_Given":             # an operand whose term is already known (left side of a compound assignment)
            return "Z", e["term"]
        if k in ("ParenExpr", "ConstantExpr"):
            return self.expr(e["inner"][0])
        if k == "IntegerLiteral":
            return "Z", e["value"]
        if k == "CharacterLiteral":
            return "Z", str(e["value"])
        if k == "DeclRefExpr":
            return self.var_ref(e)
        if k == "MemberExpr":
            did = self.aggregate_base(e["inner"][0])
            name, ty = self.field(did, e["name"], ctype(e["type"]))
            return ("B" if ty.kind == "bool" else "Z"), name
        if k in ("ImplicitCastExpr", "CStyleCastExpr"):
            return self.cast(e)
        if k == "ArraySubscriptExpr" and self.free is not None:
            # fragment: an element read `a[i]` through plain variables is a parameter `a_i` (fragments store nothing)
            a, i = strip_casts(e["inner"][0]), strip_casts(e["inner"][1])
            ty = ctype(e["type"])
            if a.get("kind") != "DeclRefExpr" or i.get("kind") != "DeclRefExpr" or ty.kind != "int":
                raise Refuse("array element read that is not of the form a[i]")
            name = "%s_%s" % (a["referencedDecl"]["name"], i["referencedDecl"]["name"])
            key = "elem:" + name
            if key not in self.vars:
                if name in self.names:
                    raise Refuse("name clash on %s" % name)
                self.names.add(name)
                self.vars[key] = (name, ty)
                self.order.append(("var", key))
            return "Z", name
        if k == "UnaryExprOrTypeTraitExpr":
            if e.get("name") != "sizeof":
                raise Refuse(e.get("name", k))
            t = e.get("argType") or (e["inner"][0]["type"] if e.get("inner") else None)
            if t is None:
                raise Refuse("sizeof without a type")
            return "Z", "(* %s *) %d" % (comment_safe("sizeof(%s)" % t["qualType"]), sizeof_type(t))
        if k == "UnaryOperator":
            return self.unary(e)
        if k == "BinaryOperator":
            return self.binary(e["opcode"], ctype(e["type"]), e["inner"][0], e["inner"][1])
        if k == "ConditionalOperator":
            c, a, b = e["inner"]
            ka, kb = self.expr(a), self.expr(b)
            if ka[0] == "B" and kb[0] == "B":
                return "B", "if %s then %s else %s" % (self.asB(self.expr(c)), ka[1], kb[1])
            return "Z", "if %s then %s else %s" % (self.asB(self.expr(c)), self.asZ(ka), self.asZ(kb))
        if k == "CallExpr":
            return self.call(e)
        raise Refuse("%s is outside the fragment" % k)

    def cast(self, e):
        ck, child = e.get("castKind"), e["inner"][0]
        if ck in ("LValueToRValue", "NoOp"):
            return self.expr(child)
        if ck == "IntegralToBoolean":
            return "B", self.asB(self.expr(child))
        if ck == "IntegralCast":
            kt = self.expr(child)
            src, dst = ctype(child["type"]), ctype(e["type"])
            if dst.kind != "int":
                raise Refuse("conversion to %s" % dst.name)
            if kt[0] == "B" or src.kind == "bool":          # 0 or 1 fits every integer type
                return "Z", self.asZ(kt)
            if src.kind != "int":
                raise Refuse("conversion from %s" % src.name)
            lit = strip_parens(child)
            if src.fits_in(dst) or (lit.get("kind") == "IntegerLiteral" and 0 <= int(lit["value"]) < 2 ** (dst.width - dst.signed)):
                return kt
            if not dst.signed:
                return "Z", wrap(kt[1], dst.width)
            raise Refuse("narrowing conversion to the signed type %s" % dst.name)
        raise Refuse("cast of kind %s" % ck)

    def unary(self, e):
        op, ty, a = e["opcode"], ctype(e["type"]), e["inner"][0]
        if op == "!":
            return "B", "negb %s" % par(self.asB(self.expr(a)))
        if op == "+":
            return self.expr(a)
        if op in ("~", "-"):
            if ty.kind != "int":
                raise Refuse("unary %s at type %s" % (op, ty.name))
            v = self.asZ(self.expr(a))
            if ty.signed:
                if op == "-" and strip_parens(a).get("kind") == "IntegerLiteral":
                    return "Z", "(- %s)" % v
                raise Refuse("unary %s at the signed type %s" % (op, ty.name))
            return "Z", wrap(("Z.lnot %s" if op == "~" else "- %s") % par(v), ty.width)
        raise Refuse("unary %s inside an expression" % op)

    def binary(self, op, ty, a, b):
        if op in ("&&", "||"):
            x, y = self.asB(self.expr(a)), self.asB(self.expr(b))
            return "B", "%s %s %s" % ("andb" if op == "&&" else "orb", par(x), par(y))
        if op in ("==", "!=", "<", "<=", ">", ">="):
            ta, tb = ctype(a["type"]), ctype(b["type"])
            if ta.kind not in ("int", "bool") or tb.kind not in ("int", "bool"):
                raise Refuse("comparison of %s with %s" % (ta.name, tb.name))
            x, y = par(self.asZ(self.expr(a))), par(self.asZ(self.expr(b)))
            return "B", {"==": "%s =? %s" % (x, y), "!=": "negb (%s =? %s)" % (x, y), "<": "%s <? %s" % (x, y),
                         "<=": "%s <=? %s" % (x, y), ">": "%s <? %s" % (y, x), ">=": "%s <=? %s" % (y, x)}[op]
        if op in ("=", ",") or op.endswith("="):
            raise Refuse("assignment / comma inside an expression")
        if ty.kind != "int":
            raise Refuse("operator %s at type %s" % (op, ty.name))
        if ty.signed:
            raise Refuse("operator %s at the signed type %s (overflow would be undefined)" % (op, ty.name))
        x, y = par(self.asZ(self.expr(a))), par(self.asZ(self.expr(b)))
        w = ty.width
        if op in ("+", "-", "*"):
            return "Z", wrap("%s %s %s" % (x, op, y), w)
        if op == "/":
            return "Z", "%s / %s" % (x, y)
        if op == "%":
            return "Z", "%s mod %s" % (x, y)
        if op == "<<":
            return "Z", wrap("Z.shiftl %s %s" % (x, y), w)
        if op == ">>":
            return "Z", "Z.shiftr %s %s" % (x, y)
        if op in ("&", "|", "^"):
            return "Z", "%s %s %s" % ({"&": "Z.land", "|": "Z.lor", "^": "Z.lxor"}[op], x, y)
        raise Refuse("operator %s" % op)

    def call(self, e):
        callee = strip_casts(e["inner"][0])
        if callee.get("kind") != "DeclRefExpr" or callee["referencedDecl"]["kind"] != "FunctionDecl":
            raise Refuse("indirect call")
        name = callee["referencedDecl"]["name"]
        g = self.known.get(name)
        if g is None:
            raise Refuse("call of %s, which is not a translated leaf function" % name)
        args = e["inner"][1:]
        if len(args) != len(g.c_params):
            raise Refuse("call of %s with %d arguments" % (name, len(args)))
        out = []
        for a, (pname, pty, pfields) in zip(args, g.c_params):
            if pty.kind in ("int", "bool"):
                kt = self.expr(a)
                out.append(par(self.asB(kt) if pty.kind == "bool" else self.asZ(kt)))
            else:
                did = self.aggregate_base(a)
                for f, fty in pfields:
                    out.append(self.field(did, f, fty)[0])
        return ("B" if g.ret_bool else "Z"), "leaf_%s %s" % (name, " ".join(out))

    # ---- statements, continuation style: block(stmts) is the Gallina term for "run stmts, which end in return"
    def assign(self, lhs, op, e):
        """the (coq name, new value) of `lhs op= rhs` / ++ / -- on a scalar variable"""
        lhs = strip_parens(lhs)
        if lhs.get("kind") != "DeclRefExpr":
            raise Refuse("assignment to something that is not a local variable or value parameter")
        did = lhs["referencedDecl"]["id"]
        if did not in self.vars and self.free is not None and lhs["referencedDecl"]["kind"] in ("VarDecl", "ParmVarDecl"):
            # fragment: a variable of the enclosing function.  `x = e` defines it (e may read the old value, which
            # then is a parameter); `x op= e`, ++, -- read it first
            if op == "=":
                rhs = self.asZ(self.expr(e["inner"][1])) if ctype(lhs["referencedDecl"]["type"]).kind == "int" else None
                if did not in self.vars:
                    ty = ctype(lhs["referencedDecl"]["type"])
                    if ty.kind != "int" or lhs["referencedDecl"]["name"] in self.names:
                        raise Refuse("assignment to '%s' in a fragment" % lhs["referencedDecl"]["name"])
                    self.names.add(lhs["referencedDecl"]["name"])
                    self.vars[did] = (lhs["referencedDecl"]["name"], ty)
                    return lhs["referencedDecl"]["name"], rhs
            else:
                self.var_ref(lhs)
        if did not in self.vars:
            raise Refuse("assignment to something that is not a local variable or value parameter")
        name, ty = self.vars[did]
        if ty.kind == "bool":
            if op != "=":
                raise Refuse("compound assignment to a _Bool")
            return name, self.asB(self.expr(e["inner"][1]))
        if ty.kind != "int":
            raise Refuse("assignment to '%s' of type %s" % (name, ty.name))
        if op == "=":
            return name, self.asZ(self.expr(e["inner"][1]))
        if op in ("++", "--"):
            if ty.signed:
                raise Refuse("%s on the signed variable '%s'" % (op, name))
            return name, wrap("%s %s 1" % (name, op[0]), ty.width)      # (T)(x +- 1): same residue for every width
        # compound: x = (T)((computeLHSType)x op rhs), the operation done at computeResultType
        lt, rt = ctype(e["computeLHSType"]), ctype(e["computeResultType"])
        if lt.kind != "int" or rt.kind != "int":
            raise Refuse("compound assignment computed at %s" % rt.name)
        if not ty.fits_in(lt):
            if lt.signed:
                raise Refuse("compound assignment converts '%s' to the signed type %s" % (name, lt.name))
            left = {"type": e["computeLHSType"], "v": wrap(name, lt.width)}
        else:
            left = {"type": e["computeLHSType"], "v": name}
        k, t = self.binary(op[:-1], rt, {"kind": "_Given", "type": left["type"], "term": left["v"]}, e["inner"][1])
        if rt.fits_in(ty):
            return name, t
        if ty.signed:
            raise Refuse("compound assignment narrows to the signed type %s" % ty.name)
        return name, wrap(t, ty.width)

    def block(self, stmts, tail=None):
        """tail: in fragment mode, the term that ends the run when no return is met"""
        if not stmts:
            if tail is None:
                raise Refuse("a path reaches the end of the function without a return")
            return tail
        s, rest = stmts[0], stmts[1:]
        k = s.get("kind")
        if k == "CompoundStmt":
            return self.block(s.get("inner", []) + rest, tail)
        if k == "NullStmt":
            return self.block(rest, tail)
        if k == "ReturnStmt":
            if not s.get("inner"):
                raise Refuse("return without a value")
            kt = self.expr(s["inner"][0])
            return self.asB(kt) if self.ret_bool else self.asZ(kt)
        if k == "DeclStmt":
            out = []
            for d in s["inner"]:
                if d.get("kind") != "VarDecl":
                    raise Refuse("%s in a declaration statement" % d.get("kind"))
                init = [x for x in d.get("inner", []) if "Attr" not in x.get("kind", "")]
                ty = ctype(d["type"])
                if not init:
                    raise Refuse("'%s' is declared without an initialiser" % d["name"])
                if ty.kind not in ("int", "bool"):
                    raise Refuse("local '%s' of type %s" % (d["name"], ty.name))
                kt = self.expr(init[0])
                name, _ = self.declare(d)
                out.append("let %s := %s in" % (name, self.asB(kt) if ty.kind == "bool" else self.asZ(kt)))
            return "\n".join(out) + "\n" + self.block(rest, tail)
        if k == "IfStmt":
            if s.get("hasInit") or s.get("hasVar"):
                raise Refuse("if with a declaration")
            parts = s["inner"]
            c = self.asB(self.expr(parts[0]))
            saved = (dict(self.vars), set(self.names))
            a = self.block([parts[1]] + rest, tail)
            self.vars, self.names = dict(saved[0]), set(saved[1])
            b = self.block(([parts[2]] if len(parts) > 2 else []) + rest, tail)
            self.vars, self.names = saved
            return "if %s\nthen (%s)\nelse (%s)" % (c, a, b)
        # expression statements
        e = strip_parens(s)
        k = e.get("kind")
        if k == "CStyleCastExpr" and e.get("castKind") == "ToVoid":
            inner = strip_parens(e["inner"][0])
            if inner.get("kind") in ("IntegerLiteral", "DeclRefExpr"):      # (void)0: assert under NDEBUG; (void)x
                return self.block(rest, tail)
            raise Refuse("expression cast to void")
        if k == "BinaryOperator" and e["opcode"] == "=":
            name, t = self.assign(e["inner"][0], "=", e)
            return "let %s := %s in\n%s" % (name, t, self.block(rest, tail))
        if k == "CompoundAssignOperator":
            name, t = self.assign(e["inner"][0], e["opcode"], e)
            return "let %s := %s in\n%s" % (name, t, self.block(rest, tail))
        if k == "UnaryOperator" and e["opcode"] in ("++", "--"):
            name, t = self.assign(e["inner"][0], e["opcode"], e)
            return "let %s := %s in\n%s" % (name, t, self.block(rest, tail))
        raise Refuse("%s statement is outside the fragment" % k)


def indent(term, n=2):
    out, depth = [], 0
    for line in term.split("\n"):
        out.append(" " * (n + 2 * depth) + line)
        depth += line.count("(") - line.count(")") if (line.startswith("then (") or line.startswith("else (")) else 0
    return "\n".join(out)


def find_function(unit, name):
    cands = [d for d in unit if d.get("kind") == "FunctionDecl" and d.get("name") == name and
             any(c.get("kind") == "CompoundStmt" for c in d.get("inner", []))]
    if not cands:
        raise Refuse("no definition of %s() in this configuration" % name)
    return cands[-1]


def translate_function(unit, known, name):
    fn = find_function(unit, name)
    tr = Tr(unit, known)
    leaf = Leaf(name)
    rty = ctype({"qualType": fn["type"]["qualType"].split("(")[0].strip()} if "desugaredQualType" not in fn["type"]
                else {"qualType": fn["type"]["desugaredQualType"].split("(")[0].strip()})
    if rty.kind == "other":          # typedef'd return type: ask the return statements instead
        rets = [n for n in walk(fn) if n.get("kind") == "ReturnStmt" and n.get("inner")]
        if not rets:
            raise Refuse("no return value")
        rty = ctype(rets[0]["inner"][0]["type"])
    if rty.kind not in ("int", "bool"):
        raise Refuse("return type %s" % rty.name)
    tr.ret_bool = leaf.ret_bool = rty.kind == "bool"
    cparams = [p for p in fn.get("inner", []) if p.get("kind") == "ParmVarDecl"]
    for p in cparams:
        if "name" not in p:
            raise Refuse("unnamed parameter")
        ty = ctype(p["type"])
        if ty.kind in ("int", "bool"):
            tr.declare(p)
        else:
            tr.base_of[p["id"]] = p["name"]
            tr.names.add(p["name"])
    body = next(c for c in fn["inner"] if c.get("kind") == "CompoundStmt")
    term = tr.block(body.get("inner", []))
    for p in cparams:
        ty = ctype(p["type"])
        if ty.kind in ("int", "bool"):
            leaf.params.append((p["name"], ty))
            leaf.c_params.append((p["name"], ty, []))
        else:
            fs = tr.fields.get(p["id"], {})
            leaf.params += [(cn, fty) for (cn, fty) in fs.values()]
            leaf.c_params.append((p["name"], ty, [(f, fty) for f, (cn, fty) in fs.items()]))
    leaf.body = term
    leaf.ret = rty
    leaf.comment = "%s %s(%s)" % (rty.name, name, ", ".join("%s %s" % (strip_quals(p["type"]["qualType"]), p["name"]) for p in cparams))
    return leaf


def translate_fragment(unit, known, fname, label, select, result=None, ret_bool=None):
    """select(function decl) -> ("expr", node) | ("stmts", [nodes]); result: name of the variable whose value after
    the statements is the result"""
    fn = find_function(unit, fname)
    kind, what = select(fn)
    tr = Tr(unit, known)
    tr.free = []
    tr.enclosing = fn
    leaf = Leaf(label)
    if kind == "assigned":          # the value a statement stores (its target may be a struct field)
        e = strip_parens(what)
        ty = ctype(e["type"])
        if ty.kind != "int" or ty.signed:
            raise Refuse("assignment at type %s" % ty.name)
        if e.get("kind") == "BinaryOperator" and e.get("opcode") == "=":
            term = tr.asZ(tr.expr(e["inner"][1]))
        elif e.get("kind") == "CompoundAssignOperator":
            lt, rt = ctype(e["computeLHSType"]), ctype(e["computeResultType"])
            if lt.kind != "int" or rt.kind != "int" or not ty.fits_in(lt):
                raise Refuse("compound assignment computed at %s" % rt.name)
            k, term = tr.binary(e["opcode"][:-1], rt, e["inner"][0], e["inner"][1])
            if not rt.fits_in(ty):
                term = wrap(term, ty.width)
        elif e.get("kind") == "UnaryOperator" and e.get("opcode") in ("++", "--"):
            term = wrap("%s %s 1" % (par(tr.asZ(tr.expr(e["inner"][0]))), e["opcode"][0]), ty.width)
        else:
            raise Refuse("%s is not an assignment" % e.get("kind"))
        rname = ty.name
    elif kind == "expr":
        kt = tr.expr(what)
        leaf.ret_bool = kt[0] == "B" if ret_bool is None else ret_bool
        term = tr.asB(kt) if leaf.ret_bool else tr.asZ(kt)
        rname = "_Bool" if leaf.ret_bool else ctype(what["type"]).name
    else:
        # variables declared inside the run are locals; everything else it reads becomes a parameter
        rdecl = None
        for n in walk({"inner": what}):
            if n.get("kind") == "DeclRefExpr" and n["referencedDecl"].get("name") == result:
                rdecl = n["referencedDecl"]
            if n.get("kind") == "VarDecl" and n.get("name") == result:
                rdecl = n
        if rdecl is None:
            raise Refuse("the statements do not mention '%s'" % result)
        rty = ctype(rdecl["type"])
        tr.ret_bool = leaf.ret_bool = rty.kind == "bool"
        term = tr.block(list(what), tail=result)
        if rdecl["id"] not in tr.vars:
            raise Refuse("'%s' is not assigned by the statements" % result)
        rname = rty.name
    for o in tr.order:
        if o[0] == "var":
            leaf.params.append(tr.vars[o[1]])
        else:
            leaf.params += list(tr.fields.get(o[1], {}).values())
    leaf.body = term
    leaf.comment = "fragment of %s(): %s" % (fname, rname)
    return leaf


def emit_leaf(leaf, src_note):
    ps = " ".join("(%s : %s)" % (n, "bool" if t.kind == "bool" else "Z") for n, t in leaf.params)
    doms = [t.dom(n) for n, t in leaf.params if t.dom(n)]
    lines = ["(* %s   [%s] *)" % (comment_safe(leaf.comment), comment_safe(src_note)),
             "Definition leaf_%s %s: %s :=" % (leaf.name, ps + " " if ps else "", "bool" if leaf.ret_bool else "Z"),
             indent(leaf.body) + ".",
             "Definition leaf_%s_dom %s: Prop :=" % (leaf.name, ps + " " if ps else ""),
             "  %s." % (" /\\ ".join(doms) if doms else "True"), ""]
    return lines


# ------------------------------------------------------------------------------------------------ fragment selectors
def sel_local_init(var):
    def f(fn):
        for n in walk(fn):
            if n.get("kind") == "VarDecl" and n.get("name") == var:
                init = [x for x in n.get("inner", []) if "Attr" not in x.get("kind", "")]
                if init:
                    return "expr", init[0]
        raise Refuse("no initialised local '%s'" % var)
    return f


def calls(n, callee):
    return any(x.get("kind") == "CallExpr" and strip_casts(x["inner"][0]).get("referencedDecl", {}).get("name") == callee
               for x in walk(n))


def sel_if_cond_calling(callee):
    def f(fn):
        hits = [n for n in walk(fn) if n.get("kind") == "IfStmt" and len(n["inner"]) >= 2 and calls(n["inner"][1], callee)
                and not calls(n["inner"][0], callee)]
        # innermost: an if none of whose nested ifs also qualifies
        hits = [h for h in hits if not any(o is not h and any(x is o for x in walk(h)) for o in hits)]
        if len(hits) != 1:
            raise Refuse("%d if-statements guard a call of %s()" % (len(hits), callee))
        return "expr", hits[0]["inner"][0]
    return f


def stmt_assigns(s, var, ops, rhs_var=None):
    """s is `var op ...` (op in ops), optionally with a right-hand side that is the variable rhs_var"""
    e = strip_parens(s)
    if e.get("kind") in ("BinaryOperator", "CompoundAssignOperator") and e.get("opcode") in ops:
        l = strip_parens(e["inner"][0])
        if l.get("kind") == "DeclRefExpr" and l["referencedDecl"].get("name") == var:
            r = strip_casts(e["inner"][1])
            return rhs_var is None or (r.get("kind") == "DeclRefExpr" and r["referencedDecl"].get("name") == rhs_var)
    return False


def sel_run(first, count, nth=0):
    """`count` consecutive statements of one compound statement, starting at the nth statement satisfying `first`"""
    def f(fn):
        hits = []
        for n in walk(fn):
            if n.get("kind") == "CompoundStmt":
                ss = n.get("inner", [])
                for i, s in enumerate(ss):
                    if first(s) and i + count <= len(ss):
                        hits.append(ss[i:i + count])
        if len(hits) <= nth:
            raise Refuse("statement run not found (occurrence %d)" % nth)
        return "stmts", hits[nth]
    return f


def sel_field_assign(field, ops, nth=0):
    """the nth statement `<something>-><field> op ...` / `++...-><field>` of the function"""
    def f(fn):
        hits = []
        for n in walk(fn):
            if n.get("kind") in ("BinaryOperator", "CompoundAssignOperator", "UnaryOperator") and n.get("opcode") in ops:
                l = strip_parens(n["inner"][0])
                if l.get("kind") == "MemberExpr" and l.get("name") == field:
                    hits.append(n)
        if len(hits) <= nth:
            raise Refuse("no assignment (%s) to the field '%s'" % (" ".join(ops), field))
        return "assigned", hits[nth]
    return f


def sel_return_arg_of_call(callee, nth=0):
    def f(fn):
        for n in walk(fn):
            if n.get("kind") == "ReturnStmt" and n.get("inner"):
                c = strip_casts(n["inner"][0])
                if c.get("kind") == "CallExpr" and strip_casts(c["inner"][0]).get("referencedDecl", {}).get("name") == callee:
                    return "expr", c["inner"][1 + nth]
        raise Refuse("no `return %s(...)`" % callee)
    return f


# ------------------------------------------------------------------------------------------------ constants
def const_of_vardecl(unit, scope_fn, name):
    """integer value of the literal initialiser of a (static) const variable, at file scope or inside scope_fn"""
    nodes = walk(find_function(unit, scope_fn)) if scope_fn else iter(unit)
    for n in nodes:
        if n.get("kind") == "VarDecl" and n.get("name") == name:
            init = [x for x in n.get("inner", []) if "Attr" not in x.get("kind", "")]
            if init:
                lit = strip_casts(init[0])
                if lit.get("kind") == "IntegerLiteral":
                    return int(lit["value"])
                raise Refuse("initialiser of %s is not an integer literal" % name)
    raise Refuse("no initialised variable '%s'%s" % (name, " in %s()" % scope_fn if scope_fn else ""))


def array_bound(unit, scope_fn, name):
    for n in walk(find_function(unit, scope_fn)):
        if n.get("kind") == "VarDecl" and n.get("name") == name:
            m = re.fullmatch(r".*\[(\d+)\]", n["type"]["qualType"])
            if m:
                return int(m.group(1))
            raise Refuse("%s in %s() is not an array of constant size" % (name, scope_fn))
    raise Refuse("no local '%s' in %s()" % (name, scope_fn))


def call_literal_args(unit, scope_fn, callee, argno):
    out = []
    for n in walk(find_function(unit, scope_fn)):
        if n.get("kind") == "CallExpr" and strip_casts(n["inner"][0]).get("referencedDecl", {}).get("name") == callee:
            lit = strip_casts(n["inner"][1 + argno])
            if lit.get("kind") != "IntegerLiteral":
                raise Refuse("argument %d of a call of %s() in %s() is not a literal" % (argno, callee, scope_fn))
            out.append(int(lit["value"]))
    return out


def literals_of(unit, scope_fn):
    """every integer literal of the function in source order (case labels, indices, shift amounts, multipliers)"""
    return [int(n["value"]) for n in walk(find_function(unit, scope_fn)) if n.get("kind") == "IntegerLiteral"]


def probe(relpath, exprs, extra_defs=(), link=()):
    """compile a program that #includes the .c file and prints the given integer expressions"""
    src = os.path.join(REPO, relpath)
    with tempfile.TemporaryDirectory(prefix="leafprobe") as d:
        c = os.path.join(d, "probe.c")
        with open(c, "w") as f:
            f.write('#include "%s"\n#include <stdio.h>\n#include <stdint.h>\nint main(void) {\n' % src)
            for e in exprs:
                f.write('  printf("%%ju\\n", (uintmax_t)(%s));\n' % e)
            f.write("  return 0;\n}\n")
        exe = os.path.join(d, "probe")
        cmd = (["gcc", "-std=gnu11", "-O0", "-w"] + vlib.REPO_DEFS + ["-DNDEBUG"] + list(extra_defs) +
               ["-I" + os.path.join(REPO, "include"), "-I" + os.path.join(REPO, "src"), "-o", exe, c] +
               [os.path.join(REPO, "src", x) for x in link] + ["-pthread"])
        p = subprocess.run(cmd, capture_output=True, text=True, timeout=120)
        if p.returncode != 0:
            raise Refuse("probe for %s does not compile: %s" % (relpath, p.stderr.strip()[-300:]))
        r = subprocess.run([exe], capture_output=True, text=True, timeout=20)
        vals = r.stdout.split()
        if r.returncode != 0 or len(vals) != len(exprs):
            raise Refuse("probe for %s failed" % relpath)
        return [int(v) for v in vals]


def macro_literal(relpath, name):
    txt = open(os.path.join(REPO, relpath), errors="replace").read()
    ms = re.findall(r"^\s*#\s*define\s+%s\s+\(?\s*(0[xX][0-9a-fA-F]+|\d+)[uUlL]*\s*\)?\s*(?://.*)?$" % re.escape(name), txt, re.M)
    if len(set(ms)) != 1:
        raise Refuse("%d literal definitions of %s in %s" % (len(set(ms)), name, relpath))
    return int(ms[0], 0)


# ------------------------------------------------------------------------------------------------ the components
class Component:
    def __init__(self, name):
        self.name = name
        self.leaf_lines = []
        self.const_lines = []
        self.refused = []

    def attempt(self, label, thunk):
        try:
            return thunk()
        except Refuse as e:
            self.refused.append((label, str(e)))
        except (KeyError, IndexError, StopIteration, ValueError, TypeError) as e:     # AST of an unexpected shape
            self.refused.append((label, "unexpected AST shape (%s: %s)" % (type(e).__name__, e)))
        return None

    def functions(self, unit, names, note, known=None, suffix=""):
        known = {} if known is None else known
        for n in names:
            def go(n=n):
                leaf = translate_function(unit, known, n)
                known[n] = leaf
                if suffix:
                    leaf = rename(leaf, suffix)
                self.leaf_lines += emit_leaf(leaf, note)
            self.attempt("leaf_" + n + suffix, go)
        return known

    def fragment(self, unit, known, fname, label, select, note, result=None):
        def go():
            self.leaf_lines += emit_leaf(translate_fragment(unit, known, fname, label, select, result), note)
        self.attempt("leaf_" + label, go)

    def const(self, name, thunk, comment=""):
        def go():
            v = thunk()
            if isinstance(v, list):
                self.const_lines.append("Definition %s : list Z := [%s].%s" % (name, "; ".join(map(str, v)), comment and "  (* %s *)" % comment))
            else:
                self.const_lines.append("Definition %s : Z := %d.%s" % (name, v, comment and "  (* %s *)" % comment))
        self.attempt(name, go)


def rename(leaf, suffix):
    """page-size variants: leaf_f -> leaf_f<suffix>, also in calls of other variants"""
    out = Leaf(leaf.name + suffix)
    out.params, out.c_params, out.ret_bool, out.comment = leaf.params, leaf.c_params, leaf.ret_bool, leaf.comment
    out.body = re.sub(r"\bleaf_([A-Za-z0-9_]+)\b", lambda m: "leaf_" + m.group(1) + suffix, leaf.body)
    return out


def unit_or_refuse(comp, relpath, defs=()):
    return comp.attempt(relpath, lambda: clang_ast(relpath, defs))


def build_ring():
    c = Component("Ring")
    u = unit_or_refuse(c, "src/ring.c")
    if u is not None:
        c.functions(u, ["next_power_of_two", "read_space_internal", "write_space_internal", "zix_ring_capacity"], "src/ring.c")
        # ring->size_mask = ring->size - 1U;   in zix_ring_new
        c.fragment(u, {}, "zix_ring_new", "ring_new_size_mask", sel_field_assign("size_mask", ("=",)), "src/ring.c")
    return c


def build_digest():
    c = Component("Digest")
    u = unit_or_refuse(c, "src/digest.c")
    if u is None:
        return c
    known = c.functions(u, ["mix64", "rotl32", "mix32"], "src/digest.c")
    note = "src/digest.c"
    for fn, tag in (("zix_digest64", "digest64"), ("zix_digest64_aligned", "digest64_aligned")):
        c.fragment(u, known, fn, tag + "_init", sel_local_init("h"), note)             # seed ^ (len * m)
        c.fragment(u, known, fn, tag + "_step", sel_run(lambda s: stmt_assigns(s, "h", ("^=",)), 2), note, result="h")
        c.const("%s_m" % tag, lambda fn=fn: const_of_vardecl(u, fn, "m"))
    c.fragment(u, known, "zix_digest64", "digest64_tail_step", sel_run(lambda s: stmt_assigns(s, "h", ("^=",)), 2, nth=1),
               note, result="h")
    for fn, tag in (("zix_digest32", "digest32"), ("zix_digest32_aligned", "digest32_aligned")):
        c.fragment(u, known, fn, tag + "_kmix", sel_run(lambda s: stmt_assigns(s, "k", ("*=",), "c1"), 3), note, result="k")
        c.fragment(u, known, fn, tag + "_hstep", sel_run(lambda s: stmt_assigns(s, "h", ("^=",)), 3), note, result="h")
        c.fragment(u, known, fn, tag + "_final", sel_return_arg_of_call("mix32"), note)
        c.const("%s_c1" % tag, lambda fn=fn: const_of_vardecl(u, fn, "c1"))
        c.const("%s_c2" % tag, lambda fn=fn: const_of_vardecl(u, fn, "c2"))
        c.const("%s_rotl_amounts" % tag, lambda fn=fn: call_literal_args(u, fn, "rotl32", 1),
                "second arguments of the rotl32 calls, in source order")
    # the tail of zix_digest32 mixes k once more: the second run
    c.fragment(u, known, "zix_digest32", "digest32_tail_kmix", sel_run(lambda s: stmt_assigns(s, "k", ("*=",), "c1"), 3, nth=1),
               note, result="k")
    c.fragment(u, known, "zix_digest32", "digest32_tail_h", sel_run(lambda s: stmt_assigns(s, "h", ("^=",)), 1, nth=1),
               note, result="h")
    for fn in ("mix64", "mix32", "zix_digest64", "zix_digest32", "zix_digest64_aligned", "zix_digest32_aligned"):
        c.const("%s_literals" % fn, lambda fn=fn: literals_of(u, fn), "every integer literal of %s() in source order" % fn)
    return c


def build_bump():
    c = Component("Bump")
    u = unit_or_refuse(c, "src/bump_allocator.c")
    if u is not None:
        c.functions(u, ["round_up_multiple"], "src/bump_allocator.c")
    c.const("min_alignment", lambda: probe("src/bump_allocator.c", ["min_alignment"], link=["allocator.c"])[0],
            "evaluated by a compiled probe on this platform")
    c.const("sizeof_uintmax_t", lambda: probe("src/bump_allocator.c", ["sizeof(uintmax_t)"], link=["allocator.c"])[0])
    return c


def build_hash():
    c = Component("Hash")
    u = unit_or_refuse(c, "src/hash.c")
    note = "src/hash.c"
    if u is not None:
        known = c.functions(u, ["fold_hash", "next_index"], note)
        c.fragment(u, known, "zix_hash_insert_at", "hash_max_load", sel_local_init("max_load"), note)
        c.fragment(u, known, "zix_hash_insert_at", "hash_new_count", sel_local_init("new_count"), note)
        c.fragment(u, known, "zix_hash_insert_at", "hash_grow_cond", sel_if_cond_calling("grow"), note)
        c.fragment(u, known, "zix_hash_erase", "hash_shrink_cond", sel_if_cond_calling("shrink"), note)
        c.fragment(u, known, "shrink", "hash_shrink_allowed", sel_if_cond_calling("rehash"), note)
        c.fragment(u, known, "grow", "hash_grow_size", sel_field_assign("n_entries", ("<<=",)), note)
        c.fragment(u, known, "grow", "hash_grow_mask", sel_field_assign("mask", ("=",)), note)
        c.fragment(u, known, "shrink", "hash_shrink_size", sel_field_assign("n_entries", (">>=",)), note)
        c.fragment(u, known, "shrink", "hash_shrink_mask", sel_field_assign("mask", ("=",)), note)
        c.fragment(u, known, "zix_hash_new", "hash_new_mask", sel_field_assign("mask", ("=",)), note)
        c.fragment(u, known, "zix_hash_erase", "hash_erase_count", sel_field_assign("count", ("--",)), note)
    vals = c.attempt("constants", lambda: probe("src/hash.c", ["tombstone", "min_n_entries"], link=["allocator.c"]))
    if vals:
        c.const("tombstone", lambda: vals[0])
        c.const("min_n_entries", lambda: vals[1])
    return c


def build_btree():
    c = Component("BTree")
    note = "src/btree.c"
    fns = ["zix_btree_max_vals", "zix_btree_min_vals"]
    u = unit_or_refuse(c, "src/btree.c")
    if u is not None:
        known = c.functions(u, fns, note + ", default page size")
        for f, lab in (("zix_btree_can_remove_from", "zix_btree_can_remove_from"), ("zix_btree_is_full", "zix_btree_is_full")):
            c.functions(u, [f], note + ", default page size", known=known)
    for p in BTREE_PAGES:
        d = ["-DZIX_BTREE_PAGE_SIZE=%dU" % p]
        up = unit_or_refuse(c, "src/btree.c", d)
        if up is not None:
            c.functions(up, fns + ["zix_btree_can_remove_from", "zix_btree_is_full"], note + ", -DZIX_BTREE_PAGE_SIZE=%dU" % p,
                        suffix="_p%d" % p)
    ex = ["ZIX_BTREE_PAGE_SIZE", "ZIX_BTREE_MAX_HEIGHT", "ZIX_BTREE_LEAF_VALS", "ZIX_BTREE_INODE_VALS",
          "sizeof(ZixBTreeNode)", "sizeof(ZixShort)"]
    names = ["page_size", "max_height", "leaf_vals", "inode_vals", "sizeof_node", "sizeof_short"]
    vals = c.attempt("constants (default page size)", lambda: probe("src/btree.c", ex, link=["allocator.c"]))
    if vals:
        for n, v in zip(names, vals):
            c.const("default_" + n, lambda v=v: v)
    for p in BTREE_PAGES:
        vals = c.attempt("constants (page size %d)" % p,
                         lambda p=p: probe("src/btree.c", ex, ["-DZIX_BTREE_PAGE_SIZE=%dU" % p], link=["allocator.c"]))
        if vals:
            for n, v in zip(names, vals):
                c.const("p%d_%s" % (p, n), lambda v=v: v)
    return c


def build_env():
    c = Component("Env")
    u = unit_or_refuse(c, "src/posix/environment_posix.c")
    if u is not None:
        c.functions(u, ["is_path_delim", "is_var_name_char"], "src/posix/environment_posix.c")
    return c


def build_path():
    c = Component("Path")
    u = unit_or_refuse(c, "src/path.c")
    if u is not None:
        c.functions(u, ["is_dir_sep", "is_any_sep", "zix_is_empty_range"], "src/path.c, POSIX branch")
        c.const("dir_sep", lambda: macro_char("src/path.c", "ZIX_DIR_SEP"), "ZIX_DIR_SEP in this configuration")
    return c


def macro_char(relpath, name):
    """value of an integer-constant-expression macro as this configuration of the file sees it: clang evaluates
    `enum { probe = (NAME) };` appended to the file (no linking needed)"""
    src = os.path.join(REPO, relpath)
    with tempfile.TemporaryDirectory(prefix="leafprobe") as d:
        c = os.path.join(d, "probe.c")
        with open(c, "w") as f:
            f.write('#include "%s"\nenum { leaf_probe_value = (%s) };\n' % (src, name))
        cmd = (["clang", "-std=gnu11", "-fsyntax-only", "-w"] + vlib.REPO_DEFS + ["-DNDEBUG", "-I" + os.path.join(REPO, "include"),
               "-I" + os.path.join(REPO, "src"), "-Xclang", "-ast-dump=json", "-Xclang", "-ast-dump-filter=leaf_probe_value", c])
        p = subprocess.run(cmd, capture_output=True, text=True, timeout=120)
    m = re.search(r'"kind":\s*"ConstantExpr".*?"value":\s*"(-?\d+)"', p.stdout, re.S)
    if p.returncode != 0 or not m:
        raise Refuse("%s is not an integer constant expression in %s" % (name, relpath))
    return int(m.group(1))


def build_copy():
    c = Component("Copy")
    u = unit_or_refuse(c, "src/posix/filesystem_posix.c")
    if u is not None:
        c.functions(u, ["zix_get_block_size"], "src/posix/filesystem_posix.c")
        c.const("copy_file_stack_buf", lambda: array_bound(u, "zix_copy_file", "stack_buf"), "char stack_buf[N] in zix_copy_file")
    u2 = unit_or_refuse(c, "src/filesystem.c")
    if u2 is not None:
        c.const("file_equals_stack_a", lambda: array_bound(u2, "zix_file_equals", "stack_a"))
        c.const("file_equals_stack_b", lambda: array_bound(u2, "zix_file_equals", "stack_b"))
    return c


def build_sem():
    c = Component("Sem")
    c.const("ns_per_second", lambda: macro_literal("src/posix/sem_posix.c", "NS_PER_SECOND"), "#define NS_PER_SECOND")
    return c


BUILDERS = [build_ring, build_digest, build_bump, build_hash, build_btree, build_env, build_path, build_copy, build_sem]
INPUTS = ["src/ring.c", "src/digest.c", "src/bump_allocator.c", "src/hash.c", "src/btree.c", "include/zix/btree.h",
          "src/posix/environment_posix.c", "src/path.c", "src/posix/filesystem_posix.c", "src/filesystem.c",
          "src/posix/sem_posix.c", "src/allocator.c", "src/index_range.h", "src/zix_config.h"]


def input_digest():
    h = hashlib.sha256()
    h.update(open(os.path.abspath(__file__), "rb").read())
    h.update(" ".join(vlib.REPO_DEFS).encode())
    for rel in INPUTS:
        p = os.path.join(REPO, rel)
        h.update(rel.encode() + b"\0" + (open(p, "rb").read() if os.path.exists(p) else b"<missing>") + b"\0")
    return h.hexdigest()


def write_if_changed(path, text):
    if not os.path.exists(path) or open(path).read() != text:
        with open(path, "w") as f:
            f.write(text)


def outputs_digest():
    h = hashlib.sha256()
    for p in (LEAF_V, CONST_V):
        h.update(open(p, "rb").read() if os.path.exists(p) else b"<missing>")
    return h.hexdigest()


def main():
    os.makedirs(GEN, exist_ok=True)
    key = input_digest()
    if "--force" not in sys.argv and os.path.exists(STAMP) and os.path.exists(LEAF_V) and os.path.exists(CONST_V):
        st = open(STAMP).read().split("\n")
        if st and st[0] == key + " " + outputs_digest():    # same sources, same tool, outputs untouched: nothing to do
            sys.stderr.write("\n".join(st[1:]) + ("\n" if len(st) > 1 else ""))
            return 2 if len(st) > 1 and st[1] else 0
    with ThreadPoolExecutor(max_workers=8) as ex:
        comps = list(ex.map(lambda b: b(), BUILDERS))
    head = ["(* GENERATED by tools/translate_leaf.py from the C sources of zix; do not edit.",
            "   Conventions: see the docstring of the tool.  Values are Z, _Bool / comparison results are bool;",
            "   unsigned arithmetic is reduced mod 2 ^ width; `p_f` is the field f read through the parameter p. *)",
            "From Coq Require Import ZArith Bool List.", "Import ListNotations.", "Local Open Scope Z_scope.", ""]
    leaf, const, msgs = list(head), list(head), []
    for c in comps:
        for label, why in c.refused:
            msgs.append("translate_leaf: REFUSED %s.%s: %s" % (c.name, label, why))
        for out, lines in ((leaf, c.leaf_lines), (const, c.const_lines)):
            out.append("Module %s." % c.name)
            out += [("  " + l if l else l) for l in "\n".join(lines).split("\n")] if lines else []
            out += ["  (* REFUSED %s: %s *)" % (label, why.replace("*)", "* )")) for label, why in c.refused]
            out += ["End %s." % c.name, ""]
    write_if_changed(LEAF_V, "\n".join(leaf))
    write_if_changed(CONST_V, "\n".join(const))
    with open(STAMP, "w") as f:
        f.write("\n".join([key + " " + outputs_digest()] + msgs))
    if msgs:
        sys.stderr.write("\n".join(msgs) + "\n")
        return 2
    return 0


if __name__ == "__main__":
    sys.exit(main())
