"""C07 — allocation failure is reported, atomic, leak-free and survivable.
Every allocating operation of every component is run with the tracking allocator refusing request k
(single fault) and every request from k on (persistent fault), for every k (thorough) or a sample (quick),
followed by recovery and a continuation history; each report is judged by the extracted Coq contract
(FaultSpec.tol_run / log_ok) and the fixed-pattern functions' allocator traces are compared with the
extracted AllocModel (L2)."""
import os
import re
import time

import vlib
from props import fault_common as fc

PROPS = "Properties_C07"
PID = "C07"
MAX_K_QUICK = 10


def expand(ctx, base, nofault, tier, r):
    """fault variants of every base case"""
    cases = []
    for (comp, args), nf in zip(base, nofault):
        t = fc.tail(nf) if nf else None
        req = t[0] if (t and comp != "default") else 0
        ks = list(range(req))
        if tier == "quick" and len(ks) > MAX_K_QUICK and comp != "btree64":   # small pages: every k, always
            ks = sorted(set([0, 1, req - 1, req - 2] + r.sample(ks, MAX_K_QUICK - 4)))
        for k in ks:
            cases.append((comp, "@F%d" % k, args))
            cases.append((comp, "@P%d" % k, args))
    return cases


def evaluate(ctx, triples, lines, nofault_of):
    """judge all lines with batched oracle calls; returns (problems per case, l2 mismatches)"""
    queries = []

    def rec(qs):
        queries.extend(qs)
        return ["T OK -" if q.startswith("T") else ("D -" if q.startswith("D") else "L OK") for q in qs]
    for (comp, fault, args), line in zip(triples, lines):
        fc.judge(comp, fault, args, line, nofault_of.get((comp, args)), rec)
    gq = []
    for (comp, fault, args), line in zip(triples, lines):
        g = fc.model_trace_cmd(comp, fault, args, line or "", nofault_of.get((comp, args))) if line else None
        gq.append(g)
    allq = list(dict.fromkeys(queries + [g for g in gq if g]))
    exe = os.path.join(vlib.OCAML_BUILD, "drv_c07")
    rc, out, err = ctx.run_lines([exe], allq, timeout=600)
    if rc != 0 or len(out) != len(allq):
        raise vlib.BuildError("oracle driver failed: rc=%d %s" % (rc, err[-500:]))
    table = dict(zip(allq, out))
    probs, l2 = [], []
    for i, ((comp, fault, args), line) in enumerate(zip(triples, lines)):
        probs.append(fc.judge(comp, fault, args, line, nofault_of.get((comp, args)), lambda qs: [table[q] for q in qs]))
        if gq[i] and gq[i].startswith("D "):
            want = table[gq[i]][2:]
            got = line.split(" ; ")[0].split()[0][len("calls="):]
            if want != got:
                l2.append((i, want, got))
        elif gq[i]:
            want = table[gq[i]][2:].split() if table[gq[i]] != "G -" else []
            got = fc.trace_of(line)
            same = (want == got) if comp != "tree" else (sorted(want) == sorted(got))
            if not same:
                l2.append((i, " ".join(want), " ".join(got)))
    return probs, l2


def check(ctx, pid=PID, props=PROPS, only_nofault=False):
    ctx.log("proof step")
    pr = ctx.proof_step(props)
    # further parts: Properties_C07_containers.v (B-tree/hash/AVL theorems at an arbitrary oracle),
    # Properties_C08_hash.v / Properties_C08_btree.v (allocation event logs of the instrumented container models)
    for mod in sorted(f[:-2] for f in os.listdir(vlib.COQ) if f.startswith(props + "_") and f.endswith(".v")):
        extra = ctx.proof_step(mod)
        pr = {"file": pr["file"] + " + " + extra["file"], "theorems": pr["theorems"] + extra["theorems"],
              "obligations": pr["obligations"] + extra["obligations"], "discharged": pr["discharged"] + extra["discharged"],
              "ok": pr["ok"] and extra["ok"], "axioms": sorted(set(pr["axioms"] + extra["axioms"])),
              "log": pr["log"] + extra["log"]}
        ctx.proof = pr
    ctx.log("proof: %d/%d theorems, ok=%s" % (pr["discharged"], pr["obligations"], pr["ok"]))
    try:
        fc.build(ctx)
    except vlib.BuildError as e:
        ctx.broken.append("build:" + str(e)[:300])
        ctx.report_violation({"what": "driver no longer builds against /repo's working tree", "detail": str(e)[-2000:]}, no_input=True)
        ctx.write_evidence({"evaluations": 0, "distinct_nontrivial": 0, "rule": "build failed", "samples": []})
        return 1
    r = ctx.rng("faults")
    base = fc.base_cases(ctx, ctx.seed, ctx.tier)
    if ctx.tier == "thorough":      # more histories: further seeds of the base generator (duplicates dropped)
        for s in range(1, 12):
            base += [b for b in fc.base_cases(ctx, ctx.seed * 1000 + s, ctx.tier) if b not in base]
    t0 = time.time()
    nofault = fc.run(ctx, [fc.case_line(c, "@N", a) for c, a in base])
    nofault_of = {(c, a): l for (c, a), l in zip(base, nofault)}
    triples = [(c, "@N", a) for c, a in base]
    if pid == "C08":
        # default allocator (NULL) variants: ASan's leak check at exit covers them; plus the faults of every base case
        # (a sample of the base cases here used to depend on their positions in the list: every case is cheap)
        triples += [(c, "@D", a) for c, a in base]
        triples += expand(ctx, base, nofault, "quick", r)
    else:
        triples += expand(ctx, base, nofault, ctx.tier, r)
    cases = [fc.case_line(*t) for t in triples]
    lines = fc.run(ctx, cases)
    ctx.log("%d cases (%d base) run in %.1fs" % (len(cases), len(base), time.time() - t0))
    probs, l2 = evaluate(ctx, triples, lines, nofault_of)
    bad = [i for i, p in enumerate(probs) if p]
    if pid == "C08":
        # C08 owns the allocator-discipline problems; pure contract problems belong to C07's check
        keep = ("leak", "allocator protocol", "default allocator", "allocation trace", "crash")
        bad = [i for i in bad if any(p.startswith(keep) for p in probs[i])]
        refs = fc.libc_alloc_refs(ctx)
        if refs:
            ctx.broken.append("static: zix sources reference libc allocation functions directly: %s" % refs)
    if l2:
        ctx.broken.append("correspondence:%s allocator trace of %d fixed-pattern calls differs from AllocModel (first: %s)"
                          % (pid, len(l2), cases[l2[0][0]][:120]))
    if bad:
        i = bad[0]
        comp, fault, args = triples[i]
        # shrink container histories: keep the fault, drop operations while some problem persists
        case, line, why = cases[i], lines[i], probs[i]
        if comp in ("btree", "btree64", "hash", "tree") and not (line or "").startswith("CRASH"):
            head = args.split()[:1] if comp in ("hash", "tree") else []
            ops = args.split()[len(head):]

            def fails(toks):
                a = " ".join(head + toks)
                nf = fc.run(ctx, [fc.case_line(comp, "@N", a)])
                l = fc.run(ctx, [fc.case_line(comp, fault, a)])
                try:
                    p, _ = evaluate(ctx, [(comp, fault, a)], l, {(comp, a): nf[0]})
                except Exception:
                    return False
                return bool(p[0])
            small = vlib.ddmin(ops, fails, budget=80)
            a2 = " ".join(head + small)
            if a2 != args:
                nf = fc.run(ctx, [fc.case_line(comp, "@N", a2)])
                l = fc.run(ctx, [fc.case_line(comp, fault, a2)])
                p, _ = evaluate(ctx, [(comp, fault, a2)], l, {(comp, a2): nf[0]})
                if p[0]:
                    case, line, why = fc.case_line(comp, fault, a2), l[0], p[0]
        ctx.report_violation({"case": case, "impl": line, "problems": why,
                              "what": "an operation under allocation failure contradicts the contract "
                                      "(tolerant spec FaultSpec.tol_run / log_ok, extracted from Coq)",
                              "other_failing_cases": len(bad) - 1})
    elif ctx.broken:
        rep = {"what": "a theorem, the static allocator-reference check or the allocator-trace correspondence no longer "
                       "holds; no operation was found that contradicts the contract"}
        if l2:
            rep.update({"first_diverging_case": cases[l2[0][0]], "model_trace": l2[0][1], "impl_trace": l2[0][2]})
        ctx.report_violation(rep, no_input=True)
    fault_cases = [t for t in triples if t[1] not in ("@N", "@D")]
    refused_seen = sum(1 for (t, l) in zip(triples, lines) if l and (fc.tail(l) or (0, 0))[1] > 0)
    nomem_reports = sum(len(re.findall(r":NO_MEM", l or "")) + (l or "").count("res=NULL") + (l or "").count("new:NULL")
                        for l in lines)
    by_comp = {}
    for c, f, a in triples:
        by_comp[c] = by_comp.get(c, 0) + 1
    cov = {
        "evaluations": len(cases),
        "distinct_nontrivial": len(set(c for c, l in zip(cases, lines) if l and (fc.tail(l) or (0, 0))[1] > 0)),
        "rule": "base histories/inputs per component (seeded), each re-run with request k refused once (@F<k>) and from k on "
                "(@P<k>) for every k < requests of the fault-free run (thorough) or a sample of %d per case (quick), then "
                "recovery `!` and a continuation; non-trivial = a request was actually refused during the case" % MAX_K_QUICK,
        "samples": [{"case": cases[i][:200], "impl": (lines[i] or "")[:300]} for i in (0, len(cases) // 2, len(cases) - 1)],
        "traces_validated_against_impl": sum(1 for t, l in zip(triples, lines)
                                             if l and fc.model_trace_cmd(t[0], t[1], t[2], l, nofault_of.get((t[0], t[2])))) - len(l2),
        "fault_cases": len(fault_cases), "cases_with_refused_request": refused_seen,
        "failure_reports_seen": nomem_reports, "cases_by_component": by_comp,
        "contract_problems": len(bad), "l2_trace_mismatches": len(l2),
    }
    if pid == "C08":
        cov["static_libc_alloc_refs"] = fc.libc_alloc_refs(ctx)
        cov["default_allocator_cases"] = sum(1 for t in triples if t[1] == "@D")
    ctx.write_evidence(cov, ASSUMPTIONS)
    return 1 if ctx.violations else 0


ASSUMPTIONS = [
    "the caller's allocator returns fresh blocks and may refuse any request (it leaves errno=ENOMEM when it does)",
    "containers are observed through their public API with integer keys; hash iteration order is not compared",
    "B-tree pages / hash arrays: their allocation pattern is data dependent and is modelled in BTreeModel / HashModel "
    "(C01/C03), not in AllocModel; here they are judged against the contract (FaultSpec) only",
    "memory safety beyond what ASan/UBSan observe on these runs is not proved",
]
