"""Shared machinery of the C01/C02 (B-tree) plug-ins: builds, runners, history generators."""
import concurrent.futures
import os
import re

import vlib

PAGES = [64, 128, 256, 4096]
DBG_PAGES = [64, 128]          # assert-enabled builds (the meson configuration keeps asserts on)
HUGE_PAGE = 1048576            # LEAF_VALS = 131070 > UINT16_MAX: must be rejected at compile time (fix 627c158)
MAX_HEIGHT = 6


def cfg(page):
    """(L, I) exactly as the macros of btree.c compute them for 8-byte pointers"""
    leaf = (page - 8) // 8 - 1
    return leaf, leaf // 2


def cap(page, h=MAX_HEIGHT):
    """least size at which a tree of height h+1 is possible (height law): 2*m*c^(h-1) - 1"""
    leaf, inode = cfg(page)
    m, c = (leaf + 1) // 2, (inode + 1) // 2
    return 2 * m * c ** (h - 1) - 1


def build(ctx):
    jobs = []
    for p in PAGES:
        jobs.append((p, ["-DZIX_BTREE_PAGE_SIZE=%d" % p, "-DNDEBUG"], ctx.path("drv_c01_%d" % p)))
    for p in DBG_PAGES:
        jobs.append((p, ["-DZIX_BTREE_PAGE_SIZE=%d" % p], ctx.path("drv_c01_%d_dbg" % p)))
    with concurrent.futures.ThreadPoolExecutor(max_workers=8) as ex:
        futs = [ex.submit(ctx.build_driver, "drv_c01", ["btree.c", "allocator.c"], f, True, (), o) for (_, f, o) in jobs]
        for f in futs:
            f.result()
    # model driver: rebuild when the model or the driver source is newer than the binary
    exe = os.path.join(vlib.OCAML_BUILD, "drv_c01")
    srcs = [os.path.join(vlib.COQ, "BTreeModel.v"), os.path.join(vlib.COQ, "BTreeSpec.v"),
            os.path.join(vlib.COQ, "ExtractC01.v"), os.path.join(vlib.VERIF, "ocaml", "drv_c01.ml")]
    if not os.path.exists(exe) or any(os.path.getmtime(s) > os.path.getmtime(exe) for s in srcs):
        for s in ("BTreeSpec", "BTreeModel"):
            vlib.sh(["make", s + ".vo"], cwd=vlib.COQ, timeout=600)
        rc, out, err = vlib.sh([os.path.join(vlib.VERIF, "tools", "build_models.sh"), "C01"], timeout=600)
        if rc != 0:
            raise vlib.BuildError("model driver build failed: " + (out + err)[-1500:])


def page_of(case):
    try:
        return int(case.split(" ", 1)[0])
    except ValueError:
        return 0


def strip_cmp(line):
    """remove comparator counts/logs (they differ between assert and NDEBUG builds)"""
    if " || " not in line:
        return line
    ob, st = line.split(" || ", 1)
    ob = " ".join("k" if re.match(r"^k\d+$", t) else t for t in ob.split())
    toks = []
    for t in st.split():
        if "/" in t:
            toks.append(t.split("/", 1)[0])
        elif "." in t and "@" not in t:
            toks.append("X")
        else:
            toks.append(t)
    return ob + " || " + " ".join(toks)


def _run_driver(ctx, exe, lines):
    if not lines:
        return []
    rc, out, err = ctx.run_lines([exe], lines, timeout=1500)
    out = [l for l in out]
    if len(out) < len(lines):
        out += ["CRASH driver rc=%d %s" % (rc, (err.strip().split("\n") or [""])[0][:160])] * (len(lines) - len(out))
    return out[:len(lines)]


def run_impl(ctx, cases):
    groups = {}
    for i, c in enumerate(cases):
        groups.setdefault(page_of(c), []).append(i)
    res = [None] * len(cases)
    jobs = []
    with concurrent.futures.ThreadPoolExecutor(max_workers=8) as ex:
        for p, idx in groups.items():
            if p not in PAGES:
                for i in idx:
                    res[i] = "BAD-PAGE"
                continue
            lines = [cases[i] for i in idx]
            # split big groups into shards so the cores are used
            nshard = max(1, min(6, len(lines) // 40))
            for s in range(nshard):
                sub = idx[s::nshard]
                jobs.append((p, False, sub, ex.submit(_run_driver, ctx, ctx.path("drv_c01_%d" % p), [cases[i] for i in sub])))
                if p in DBG_PAGES:
                    jobs.append((p, True, sub, ex.submit(_run_driver, ctx, ctx.path("drv_c01_%d_dbg" % p), [cases[i] for i in sub])))
        dbg = {}
        for p, is_dbg, sub, fut in jobs:
            out = fut.result()
            for i, l in zip(sub, out):
                if is_dbg:
                    dbg[i] = l
                else:
                    res[i] = l
    for i, l in dbg.items():
        if strip_cmp(l) != strip_cmp(res[i]):
            res[i] = "ASSERT-BUILD-DIFFERS " + l.split(" || ")[0][:200]
    return res


def run_model(ctx, cases):
    # shard the model runs too
    n = len(cases)
    nshard = max(1, min(12, n // 30))
    with concurrent.futures.ThreadPoolExecutor(max_workers=12) as ex:
        futs = [(list(range(s, n, nshard)), ex.submit(ctx.run_model, "drv_c01", cases[s::nshard], (), 1500)) for s in range(nshard)]
        ms, ss = [None] * n, [None] * n
        for idx, f in futs:
            m, s = f.result()
            for i, a, b in zip(idx, m, s):
                ms[i], ss[i] = a, b
    return ms, ss


def corpus(ctx, pid):
    p = os.path.join(vlib.VERIF, "corpus", pid + ".txt")
    if not os.path.exists(p):
        return []
    return [l.rstrip("\n") for l in open(p) if l.strip() and not l.startswith("#")]


def tokens(case):
    return case.split()[2:]


def make_untokens(head):
    return lambda toks: head + " " + " ".join(toks)


# ------------------------------------------------------------------ history generation
class Hist:
    """builds an op list, tracking the key set (python side) so that mixes can be steered"""

    def __init__(self, r, page, flags="-"):
        self.r, self.page, self.flags = r, page, flags
        self.ops = []
        self.keys = set()
        self.tag = 0
        self.maxsize = 0
        self.null_key = None

    def ins(self, k, null=False):
        """null: the element is represented by the NULL pointer in the C driver (op 'I'; at most one at a time)"""
        self.tag += 1
        if null and (self.null_key is None or self.null_key not in self.keys) and k not in self.keys:
            self.ops.append("I%d.%d" % (k, self.tag))
            self.null_key = k
        else:
            self.ops.append("i%d.%d" % (k, self.tag))
        self.keys.add(k)
        self.maxsize = max(self.maxsize, len(self.keys))

    def rem(self, k):
        self.ops.append("r%d" % k)
        self.keys.discard(k)

    def op(self, s):
        self.ops.append(s)
        if s in ("c", "C"):
            self.keys.clear()

    def line(self):
        return "%d %s %s" % (self.page, self.flags, " ".join(self.ops))


def universe_for(r, page, tier):
    leaf, inode = cfg(page)
    if page == 64:
        return r.choice([5, 9, 16, 30, 60, 120, 120])
    if page == 128:
        return r.choice([12, 40, 130, 300])
    if page == 256:
        return r.choice([25, 100, 500, 1200 if tier == "thorough" else 700])
    return r.choice([300, 700, 1500 if tier == "thorough" else 1100])


def gen_history(r, page, tier, flags="-", walks=True, nops=None, allow_oracle=True, prefill=None, oracle_p=0.12, null_p=0.0):
    """one random history: phases biased to grow / shrink / churn; patterns ascending / descending / random"""
    u = universe_for(r, page, tier)
    h = Hist(r, page, flags)
    limit = cap(page) - 1
    nops = nops or r.choice([20, 60, 150, 300 if page <= 128 else 200])
    if page == 4096:
        nops = r.choice([800, 1500]) if u > 510 else r.choice([100, 300])
    if page == 256 and u > 400:
        nops = r.choice([600, 1200])
    if page == 128 and u > 120:
        nops = r.choice([300, 500])
    walk_every = 1 if (u <= 130 and walks) else max(1, u // 40)
    use_oracle = allow_oracle and r.random() < oracle_p
    phase, left = None, 0
    if prefill is None:
        prefill = 0
        if u > 130 and r.random() < 0.75:
            prefill = r.randint(u // 3, min(u, limit))
    if prefill:
        ks = list(range(u))
        pat = r.choice(["asc", "desc", "rand"])
        if pat == "desc":
            ks.reverse()
        elif pat == "rand":
            r.shuffle(ks)
        for k in ks[:prefill]:
            h.ins(k, null=r.random() < null_p)
        h.op("w")
    seqk = 0
    mode = r.choice(["rand", "rand", "asc", "desc"])
    for n in range(nops):
        if left == 0:
            phase = r.choice(["grow", "grow", "shrink", "churn", "churn"])
            left = r.randint(5, max(6, u))
            mode = r.choice(["rand", "rand", "rand", "asc", "desc"])
            seqk = r.randint(0, u - 1)
        left -= 1
        pi = {"grow": 0.8, "shrink": 0.15, "churn": 0.5}[phase]
        x = r.random()
        if use_oracle and x < 0.04:
            h.op("O" + "".join(r.choice("1110") for _ in range(r.randint(1, 4))))
            continue
        if x < 0.003:
            h.op(r.choice(["c", "c", "C"]))
        elif x < 0.10:
            k = r.choice(sorted(h.keys)) if (h.keys and r.random() < 0.6) else r.randint(-1, u)
            h.op("f%d" % k)
            continue
        elif r.random() < pi and len(h.keys) < limit:
            if mode == "rand":
                k = r.randint(0, u - 1)
            elif mode == "asc":
                seqk = (seqk + 1) % u
                k = seqk
            else:
                seqk = (seqk - 1) % u
                k = seqk
            if h.keys and r.random() < 0.08:
                k = r.choice(sorted(h.keys))       # equal rank, different tag -> EXISTS
            h.ins(k, null=r.random() < null_p)
        else:
            if h.keys and r.random() < 0.85:
                ks = sorted(h.keys)
                if mode == "asc":
                    k = ks[0]
                elif mode == "desc":
                    k = ks[-1]
                else:
                    k = r.choice(ks)
            else:
                k = r.randint(-1, u)
            h.rem(k)
        if n % walk_every == 0:
            h.op("w")
    h.op("w")
    return h


def op_histogram(cases):
    d = {}
    for c in cases:
        for t in c.split()[2:]:
            d[t[0]] = d.get(t[0], 0) + 1
    return d


def status_histogram(impl):
    d = {}
    for l in impl:
        for t in l.split(" || ")[0].split():
            f = t.split(":")
            if len(f) >= 2 and f[0] in ("i", "r", "f"):
                k = f[0] + ":" + f[1]
                d[k] = d.get(k, 0) + 1
    return d


def depth_histogram(cases, impl):
    d = {}
    for c, l in zip(cases, impl):
        dm = 0
        for t in l.split(" || ")[0].split():
            if re.match(r"^d\d+$", t):
                dm = max(dm, int(t[1:]))
        k = "page%d:depth%d" % (page_of(c), dm)
        d[k] = d.get(k, 0) + 1
    return d


def max_height_bound(n, page):
    """largest height a tree with n elements can have (height law)"""
    leaf, inode = cfg(page)
    h = 1
    while n >= cap(page, h):
        h += 1
    return h


def ilog2(n):
    return n.bit_length() - 1


def sim_sizes(case):
    """python-side set size after each op (for classification), ignoring allocation failures"""
    keys, mx = set(), 0
    for t in case.split()[2:]:
        if t[0] in "iI":
            keys.add(int(t[1:].split(".")[0]))
        elif t[0] == "r":
            keys.discard(int(t[1:]))
        elif t in ("c", "C"):
            keys.clear()
        mx = max(mx, len(keys))
    return mx


UINT16_N, UINT16_PROBE = 70000, 66000


def uint16_case():
    return "%d - %s f%d" % (HUGE_PAGE, " ".join("i%d.%d" % (k, k) for k in range(1, UINT16_N + 1)), UINT16_PROBE)


def huge_page_check(ctx):
    """fixed 627c158 (was C02-ITER-UINT16): iterator indexes are uint16_t, so the sources must refuse a page size whose
    LEAF_VALS exceeds 65535.  Returns (ok, detail, impl_line): ok when the build is rejected, or when it is accepted
    and the old witness (insert 1..70000, find 66000) nevertheless dereferences to the right element."""
    exe = ctx.path("drv_c01_%d" % HUGE_PAGE)
    try:
        ctx.build_driver("drv_c01", ["btree.c", "allocator.c"], ["-DZIX_BTREE_PAGE_SIZE=%d" % HUGE_PAGE, "-DNDEBUG"], True, (), exe)
    except vlib.BuildError as e:
        msg = str(e)
        if "static assertion failed" in msg or "static_assert" in msg or "_Static_assert" in msg:
            return True, "page size %d (LEAF_VALS 131070) rejected at compile time by a static assertion" % HUGE_PAGE, None
        return True, "page size %d does not build (no static assertion recognised in the diagnostics): %s" % (HUGE_PAGE, msg[-200:]), None
    out = _run_driver(ctx, exe, [uint16_case()])[0]
    toks = [t for t in out.split(" || ")[0].split() if t.startswith("f:")]
    got = toks[0] if toks else out[:60]
    ok = got == "f:SUCCESS:%d" % UINT16_PROBE
    return ok, "page size %d is accepted again; find(%d) after inserting 1..%d -> %s" % (HUGE_PAGE, UINT16_PROBE, UINT16_N, got), out


# ------------------------------------------------------------------ tolerant sorted-list spec in Python (C02 states at the capacity)
def _seq(xs, verbose):
    if verbose:
        return ",".join(str(x) for x in xs) if xs else "-"
    h = 17
    for x in xs:
        h = (h * 1000003 + (x + 1000)) % 2147483647
    return str(h)


def tolerant_spec_ok(case, impl_obs):
    """The sorted-list spec evaluated on the implementation's observable line, TOLERANT about the status of insert only:
    an insert may answer OVERFLOW (set unchanged) once the set size has reached cap(page) (that is C01's known finding,
    not C02's business); an absent key otherwise gives SUCCESS, a present one EXISTS.  Everything else -- find, remove
    (out, next = successor, next equals find(successor)), lower_bound with both comparators, suffix walks, iter_equals
    matrix, walk, destroy counts -- must be exactly what the sorted list says.  Returns True/False."""
    t = case.split()
    page, flags, ops = int(t[0]), t[1], t[2:]
    verbose = "v" in flags
    toks = impl_obs.split()
    pos = [0]

    def nxt():
        if pos[0] >= len(toks):
            raise ValueError("short line")
        pos[0] += 1
        return toks[pos[0] - 1]

    st = []          # sorted list of (key, tag)
    try:
        for op in ops:
            c, arg = op[0], op[1:]
            if c in "iI":
                k, tg = (int(x) for x in arg.split("."))
                f = nxt().split(":")
                present = any(x[0] == k for x in st)
                if f[1] == "OVERFLOW":
                    if len(st) < cap(page):
                        return False
                elif f[1] == "SUCCESS":
                    if present:
                        return False
                    st.append((k, tg))
                    st.sort()
                elif f[1] == "EXISTS":
                    if not present:
                        return False
                else:
                    return False
                if f[0] != "i" or int(f[2]) != len(st):
                    return False
            elif c == "r":
                k = int(arg)
                f, n, q = nxt().split(":"), nxt(), nxt()
                hit = [x for x in st if x[0] == k]
                if hit:
                    st.remove(hit[0])
                    succ = [x for x in st if x[0] > k]
                    if f[:3] != ["r", "SUCCESS", str(hit[0][1])] or int(f[3]) != len(st):
                        return False
                    if n != ("n%d" % succ[0][1] if succ else "nend") or q != "q1":
                        return False
                else:
                    if f[:3] != ["r", "NOT_FOUND", "-"] or int(f[3]) != len(st) or n != "nna" or q != "qna":
                        return False
            elif c == "f":
                k = int(arg)
                f, _k = nxt(), nxt()
                hit = [x for x in st if x[0] == k]
                if f != ("f:SUCCESS:%d" % hit[0][1] if hit else "f:NOT_FOUND:-"):
                    return False
            elif c == "w":
                f, d = nxt(), nxt()
                if f != "w:%d:%d:%s" % (len(st), len(st), _seq([x[1] for x in st], verbose)):
                    return False
                if not (d[0] == "d" and int(d[1:]) <= MAX_HEIGHT):
                    return False
            elif c in "bp":
                k = int(arg)
                f = nxt()
                ge = [x for x in st if (x[0] >= k if c == "b" else (x[0] >> 4) >= (k >> 4))]
                if f != "%s:SUCCESS:%s" % (c, ge[0][1] if ge else "end"):
                    return False
            elif c == "s":
                k = int(arg)
                f = nxt()
                suf = [x[1] for x in st if x[0] >= k]
                if f != "s:%d:%s:%s" % (len(suf), _seq(suf, verbose), "REACHED_END" if suf else "-"):
                    return False
            elif c == "e":
                f = nxt()
                n = len(st)
                npos = n if n <= 8 else 8
                idx = [j if n <= 8 else j * (n - 1) // 7 for j in range(npos)]
                ps = idx + [0 if n > 0 else -1, -1, -1] + ([idx[0], idx[-1]] if n > 0 else [])
                want = "".join("1" if a == b else "0" for a in ps for b in ps)
                if f != "e:" + want:
                    return False
            elif c == "c":
                f = nxt()
                if f != "c:%d:%s:0" % (len(st), _seq(sorted(x[1] for x in st), verbose)):
                    return False
                st = []
            elif c == "C":
                if nxt() != "C:0":
                    return False
                st = []
            elif c == "O":
                nxt()
            else:
                return False
        f = nxt()
        if f != "F:%d:%s:%d" % (len(st), _seq(sorted(x[1] for x in st), verbose), len(st)):
            return False
        rest = toks[pos[0]:]
        return "ud=ok" in rest and "roles=ok" in rest and "stored=0" in rest
    except (ValueError, IndexError):
        return False
